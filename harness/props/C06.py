"""C06 -- OSC encoding round-trips, conforms to OSC 1.0 and is sized correctly."""
import json, os, struct, sys
from fractions import Fraction
import fw
from fw import Corr, Failure, cz, cq, copt

sys.path.insert(0, os.path.join(fw.VERIF, 'harness', 'oracles'))
import osc10

TITLE = 'OSC encoding round-trips, conforms to OSC 1.0 and is sized correctly'
TRANSLATED = ['Gen_size']
MODEL_TARGETS = ['model/Osc.vo', 'model/OscSize.vo', 'model/Osc10.vo', 'model/OscDomain.vo', 'model/OscCheck.vo', 'gen/Gen_size.vo']
ALLOWED_AXIOMS = []
TRUSTED = [
    'hand-written models coq/model/Osc.v (sc3/base/_osclib.py, _oscinterface.py:_build_msg/_build_bundle) and '
    'coq/model/OscSize.v (netaddr.py size predictions, _clump_bundle), tied to the code by byte-exact differential testing',
    'struct.pack/unpack (float32 words are supplied by the harness) and the UTF-8 codec of CPython',
    'timetags of bundles are taken from the real _get_timetag (their computation belongs to C07)',
    'coq/model/Osc10.v and harness/oracles/osc10.py: OSC 1.0 readers transcribed from the specification',
]
ASSUMES = ['strings reach the encoder as valid UTF-8 (lone surrogates are refused by the codec; checked on the implementation only)',
           'float arguments are finite or infinite binary32-representable values (overflowing floats raise OverflowError; checked on the implementation only)',
           'Python recursion limit is not reached (nesting depth < ~300)']

MAX_UDP = 65504
SYNC = 36

# ---------------------------------------------------------------------------
# trees (JSON form, see harness/impl/c06_osc.py)

def S(s):
    return {'s': s}


def I(n):
    return {'i': str(n)}


def Fl(x):
    return {'f': float(x).hex()}


def Y(b):
    b = bytes(b)
    if len(b) >= 24 and not any(b):
        return {'z': len(b)}
    return {'y': b.hex()}


def make_mv(d):
    m = memoryview(bytes.fromhex(d['hex']))
    if d.get('shape'):
        m = m.cast(d['fmt'], shape=d['shape'])
    elif d['fmt'] != 'B':
        m = m.cast(d['fmt'])
    if d.get('step', 1) != 1:
        m = m[::d['step']]
    return m


def mv_bytes(d):
    """the bytes a memoryview argument stands for (what a blob must carry)"""
    return make_mv(d).tobytes()


def MV(fmt, items, step=1, shape=None, fill=None):
    """a memoryview over `items` items of struct format `fmt` (array('i'), array('d'), cast views), optionally
    multi-dimensional or strided (non-contiguous)"""
    size = struct.calcsize(fmt)
    raw = bytes(((j * 37 + 11) % 251 if fill is None else fill) for j in range(items * size))
    return {'mv': {'fmt': fmt, 'hex': raw.hex(), 'step': step, 'shape': shape}}


def has_wide_mv(t):
    """a memoryview whose len() is not its size in bytes somewhere in the tree"""
    if isinstance(t, list):
        return any(has_wide_mv(x) for x in t)
    if isinstance(t, dict):
        if 'mv' in t:
            m = make_mv(t['mv'])
            return len(m) != m.nbytes
        if 't' in t:
            return any(has_wide_mv(x) for x in t['t'])
    return False


def is_numhead(t):
    return t is None or isinstance(t, bool) or (isinstance(t, dict) and ('i' in t or 'f' in t))


def numval(t):
    if t is None:
        return None
    if isinstance(t, bool):
        return Fraction(int(t))
    if 'i' in t:
        return Fraction(int(t['i']))
    return Fraction(float.fromhex(t['f']))


def pyval(t):
    if t is None or isinstance(t, bool):
        return t
    if isinstance(t, list):
        return [pyval(x) for x in t]
    if 'i' in t:
        return int(t['i'])
    if 'f' in t:
        return float.fromhex(t['f'])
    if 's' in t:
        return t['s']
    if 'y' in t:
        return bytes.fromhex(t['y'])
    if 'z' in t:
        return bytes(t['z'])
    if 't' in t:
        return tuple(pyval(x) for x in t['t'])
    if 'ya' in t or 'ym' in t:
        return bytes.fromhex(t.get('ya') or t.get('ym') or '')
    if 'mv' in t:
        return mv_bytes(t['mv'])
    return ('other', t['o'])


def show(t):
    """short Python-like text of a tree, for messages"""
    def r(t):
        if isinstance(t, list):
            return '[' + ', '.join(r(x) for x in t) + ']'
        if isinstance(t, dict) and 'z' in t:
            return 'bytes(%d)' % t['z']
        if isinstance(t, dict) and 't' in t:
            return '(' + ', '.join(r(x) for x in t['t']) + (',)' if len(t['t']) == 1 else ')')
        if isinstance(t, dict) and 'mv' in t:
            d = t['mv']
            m = make_mv(d)
            return "memoryview(%d bytes as '%s'%s%s: len %d)" % (len(d['hex']) // 2, d['fmt'], ', shape %s' % d['shape'] if d.get('shape') else '',
                                                               '[::%d]' % d['step'] if d.get('step', 1) != 1 else '', len(m))
        if isinstance(t, dict) and ('ya' in t or 'ym' in t):
            return ('bytearray(%r)' if 'ya' in t else 'memoryview(%r)') % bytes.fromhex(t.get('ya') or t.get('ym') or '')
        if isinstance(t, dict) and 'o' in t:
            return '<%s>' % t['o']
        return repr(pyval(t))
    s = r(t)
    return s if len(s) < 400 else s[:400] + '...'


# ---------------------------------------------------------------------------
# Coq printers

def cb(b):
    """bytes -> Gallina term of type bytes; long runs are written with rp"""
    b = bytes(b)
    if not b:
        return '[]'
    segs, lit, i = [], [], 0
    while i < len(b):
        j = i
        while j < len(b) and b[j] == b[i]:
            j += 1
        if j - i >= 16:
            if lit:
                segs.append('[' + ';'.join(map(str, lit)) + ']')
                lit = []
            segs.append('(rp %d %d)' % (b[i], j - i))
        else:
            lit.extend(b[i:j])
        i = j
    if lit:
        segs.append('[' + ';'.join(map(str, lit)) + ']')
    return segs[0] if len(segs) == 1 else '(' + ' ++ '.join(segs) + ')'


def is_tuple(t):
    return isinstance(t, dict) and 't' in t


def seq_items(t, pos):
    """the items of a node that the code treats as a list-shaped value at this position: every list; a tuple only
    where it is indexed like a list (bundle elements), not where it is an opaque message argument"""
    if isinstance(t, list):
        return t
    if is_tuple(t) and pos == 'elem':
        return t['t']
    return None


def child_pos(items, k, x, pos):
    bundle_shaped = bool(items) and is_numhead(items[0])
    if bundle_shaped and k >= 1:
        if pos == 'arg' and k == 1 and is_tuple(x):
            return 'arg'            # _build_msg wants a list as second item of a bundle-shaped argument
        return 'elem'
    return 'arg'


def coq_arg(t, tags, pos='elem'):
    items = seq_items(t, pos)
    if items is not None:
        out = []
        for k, x in enumerate(items):
            if k == 0 and is_numhead(x):
                tag = int(next(tags))
                lat = numval(x)
                out.append('(ATime %s %s)' % ('None' if lat is None else '(Some %s)' % cq(lat), cz(tag)))
            else:
                out.append(coq_arg(x, tags, child_pos(items, k, x, pos)))
        return '(AList [' + '; '.join(out) + '])'
    if t is None:
        return 'ANone'
    if isinstance(t, bool):
        return '(ABool %s)' % ('true' if t else 'false')
    if 'i' in t:
        return '(AInt %s)' % cz(int(t['i']))
    if 'f' in t:
        return '(AFloat %s)' % cb(struct.pack('>f', float.fromhex(t['f'])))
    if 's' in t:
        return '(AStr %s)' % cb(t['s'].encode('utf-8'))
    if 'y' in t:
        return '(ABytes %s)' % cb(bytes.fromhex(t['y']))
    if 'ya' in t or 'ym' in t:      # bytearray / memoryview over bytes: blobs like bytes
        return '(ABytes %s)' % cb(bytes.fromhex(t.get('ya') or t.get('ym') or ''))
    if 'z' in t:
        return '(ABytes (rp 0 %d))' % t['z']
    if 'mv' in t:                   # a blob: the bytes the view stands for, whatever its item width, shape or stride
        return '(ABytes %s)' % cb(mv_bytes(t['mv']))
    if t.get('o') == 'bytearray0':
        return '(ABytes [])'
    if is_tuple(t):
        # an opaque tuple argument: 4 items would be taken for a MIDI message (not in the model's language:
        # such cases go to the implementation-only stream), any other length is an unsupported object
        assert len(t['t']) != 4, 'a 4-tuple argument is not expressible in the model'
        return 'AOther'
    return 'AOther'


def coq_ev(p):
    k = p[0]
    if k == 'i':
        return '(EI %s)' % cz(int(p[1]))
    if k == 'f':
        return '(EFl %s %s)' % (cb(bytes.fromhex(p[1])), cb(bytes.fromhex(p[2])))
    if k == 'nan':
        return 'ENan'
    if k == 's':
        return '(ES %s)' % cb(bytes.fromhex(p[1]))
    if k == 'b':
        return '(EB %s)' % cb(bytes.fromhex(p[1]))
    if k == 'm':
        return '(EM %s)' % cb(bytes.fromhex(p[1]))
    if k == 'T':
        return 'ETrue'
    if k == 'F':
        return 'EFalse'
    if k == 'a':
        return '(EA [' + '; '.join(coq_ev(x) for x in p[1]) + '])'
    raise ValueError(p)


def coq_parse_expected(pr):
    """impl parse result -> (code, [(time, (addr, [ev]))])"""
    if pr[0] == 'ok':
        ms = []
        for tm, (addr, params) in pr[1]:
            ms.append('(%s, (%s, [%s]))' % ('None' if tm is None else '(Some %s)' % cz(int(tm)),
                                            cb(bytes.fromhex(addr)), '; '.join(coq_ev(p) for p in params)))
        return '((0, [' + '; '.join(ms) + ']) : Z * list (option Z * (bytes * list ev)))'
    return '((%d, []) : Z * list (option Z * (bytes * list ev)))' % pr[1]


HEADER = ('From Coq Require Import ZArith QArith List. Import ListNotations.\n'
          'Require Import SC3.lib.PyNum SC3.model.Osc SC3.model.OscSize SC3.model.OscCheck.\n'
          'Open Scope Z_scope.\n')

# ---------------------------------------------------------------------------
# generators

ADDRS = ['/x', '/ab', '/abc', '/abcd', '/s_new', '/n_set', '/d_recv', '/b_allocRead', '/sync', '/abcdefg', '/abcdefgh']
ODD_ADDRS = ['/é', 'foo', '/a€b']
FLOATS = [0.0, -0.0, 1.0, 1.5, -2.25, 440.0, 0.1, 1e-3, 3.0e38, 1e-45, float('inf'), -7.0, 0.25, 2.0 ** -20,
          float('-inf'), 2.0 ** -126, 2.0 ** -127, 2.0 ** -149, 2.0 ** -150, 5e-324, -5e-324, 1e-46,
          (2.0 - 2.0 ** -23) * 2.0 ** 127, -(2.0 - 2.0 ** -23) * 2.0 ** 127]      # binary32 edges: min normal, denormals, max
INTS = [0, 1, -1, 2, 57110, 1000, 2 ** 31 - 1, -2 ** 31, 255, 256, 65535, -65536]
UNI = ['é', '€', '\U0001d11e', 'a', 'ñ', '中', 'z', '\U0001f3b5']
LATS = [None, I(0), Fl(0.0), Fl(0.5), Fl(0.25), I(1), Fl(-1.0), Fl(1.5), I(2), Fl(0.2), False, True, Fl(-0.0)]


def g_str(rng):
    k = rng.random()
    if k < 0.5:
        n = rng.choice([0, 1, 2, 3, 4, 5, 7, 8, 9, 11, 12])
        return ''.join(rng.choice('abcxyz_/0123,#') for _ in range(n))
    return ''.join(rng.choice(UNI) for _ in range(rng.randint(1, 6)))


def g_bytes(rng, n=None):
    n = n or rng.randint(1, 17)
    return bytes(rng.choice([0, 0, 1, 47, 35, 44, 255, rng.randrange(256)]) for _ in range(n))


def g_arg(rng, depth):
    k = rng.random()
    if k < 0.06:
        return None
    if k < 0.12:
        return rng.random() < 0.5
    if k < 0.30:
        return I(rng.choice(INTS) if rng.random() < 0.6 else rng.randint(-2 ** 31, 2 ** 31 - 1))
    if k < 0.42:
        return Fl(rng.choice(FLOATS))
    if k < 0.60:
        return S(g_str(rng))
    if k < 0.76:
        if rng.random() < 0.2:      # the blob given as a memoryview: items of 1, 2, 4 or 8 bytes, 2-d, strided
            fmt = rng.choice(['B', 'b', 'H', 'i', 'I', 'f', 'd', 'q'])
            n = rng.randint(1, 6)
            r = rng.random()
            if r < 0.2 and n % 2 == 0:
                return MV(fmt, n, shape=[2, n // 2])
            if r < 0.4:
                return MV(fmt, n, step=rng.choice([2, 3]))
            return MV(fmt, n)
        return Y(g_bytes(rng))
    if k < 0.80:
        return []
    if depth <= 0:
        return I(rng.randint(-9, 9))
    if k < 0.92:
        return g_msg(rng, depth - 1)
    return g_bundle(rng, depth - 1, as_arg=True)


def g_args(rng, depth, n=None, arrays=True):
    n = rng.choice([0, 1, 1, 2, 2, 3, 3, 4, 5, 7]) if n is None else n
    out = []
    for _ in range(n):
        if arrays and rng.random() < 0.08:
            out.append(S('['))
            out.extend(g_args(rng, depth, rng.randint(0, 3), arrays=rng.random() < 0.5))
            out.append(S(']'))
        else:
            out.append(g_arg(rng, depth))
    return out


def g_msg(rng, depth, addrs=None):
    addr = rng.choice(addrs or (ADDRS if rng.random() < 0.93 else ODD_ADDRS))
    return [S(addr)] + g_args(rng, depth)


def lat_ge(rng, outer):
    """a latency acceptable to _check_subtime under [outer]"""
    for _ in range(20):
        l = rng.choice(LATS)
        if outer is None or (l is not None and numval(l) >= numval(outer)):
            return l
    return outer


def g_bundle(rng, depth, outer='top', as_arg=False):
    lat = rng.choice(LATS) if outer == 'top' else lat_ge(rng, outer)
    n = rng.choice([1, 1, 2, 3, 4]) if as_arg else rng.choice([0, 1, 2, 2, 3, 5])
    elems = []
    for _ in range(n):
        if depth > 0 and rng.random() < 0.25 and not (as_arg and not elems):
            elems.append(g_bundle(rng, depth - 1, outer=lat))
        else:
            elems.append(g_msg(rng, depth - 1))
    return [lat] + elems


def paths(t, pre=()):
    """all positions of a tree"""
    yield pre
    if isinstance(t, list):
        for k, x in enumerate(t):
            yield from paths(x, pre + (k,))


def get_at(t, p):
    for k in p:
        t = t[k]
    return t


def set_at(t, p, v):
    if not p:
        return v
    t = list(t)
    t[p[0]] = set_at(t[p[0]], p[1:], v)
    return t


def malform(rng, t):
    """one damaging edit somewhere in a valid tree; returns (tree, kind)"""
    ps = [p for p in paths(t) if p and not (isinstance(get_at(t, p[:-1]), list) and p[-1] == 0)]
    msgs = [p for p in paths(t) if isinstance(get_at(t, p), list) and get_at(t, p) and isinstance(get_at(t, p)[0], dict) and 's' in get_at(t, p)[0]]
    kind = rng.choice(['bigint', 'bigint', 'emptyblob', 'unsupported', 'nul', 'nul', 'open', 'close', 'badlist',
                       'emptyaddr', 'nuladdr', 'subtime'])
    leaf = {'bigint': lambda: I(rng.choice([2 ** 31, -2 ** 31 - 1, 2 ** 40, -2 ** 63, 2 ** 32])),
            'emptyblob': lambda: Y(b''),
            'unsupported': lambda: {'o': rng.choice(['dict', 'tuple3', 'complex', 'set', 'object'])},
            'nul': lambda: S(rng.choice(['a\x00b', '\x00', 'abc\x00', 'a\x00bcdefg', '\x00abcd', 'ab\x00é'])),
            'open': lambda: S('['), 'close': lambda: S(']'),
            'badlist': lambda: rng.choice([[I(3)], [Fl(0.5), I(3)], [Y(b'x')], [[S('/x')]], [None], [Fl(0.5)]])}
    if kind in leaf and msgs:
        m = rng.choice(msgs)
        mv = list(get_at(t, m))
        mv.insert(rng.randint(1, len(mv)), leaf[kind]())
        return set_at(t, m, mv), kind
    if kind == 'emptyaddr' and msgs:
        m = rng.choice(msgs)
        return set_at(t, m + (0,), S('')), kind
    if kind == 'nuladdr' and msgs:
        m = rng.choice(msgs)
        return set_at(t, m + (0,), S(rng.choice(['/a\x00b', '/ab\x00', '/\x00']))), kind
    if kind == 'subtime':
        bs = [p for p in paths(t) if p and isinstance(get_at(t, p), list) and get_at(t, p) and is_numhead(get_at(t, p)[0])
              and isinstance(get_at(t, p[:-1]), list) and get_at(t, p[:-1]) and is_numhead(get_at(t, p[:-1])[0])]
        if bs:
            b = rng.choice(bs)
            outer = get_at(t, b[:-1])[0]
            if outer is not None:
                return set_at(t, b + (0,), rng.choice([None, Fl(float(numval(outer)) - 0.125)])), kind
    if msgs:
        m = rng.choice(msgs)
        mv = list(get_at(t, m))
        mv.insert(rng.randint(1, len(mv)), I(2 ** 31))
        return set_at(t, m, mv), 'bigint'
    return t, 'none'


BASE_OFFSET = 3913056000 << 32        # the offset harness/impl/c06_osc.py gives SystemClock for the base-class interface


def expected_tags(itf, send_time, t, out, ctx='main', pos='elem'):
    """the timetag of every list head that is a number or None (DFS preorder, same traversal as coq_arg), transcribed
    from the documentation of send_bundle: None or negative -> immediately (1; now in NRT), otherwise
    now + latency in 32.32 fixed point.  The float operations are the ones the library performs,
    so the comparison is exact."""
    items = seq_items(t, pos)
    if items is not None:
        if items and is_numhead(items[0]):
            v = pyval(items[0])
            if itf == 'base':
                out.append(1 if v is None or v < 0.0 else int((v + send_time) * 4294967296.0) + BASE_OFFSET)
            else:       # NRT: None/negative = now; absolute time outside a routine, from the routine's logical time inside one
                lat = 0.0 if v is None or v < 0.0 else v
                out.append(int((lat + send_time if ctx == 'routine' else lat) * 4294967296.0))
        for k, x in enumerate(items):
            expected_tags(itf, send_time, x, out, ctx, child_pos(items, k, x, pos))


def Tup(*items):
    return {'t': list(items)}


def tuplify(rng, t, p, pos='elem', top=True):
    """the sequence-type dimension: any list of a tree may be written as a tuple.  (A 4-tuple in argument position
    would be taken for a MIDI message, which the model's language does not have: those stay lists here and are
    exercised by the implementation-only stream.)"""
    items = seq_items(t, pos)
    if items is None or not isinstance(t, list):
        return t
    new = [tuplify(rng, x, p, child_pos(items, k, x, pos), False) for k, x in enumerate(items)]
    if pos == 'arg' and len(new) > 1 and is_numhead(new[0]) and is_tuple(new[1]):
        new[1] = new[1]['t']        # (the builder wants a list there, the size functions do not care: not expressible)
    if not top and rng.random() < p and not (pos == 'arg' and len(new) == 4):
        return {'t': new}
    return new


def bundle_heads_encoded(t):
    """True (conservatively) when the tree is well shaped enough that every numeric list head is a bundle time that gets encoded"""
    return documented(pyval(t), 'msg' if (t and isinstance(t[0], dict) and 's' in t[0]) else 'bundle') is True


def build_cases(ctx):
    rng = ctx.rng
    cases = []

    def add(kind, v, cls, **kw):
        c = {'kind': kind, 'v': v, 'send_time': rng.choice([0.0, 0.0, 1.5, 0.25]), 'itf': rng.choice(['nrt', 'base']), 'cls': cls,
             'ctx': rng.choice(['main', 'main', 'routine'])}
        c.update(kw)
        cases.append(c)
    # systematic: every blob length 1..17 (top level and nested), every string length 0..9 ascii and non-ascii
    for n in range(1, 18):
        add('msg', [S('/b'), Y(g_bytes(rng, n))], 'blob_len')
        add('msg', [S('/b'), I(n), [S('/c'), Y(g_bytes(rng, n)), Fl(1.5)]], 'blob_len_nested')
    for n in range(0, 10):
        add('msg', [S('/s'), S('a' * n)], 'str_len')
        add('msg', [S('/s'), S(''.join(UNI[(n + j) % len(UNI)] for j in range(n)))], 'str_len_utf8')
        add('msg', [S('/' + 'a' * n), I(n)], 'addr_len')
        add('msg', [S('/t')] + [I(j) for j in range(n)], 'ntags')
    # every falsy value, explicitly, in every position (type-exact: the comparison is on the bytes)
    falsy = [None, False, I(0), Fl(0.0), Fl(-0.0), S(''), [], Y(b''), {'o': 'tuple0'}, {'o': 'emptydict'}, {'o': 'bytearray0'}, True]
    for v in falsy:
        add('msg', [S('/x'), v], 'falsy_only')
        add('msg', [S('/x'), v, I(7)], 'falsy_first')
        add('msg', [S('/x'), I(7), S('a'), v], 'falsy_last')
        add('msg', [S('/x'), S('['), v, S(']'), I(1)], 'falsy_in_array')
        add('msg', [S('/x'), S('['), S('['), v, v, S(']'), S(']')], 'falsy_in_nested_array')
        add('msg', [S('/d_recv'), Y(b'ab'), [S('/y'), v]], 'falsy_in_completion')
        add('msg', [S('/x'), [S('/y'), [S('/z'), v, I(1)]]], 'falsy_in_nested_completion')
        add('msg', [S('/x'), [None, [S('/y'), v]]], 'falsy_in_bundle_blob')
        add('bundle', [Fl(0.2), [S('/x'), v]], 'falsy_in_bundle')
        add('bundle', [I(0), [S('/a'), I(1)], [Fl(0.0), [S('/x'), v, I(1)], [S('/b'), v]]], 'falsy_in_nested_bundle')
    # ... and the range boundary of the 64-bit time tag reached through the latency (base interface: now + latency in
    # seconds since 1900 reaches 2^32 at 381911296 s with the offset the runner installs; NRT: latency 2^32 s)
    times = [None, False, True, I(0), Fl(0.0), Fl(-0.0), I(1), Fl(-1.0), Fl(0.5), I(-1),
             Fl(381911293.5), Fl(381911294.5), Fl(381911295.75), Fl(381911296.0), I(381911296), Fl(381911297.0), Fl(4294967295.5), Fl(4294967296.0),
             I(2 ** 32), Fl(1e10), I(10 ** 10), I(2 ** 70), Fl(-1e10)]
    for t in times:
        for itf in ('nrt', 'base'):
            for st in (0.0, 1.5):
                for cx in ('main', 'routine'):
                    add('bundle', [t, [S('/a'), I(1)], [t, [S('/b')]]], 'time_top')
                    cases[-1].update({'itf': itf, 'send_time': st, 'ctx': cx})
        add('msg', [S('/x'), [t, [S('/y')]], I(2)], 'time_in_bundle_blob')
        add('bundle', [t], 'time_empty_bundle')
        for t2 in times[:10] + [Fl(381911296.0), Fl(1e10)]:
            if times.index(t) < 10 or t2 in (Fl(381911296.0), Fl(1e10)):
                add('bundle', [t, [S('/a')], [t2, [S('/b'), I(0)]]], 'time_nested')
    # lengths around 127/128/255/256 (strings, blobs, addresses, number of arguments)
    for n in (127, 128, 129, 255, 256, 257):
        add('msg', [S('/s'), S('a' * n)], 'len_edge_str')
        add('msg', [S('/b'), Y(g_bytes(rng, n))], 'len_edge_blob')
        add('msg', [S('/' + 'a' * (n - 1)), I(1)], 'len_edge_addr')
        add('msg', [S('/t')] + [I(j % 7) for j in range(n)], 'len_edge_ntags')
    # flattening + time sort of OscPacket: a later nested bundle before an earlier message, ties keep their order
    add('bundle', [Fl(0.0), [Fl(0.5), [S('/late1')], [S('/late2')]], [S('/now1')], [Fl(0.5), [S('/late3')]], [S('/now2')], [Fl(0.25), [S('/mid')]]], 'packet_order')
    cases[-1]['itf'] = 'base'
    # the uint64 edges of the timetag (OscBundleBuilder with a given timetag)
    for tt in (0, 1, 2, 2 ** 32 - 1, 2 ** 32, 2 ** 63, 2 ** 64 - 1, 2 ** 64, -1):
        cases.append({'kind': 'rawbundle', 'tt': str(tt), 'v': [None, [S('/a'), I(1)], [S('/b')]], 'send_time': 0.0, 'itf': 'base', 'cls': 'timetag_edge'})
    # the sequence type of list-shaped values: tuples where the code only indexes (bundle elements: accepted like
    # lists) and where it tests isinstance(list) (message arguments: unsupported objects), other blob containers
    for v in ([S('/x'), Tup(S('/y'), I(1))], [S('/x'), Tup(S('/y'))], [S('/x'), Tup(S('/a'), I(1), S('b'), Fl(2.0), I(3))], [S('/x'), Tup()],
              [S('/x'), Tup(Fl(0.5), [S('/y')])], [S('/x'), Tup(None, [S('/y')])], [S('/d_recv'), Y(b'ab'), Tup(S('/n_set'), I(1000), S('freq'))],
              [S('/x'), [S('/y'), Tup(S('/z'), I(1))]], [S('/x'), {'ya': '616263'}, {'ym': '6162636465'}, I(1)],
              [S('/x'), {'ym': '61'}], [S('/x'), [S('/y'), {'ya': '0001'}]]):
        add('msg', v, 'seqtype_arg')
    for v in ([Fl(0.2), Tup(S('/a'), I(1)), Tup(Fl(0.5), [S('/b')]), Tup(Fl(0.5), Tup(S('/c')))], [None, Tup(S('/a'), Tup(S('/c'), I(2)))],
              [Fl(0.2), Tup(S('/a'), [S('/c'), I(2)], I(3), S('x'))], [I(0), Tup(S('/a'), I(1), I(2), I(3))], [Fl(0.2), Tup()], [Fl(0.2), Tup(I(3))],
              [Fl(0.5), Tup(Fl(0.25), [S('/late')])], [None, Tup(None, Tup(None, Tup(S('/deep'), Y(b'abc'), S('é'))))]):
        add('bundle', v, 'seqtype_elem')
        cases[-1]['clump'] = [40, 64, 8192]
    # blobs given as memoryviews whose len() is not their size in bytes: array('i'), array('d'), cast views,
    # multi-dimensional and non-contiguous (strided) views, empty views
    mvs = [MV('i', 3), MV('d', 2), MV('H', 5), MV('q', 1), MV('f', 4), MV('B', 5), MV('i', 4, shape=[2, 2]), MV('d', 6, shape=[3, 2]),
           MV('i', 6, step=2), MV('B', 7, step=2), MV('H', 9, step=3), MV('i', 0), MV('d', 4, step=5)]
    for m in mvs:
        add('msg', [S('/b_setn'), I(0), m, I(7)], 'memoryview_arg')
        add('msg', [S('/d_recv'), m, [S('/y'), m, S('é')]], 'memoryview_in_completion')
        add('bundle', [Fl(0.2), [S('/a'), m], Tup(S('/b'), I(1), m), [Fl(0.5), [S('/c'), m, m]]], 'memoryview_in_bundle')
        cases[-1]['clump'] = [40, 64, 100, 8192]
    add('msg', [S('/x')], 'noargs')
    add('msg', [S('/x'), None, True, False, []], 'coercions')
    add('msg', [S('/x'), S('['), I(1), S('['), Fl(2.0), S(']'), S('a'), S(']'), I(3)], 'arrays')
    add('msg', [S('/x'), [S('/y'), [S('/z'), [S('/w'), [S('/v'), I(1)]]]]], 'depth4')
    add('msg', [S('/x'), [Fl(0.5), [S('/y'), I(1)], [Fl(0.75), [S('/z')]]]], 'bundle_blob')
    add('msg', [S('/x'), [None, [S('/y')]]], 'bundle_blob')
    add('bundle', [None], 'empty_bundle')
    add('bundle', [Fl(0.5), [S('/a'), I(1)], [Fl(0.5), [S('/b')]], [I(1), [S('/c'), S('é')], [Fl(1.5), [S('/d')]]]], 'nested_bundle')
    add('bundle', [None, [None, [S('/a')]], [Fl(0.1), [S('/b')]]], 'nested_bundle')
    add('bundle', [Fl(0.2), [S('foo'), I(1)], [S('/ok'), I(2)]], 'noslash_in_bundle')
    nm = ctx.n(200, 4000)
    for _ in range(nm):
        add('msg', g_msg(rng, rng.choice([0, 1, 2, 3, 4])), 'random_msg')
        if rng.random() < 0.15:
            cases[-1]['v'] = tuplify(rng, cases[-1]['v'], 0.3)
            cases[-1]['cls'] = 'random_msg_tuples'
    for _ in range(ctx.n(110, 2000)):
        add('bundle', g_bundle(rng, rng.choice([1, 2, 3, 4])), 'random_bundle')
        if rng.random() < 0.25:
            cases[-1]['v'] = tuplify(rng, cases[-1]['v'], 0.4)
            cases[-1]['cls'] = 'random_bundle_tuples'
            cases[-1]['clump'] = [64, 8192]
    for _ in range(ctx.n(120, 2000)):
        base = g_msg(rng, rng.choice([0, 1, 2])) if rng.random() < 0.6 else g_bundle(rng, rng.choice([1, 2, 3]))
        t, kind = malform(rng, base)
        add('msg' if (isinstance(t[0], dict) and 's' in t[0]) else 'bundle', t, 'malformed:' + kind)
    for n in ([65496, 65503] if ctx.quick else list(range(65492, 65509, 3))):
        add('msg', [S('/s'), S('a' * n), I(1)], 'large_str', parse=False)
        cases[-1]['itf'] = 'nrt'
    # large blobs around the clump size and the UDP limit
    for n in ([8191, 65476, 65485] if ctx.quick else [8188, 8189, 8191, 8192, 65476, 65480, 65483, 65484, 65485, 65504]):
        add('msg', [S('/d_recv'), Y(bytes(n)), None], 'large_blob', parse=False)
        cases[-1]['itf'] = 'nrt'
    return cases


def clump_cases(ctx):
    """bundles whose predicted size straddles the clump sizes"""
    rng = ctx.rng
    cases = []
    # small sizes: exact boundary behaviour of the accumulation loop
    for _ in range(ctx.n(40, 400)):
        els = [g_msg(rng, rng.choice([0, 0, 1]), addrs=ADDRS) for _ in range(rng.randint(1, 9))]
        if rng.random() < 0.3:
            els.insert(rng.randrange(len(els) + 1), [Fl(0.5), [S('/n'), I(1)]])
        sizes = sorted({rng.choice([17, 24, 28, 32, 36, 40, 44, 48, 52, 56, 60, 64, 72, 80, 100, 128, 200]) for _ in range(4)})
        cases.append({'kind': 'bundle', 'v': [rng.choice([None, Fl(0.2)])] + els, 'send_time': 0.0, 'itf': 'nrt',
                      'clump': sizes, 'cls': 'clump_small', 'parse': False})
    # exact boundaries of the accumulation test (>= vs >): sizes equal to the running predicted totals and +-4
    for _ in range(ctx.n(6, 60)):
        els = [[S(rng.choice(['/x', '/abc', '/abcd'])), I(j)] + ([Y(g_bytes(rng))] if rng.random() < 0.5 else []) + ([S('éa')] if rng.random() < 0.3 else [])
               for j in range(rng.randint(2, 7))]
        acc, sizes = 16, set()
        for e in els:
            acc += 4 + enc_size(e)
            sizes.update([acc - 4, acc, acc + 4, 16 + 4 + enc_size(e), 16 + 4 + enc_size(e) + 4])
        cases.append({'kind': 'bundle', 'v': [rng.choice([None, I(0), Fl(0.2)])] + els, 'send_time': 0.0, 'itf': 'nrt',
                      'clump': sorted(sizes), 'cls': 'clump_exact', 'parse': False})
    # first element alone exceeds the clump size
    cases.append({'kind': 'bundle', 'v': [Fl(0.2), [S('/big'), Y(bytes(9000))], [S('/x')]], 'send_time': 0.0, 'itf': 'nrt',
                  'clump': [8192], 'cls': 'clump_first_big', 'parse': False})
    # element lists whose total straddles 65504 (sync path: size = 65504 - 36), element sizes ~ 100..1200 bytes
    for k in range(ctx.n(5, 30)):
        per = rng.choice([100, 240, 576, 600, 1188])
        n = (2 * MAX_UDP) // (per + 16) + rng.randint(-3, 3)
        els = []
        for j in range(n):
            m = [S('/m%03d' % (j % 1000)), Y(bytes(per + rng.choice([0, 0, 1, 2, 3]))), I(j)]
            if rng.random() < 0.1:
                m.append(S('éééé'))
            els.append(m)
        cases.append({'kind': 'bundle', 'v': [Fl(0.2)] + els, 'send_time': 0.0, 'itf': 'nrt',
                      'clump': [MAX_UDP - SYNC, 8192], 'cls': 'clump_udp_limit', 'parse': False, 'nobuild': True})
    return cases


def mutate_dgram(rng, d):
    d = bytearray(d)
    k = rng.random()
    if not d:
        return bytes(d)
    if k < 0.3:
        i = rng.randrange(len(d))
        d[i] = rng.choice([0, 0, 1, 4, 44, 47, 35, 91, 93, 105, 102, 115, 98, 100, 116, 114, 109, 84, 70, 78, 120, 200])
    elif k < 0.5:
        d = d[:rng.randrange(len(d))]
    elif k < 0.6:
        d = d + bytes(rng.choice([1, 2, 3, 4, 8]))
    elif k < 0.8 and len(d) >= 8:
        i = 4 * rng.randrange(len(d) // 4)
        d[i:i + 4] = struct.pack('>i', rng.choice([0, 4, 8, 12, 16, 3, 5, 100, 2 ** 31 - 1, len(d)]))
    else:
        i = rng.randrange(len(d))
        j = rng.randrange(len(d))
        d[i], d[j] = d[j], d[i]
    return bytes(d)


def _hb(tt, *elems):
    return b'#bundle\0' + struct.pack('>Q', tt) + b''.join(struct.pack('>i', len(e)) + e for e in elems)


HAND_DGRAMS = [
    _hb(9, _hb(5, b'/a\0\0,\0\0\0'), b'/b\0\0,\0\0\0', _hb(9, b'/c\0\0,\0\0\0'), _hb(1, b'/d\0\0,\0\0\0', b'/e\0\0,\0\0\0'),
        _hb(0, b'/f\0\0,\0\0\0'), b'/g\0\0,\0\0\0', _hb(2 ** 64 - 1, b'/h\0\0,\0\0\0')),
    b'/x\0\0,[i[ii]i]\0\0\0' + struct.pack('>iiii', 1, 2, 3, 4),
    b'/x\0\0,\0\0\0', b'/x\0\0', b'/x\0\0,TF\0', b'/x\0\0,iT[F]\0\0' + struct.pack('>i', 7),
    b'/x\0\0,d\0\0' + struct.pack('>d', 1.5), b'/x\0\0,tr\0' + struct.pack('>Q', 5) + struct.pack('>I', 0xff000001),
    b'/x\0\0,m\0\0' + bytes([1, 144, 60, 100]), b'/x\0\0,N?i\0\0\0\0' + struct.pack('>i', -1),
    b'/x\0\0,[[i]i]\0' + struct.pack('>ii', 1, 2), b'/x\0\0,[i\0' + struct.pack('>i', 1), b'/x\0\0,]\0\0',
    b'/x\0\0,f\0\0\x3f\xc0', b'/x\0\0,f\0\0', b'/x\0\0,d\0\0\0\0\0\0', b'/x\0\0ii\0\0' + struct.pack('>ii', 1, 2),
    b'/x\0\0,s\0\0a\0bc', b'/x\0\0,b\0\0' + struct.pack('>i', 3) + b'abc\0', b'/x\0\0,b\0\0' + struct.pack('>i', 9) + b'abc\0',
    b'/x\0\0,b\0\0' + struct.pack('>i', -4) + b'abc\0', b'#bundle\0' + struct.pack('>Q', 1),
    b'#bundle\0' + struct.pack('>Q', 9) + struct.pack('>i', 8) + b'/x\0\0,\0\0\0' + struct.pack('>i', 0),
    b'#bundle\0' + struct.pack('>Q', 9) + struct.pack('>i', 100) + b'/x\0\0,\0\0\0',
    b'#bundle\0' + struct.pack('>Q', 9) + struct.pack('>i', 8) + b'foo\0,\0\0\0' + struct.pack('>i', 8) + b'/y\0\0,\0\0\0',
    b'#bundle\0\0\0', b'#bundle\0', b'', b'x', b'/', b'/abc', b'/abc\0\0\0\0',
    b'#bundle\0' + struct.pack('>Q', 7) + struct.pack('>i', 16) + b'#bundle\0' + struct.pack('>Q', 3)
    + struct.pack('>i', 8) + b'/a\0\0,\0\0\0' + struct.pack('>i', 8) + b'/b\0\0,\0\0\0',
]


# ---------------------------------------------------------------------------
# use sites of the size functions (SynthDef.send/add/_do_send, send_clumped_bundles, sync)

def enc_size(t):
    """encoded size of a message/bundle tree (OSC 1.0 sizes; only used to aim at the limit)"""
    if t and isinstance(t[0], dict) and 's' in t[0]:
        n = (len(t[0]['s'].encode()) // 4 + 1) * 4 + ((len(t) - 1 + 1) // 4 + 1) * 4
        for a in t[1:]:
            if isinstance(a, dict) and 's' in a:
                n += 0 if a['s'] in '[]' and a['s'] else (len(a['s'].encode()) // 4 + 1) * 4
            elif isinstance(a, dict) and ('y' in a or 'z' in a or 'mv' in a):
                k = a['z'] if 'z' in a else (len(mv_bytes(a['mv'])) if 'mv' in a else len(a['y']) // 2)
                n += 4 + (k + 3) // 4 * 4
            elif isinstance(a, list) and a:
                n += 4 + enc_size(a)
            else:
                n += 4
        return n
    return 16 + sum(4 + enc_size(e) for e in t[1:])


COMPLETIONS = [
    None, [], I(0), False, S(''), Fl(-0.0),
    [S('/s_new'), S('c06def'), I(1001), I(0), I(1)],
    [S('/b_setn'), I(0), I(0), I(7), Y(bytes(range(1, 8)))],
    [S('/n_set'), I(1001), S('ñé'), Fl(1.5)],
    [S('/d_recv'), Y(bytes(51)), [S('/s_new'), S('x'), I(-1)]],
    [None, [S('/g_new'), I(1)], [S('/s_new'), S('c06def'), I(-1), I(0), I(1)]],
]


def norm(t):
    """a tree with every blob (bytes, bytearray, memoryview of any item width) reduced to the bytes it stands for:
    what was sent is compared with what was given up to the container type of blobs"""
    if isinstance(t, list):
        return [norm(x) for x in t]
    if isinstance(t, dict):
        if 't' in t:
            return {'t': [norm(x) for x in t['t']]}
        if any(x in t for x in ('y', 'z', 'ya', 'ym', 'mv')):
            return {'blob': pyval(t).hex() if len(pyval(t)) < 4096 else (len(pyval(t)), hash(pyval(t)))}
    return t


def untuple(t):
    if is_tuple(t):
        return [untuple(x) for x in t['t']]
    if isinstance(t, list):
        return [untuple(x) for x in t]
    return t


def site_cases(ctx):
    rng = ctx.rng
    cases = []
    k = 0
    targets = [MAX_UDP - 4, MAX_UDP, MAX_UDP + 4] if ctx.quick else list(range(MAX_UDP - 36, MAX_UDP + 12, 4))
    for comp in COMPLETIONS:
        csize = 4 + enc_size(comp) if isinstance(comp, list) and comp else ((len(comp['s'].encode()) // 4 + 1) * 4 if isinstance(comp, dict) and 's' in comp else 4)
        for T in targets:
            for adj in ([0, -1] if ctx.quick else [0, -1, -2, -3]):
                L = T - 16 - csize + adj          # '/d_recv' 8 + ',b?' 4 + blob size 4
                k += 1
                cases.append({'kind': 'dsend', 'L': L, 'comp': comp, 'via': ['send', '_do_send', 'send'][k % 3],
                              'comp_fn': k % 4 == 0 and comp is not None, 'fill': 7 if k % 5 == 0 else 0, 'cls': 'dsend_boundary'})
    # completion messages written as tuples: refused today (then nothing may be sent); if ever accepted, the
    # prediction must cover them like the list form
    for comp in (Tup(S('/n_set'), I(1000), S('freq')), Tup(S('/n_set'), I(1000), S('freq'), Fl(440.0)), Tup(S('/s_new'), S('x'), I(1), I(0), I(1)),
                 [S('/d_recv'), Y(bytes(51)), Tup(S('/s_new'), S('x'), I(-1))]):
        csize = 4 + enc_size(untuple(comp))
        for T_ in (MAX_UDP - 4, MAX_UDP + 4):
            cases.append({'kind': 'dsend', 'L': T_ - 16 - csize, 'comp': comp, 'via': 'send', 'cls': 'dsend_tuple_completion', 'may_refuse': True})
    # the real (unpadded) definition alone fits; with a blob-carrying completion message it straddles the limit
    for T in targets:
        for via in ('add', 'send'):
            n = T - 16 - 204 - 4 - 36      # refined below from the real definition size
            cases.append({'kind': 'dsend', 'L': None, 'comp': [S('/b_setn'), I(0), I(0), I(n), {'z': n}], 'via': via, 'cls': 'dsend_real_def',
                          'aim': T})
    cases.append({'kind': 'dsend', 'L': 70000, 'comp': None, 'via': 'send', 'local': False, 'cls': 'dsend_remote'})
    cases.append({'kind': 'dsend', 'L': 1000, 'comp': COMPLETIONS[1], 'via': 'send', 'local': False, 'cls': 'dsend_remote'})
    for _ in range(ctx.n(4, 60)):
        comp = rng.choice([x for x in COMPLETIONS if isinstance(x, list) and x]) if rng.random() < 0.7 else g_msg(rng, 2, addrs=ADDRS)
        cases.append({'kind': 'dsend', 'L': rng.choice([1, 2, 3, 4, 1000, 8191, 30000, MAX_UDP - 4 - 16 - 4 - enc_size(comp) + rng.randint(-6, 6)]),
                      'comp': comp, 'via': rng.choice(['send', '_do_send']), 'comp_fn': rng.random() < 0.3, 'cls': 'dsend_random'})

    def elems(per, total, jitter=True, tuples=False):
        out, acc, j = [], 16, 0
        while acc < total:
            n = per + (rng.choice([0, 1, 2, 3, 5]) if jitter else 0)
            m = [S('/m%03d' % (j % 1000)), Y(bytes(n)), I(j)]
            if rng.random() < 0.15:
                m.append(S('éé'))
            out.append({'t': m} if tuples and j % 2 == 0 else m)      # every other element written as a tuple
            acc += 4 + enc_size(m)
            j += 1
        return out
    for lim, kind in ((MAX_UDP, 'clumped'), (MAX_UDP - SYNC, 'sync')):
        for per, total, via in [(1000, lim - 2000, 'direct'), (1000, lim + 1500, 'direct'), (3000, lim + 100, 'ctx'), (600, lim - 300, 'ctx'),
                                (9000, lim + 5000, 'direct'), (20000, lim - 10000, 'ctx')] + \
                               ([] if ctx.quick else [(rng.choice([300, 700, 1500, 4000, 8170, 8200]), lim + rng.randint(-3000, 3000), rng.choice(['direct', 'ctx']))
                                                      for _ in range(20)]):
            es = elems(per, total)
            # land exactly around the limit: trim the last blob
            cases.append({'kind': kind, 'time': rng.choice([None, Fl(0.2), I(0), Fl(0.0), False, Fl(-0.0)]), 'els': es, 'via': via, 'cls': kind + '_' + via})
        # exact boundary: predicted total = lim - 4, lim, lim + 4
        for d in (((-36, -4, 0, 4) if kind == 'clumped' else (-36, -4, 0, 4, 24, 36)) if ctx.quick else range(-40, 44, 4)):
            es = elems(5000, lim - 6000, jitter=False)
            rest = lim + d - (16 + sum(4 + enc_size(e) for e in es))
            n = rest - 4 - (8 + 4 + 4)          # element prefix, '/last' + ',b' + blob size
            es.append([S('/last'), Y(bytes(n))])
            cases.append({'kind': kind, 'time': rng.choice([Fl(0.2), I(0), Fl(0.0), False]), 'els': es, 'via': 'direct', 'cls': kind + '_exact%+d' % d})
    # Server.bind(): latency taken from the server (falsy latencies included), every exit path of the context
    for t in (None, I(0), Fl(0.0), Fl(0.2)):
        cases.append({'kind': 'clumped', 'time': t, 'els': elems(3000, MAX_UDP + 100), 'via': 'ctx_server', 'cls': 'bind_server'})
        cases.append({'kind': 'clumped', 'time': t, 'els': elems(30, 200), 'via': 'ctx_server', 'cls': 'bind_server'})
    for via in ('ctx_raise', 'ctx_raise_base'):
        cases.append({'kind': 'clumped', 'time': Fl(0.2), 'els': elems(30, 200), 'via': via, 'cls': 'bind_' + via})
    # plain send_msg: falsy values in every position, many arguments (Buffer.send_list sends 1626 floats per message)
    for v in ([S('/x'), I(0), Fl(0.0), Fl(-0.0), False, S(''), [], None, True, [S('/y'), I(0), [], S('')]],
              [S('/b_setn'), I(0), I(0), I(1626)] + [Fl(((j * 37) % 256 - 128) / 128.0) for j in range(1626)],
              [S('/b_setn'), I(0), I(1626), I(3)] + [Fl(0.0), Fl(-0.0), Fl(1.0)]):
        cases.append({'kind': 'sendmsg', 'v': v, 'cls': 'sendmsg'})
    # blobs given as memoryviews of doubles / ints: the prediction must count bytes, not items
    def mv_elems(fmt, items, total):
        out, acc, j = [], 16, 0
        while acc < total:
            m = [S('/m%03d' % j), MV(fmt, items, fill=0), I(j)]
            out.append(m)
            acc += 4 + enc_size(m)
            j += 1
        return out
    for kind_, lim_ in (('clumped', MAX_UDP), ('sync', MAX_UDP - SYNC)):
        cases.append({'kind': kind_, 'time': Fl(0.2), 'els': mv_elems('d', 250, lim_ + 3000), 'via': 'direct', 'cls': kind_ + '_memoryview_elements'})
        cases.append({'kind': kind_, 'time': None, 'els': mv_elems('i', 300, lim_ - 2000), 'via': 'ctx', 'cls': kind_ + '_memoryview_elements'})
    for T_ in (MAX_UDP - 4, MAX_UDP + 4):
        comp = [S('/b_setn'), I(0), I(0), I(64), MV('d', 64, fill=0)]
        cases.append({'kind': 'dsend', 'L': T_ - 16 - 4 - enc_size(comp), 'comp': comp, 'via': 'send', 'cls': 'dsend_memoryview_completion'})
    cases.append({'kind': 'sendmsg', 'v': [S('/b_setn'), I(0), MV('d', 3), MV('i', 5, step=2), MV('H', 4, shape=[2, 2])], 'cls': 'sendmsg'})
    for kind_, lim_ in (('clumped', MAX_UDP), ('sync', MAX_UDP - SYNC)):
        for tot in (lim_ - 1500, lim_ + 1500):
            cases.append({'kind': kind_, 'time': Fl(0.2), 'els': elems(2000, tot, tuples=True), 'via': 'direct', 'cls': kind_ + '_tuple_elements'})
    for t_ in (Fl(381911295.0), Fl(381911296.0), Fl(1e10), I(2 ** 40)):
        cases.append({'kind': 'clumped', 'time': t_, 'els': elems(30, 200), 'via': 'direct', 'cls': 'latency_range', 'may_refuse': True})
        cases.append({'kind': 'sync', 'time': t_, 'els': elems(30, 200), 'via': 'direct', 'cls': 'latency_range', 'may_refuse': True})
    cases.append({'kind': 'dsend', 'L': 100, 'comp': [Fl(1e10), [S('/s_new'), S('x'), I(-1)]], 'via': 'send', 'cls': 'latency_range', 'may_refuse': True})
    cases.append({'kind': 'sync', 'time': None, 'els': [], 'via': 'direct', 'cls': 'sync_empty'})
    cases.append({'kind': 'clumped', 'time': None, 'els': [[None, [S('/a'), I(1)]], [S('/b')]], 'via': 'direct', 'cls': 'clumped_nested_none'})
    return cases


def check_sites(ctx, c):
    """drive the real use sites, check the property on what was actually sent and compare the decisions with the model"""
    cases = site_cases(ctx)
    # refine the real-definition cases once the size of the real definition is known
    probe = ctx.impl('c06_osc', {'cases': [{'kind': 'dsend', 'L': None, 'comp': None, 'via': '_do_send'}]})['out'][0]
    db = probe.get('def_bytes') or {'z': 184}       # (a crash of the probe is reported with the cases below)
    real_len = len(bytes.fromhex(db['y'])) if 'y' in db else db['z']
    for k in cases:
        if k.get('cls') == 'dsend_real_def':
            pad = (real_len + 3) // 4 * 4
            n = k['aim'] - (8 + 4 + 4 + pad) - 4 - (8 + 8 + 12 + 4)      # blob hdr, '/b_setn' + ',iiib' + 3 ints + size
            n -= n % 4
            k['comp'] = [S('/b_setn'), I(0), I(0), I(n), {'z': n}]
    out = ctx.impl('c06_osc', {'cases': cases}, timeout=900)['out']
    ch_items, ch_idx, pl_items, pl_idx = [], [], [], []

    per_sig = {}

    def fail(sig, what, k, extra, theorem):
        if sig in MV_SIGS and (has_wide_mv(k.get('els')) or has_wide_mv(k.get('comp')) or has_wide_mv(k.get('v'))):
            sig = 'C06:memoryview-blob-item-count'
            what = what + '  [a memoryview blob whose len() is not its size in bytes]'
        per_sig[sig] = per_sig.get(sig, 0) + 1
        if per_sig[sig] > 2:            # two replays per kind of failure are enough
            return
        small = dict(k)
        if len(json.dumps(small)) > 4000:
            small = {x: (y if x not in ('els',) else '%d elements, first %s' % (len(y), show(y[0]) if y else '-')) for x, y in k.items()}
        c.failures.append(Failure('correspondence', what, signature=sig, theorem=theorem, found_input=True,
                                  replay=dict({'site': k['kind'], 'case': small, 'command': './check C06 --replay <this file>'}, **extra)))

    for k, o in zip(cases, out):
        c.evaluations += 1
        c.count('site:' + k.get('cls', k['kind']))
        if k.get('may_refuse') and ('error' in o or any(cl.get('error') for cl in o.get('calls', []))):
            if any(cl.get('dgrams') for cl in o.get('calls', [])):
                fail('C06:refused_but_sent', 'the use site %s raised on %s but a datagram went out' % (k['kind'], show(k.get('comp'))), k, {}, None)
            c.count('site:refused-as-expected')
            continue
        if 'crash' in o or 'error' in o:
            fail('C06:site_error', 'use site %s raised %s on an acceptable input' % (k['kind'], o.get('crash') or o.get('error')), k, {'observed': o.get('crash') or o.get('error')}, None)
            continue
        calls = o['calls']
        for call in calls:
            if call.get('error'):
                fail('C06:site_error', 'use site %s: %s raised %s' % (k['kind'], call['method'], call['error']), k, {'observed': call['error']}, None)
        # the time tags of what is handed to the interface, by the documented rule (base-class interface of the monitor)
        for call in calls:
            if call['method'] != 'send_bundle':
                continue
            want = []
            expected_tags('base', float(call.get('st', 0.0)), call['args'], want)
            got_tags = call.get('tags', [])
            if call.get('dgrams') and [str(w) for w in want] != got_tags and not any(t.startswith('raise') for t in got_tags):
                fail('C06:timetag', '%s: _get_timetag gives %s for the bundle handed over with latency %s, expected %s'
                     % (k['kind'], got_tags[:3], show(call['args'][0]), [str(w) for w in want][:3]), k, {'latency': show(call['args'][0])}, 'bundle_roundtrip')
            if call.get('dgrams') and any(not 0 <= w < 2 ** 64 for w in want):
                fail('C06:unrepresentable_accepted', '%s sent a bundle whose latency %s has no 64-bit time tag (%s): it must be refused'
                     % (k['kind'], show(call['args'][0]), [w for w in want if not 0 <= w < 2 ** 64][0]), k, {'latency': show(call['args'][0])}, 'unrepresentable_refused')
        # what every use site must guarantee for each datagram it really sent
        for call in calls:
            for d in call.get('dgrams', []):
                real = len(d) // 2
                head = call['args'][0]
                desc = '%s(%s%s)' % (call['method'], show(call['args'][:2])[:-1], ', ...' if len(call['args']) > 2 else '')
                if real > MAX_UDP and not (k['kind'] == 'dsend' and isinstance(head, dict) and head.get('s') == '/d_load'):
                    fail('C06:%s_oversized_datagram' % k['kind'], '%s sent a datagram of %d bytes > %d: %s' % (k['kind'], real, MAX_UDP, desc), k,
                         {'sent_bytes': real, 'predicted_for_sent': call['pred'], 'expected': 'datagram <= %d' % MAX_UDP},
                         'send_path_choice' if k['kind'] == 'dsend' else 'clump_within_limit')
                if 0 <= call['pred'] < real:
                    fail('C06:size_prediction_below_real', 'at the use site %s the prediction for the message actually sent is %d < %d real bytes: %s'
                         % (k['kind'], call['pred'], real, desc), k, {'sent_bytes': real, 'predicted_for_sent': call['pred']}, 'size_upper_bound')
                try:        # the encoder at the use site: the datagram is OSC 1.0 and carries the arguments of the call
                    v = pyval(call['args'])
                    if has_noslash(v):          # guard of osc10_agrees: addresses begin with '/'
                        continue
                    exp = expected_of(v if call['method'] == 'send_msg' else v, iter(call['tags']))
                    if not same(osc10.decode(bytes.fromhex(d)), exp):
                        raise osc10.Osc10Error('decodes to different values')
                except (osc10.Osc10Error, AssertionError, StopIteration, ValueError) as e:
                    fail('C06:site_roundtrip', '%s: the datagram sent for %s %s' % (k['kind'], desc, e), k, {'sent_bytes': real}, 'osc10_agrees')
        if o.get('mutated'):
            fail('C06:argument_mutated', 'the use site %s modified the list(s) passed by the caller' % k['kind'], k, {}, None)
        if k['kind'] == 'sendmsg':
            if len(calls) != 1 or norm(calls[0]['args']) != norm(k['v']) or len(calls[0].get('dgrams', [])) != 1:
                fail('C06:sendmsg_differs', 'send_msg did not send exactly the message it was given: %s' % show(k['v'])[:200], k, {}, 'msg_roundtrip')
            continue
        if k['kind'] == 'dsend':
            comp = k['comp']
            intended = [S('/d_recv'), o['def_bytes'], comp]
            sent = [cl for cl in calls if cl.get('dgrams')]
            chose = bool(sent) and sent[0]['args'][0] == S('/d_recv')
            c.count('site:dsend:' + ('d_recv' if chose else ('d_load' if sent else 'nothing-sent')))
            if chose:
                c.nontriv(('site', k['L'], show(comp)))
                if norm(sent[0]['args']) != norm(intended):
                    fail('C06:d_recv_message_differs', 'SynthDef.%s sent %s instead of [\'/d_recv\', <%s bytes>, %s]'
                         % (k['via'], show(sent[0]['args']), k['L'], show(comp)), k, {'sent': show(sent[0]['args'])}, 'send_path_choice')
            elif sent and sent[0]['args'][0] == S('/d_load'):
                if norm(sent[0]['args'][2:]) != norm([comp]) or not o.get('file_written'):
                    fail('C06:d_load_message_differs', 'the /d_load fallback does not carry the completion message or wrote no file: %s' % show(sent[0]['args']), k, {}, 'send_path_choice')
            # the decision against the model, on the message that is to be sent
            if is_tuple(comp) and len(comp['t']) == 4:
                continue        # (a 4-tuple argument is not expressible in the model; the checks on what was sent apply)
            nbytes = o['def_bytes']['z'] if 'z' in o['def_bytes'] else len(o['def_bytes']['y']) // 2
            # (the prediction looks at the length of the definition only: zeros keep the generated file small)
            ch_items.append('(%s, %s)' % (coq_arg([S('/d_recv'), {'z': nbytes}, comp], iter([str(0)] * 1000)), 'true' if chose else 'false'))
            ch_idx.append(k)
        else:
            sync = k['kind'] == 'sync'
            via = k.get('via', 'direct')
            if via.startswith('ctx_'):
                # Server.bind(): swapped inside, restored on every exit path, the next message goes out directly
                after = calls[-1] if calls else None
                if not o.get('addr_swapped') or not o.get('addr_restored') or after is None or after['args'] != [S('/after'), I(0)] or after['method'] != 'send_msg':
                    fail('C06:bind_state', 'Server.bind(): address not swapped/restored or the next message did not go out directly (%s)'
                         % {x: o.get(x) for x in ('addr_swapped', 'addr_restored', 'raised')}, k, {}, None)
                calls = calls[:-1]
                if via != 'ctx_server':
                    if calls:
                        fail('C06:bind_sends_on_exception', 'Server.bind() sent %d bundle(s) although the block raised' % len(calls), k, {}, None)
                    continue
                if o.get('calls_in_ctx'):
                    fail('C06:bind_state', 'messages went out while the bind() context was open', k, {}, None)
            got = []
            lens = []
            for cl in calls:
                es = cl['args'][1:]
                if sync:
                    if not es or es[-1][0] != S('/sync'):
                        fail('C06:sync_missing', 'sync sent a bundle that does not end with /sync: %s' % show(cl['args'])[:200], k, {}, 'clump_sync_within_udp_limit')
                    es = es[:-1]
                got.extend(es)
                lens.append(len(es))
            # the latency of successive datagrams: one nanosecond later each unless it is None -- 0, 0.0 and False are latencies
            no_time = via == 'ctx' and not sync        # BundleNetAddr without a server sends with latency None
            t0 = None if no_time else pyval(k['time'])
            want, cur = [], t0
            clumped_path = len(calls) > 1
            for j in range(len(calls)):
                if sync:
                    want.append(cur)
                    if cur is not None and clumped_path:
                        cur = cur + 1e-9
                else:
                    if cur is not None and clumped_path:
                        cur = cur + 1e-9
                    want.append(cur)
            seen = [cl['args'][0] for cl in calls]
            if len(calls) != 1 or True:
                wt = [None if w is None else (w if isinstance(w, bool) else (I(w) if isinstance(w, int) else Fl(w))) for w in want]
                if clumped_path and seen != wt or (not clumped_path and calls and seen[0] != (None if no_time else k['time'])):
                    fail('C06:%s_latency' % k['kind'], '%s: the bundles were sent with latencies %s, expected %s (latency %s)'
                         % (k['kind'], show(seen[:4]), show(wt[:4]), show(k['time'])), k, {'latencies': [show(x) for x in seen[:6]]}, 'bundle_roundtrip')
            if norm(got) != norm(k['els']):
                fail('C06:%s_elements_lost' % k['kind'], '%s did not carry every element exactly once and in order: %d elements in, %d out'
                     % (k['kind'], len(k['els']), len(got)), k, {'clump_lengths': lens}, 'clump_partition')
            if len(lens) > 1:
                c.nontriv(('site', k['cls'], len(k['els']), lens))
            c.count('site:%s:%s' % (k['kind'], 'one-bundle' if len(lens) <= 1 else 'clumped'))
            pl_items.append('(%s, ((0, [%s]) : Z * list Z))' % (coq_arg([None] + k['els'], iter([str(0)] * 100000)), '; '.join(map(str, lens))))
            pl_idx.append((k, lens))
    for name, items, idx, body, shard in (
            ('choice', ch_items, ch_idx, 'Eval vm_compute in bad_idx (fun c => choice_ok (fst c) (snd c)) cases.', 30),
            ('plan_clumped', [i for i, (k, _) in zip(pl_items, pl_idx) if k['kind'] == 'clumped'], [x for x in pl_idx if x[0]['kind'] == 'clumped'],
             'Eval vm_compute in bad_idx (fun c => plan_ok false (fst c) (snd c)) cases.', 6),
            ('plan_sync', [i for i, (k, _) in zip(pl_items, pl_idx) if k['kind'] == 'sync'], [x for x in pl_idx if x[0]['kind'] == 'sync'],
             'Eval vm_compute in bad_idx (fun c => plan_ok true (fst c) (snd c)) cases.', 6)):
        bad, errs = fw.check_shards(ctx, name, HEADER, items, body, shard=shard)
        c.evaluations += len(items)
        for e in errs:
            c.failures.append(Failure('correspondence', 'coq evaluation of %s cases failed: %s' % (name, e[-800:])))
        for i in bad[:4]:
            if name == 'choice':
                k = idx[i]
                fail('C06:d_recv_choice_differs', "SynthDef.%s chose the %s path for ['/d_recv', <%s bytes>, %s], the model's send_path_choice on the message to be sent says the opposite"
                     % (k['via'], 'other' if False else 'wrong', k['L'], show(k['comp'])), k, {}, 'send_path_choice')
            else:
                k, lens = idx[i]
                fail('C06:%s_plan_differs' % k['kind'], '%s sent clumps of lengths %s, the model plans differently (%d elements)' % (k['kind'], lens[:8], len(k['els'])), k,
                     {'clump_lengths': lens}, 'clump_within_limit')


def nrt_route_cases(ctx):
    """the non-real-time route of the use sites: what is handed to the interface must be in the score of that life,
    every element exactly once -- with EQUAL elements, equal clumps and the same message sent twice among the inputs"""
    rng = ctx.rng
    same = [S('/n_set'), I(1000), S('amp'), Fl(0.5)]
    n_over = MAX_UDP // (4 + enc_size(same)) + 220
    big_equal = [list(same) for _ in range(n_over)]
    distinct = [[S('/m%03d' % (j % 1000)), Y(bytes(1000 + j % 3)), I(j)] for j in range(70)]
    later = ['bundle', Fl(1.0), [[S('/later'), I(1)]]]
    cases = [
        {'ops': [later, ['clumped', None, big_equal]], 'cls': 'nrt_equal_clumps_none'},
        {'ops': [['clumped', Fl(0.2), big_equal], ['clumped', I(0), big_equal[:n_over // 2]]], 'cls': 'nrt_equal_clumps_latency'},
        {'ops': [later, ['clumped', None, distinct], ['clumped', None, distinct]], 'cls': 'nrt_same_list_twice'},
        {'ops': [['msg', [S('/n_run'), I(1001), I(1)]], ['msg', [S('/n_run'), I(1001), I(1)]], later, later,
                 ['bundle', None, [list(same), list(same)]], ['bundle', None, [list(same), list(same)]], ['bundle', Fl(0.0), [list(same), list(same)]],
                 ['ctx', [list(same), list(same), [S('/x')], list(same)]], ['ctx', [list(same), list(same), [S('/x')], list(same)]]], 'cls': 'nrt_duplicates'},
    ]
    pool = [list(same), [S('/x')], [S('/y'), I(0)], [S('/y'), Fl(0.0)], [S('/b'), Y(b'abc')], [Fl(0.5), [S('/n')]], [Fl(0.5), [S('/n')], [S('/n')]]]
    for _ in range(ctx.n(6, 60)):
        ops = []
        for _ in range(rng.randint(2, 8)):
            k = rng.random()
            els = [rng.choice(pool) for _ in range(rng.randint(1, 4))]
            if k < 0.3:
                ops.append(['msg', rng.choice(pool[:5])])
            elif k < 0.7:
                ops.append(['bundle', rng.choice([None, None, I(0), Fl(0.0), Fl(0.5)]), els])
            elif k < 0.85:
                ops.append(['clumped', rng.choice([None, Fl(0.2)]), els])
            else:
                ops.append(['ctx', [e for e in els if isinstance(e[0], dict) and 's' in e[0]] or [[S('/x')]]])
            if rng.random() < 0.4:
                ops.append(ops[-1])                 # the same thing again
        cases.append({'ops': ops, 'cls': 'nrt_random_duplicates'})
    # the sender is a routine played on the clock, at logical times > 0 (relative time: latencies count from the
    # routine's now) -- bundles with nested bundles and completion bundles, messages, immediate bundles, splits
    nested = [[S('/outer'), I(1), Fl(2.5), S('str'), [S('/done'), I(7)]], [Fl(0.75), [S('/nested'), I(3)], [Fl(1.0), [S('/deep'), I(4)]]],
              [S('/with_cbundle'), [Fl(0.125), [S('/cb'), I(5)]]]]
    cases.append({'ops': [['bundle', Fl(0.25), [[S('/at0'), I(1)]]], ['wait', 2.0], ['bundle', Fl(0.5), nested], ['msg', [S('/plain'), I(9)]],
                          ['bundle', Fl(-1.0), [[S('/late'), I(1)]]], ['wait', 1.0], ['bundle', None, [[S('/immediate'), I(1)]]],
                          ['bundle', I(0), nested[:1]], ['ctx', [list(same), [S('/x')]]], ['wait', 0.5], ['clumped', None, big_equal[:50]],
                          ['clumped', Fl(0.2), distinct]], 'ctx': 'routine', 'cls': 'nrt_routine_times'})
    cases.append({'ops': [['wait', 1.5], later, ['clumped', None, big_equal], ['msg', [S('/n_run'), I(1)]], ['msg', [S('/n_run'), I(1)]]],
                  'ctx': 'routine', 'cls': 'nrt_routine_equal_clumps'})
    for _ in range(ctx.n(6, 60)):
        ops = []
        for _ in range(rng.randint(2, 8)):
            k = rng.random()
            els = [rng.choice(pool) for _ in range(rng.randint(1, 4))]
            if k < 0.25:
                ops.append(['wait', rng.choice([0.0, 0.25, 0.5, 1.0, 2.0])])
            elif k < 0.45:
                ops.append(['msg', rng.choice(pool[:5])])
            elif k < 0.8:
                ops.append(['bundle', rng.choice([None, I(0), Fl(0.0), Fl(0.5), Fl(-1.0), Fl(0.25)]), els])
            elif k < 0.9:
                ops.append(['clumped', rng.choice([None, Fl(0.2)]), els])
            else:
                ops.append(['ctx', [e for e in els if isinstance(e[0], dict) and 's' in e[0]] or [[S('/x')]]])
        cases.append({'ops': ops, 'ctx': 'routine', 'cls': 'nrt_routine_random'})
    for k in cases:
        k['kind'] = 'nrt_route'
    return cases


def check_nrt_route(ctx, c):
    from collections import Counter
    cases = nrt_route_cases(ctx)
    out = ctx.impl('c06_osc', {'cases': cases}, timeout=900)['out']
    for k, o in zip(cases, out):
        c.evaluations += 1
        c.count('site:' + k['cls'])
        if o.get('skipped'):
            continue
        ops = [[op[0]] + ([str(op[1])] if op[0] == 'wait' else [show(op[1])] if op[0] in ('msg',) else ([show(op[1]), '%d elements like %s' % (len(op[2]), show(op[2][0]))] if op[0] != 'ctx'
                                                                  else ['%d messages like %s' % (len(op[1]), show(op[1][0]))])) for op in k['ops']]
        rp = {'site': 'nrt_route', 'ops': ops, 'command': './check C06 --replay <this file>'}
        if 'crash' in o or 'error' in o:
            c.failures.append(Failure('correspondence', 'the non-real-time route raised %s for %s' % (o.get('crash') or o.get('error'), ops),
                                      signature='C06:site_error', found_input=True, replay=rp))
            continue
        handed = Counter(tuple(h['elems']) for h in o['handed'])
        entries = Counter(tuple(e[1]) for e in o['entries'])
        for m in o['marker_shas']:              # the root node and the closing marker the score adds itself
            entries[(m,)] -= 1
        entries = +entries

        # the time tag each bundle carries in the score, by the documented rule: None/negative = now; from the main
        # thread the latency is absolute, from a routine it counts from the routine's logical time
        def want_tag(h):
            v = pyval(h['time']) if h['method'] == 'send_bundle' else 0.0
            lat = 0.0 if v is None or v < 0.0 else v
            return int((lat + h['st'] if h.get('routine') else lat) * 4294967296.0)
        handed_t = Counter((str(want_tag(h)), tuple(h['elems'])) for h in o['handed'])
        entries_t = Counter((e[0], tuple(e[1])) for e in o['entries'] if (e[1][0],) != tuple(e[1]) or e[1][0] not in o['marker_shas'])
        # (a handed single-element bundle equal to a marker would be dropped with it: the pools never send /g_new or /c_set)
        if handed == entries and handed_t != entries_t:
            miss = list((handed_t - entries_t).items())[:1]
            extra = list((entries_t - handed_t).items())[:1]
            c.failures.append(Failure('correspondence', 'non-real-time%s: a bundle of %d element(s) handed to the interface is in the score with time tag %s, expected %s '
                                      '(now + latency): %s' % (' (sent from a routine)' if k.get('ctx') == 'routine' else '', len(miss[0][0][1]) if miss else 0,
                                                               extra[0][0][0] if extra else '?', miss[0][0][0] if miss else '?', ops),
                                      signature='C06:timetag', found_input=True, theorem='bundle_roundtrip',
                                      replay=dict(rp, expected_tag=miss[0][0][0] if miss else None, score_tag=extra[0][0][0] if extra else None,
                                                  sent_at=[h['st'] for h in o['handed']][:8])))
        n_handed = sum(len(h['elems']) for h in o['handed'])
        n_score = sum(len(e[1]) for e in o['entries']) - 2
        c.nontriv(('nrt', k['cls'], n_handed))
        if not all(e[2] for e in o['entries']):
            c.failures.append(Failure('correspondence', 'the raw score is not a sequence of size-prefixed bundles of size-prefixed elements: %s' % ops,
                                      signature='C06:nrt_raw_score', found_input=True, replay=rp))
        if handed != entries and n_handed == n_score and len(o['handed']) == len(o['entries']) - 2:
            c.failures.append(Failure('correspondence', 'non-real-time%s: every bundle handed to the interface is in the score, but %d of them with elements whose bytes differ from '
                                      'what the encoder gives for the same element at the same moment (nested or completion bundles: their time tags): %s'
                                      % (' (sent from a routine)' if k.get('ctx') == 'routine' else '', sum((handed - entries).values()), ops),
                                      signature='C06:nrt_element_differs', found_input=True, theorem='bundle_roundtrip',
                                      replay=dict(rp, sent_at=[h['st'] for h in o['handed']][:8])))
        elif handed != entries or sorted(o['list_entries']) != sorted([h['n'] for h in o['handed']] + [1, 1]):
            c.failures.append(Failure('correspondence', 'non-real-time: %d elements in %d bundles were handed to the interface, the score of this life carries %d in %d '
                                      '(every element must be carried exactly once): %s'
                                      % (n_handed, len(o['handed']), n_score, len(o['entries']) - 2, ops),
                                      signature='C06:nrt_elements_lost', found_input=True, theorem='clump_partition',
                                      replay=dict(rp, handed_bundles=len(o['handed']), handed_elements=n_handed, score_bundles=len(o['entries']) - 2,
                                                  score_elements=n_score, list_form_bundles=len(o['list_entries']) - 2)))


# ---------------------------------------------------------------------------
# correspondence

def correspond(ctx):
    c = Corr()
    cases = []
    corpus = os.path.join(fw.VERIF, 'corpus', 'C06_cases.json')
    if os.path.exists(corpus):
        cases.extend(json.load(open(corpus)))
    cases.extend(build_cases(ctx))
    ccases = clump_cases(ctx)
    allc = cases + ccases
    res = ctx.impl('c06_osc', {'cases': allc}, timeout=900)
    out = res['out']
    if res.get('init_error'):
        c.failures.append(Failure('correspondence', "sc3.init('nrt') raises " + res['init_error'],
                                  signature='C06:init', replay={'call': "sc3.init('nrt')", 'observed': res['init_error'], 'expected': 'no exception'},
                                  found_input=True))

    b_items, b_idx, s_items, s_idx, p_items, p_idx, k_items, k_idx = [], [], [], [], [], [], [], []
    o_items, o_idx = [], []
    d_items, d_idx = [], []
    dgrams = []
    for n, (k, o) in enumerate(zip(allc, out)):
        if 'crash' in o:
            c.failures.append(Failure('correspondence', 'implementation runner crashed on a case: ' + o['crash'], replay={'case': k}))
            continue
        tags = list(o['tags'])
        if k['kind'] == 'rawbundle':
            tags[0] = k['tt']
        else:
            want = []
            expected_tags(k.get('itf', 'nrt'), float(k.get('send_time', 0.0)), k['v'], want, k.get('ctx', 'main'))
            if [str(x) for x in want] != tags:
                bad = [(a, b) for a, b in zip(want, tags) if str(a) != b][:1]
                c.failures.append(Failure('correspondence', '_get_timetag (%s interface, called from %s, send time %s) gives %s for a bundle time in %s, expected %s'
                                          % (k.get('itf', 'nrt'), 'inside a routine' if k.get('ctx') == 'routine' else 'the main thread', k.get('send_time', 0.0), bad[0][1] if bad else tags, show(k['v']), bad[0][0] if bad else want),
                                          signature='C06:timetag', found_input=True, theorem='bundle_roundtrip',
                                          replay={'check': 'timetag', 'case': k, 'observed': tags, 'expected': [str(x) for x in want]}))
        if k['kind'] != 'rawbundle' and o['build'][0] == 'ok' and any(not 0 <= w < 2 ** 64 for w in want) and bundle_heads_encoded(k['v']):
            c.failures.append(Failure('correspondence', 'a latency whose time tag does not fit 64 bits (%s) is accepted and sent altered: %s'
                                      % ([w for w in want if not 0 <= w < 2 ** 64][0], show(k['v'])), signature='C06:unrepresentable_accepted', found_input=True,
                                      theorem='unrepresentable_refused', replay={'check': 'timetag_range', 'case': k, 'expected_tags': [str(x) for x in want]}))
        if o.get('mutated'):
            c.failures.append(Failure('correspondence', 'building / predicting / clumping modified the caller\'s argument list %s' % show(k['v']),
                                      signature='C06:argument_mutated', found_input=True, replay={'check': 'mutated', 'case': k}))
        if o.get('rebuild_same') is False:
            c.failures.append(Failure('correspondence', 'the same argument list built twice gives different bytes: %s' % show(k['v']),
                                      signature='C06:rebuild_differs', found_input=True, replay={'check': 'rebuild', 'case': k}))
        term = coq_arg(k['v'], iter(tags))
        c.count('class:' + k.get('cls', '?'))
        c.count('itf:' + k.get('itf', 'nrt'))
        b = o['build']
        if not k.get('nobuild'):        # the documented domain (in_domain) against what the real builder did
            d_items.append('(%s, %s)' % (term, cz(0 if b[0] == 'ok' else b[1])))
            d_idx.append(n)
        if b[0] == 'ok':
            c.count('build:ok')
            if not k.get('nobuild'):
                c.nontriv(('b', k['v']))
            if not k.get('nobuild'):
                b_items.append('(%s, ((0, %s) : Z * bytes))' % (term, cb(bytes.fromhex(b[1]))))
                b_idx.append(n)
                if not has_noslash(pyval(k['v'])) and len(b[1]) < 20000:
                    o_items.append(cb(bytes.fromhex(b[1])))     # the Coq OSC 1.0 decoder must accept it
                    o_idx.append(n)
                if k.get('parse', True) and 'parse' in o:
                    dgrams.append(bytes.fromhex(b[1]))
                    if o['parse'][0] != 'unicode':
                        p_items.append('(%s, %s)' % (cb(bytes.fromhex(b[1])), coq_parse_expected(o['parse'])))
                        p_idx.append(('case', n))
        else:
            c.count('build:refused:%s' % b[2])
            if k.get('nobuild'):
                # (these element lists are made of valid messages and exist for the size/clump comparison; the model's
                # index-based parser is quadratic on a 130 kB bundle, so the refusal is reported without evaluating it)
                c.failures.append(Failure('correspondence', 'the implementation refuses (%s) a bundle of %d valid messages like %s'
                                          % (b[2], len(k['v']) - 1, show(k['v'][1])), replay={'check': 'build', 'case': {'cls': k['cls'], 'n': len(k['v']) - 1,
                                                                                                                   'element': k['v'][1]}, 'impl': b}))
            else:
                b_items.append('(%s, ((%d, []) : Z * bytes))' % (term, b[1]))
                b_idx.append(n)
        if k['kind'] == 'rawbundle':
            continue
        s_items.append('(%s, %s)' % (term, cz(o['pred'])))
        s_idx.append(n)
        c.count('pred:' + ('number' if o['pred'] >= 0 else 'raises'))
        for cl in o.get('clumps', []):
            if cl.get('partition') is False:        # order and identity of the elements across the clumps, on the real library
                c.failures.append(Failure('correspondence', '_clump_bundle(%s, size=%d) does not carry every element exactly once and in order'
                                          % (show(k['v'][1:])[:200], cl['size']), signature='C06:clump_partition', found_input=True, theorem='clump_partition',
                                          replay={'check': 'clump', 'case': k if len(json.dumps(k)) < 20000 else {'cls': k['cls']}, 'impl': cl}))
            exp = '(%d, [])' % cl['err'] if 'err' in cl else '(0, [%s])' % '; '.join(str(x) for x in cl['lens'])
            k_items.append('(%s, %s, (%s : Z * list Z))' % (cz(cl['size']), term, exp))
            k_idx.append((n, cl['size']))
            c.count('clump:' + ('raises' if 'err' in cl else '%d-clumps' % min(len(cl['lens']), 4)))
            if 'err' not in cl and len(cl['lens']) > 1:
                c.nontriv(('k', n, cl['size']))

    # parser stream: the library's own datagrams, damaged ones, hand-written ones
    rng = ctx.rng
    pcases = [{'kind': 'parse', 'dgram': d.hex()} for d in HAND_DGRAMS]
    pcorpus = os.path.join(fw.VERIF, 'corpus', 'C06_dgrams.json')
    if os.path.exists(pcorpus):
        pcases.extend({'kind': 'parse', 'dgram': d} for d in json.load(open(pcorpus)))
    for _ in range(ctx.n(300, 4000)):
        if dgrams:
            d = rng.choice(dgrams)
            for _ in range(rng.choice([1, 1, 2])):
                d = mutate_dgram(rng, d)
            pcases.append({'kind': 'parse', 'dgram': d.hex()})
    pout = ctx.impl('c06_osc', {'cases': pcases}, timeout=900)['out']
    for j, (k, o) in enumerate(zip(pcases, pout)):
        pr = o.get('parse', ['unicode'])
        if pr[0] == 'unicode':
            c.count('parse:skipped-undecodable-utf8')
            continue
        c.count('parse:' + ('ok' if pr[0] == 'ok' else 'err%d' % pr[1]))
        if pr[0] == 'ok':
            c.nontriv(('p', k['dgram']))
        p_items.append('(%s, %s)' % (cb(bytes.fromhex(k['dgram'])), coq_parse_expected(pr)))
        p_idx.append(('dgram', k['dgram']))

    # values outside the model's argument language that cannot be represented: must be refused
    rcases = [{'kind': 'msg', 'v': [S('/x'), Fl(1e39)], 'itf': 'nrt'}, {'kind': 'msg', 'v': [S('/x'), I(1), Fl(-1e300)], 'itf': 'base'},
              {'kind': 'msg', 'v': [S('/x'), S('a\ud800')], 'itf': 'nrt'}, {'kind': 'msg', 'v': [S('/\udfff'), I(1)], 'itf': 'nrt'},
              {'kind': 'msg', 'v': [S('/x'), [S('/y'), Fl(1e39)]], 'itf': 'nrt'},
              {'kind': 'bundle', 'v': [Fl(0.2), [S('/x'), S('\ud800')]], 'itf': 'base'},
              {'kind': 'bundle', 'v': [Fl(float('inf')), [S('/x')]], 'itf': 'base'}, {'kind': 'bundle', 'v': [Fl(float('inf')), [S('/x')]], 'itf': 'nrt'},
              {'kind': 'bundle', 'v': [Fl(float('nan')), [S('/x')]], 'itf': 'base'}, {'kind': 'bundle', 'v': [Fl(1e300), [S('/x')]], 'itf': 'nrt'}, {'kind': 'msg', 'v': [S('/x'), [Fl(float('inf')), [S('/y')]]], 'itf': 'base'},
              {'kind': 'bundle', 'v': [Fl(1e10), [S('/x')]], 'itf': 'base'}, {'kind': 'bundle', 'v': [I(2 ** 40), [S('/x')]], 'itf': 'nrt'},
              {'kind': 'bundle', 'v': [Fl(0.5), [Fl(1e10), [S('/x')]]], 'itf': 'base'}, {'kind': 'msg', 'v': [S('/d_recv'), Y(b'ab'), [Fl(1e10), [S('/y')]]], 'itf': 'base'}]
    rout = ctx.impl('c06_osc', {'cases': rcases})['out']
    for k, o in zip(rcases, rout):
        c.evaluations += 1
        c.count('refusal-only:' + (o.get('build', ['?', '?', '?'])[2] if o.get('build', ['ok'])[0] == 'err' else 'ACCEPTED'))
        if o.get('build', ['ok'])[0] != 'err':
            c.failures.append(Failure('correspondence', 'a value that cannot be represented was accepted for sending: %r' % (k['v'],),
                                      signature='C06:unrepresentable_accepted', replay={'case': k, 'impl': o.get('build')}, found_input=True))

    # argument types outside the model's language (4-tuples are taken for MIDI messages): whatever the builder accepts
    # must be predicted at least as large as it is and must be OSC 1.0 for the independent reader
    fcases = [{'kind': 'msg', 'v': v, 'itf': 'nrt'} for v in (
        [S('/x'), Tup(I(1), I(2), I(3), I(4))], [S('/x'), Tup(True, I(256), I(-1), I(0)), I(7)], [S('/x'), Tup(I(1), I(2), I(3), Fl(4.0))],
        [S('/x'), Tup(S('/a'), I(1), I(2), I(3))], [S('/d_recv'), Y(b'abc'), Tup(S('/n_set'), I(1000), S('freq'), Fl(440.0))],
        [S('/x'), Tup(None, I(1), I(2), I(3))], [S('/d_recv'), Y(b'x'), [S('/y'), Tup(I(1), I(2), I(3), I(4))]],
        [S('/x'), Tup(S('/y'), Y(bytes(5)), S('éé'), [S('/z')])], [S('/x'), [Fl(0.5), Tup(S('/y'))]])]
    fcases += [{'kind': 'bundle', 'v': [Fl(0.2), [S('/x'), Tup(I(1), I(2), I(3), I(4))], Tup(S('/y'), Tup(I(9), I(8), I(7), I(6)))], 'itf': 'base', 'clump': [40]}]
    fout = ctx.impl('c06_osc', {'cases': fcases})['out']
    for k, o in zip(fcases, fout):
        c.evaluations += 1
        b = o.get('build', ['err', 4, 'crash'])
        c.count('foreign:' + ('accepted' if b[0] == 'ok' else 'refused:%s' % b[2]))
        if b[0] != 'ok':
            continue
        c.nontriv(('foreign', show(k['v'])))
        d = bytes.fromhex(b[1])
        why = None
        if not (o['pred'] >= len(d)):
            why = 'its predicted size is %s, below the %d bytes it encodes to' % (o['pred'] if o['pred'] >= 0 else 'undefined (the predictor raises)', len(d))
        else:
            try:
                osc10.decode(d)
            except osc10.Osc10Error as e:
                why = 'its datagram is not OSC 1.0: %s' % e
        if why:
            c.failures.append(Failure('correspondence', '%s is accepted for sending, but %s' % (show(k['v']), why),
                                      signature='C06:foreign_type_accepted', found_input=True, theorem='size_upper_bound',
                                      replay={'check': 'foreign', 'case': k, 'impl': b[:1] + b[2:], 'predicted': o['pred']}))

    # _strpad4 on a range
    ns = list(range(0, 70)) + [rng.randrange(0, 70000) for _ in range(60)] + [65500, 65501, 65502, 65503, 65504]
    spo = ctx.impl('c06_osc', {'cases': [{'kind': 'strpad4', 'n': ns}]})['out'][0]
    sp = spo['vals']
    for n_, a, e in zip(ns, sp, spo.get('enc', [])):
        if e is not None and a != e:        # the predictor's padding against the encoder's, on the real library
            c.failures.append(Failure('correspondence', '_strpad4(%d) = %d but write_string pads a string of %d bytes to %d' % (n_, a, n_, e),
                                      signature='C06:strpad4_vs_encoder', found_input=True, theorem='size_upper_bound',
                                      replay={'check': 'strpad4', 'n': n_, 'predicted': a, 'encoder': e}))
    sp_items = ['(%d, %d)' % (a, b) for a, b in zip(ns, sp)]

    runs = [
        ('build', b_items, b_idx, 'Eval vm_compute in bad_idx (fun c => build_ok true (fst c) (snd c)) cases.', 60),
        ('size', s_items, s_idx, 'Eval vm_compute in bad_idx (fun c => size_ok true (fst c) (snd c)) cases.', 80),
        ('parse', p_items, p_idx, 'Eval vm_compute in bad_idx (fun c => parse_ok (fst c) (snd c)) cases.', 80),
        ('domain', d_items, d_idx, 'Eval vm_compute in bad_idx (fun c => domain_ok (fst c) (snd c)) cases.', 80),
        ('osc10', o_items, o_idx, 'Eval vm_compute in bad_idx osc10_accepts cases.', 80),
        ('clump', k_items, k_idx, "Eval vm_compute in bad_idx (fun c => let '(s, a, e) := c in clump_ok true s a e) cases.", 12),
        ('strpad4', sp_items, ns, 'Eval vm_compute in bad_idx (fun c => strpad4 (fst c) =? snd c) cases.', 200),
    ]
    for name, items, idx, body, shard in runs:
        bad, errs = fw.check_shards(ctx, name, HEADER, items, body, shard=shard)
        c.evaluations += len(items)
        for e in errs:
            c.failures.append(Failure('correspondence', 'coq evaluation of %s cases failed: %s' % (name, e[-800:])))
        for i in bad[:6]:
            ref = idx[i]
            if name in ('build', 'size'):
                k, o = allc[ref], out[ref]
                what = ('model and implementation disagree on the %s of %s: implementation gives %s'
                        % ('encoding' if name == 'build' else 'predicted size', show(k['v']),
                           (o['build'][:1] + o['build'][2:]) if name == 'build' else o['pred']))
                c.failures.append(Failure('correspondence', what, replay={'check': name, 'case': k, 'impl': {x: o[x] for x in ('build', 'pred') if x in o}}))
            elif name == 'domain':
                k, o = allc[ref], out[ref]
                c.failures.append(Failure('correspondence', 'the documented domain and the builder disagree on %s: the builder %s'
                                          % (show(k['v']), 'accepts a value outside the domain' if o['build'][0] == 'ok' else 'refuses (%s) a tree of the domain' % o['build'][2]),
                                          replay={'check': name, 'case': k, 'impl': o['build'][:1] + o['build'][2:]}, theorem='build_accepts'))
            elif name == 'osc10':
                k, o = allc[ref], out[ref]
                c.failures.append(Failure('correspondence', 'the independent OSC 1.0 decoder (coq/model/Osc10.v) rejects the datagram built for %s: %r'
                                          % (show(k['v']), bytes.fromhex(o['build'][1])[:160]), replay={'check': name, 'case': k, 'dgram': o['build'][1]}))
            elif name == 'clump':
                k, o = allc[ref[0]], out[ref[0]]
                cl = [x for x in o['clumps'] if x['size'] == ref[1]][0]
                c.failures.append(Failure('correspondence', 'model and implementation disagree on _clump_bundle(%d elements, size=%d): implementation gives %s'
                                          % (len(k['v']) - 1, ref[1], cl.get('lens', cl)), replay={'check': name, 'case': k if len(json.dumps(k)) < 20000 else {'cls': k['cls'], 'n': len(k['v']) - 1}, 'impl': cl}))
            elif name == 'parse':
                d = bytes.fromhex(allc[ref[1]] and out[ref[1]]['build'][1]) if ref[0] == 'case' else bytes.fromhex(ref[1])
                c.failures.append(Failure('correspondence', 'model parser and OscPacket disagree on datagram %r' % d[:200], replay={'check': name, 'dgram': d.hex()}))
            else:
                c.failures.append(Failure('correspondence', '_strpad4(%d): model and implementation disagree' % ref, replay={'check': name, 'n': ref}))
    try:
        check_sites(ctx, c)
        check_nrt_route(ctx, c)
    except fw.ImplError:
        raise
    except Exception as e:          # the monitor itself must not hide a finding behind a traceback
        c.failures.append(Failure('correspondence', 'use-site monitor could not interpret what the implementation did: %s: %s' % (type(e).__name__, e),
                                  replay={'check': 'sites', 'error': repr(e)}))
    c.rule = ('argument trees (depth <= 4: None/bool/int32 boundaries/float/ASCII and 1-4-byte UTF-8 str/blobs of every length 1..17/'
              'message- and bundle-shaped lists/array markers/latencies) plus a malformed stream (ints out of int32, empty blob, '
              'unsupported types, NUL in str and address, unbalanced markers, bad lists, sub-bundle time) are built by the real '
              '_build_msg/_build_bundle (NRT and base-class interface) and by build_pkt: byte-exact comparison of the datagram or of the '
              'error class; the real OscPacket parser and parse_packet on the same (also damaged) bytes; _calc_*_dgram_size and '
              '_clump_bundle against calc_pkt/clump_bundle; the use sites SynthDef.send/add/_do_send, send_clumped_bundles, sync(elements) and '
              'BundleNetAddr are driven with a logging transport: every datagram really sent is <= 65504, decodes (independent reader) to the '
              'arguments of the call, prediction >= real for that very message, all elements carried once in order, and the /d_recv-vs-/d_load '
              'choice and the clump plan equal the model\'s; the same use sites through the real non-real-time interface: every bundle and element handed '
              'over (equal elements, equal clumps, the same message twice included) is in the finished score of that life exactly once. non-trivial = the build succeeded / the parse succeeded / more than one clump')
    sample = [(k, o) for k, o in zip(allc, out) if 'build' in o][:400:70]
    c.samples = [{'input': show(k['v']), 'build': o['build'][:1] + o['build'][2:], 'predicted': o['pred']} for k, o in sample]
    ctx.c06 = {'cases': allc, 'out': out}
    return c


# ---------------------------------------------------------------------------
# search: the property itself, probed on the implementation with independent means

def expected_of(v, tags):
    """what an OSC 1.0 receiver must see for the Python list v (documented coercions);
    independent of the Coq model.  tags: iterator of timetags (DFS order)."""
    if v and isinstance(v[0], str):
        toks = []
        for a in v[1:]:
            if a is None or a is False or (isinstance(a, list) and not a):
                toks.append(('i', 0))
            elif a is True:
                toks.append(('i', 1))
            elif isinstance(a, int):
                toks.append(('i', a))
            elif isinstance(a, float):
                toks.append(('f', struct.pack('>f', a)))
            elif isinstance(a, str):
                toks.append('[' if a == '[' else ']' if a == ']' else ('s', a.encode('utf-8')))
            elif isinstance(a, bytes):
                toks.append(('b', a))
            elif isinstance(a, list):
                toks.append(('pkt', expected_of(a, tags)))
            else:
                raise ValueError('unsupported')
        stack = [[]]
        for t in toks:
            if t == '[':
                stack.append([])
            elif t == ']':
                a = stack.pop()
                stack[-1].append(('a', a))
            else:
                stack[-1].append(t)
        assert len(stack) == 1
        return ('msg', v[0].encode('utf-8'), stack[0])
    tag = int(next(tags))
    return ('bundle', tag, [expected_of(e, tags) for e in v[1:]])


def same(dec, exp):
    if exp[0] == 'msg':
        return dec[0] == 'msg' and dec[1] == exp[1] and len(dec[2]) == len(exp[2]) and all(same_arg(a, b) for a, b in zip(dec[2], exp[2]))
    return dec[0] == 'bundle' and dec[1] == exp[1] and len(dec[2]) == len(exp[2]) and all(same(a, b) for a, b in zip(dec[2], exp[2]))


def same_arg(d, e):
    if e[0] == 'pkt':
        if d[0] != 'b':
            return False
        try:
            return same(osc10.decode(d[1]), e[1])
        except osc10.Osc10Error:
            return False
    if e[0] == 'a':
        return d[0] == 'a' and len(d[1]) == len(e[1]) and all(same_arg(a, b) for a, b in zip(d[1], e[1]))
    return tuple(d) == tuple(e)


def documented(v, kind, outer=None, as_arg=False):
    """Is the Python value a message / bundle as send_msg / send_bundle document them?  True / False, or None when this
    transcription does not know (MIDI 4-tuples, floats beyond binary32, ...).  Written from the docstrings of
    OscInterface.send_msg / NetAddr.send_bundle, independent of the Coq model:
      message  = [address str, values...]; a value is None, bool, int32, float, str, non-empty bytes, '[' / ']' (balanced),
                 [] or a list that is itself a message or a bundle [time, [element], ...] (at least one element, a list);
      bundle   = [time (number or None), elements...]; an element is a message or a bundle not earlier than this one."""
    seqs = (list,) if as_arg else (list, tuple)
    if kind == 'msg':
        if not isinstance(v, seqs) or not v or not isinstance(v[0], str) or not v[0] or '\x00' in v[0]:
            return False
        depth = 0
        res = True
        for a in v[1:]:
            if a is None or isinstance(a, bool) or isinstance(a, float):
                if isinstance(a, float) and a == a and abs(a) > 3.4028235677973366e38 and abs(a) != float('inf'):
                    res = None
                continue
            if isinstance(a, int):
                if not -2 ** 31 <= a < 2 ** 31:
                    return False
            elif isinstance(a, str):
                if '\x00' in a:
                    return False
                try:
                    a.encode('utf-8')
                except UnicodeEncodeError:
                    return False
                depth += (a == '[') - (a == ']')
                if depth < 0:
                    return False
            elif isinstance(a, (bytes, bytearray, memoryview)):
                if len(bytes(a)) == 0:
                    return False
            elif isinstance(a, list):
                if not a:
                    continue
                if isinstance(a[0], str):
                    r = documented(a, 'msg', as_arg=True)
                elif (a[0] is None or isinstance(a[0], (int, float))) and len(a) > 1 and isinstance(a[1], list):
                    r = documented(a, 'bundle')
                else:
                    return False            # neither a message nor a bundle: must be refused
                if r is False:
                    return False
                if r is None:
                    res = None
            elif isinstance(a, tuple) and len(a) == 4:
                res = None                  # python-osc's MIDI message
            else:
                return False
        return False if depth != 0 else res
    if not isinstance(v, (list, tuple)) or not v or not (v[0] is None or isinstance(v[0], (int, float))):
        return False
    res = True
    for e in v[1:]:
        if not isinstance(e, (list, tuple)) or not e:
            return False                    # an element is a list: a str or a number there is not a message
        if isinstance(e[0], str):
            r = documented(e, 'msg')
        elif e[0] is None or isinstance(e[0], (int, float)):
            if v[0] is not None and (e[0] is None or v[0] > e[0]):
                return False
            r = documented(e, 'bundle')
        else:
            return False
        if r is False:
            return False
        if r is None:
            res = None
    return res


def flat_expected(exp, tag=None):
    """the (time, message) pairs OscPacket must return for an expected packet: depth first, then stable sort by time"""
    if exp[0] == 'msg':
        return [(tag, exp)]
    out = []
    for e in exp[2]:
        out.extend(flat_expected(e, exp[1]))
    return out


def impl_same_arg(p, e):
    """a parameter as the real parser returned it (canonical form of the runner) against the expected argument"""
    if e[0] == 'pkt':
        return p[0] == 'b' and same_arg(('b', bytes.fromhex(p[1])), e)
    if e[0] == 'a':
        return p[0] == 'a' and len(p[1]) == len(e[1]) and all(impl_same_arg(a, b) for a, b in zip(p[1], e[1]))
    if e[0] == 'i':
        return p[0] == 'i' and int(p[1]) == e[1]
    if e[0] == 'f':
        return (p[0] == 'f' and bytes.fromhex(p[1]) == e[1]) or (p[0] == 'nan' and e[1] != e[1])
    if e[0] in 'sb':
        return p[0] == e[0] and bytes.fromhex(p[1]) == e[1]
    return False


def library_parser_agrees(parse, exp):
    if parse[0] != 'ok':
        return False
    want = flat_expected(exp)
    if exp[0] == 'bundle':
        want = sorted(want, key=lambda x: x[0])       # stable
    got = parse[1]
    if len(got) != len(want):
        return False
    for (tm, (addr, params)), (tag, m) in zip(got, want):
        if (None if tm is None else int(tm)) != tag or bytes.fromhex(addr) != m[1] or len(params) != len(m[2]):
            return False
        if not all(impl_same_arg(p, e) for p, e in zip(params, m[2])):
            return False
    return True


VALID_PROBES = set()     # ids of the probe trees that are valid by construction


def probe_trees(ctx):
    """boundary-biased inputs, smallest first"""
    rng = ctx.rng
    VALID_PROBES.clear()
    ts = [('msg', [S('/x')]), ('msg', [S('/abc')]), ('msg', [S('/x'), S('')]), ('msg', [S('/x'), S('abcd')]),
          ('msg', [S('/x'), Y(b'a'), I(5)]), ('msg', [S('/x'), Y(b'abcde'), S('s'), Fl(1.5)]), ('msg', [S('/x'), S('['), Y(b'ab'), S('['), I(1), S(']'), S(']'), I(2)]),
          ('msg', [S('/d_recv'), Y(b'abc'), [S('/s_new'), S('x'), I(-1)]]),
          ('msg', [S('/x'), None, True, False, [], I(-1), Fl(1.5)]), ('bundle', [Fl(0.2), [S('/x'), I(1)]])]
    for n in range(1, 18):
        ts.append(('msg', [S('/x'), Y(b'a' * n)]))
    ts += [('msg', [S('/x'), S('é')]), ('msg', [S('/x'), S('éééé')]), ('msg', [S('/x'), S('\U0001d11e\U0001d11e')]),
           ('msg', [S('/x'), [S('/y'), Y(b'a')]]), ('msg', [S('/x'), [S('/y'), S('€€')]]), ('msg', [S('/x'), []]),
           ('msg', [S('/x'), [Fl(0.0), [S('/y')]]]), ('msg', [S('/x'), [None, [S('/y'), Y(b'abc')]]]),
           ('bundle', [Fl(0.2), [S('/x'), Y(b'abcde')], [S('/y'), S('éééé')]]),
           ('bundle', [None, [None, [S('/y')]]]), ('msg', [S('/é'), I(1)]), ('msg', [S('/x'), [None, [None, [S('/y')]]]]),
           ('msg', [S('/x'), MV('i', 3)]), ('msg', [S('/x'), MV('d', 2), I(1)]), ('msg', [S('/x'), MV('H', 4, shape=[2, 2])]),
           ('msg', [S('/x'), MV('i', 6, step=2)]), ('bundle', [Fl(0.2), [S('/a'), MV('q', 2)], [S('/b'), [S('/c'), MV('f', 3)]]]),
           ('msg', [S('/x'), [I(440)]]), ('msg', [S('/x'), [None]]), ('msg', [S('/x'), [Fl(0.5), S('/n_free')]]), ('msg', [S('/x'), [I(1), S('ab')]]),
           ('msg', [S('/x'), [Y(b'ab')]]), ('msg', [S('/x'), [[S('/y')]]]), ('bundle', [Fl(0.2), [S('/x'), [Fl(0.5)]]]),
           ('msg', [S('/x'), Tup(S('/y'), I(1))]), ('msg', [S('/d_recv'), Y(b'ab'), Tup(S('/n_set'), I(1000), S('freq'), Fl(440.0))]),
           ('msg', [S('/x'), Tup(I(1), I(2), I(3), I(4))]), ('bundle', [Fl(0.2), Tup(S('/a'), I(1)), [S('/b'), Tup(S('/c'), Y(b'abcde'))]]),
           ('msg', [S('/x'), S('a\x00b')]), ('msg', [S('/x'), S('a\x00bcdefg'), I(5)]), ('msg', [S('/a\x00b'), I(1)]),
           ('msg', [S('/x'), S('\x00')]),
           ('bundle', [Fl(0.2), [S('/x'), S('ab\x00')]])]
    for _ in range(ctx.n(300, 3000)):
        if rng.random() < 0.7:
            ts.append(('msg', g_msg(rng, rng.choice([0, 1, 2, 3]), addrs=ADDRS)))
        else:
            ts.append(('bundle', g_bundle(rng, rng.choice([1, 2, 3]))))
    for kind_, t_ in ts:          # everything so far is representable by construction, except the NUL probes
        if documented(pyval(t_), kind_) is True:
            VALID_PROBES.add(id(t_))
    for _ in range(ctx.n(60, 600)):
        base = g_msg(rng, rng.choice([0, 1]), addrs=ADDRS)
        t, kind = malform(rng, base)
        ts.append(('msg', t))
    return ts


MV_SIGS = ('C06:size_prediction_below_real', 'C06:roundtrip', 'C06:library_parser_differs', 'C06:valid_input_refused',
           'C06:dsend_oversized_datagram', 'C06:clumped_oversized_datagram', 'C06:sync_oversized_datagram', 'C06:site_roundtrip', 'C06:site_error',
           'C06:clumped_plan_differs', 'C06:sync_plan_differs', 'C06:d_recv_choice_differs', 'C06:sendmsg_differs')


def first_tag_diff(dec, exp, path='the bundle'):
    """(where, decoded tag, expected tag) of the first time tag that differs between a decoded packet and the expectation"""
    if exp[0] == 'bundle' and dec[0] == 'bundle':
        if dec[1] != exp[1]:
            return (path, dec[1], exp[1])
        for j, (d, e) in enumerate(zip(dec[2], exp[2])):
            r = first_tag_diff(d, e, 'the nested bundle at element %d of %s' % (j, path))
            if r:
                return r
    elif exp[0] == 'msg' and dec[0] == 'msg':
        for j, (d, e) in enumerate(zip(dec[2], exp[2])):
            if e[0] == 'pkt' and d[0] == 'b':
                try:
                    r = first_tag_diff(osc10.decode(d[1]), e[1], 'the bundle sent as blob argument %d of %r' % (j, exp[1].decode('utf-8', 'replace')))
                except osc10.Osc10Error:
                    r = None
                if r:
                    return r
    return None


def nested_time_violation(dec, outer=None):
    """(outer, inner) time tags of a nested bundle earlier than its enclosing bundle, searched in a decoded packet and in its blobs"""
    if dec[0] == 'bundle':
        if outer is not None and dec[1] < outer:
            return (outer, dec[1])
        for e in dec[2]:
            r = nested_time_violation(e, dec[1])
            if r:
                return r
    return None


def has_nul_str(v):
    if isinstance(v, str):
        return '\x00' in v
    return isinstance(v, (list, tuple)) and any(has_nul_str(x) for x in v)


def has_odd_addr(v):
    if isinstance(v, (list, tuple)):
        if v and isinstance(v[0], str) and not v[0].isascii():
            return True
        return any(has_odd_addr(x) for x in v)
    return False


def has_noslash(v):
    if isinstance(v, (list, tuple)):
        if v and isinstance(v[0], str) and not v[0].startswith('/'):
            return True
        return any(has_noslash(x) for x in v)
    return False


def search(ctx, failures):
    found = []
    seen = set()

    def report(sig, what, replay, theorem):
        case = (replay or {}).get('case') or {}
        if sig in MV_SIGS and has_wide_mv(case.get('v')):
            sig = 'C06:memoryview-blob-item-count'     # the blob is sized/encoded by len(view), its item count
            what = what + '  [a memoryview blob whose len() is not its size in bytes]'
        if sig in seen:
            return
        seen.add(sig)
        found.append(Failure('search', what, signature=sig, replay=replay, found_input=True, theorem=theorem))

    trees = probe_trees(ctx)
    cases = [{'kind': k, 'v': t, 'send_time': 0.0, 'itf': 'nrt'} for k, t in trees]
    for k_, (kind_, t_) in zip(cases, trees):
        if id(t_) in VALID_PROBES:
            k_['valid'] = True
    for outer in (False, I(0), Fl(0.0), Fl(-0.0), Fl(0.5)):
        for inner in (None, Fl(-1.0)) + ((Fl(0.25),) if outer == Fl(0.5) else ()):
            cases.append({'kind': 'bundle', 'v': [outer, [S('/a')], [inner, [S('/b'), I(0)]]], 'send_time': 0.0, 'itf': 'base'})
    for itf_, st_, cx_ in (('base', 0.0, 'main'), ('base', 1.5, 'main'), ('nrt', 1.5, 'routine'), ('nrt', 1.5, 'main')):
        for v_, kind_ in (([Fl(0.5), [S('/a')], [Fl(0.75), [S('/b')]]], 'bundle'), ([I(1), [S('/a')], [I(1), [S('/b')], [Fl(2.5), [S('/c')]]]], 'bundle'),
                          ([S('/x'), [Fl(0.5), [S('/y')], [Fl(1.0), [S('/z')]]]], 'msg'), ([Fl(0.25), [S('/d_recv'), Y(b'ab'), [Fl(0.5), [S('/s_new'), I(1)]]]], 'bundle'),
                          ([Fl(-1.0), [S('/a')], [Fl(0.5), [S('/b')]]], 'bundle'), ([None, [S('/a')], [None, [S('/b')]]], 'bundle')):
            cases.append({'kind': kind_, 'v': v_, 'send_time': st_, 'itf': itf_, 'ctx': cx_, 'valid': True})
    out = ctx.impl('c06_osc', {'cases': cases}, timeout=900)['out']
    for k, o in zip(cases, out):
        if 'build' not in o:
            continue
        if o['build'][0] != 'ok':
            if k.get('valid'):
                report('C06:valid_input_refused', 'a message/bundle of representable values is refused (%s): %s' % (o['build'][2], show(k['v'])),
                       {'probe': 'roundtrip', 'case': k, 'observed': o['build'], 'expected': 'accepted and encoded',
                        'command': './check C06 --replay <this file>'}, 'msg_roundtrip' if k['kind'] == 'msg' else 'bundle_roundtrip')
            continue
        v = pyval(k['v'])
        dgram = bytes.fromhex(o['build'][1])
        if documented(v, k['kind']) is False and not has_nul_str(v):
            report('C06:undocumented_accepted', 'accepted for sending although it is not a message or bundle of representable values (it must be refused): %s -> %r'
                   % (show(k['v']), dgram[:100]), {'probe': 'roundtrip', 'case': k, 'dgram': dgram.hex(), 'expected': 'refused',
                                                   'command': './check C06 --replay <this file>'}, 'unrepresentable_refused')
        call = ('_calc_msg_dgram_size(%s)' % show(k['v'])) if k['kind'] == 'msg' else ('_calc_bndl_dgram_size(%s)' % show(k['v'][1:]))
        if 0 <= o['pred'] < len(dgram):
            report('C06:size_prediction_below_real',
                   '%s = %d but the message encodes to %d bytes (predicted size below the real size)' % (call, o['pred'], len(dgram)),
                   {'probe': 'size', 'case': k, 'predicted': o['pred'], 'real': len(dgram), 'expected': 'predicted >= real',
                    'command': './check C06 --replay <this file>'}, 'size_upper_bound')
        if o['pred'] < 0:
            report('C06:size_prediction_refuses_accepted' + (':non_ascii_address' if has_odd_addr(v) else ''),
                   '%s raises although the %s is accepted for sending and encodes to %d bytes: send_clumped_bundles/sync cannot send it'
                   % (call, 'message' if k['kind'] == 'msg' else 'bundle', len(dgram)),
                   {'probe': 'size', 'case': k, 'predicted': 'raises', 'real': len(dgram), 'expected': 'a size >= real',
                    'command': './check C06 --replay <this file>'}, 'size_defined')
        if has_noslash(v):
            continue
        try:
            want = []
            expected_tags(k.get('itf', 'nrt'), float(k.get('send_time', 0.0)), k['v'], want, k.get('ctx', 'main'))
            exp = expected_of(v, iter(want))        # time tags from the oracle, not from the implementation
        except Exception:
            exp = None          # no expectation can be formed (unbalanced markers, unsupported objects): the bytes must still be OSC 1.0
        try:
            dec = osc10.decode(dgram)
            if exp is None:
                continue
            ok = same(dec, exp)
            why = 'decodes to different values'
        except osc10.Osc10Error as e:
            ok, why, dec = False, 'is not OSC 1.0: %s' % e, None
        if ok and 'parse' in o and o['parse'][0] != 'unicode' and not library_parser_agrees(o['parse'], exp):
            report('C06:library_parser_differs', 'the bytes are right, but the library\'s own parser (OscPacket) does not give back the arguments of %s: %s'
                   % (show(k['v']), json.dumps(o['parse'])[:300]), {'probe': 'roundtrip', 'case': k, 'dgram': dgram.hex(), 'parsed': o['parse'],
                                                                  'expected': repr(exp)[:600], 'command': './check C06 --replay <this file>'},
                   'msg_roundtrip' if k['kind'] == 'msg' else 'bundle_roundtrip')
        if ok and dec is not None:
            bad = nested_time_violation(dec)
            if bad:
                report('C06:nested_bundle_time', 'accepted for sending, but a nested bundle carries time tag %d, earlier than its enclosing bundle\'s %d (OSC 1.0; _check_subtime): %s'
                       % (bad[1], bad[0], show(k['v'])), {'probe': 'roundtrip', 'case': k, 'dgram': dgram.hex(), 'expected': 'refused (ValueError)',
                                                           'command': './check C06 --replay <this file>'}, 'bundle_roundtrip')
        td = first_tag_diff(dec, exp) if (not ok and dec is not None) else None
        if td:
            report('C06:timetag', 'accepted for sending, but %s carries time tag %d instead of %d (send time %s, %s interface, called from %s): %s'
                   % (td[0], td[1], td[2], k.get('send_time', 0.0), k.get('itf', 'nrt'), 'a routine' if k.get('ctx') == 'routine' else 'the main thread', show(k['v'])),
                   {'probe': 'roundtrip', 'case': k, 'dgram': dgram.hex(), 'decoded_tag': str(td[1]), 'expected_tag': str(td[2]),
                    'command': './check C06 --replay <this file>'}, 'bundle_roundtrip')
        elif not ok:
            nul = has_nul_str(v)
            report('C06:nul_in_string_altered' if nul else 'C06:roundtrip',
                   'accepted for sending, but the datagram %s: %s -> %r' % (why, show(k['v']), dgram[:120]),
                   {'probe': 'roundtrip', 'case': k, 'dgram': dgram.hex(), 'decoded': repr(dec)[:600], 'expected': repr(exp)[:600],
                    'command': './check C06 --replay <this file>'}, 'msg_roundtrip' if k['kind'] == 'msg' else 'bundle_roundtrip')

    # clump probes (smallest first): partition, no empty clump, every clump (+ /sync) within the UDP limit
    probes = []
    probes.append(([[S('/big'), Y(bytes(9000))], [S('/x')]], 8192, False))
    for per, n in [(576, 200), (100, 700), (1188, 110), (28, 1400)]:
        probes.append(([[S('/m%03d' % (j % 1000)), Y(bytes(per))] for j in range(n)], MAX_UDP - SYNC, True))
    cc = [{'kind': 'bundle', 'v': [Fl(0.2)] + els, 'send_time': 0.0, 'itf': 'nrt', 'clump': [size], 'sync': sync, 'parse': False}
          for els, size, sync in probes]
    cc.append({'kind': 'bundle', 'v': [None, [S('/x'), I(1)], [None, [S('/y')]]], 'send_time': 0.0, 'itf': 'nrt', 'clump': [8192], 'sync': False, 'parse': False})
    cout = ctx.impl('c06_osc', {'cases': cc}, timeout=900)['out']
    for k, o in zip(cc, cout):
        for cl in o.get('clumps', []):
            if 'err' in cl:
                if o.get('build', ['x'])[0] == 'ok':
                    report('C06:clump_refuses_accepted', '_clump_bundle(%s) raises %s although send_bundle accepts these elements'
                           % (show(k['v'][1:]), cl.get('exc')), {'probe': 'clump_raises', 'case': k, 'observed': cl, 'expected': 'a list of clumps',
                                                                  'command': './check C06 --replay <this file>'}, 'clump_defined')
                continue
            n = len(k['v']) - 1
            desc = '%d elements like %s, size=%d' % (n, show(k['v'][1]), cl['size'])
            small = {'probe': 'clump', 'elements': n, 'element': k['v'][1], 'size': cl['size'], 'clump_lengths': cl['lens'], 'encoded_lengths': cl['real'],
                     'command': './check C06 --replay <this file>'}
            if not cl['partition']:
                report('C06:clump_partition', '_clump_bundle(%s) does not carry every element exactly once and in order' % desc, small, 'clump_partition')
            if 0 in cl['lens']:
                report('C06:clump_empty', '_clump_bundle(%s) yields an empty clump: lengths %s' % (desc, cl['lens'][:6]), small, 'clump_partition')
            over = [r for r in cl['real'] if r > MAX_UDP]
            if over and k.get('sync'):
                report('C06:clump_over_udp_limit', 'sync: _clump_bundle(%s) yields clumps that encode (with /sync) to %s bytes > %d'
                       % (desc, over[:3], MAX_UDP), small, 'clump_within_limit')
    return found


def replay(ctx, rp):
    r = rp.get('replay', rp)
    if r.get('probe') in ('size', 'roundtrip', 'clump_raises') or r.get('check') in ('build', 'size'):
        o = ctx.impl('c06_osc', {'cases': [r['case']]})['out'][0]
        print(json.dumps({'input': show(r['case']['v']), 'build': o.get('build'), 'predicted': o.get('pred'), 'clumps': o.get('clumps'),
                          'real': o['build'][2] if o.get('build', ['x'])[0] == 'ok' else None}, indent=1))
        return 0
    if r.get('probe') == 'clump':
        els = [[S('/m%03d' % (j % 1000))] + r['element'][1:] for j in range(r['elements'])] if r['elements'] > 2 else None
        if els is None:
            els = [[S('/big'), Y(bytes(9000))], [S('/x')]]
        o = ctx.impl('c06_osc', {'cases': [{'kind': 'bundle', 'v': [Fl(0.2)] + els, 'clump': [r['size']], 'sync': True, 'parse': False}]})['out'][0]
        print(json.dumps(o['clumps'], indent=1))
        return 0
    print(json.dumps(rp, indent=1))
    return 0
