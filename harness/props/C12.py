"""C12 -- TempoClock time arithmetic and quantisation are consistent."""
import json, os
from fractions import Fraction
import fw
from fw import Corr, Failure, cz, cq

TITLE = 'TempoClock time arithmetic and quantisation are consistent'
TRANSLATED = ['Gen_tempo', 'Gen_builtins']
MODEL_TARGETS = ['model/Tempo.vo']
ALLOWED_AXIOMS = []
TRUSTED = [
    'translator harness/translator (py2coq.py, t_tempo.py): sc3/base/clock.py class TempoClock/Quant -> gen/Gen_tempo.v; '
    'sc3/base/builtins.py -> gen/Gen_builtins.v (roundup, mod, round, ceil, floor)',
    'statements dropped by exact shape in t_tempo.py: NotificationCenter.notify, the NRT-return / RT condition notify tail of the setters, '
    'the RT thread set-up at the end of __init__',
    'hand-written model/Tempo.v: Quant.as_quant, a task pending in the scheduler (ClockTask beats/seconds, ClockScheduler.retime, wake-up), '
    'histories; tied by correspondence only (NRT and RT sessions), except that WHICH setters re-time is regenerated (<setter>_retimes)',
    'floats modelled as rationals (exact on the dyadic grid the correspondence uses: power-of-two tempi and meters, dyadic beats/seconds/quants); '
    'binary64 rounding off the grid not verified (e.g. beats_per_bar = 3: bars_per_beat = 1/3 is rounded, so bar arithmetic is only approximately inverse)',
]
ASSUMES = [
    'the clock is running (self.running() is True: always in NRT; a stopped RT clock raises ClockNotRunning)',
    'meter changes are made from a routine playing on the clock (otherwise beats_per_bar raises ClockError)',
    'the logical seconds of a thread are a float (needed only for meter_change_rebases)',
    'order in which the scheduler pops several pending tasks is not modelled here (C05/C09); each pending task is followed on its own',
]

NAMES = ['tempo', 'beat_dur', 'base_seconds', 'base_beats', 'beats_per_bar', 'bars_per_beat', 'base_bar', 'base_bar_beat']


# ---------------------------------------------------------------------------
# printers

def num_term(a):
    if a is None:
        return '(I 0%Z)'          # None and 0 are both falsy in `x or default`
    if a[0] == 'NZ':
        return '(F (0 # 1)%Q)'    # -0.0: the rational 0 (falsy, compares equal to 0.0)
    if a[0] == 'B':
        return '(I 0%Z)'          # False: the int 0 in arithmetic
    return '(I %s)' % cz(a[1]) if a[0] == 'I' else '(F %s)' % cq(Fraction(a[1]))


def enc_term(o):
    """implementation output [tag, n, d] -> canonical triple"""
    tag = o[0]
    if tag in (0, 1):
        n = int(o[1])
        return '(%d, %s, %s)%%Z' % (tag, n if n >= 0 else '(%d)' % n, o[2])
    return '(9, 0, 0)%Z'        # never produced by the model: a mismatch


def out_as_num(o):
    """implementation output -> the num the model should see as an argument (now, elapsed)"""
    if o[0] == 0:
        return '(I %s)' % cz(o[1])
    if o[0] == 1:
        return '(F %s)' % cq(Fraction(int(o[1]), int(o[2])))
    return 'NErr'


def state_term(st):
    return '[' + '; '.join(enc_term(x) for x in st) + ']'


def quant_term(q):
    if q is None:
        return 'QNone'
    k = q[0]
    if k in ('num', 'quant1'):
        return '(QNum %s)' % num_term(q[1])
    if k == 'pair':
        return '(QPair %s %s)' % (num_term(q[1]), num_term(q[2]))
    if k in ('list', 'tuple'):
        if len(q[1]) == 0:
            return 'QNone'        # Quant(*[]) = Quant()
        if len(q[1]) == 1:
            return '(QNum %s)' % num_term(q[1][0])
        return '(QPair %s %s)' % (num_term(q[1][0]), num_term(q[1][1]))
    raise ValueError(q)


ASK = {  # name -> (constructor, uses now, uses elapsed)
    'tempo': ('KTempo', 0, 0), 'beat_dur': ('KBeatDur', 0, 0), 'beats_per_bar': ('KBeatsPerBar', 0, 0),
    'base_bar': ('KBaseBar', 0, 0), 'base_bar_beat': ('KBaseBarBeat', 0, 0),
    'beats': ('KBeats', 1, 0), 'seconds': ('KSeconds', 1, 0), 'elapsed_beats': ('KElapsedBeats', 0, 1),
    'beats2secs': ('KB2S', 0, 0), 'secs2beats': ('KS2B', 0, 0),
    'beats2bars': ('KB2Bars', 0, 0), 'bars2beats': ('KBars2B', 0, 0),
    'bar': ('KBar', 1, 0), 'beat_in_bar': ('KBeatInBar', 1, 0),
    '_calc_sched_beats': ('KSchedBeats', 1, 0),
}
DRV = 999999      # id of the driver routine among the pending tasks
SETS = {'tempo': 'OTempo', 'etempo': 'OEtempo', 'beats': 'OBeats', 'meter': 'OMeter'}
RT_TEMPI = [2, 2, 4, 8, 16]
RT_METERS = [Fraction(1, 2), 1, 2]


def ask_term(act, ev):
    name, args = act[1], act[2]
    now, el = out_as_num(ev['now']), out_as_num(ev['elapsed'])
    if name == 'next_time_on_grid':
        if len(args) == 3:
            return '(KGridRef %s %s %s)' % tuple(num_term(a) for a in args)
        return '(KGrid %s %s %s)' % (now, num_term(args[0]), num_term(args[1]))
    if name == 'next_bar':
        return '(KNextBarAt %s)' % num_term(args[0]) if args else '(KNextBar %s)' % now
    if name == 'time_to_next_beat':
        return '(KTtnb %s %s)' % (now, quant_term(args[0]))
    con, un, ue = ASK[name]
    parts = [con] + ([now] if un else []) + ([el] if ue else []) + [num_term(a) for a in args]
    return '(' + ' '.join(parts) + ')' if len(parts) > 1 else con


def first_play_actions(q, ev):
    """NRT: the driver's own first run (nothing can change between its play and that run)"""
    now = out_as_num(ev['now'])
    if 'raised' in ev:
        return ['AAsk (KPlayBeat %s %s) (2, 0, 0)%%Z' % (now, quant_term(q))]
    if 'woke_beats' not in ev:
        return ['AAsk KTempo (9, 0, 0)%Z']
    return ['AAsk (KPlayBeat %s %s) %s' % (now, quant_term(q), enc_term(ev['woke_beats'])),
            'AAsk (KPlaySecs %s %s) %s' % (now, quant_term(q), enc_term(ev['woke_secs']))]


def rt_first_play_problem(case, out):
    """RT: the first play is made from the main thread at a physical (inexact) time, so it is not replayed
    in the model; it must still land on the grid (origin 0) and not before the beat read just before."""
    ev = out.get('first_play') or {}
    if 'raised' in ev or 'woke_beats' not in ev or ev['woke_beats'][0] not in (0, 1):
        return None
    q, p = quant_pair(case['start_quant'])
    g = Fraction(int(ev['woke_beats'][1]), int(ev['woke_beats'][2]))
    if q <= 0:
        return None
    b0 = Fraction(int(ev['beats_before'][1]), int(ev['beats_before'][2]))
    if ((g - p) / q).denominator != 1 or g < b0:     # no upper bound: physical time passes between the two reads
        return 'first play (RT, main thread) with quant=%s phase=%s at beat %s woke at beat %s' % (q, p, float(b0), g)
    return None


def quant_pair(q):
    if q is None:
        return Fraction(1), Fraction(0)
    k = q[0]
    def fv(x):
        return Fraction(0) if x[0] in ('NZ', 'B') else Fraction(x[1])
    if k in ('num', 'quant1'):
        return fv(q[1]), Fraction(0)
    if k == 'pair':
        return fv(q[1]), fv(q[2])
    vals = [fv(x) for x in q[1]]
    if not vals:
        return Fraction(1), Fraction(0)
    return vals[0], (vals[1] if len(vals) > 1 else Fraction(0))


def case_term(case, out, rt=False):
    """-> (Gallina term of type option N  (None = agreement), list describing each action)"""
    i = case['init']
    if out.get('error'):
        if rt and out['error'].startswith('timeout'):
            return 'None', ['rt session not finished in time: skipped (machine load must not raise an alarm)']
        return 'Some 0%N', ['runner error: ' + out['error']]
    now0 = out_as_num(out['init_now']) if out.get('init_now') else num_term(case['t0'])
    if rt:
        secs = '(Some %s)' % out_as_num(out['rt_seconds'])
    else:
        secs = 'None' if i['seconds'] is None else '(Some %s)' % num_term(i['seconds'])
    if isinstance(out['init'], str):                 # constructor raised
        return ('session_bad %s %s %s %s %s [] []' % ('true' if rt else 'false', now0, num_term(i['tempo']), num_term(i['beats']), secs),
                ['constructor'])
    acts, desc = [], ['constructor']
    fp = out['first_play']
    if not rt and 'raised' in fp:
        acts.append('AAsk (KPlayBeat %s %s) (2, 0, 0)%%Z' % (out_as_num(fp['now']), quant_term(case['start_quant'])))
        desc.append('first play quant=%s -> %s' % (case['start_quant'], fp))
    elif not rt:
        # the driver routine is itself a task played with a quant, woken, re-scheduled by every yield
        acts.append('APlay %d%%N %s %s' % (DRV, out_as_num(fp['now']), quant_term(case['start_quant'])))
        desc.append('first play quant=%s -> %s' % (case['start_quant'], fp))
    for j, st0 in zip(case.get('extra', []), out.get('extra', [])):
        acts.append('ANew %s %s %s %s %s' % (now0, num_term(j['tempo']), num_term(j['beats']),
                                            secs if rt else ('None' if j['seconds'] is None else '(Some %s)' % num_term(j['seconds'])),
                                            state_term(st0)))
        desc.append('one more clock TempoClock(%s) -> %s' % (j, st0))
    flat = [a for st in case['steps'] for a in st['acts']]
    first_dwake = True
    for ev in out['events']:
        if 'wake' in ev:
            acts.append('AWake %d%%N %s %s' % (ev['wake'], enc_term(ev['beats']), enc_term(ev['secs'])))
            desc.append('wake-up of played routine %s' % ev)
            continue
        if 'dwake' in ev:
            if rt and first_dwake:
                # RT: played from the main thread at a physical time: taken as observed
                acts.append('AAdopt %d%%N %s %s' % (DRV, out_as_num(ev['beats']), out_as_num(ev['secs'])))
            else:
                acts.append('AWake %d%%N %s %s' % (DRV, enc_term(ev['beats']), enc_term(ev['secs'])))
            desc.append('wake-up of the driver routine %s' % ev)
            first_dwake = False
            continue
        if 'dyield' in ev or 'cyield' in ev:
            rid = DRV if 'dyield' in ev else ev['cyield']
            acts.append('AYield %d%%N %s' % (rid, num_term(ev.get('dyield') or ev.get('d'))))
            desc.append('routine %s yields %s' % (rid, ev))
            continue
        act = flat[ev['k']]
        on = 0
        if act[0] == 'on':
            on, act = act[1], act[2]
        n_before = len(acts)
        if act[0] == 'sleep':
            continue
        if act[0] == 'set':
            kind = 'beats' if act[1] == 'beats_rel' else act[1]
            val = out_as_num(ev['value']) if act[1] == 'beats_rel' and 'value' in ev else num_term(act[2])
            o = '(%s %s %s)' % (SETS[kind], out_as_num(ev['elapsed'] if kind == 'etempo' else ev['now']), val)
            if 'raised' in ev:     # a raising change must leave the clock exactly as it was
                acts.append('ARaise %s %s' % (o, state_term(ev['state'])))
            else:
                acts.append('ASet %s %s' % (o, state_term(ev['state'])))
        elif act[0] == 'ask':
            exp = '(2, 0, 0)%Z' if 'raised' in ev else enc_term(ev['result'])
            if act[1] == 'grid_rel':
                k = '(KGridRef %s %s %s)' % (num_term(act[2][0]), num_term(act[2][1]), out_as_num(ev['ref']))
            elif act[1] == 'next_bar_rel':
                k = '(KNextBarAt %s)' % out_as_num(ev['ref'])
            else:
                k = ask_term(act, ev)
            acts.append('AAsk %s %s' % (k, exp))
        else:
            now = out_as_num(ev['now'])
            q = act[1] if len(act) > 1 else None
            if 'raised' in ev:
                acts.append('AAsk (KPlayBeat %s %s) (2, 0, 0)%%Z' % (now, quant_term(q)))
            elif act[0] == 'play_next_bar':
                acts.append('APlayNextBar %d%%N %s' % (ev['id'], now))
            else:
                acts.append('APlay %d%%N %s %s' % (ev['id'], now, quant_term(q)))
        if on:
            acts[n_before:] = ['AOn %d%%nat (%s)' % (on, a) for a in acts[n_before:]]
        desc.append('%s%s -> %s' % ('on clock %d: ' % on if on else '', act, ev))
    term = 'session_bad %s %s %s %s %s %s [%s]' % ('true' if rt else 'false', now0, num_term(i['tempo']), num_term(i['beats']), secs,
                                             state_term(out['init']), ';\n  '.join(acts))
    return term, desc


def inner(a):
    return a[2] if a[0] == 'on' else a


def incomplete(case, out):
    """the driver must have made every act and every played routine must have run"""
    if out.get('error') or not isinstance(out.get('init'), list) or 'raised' in (out.get('first_play') or {}):
        return None
    flat = [a for st in case['steps'] for a in st['acts']]
    done = [e for e in out['events'] if 'k' in e]
    if len(done) != len(flat):
        return 'driver routine did not complete: %d of %d acts' % (len(done), len(flat))
    want = {}
    for e in done:
        if 'id' in e:
            a = inner(flat[e['k']])
            want[e['id']] = 1 + (len(a[2]) if len(a) > 2 else 0)
    woke = {}
    for e in out['events']:
        if 'wake' in e:
            woke[e['wake']] = woke.get(e['wake'], 0) + 1
    if woke != want:
        return 'played routines must wake %s times (1 + their yields), woke %s' % (want, woke)
    return None


# ---------------------------------------------------------------------------
# generator (dyadic grid: binary64 arithmetic is exact on everything produced here)

def dy(rng, bits=3, lo=-40, hi=40):
    j = rng.choice([0, 0, 1, 2, bits])
    return Fraction(rng.randint(lo << j, hi << j), 1 << j)


def nm(rng, v, allow_int=True):
    v = Fraction(v)
    if allow_int and v.denominator == 1 and rng.random() < 0.5:
        return ['I', str(int(v))]
    return ['F', str(v)]


def gen_quant_phase(rng, valid=True):
    q = rng.choice([1, 1, 2, 3, 4, 4, 5, 8, Fraction(1, 2), Fraction(3, 2), Fraction(3, 4), Fraction(5, 2), 6, 7])
    q = Fraction(q)
    r = rng.random()
    if r < 0.25:
        p = Fraction(0)
    elif r < 0.40:
        # the edges of the domain: phase -> +-quant (one grid step inside; exactly +-quant only in the malformed stream)
        p = rng.choice([-1, 1]) * (q - Fraction(1, rng.choice([8, 64, 1024])))
        if not valid and rng.random() < 0.5:
            p = rng.choice([-1, 1]) * q
    elif valid or rng.random() < 0.7:
        # strictly inside (-q, q), biased to the ends and to grid points
        steps = int(q * 8)
        p = Fraction(rng.randint(-steps + 1, steps - 1), 8)
        if rng.random() < 0.3:
            p = Fraction(int(p))
            if not (-q < p < q):
                p = Fraction(0)
    else:
        p = dy(rng, 3, -20, 20)
    return q, p


def gen_quantarg(rng, malformed=False):
    r = rng.random()
    if malformed and r < 0.3:
        return ['num', nm(rng, -rng.choice([1, 2, Fraction(1, 2)]))]
    if malformed and r < 0.5:
        return ['pair', nm(rng, 0), nm(rng, dy(rng))]
    q, p = gen_quant_phase(rng, valid=not malformed)
    r = rng.random()
    if r < 0.1:
        return None
    if r < 0.3:
        return ['num', nm(rng, q)]
    if r < 0.4:
        return ['quant1', nm(rng, q)]
    if r < 0.8:
        return ['pair', nm(rng, q), nm(rng, p)]
    if r < 0.9:
        return [rng.choice(['list', 'tuple']), [nm(rng, q), nm(rng, p)]]
    return [rng.choice(['list', 'tuple']), [nm(rng, q)]]


TEMPI = [Fraction(1, 4), Fraction(1, 2), 1, 1, 2, 2, 4, 8, 1, 2, 4, Fraction(1, 256), 1024]
METERS = [Fraction(1, 2), 1, 2, 2, 4, 4, 8]


def gen_ask(rng, malformed, rt=False):
    r = rng.random()
    if r < 0.22:
        q, p = gen_quant_phase(rng, valid=not malformed)
        if malformed and rng.random() < 0.3:
            q = -q if rng.random() < 0.6 else Fraction(0)
        args = [nm(rng, q), nm(rng, p)]
        if rng.random() < 0.5:
            ref = dy(rng, 3, -30, 60)
            if rng.random() < 0.3:
                ref = Fraction(int(ref))     # often exactly on a grid point
            args.append(nm(rng, ref))
        return ['ask', 'next_time_on_grid', args]
    if r < 0.34:
        # reference beat near the grid origin (base_bar_beat, which a meter change moves off the old grid):
        # refbeat - base_bar_beat - phase negative, zero, or just positive
        q, p = gen_quant_phase(rng, valid=True)
        if p == 0 and rng.random() < 0.7:
            p = rng.choice([-1, 1]) * q / 4
        d = rng.choice([p, p - Fraction(1, 8), p + Fraction(1, 8), Fraction(0), -q, p - q, Fraction(-1, 4), p + q,
                        p + rng.randint(-3, 3) * q,                      # exactly on a grid point
                        p + rng.randint(-3, 3) * q - Fraction(1, 1024),  # one grid step before it
                        dy(rng, 3, -3, 3)])
        return ['ask', 'grid_rel', [nm(rng, q), nm(rng, p), nm(rng, d, allow_int=False)]]
    if r < 0.42:
        return ['ask', 'time_to_next_beat', [gen_quantarg(rng, malformed)]]
    if r < 0.47:
        # exactly on a bar line / one grid step around it
        return ['ask', 'next_bar_rel', [nm(rng, rng.randint(-3, 4)), nm(rng, rng.choice([0, 0, Fraction(1, 1024), Fraction(-1, 1024)]), allow_int=False)]]
    if r < 0.54:
        return ['ask', 'next_bar', [nm(rng, dy(rng, 2, -20, 60))] if rng.random() < 0.6 else []]
    names = ['beats', 'seconds', 'beats2secs', 'secs2beats', 'beats2bars', 'bars2beats',
             'bar', 'beat_in_bar', 'bar', 'beat_in_bar', 'tempo', 'beat_dur', 'beats_per_bar', 'base_bar',
             'base_bar_beat', '_calc_sched_beats']
    if not rt:
        names.append('elapsed_beats')      # physical time in RT: not exact
    name = rng.choice(names)
    if name in ('beats2secs', 'secs2beats', 'beats2bars', 'bars2beats', '_calc_sched_beats'):
        return ['ask', name, [nm(rng, dy(rng, 3, -30, 60))]]
    return ['ask', name, []]


def gen_set(rng, malformed, rt=False):
    r = rng.random()
    if rt:
        # RT: only what keeps logical times exact and real waiting short: fast tempi, forward beat jumps
        if r < 0.5:
            return ['set', 'tempo', nm(rng, rng.choice(RT_TEMPI))]
        if r < 0.7:
            return ['set', 'beats_rel', nm(rng, Fraction(rng.randint(0, 16), 8), allow_int=False)]
        return ['set', 'meter', nm(rng, rng.choice(RT_METERS))]
    if r < 0.35:
        v = rng.choice(TEMPI)
        if malformed and rng.random() < 0.4:
            v = rng.choice([0, -1, -2, Fraction(-1, 2)])
        return ['set', 'tempo', nm(rng, v)]
    if r < 0.5:
        v = rng.choice(TEMPI)
        if malformed and rng.random() < 0.4:
            v = rng.choice([0, -1, Fraction(-1, 2)])
        return ['set', 'etempo', nm(rng, v)]
    if r < 0.72:
        return ['set', 'beats', nm(rng, dy(rng, 3, -20, 40))]
    v = rng.choice(METERS)
    if malformed and rng.random() < 0.3:
        v = -v
    if malformed and rng.random() < 0.15:
        v = 0                   # raises ZeroDivisionError: must leave the clock as it was
    return ['set', 'meter', nm(rng, v)]


def gen_walk(rng, rt):
    """the numbers a played routine yields one after the other (it sleeps while the driver changes the clock)"""
    if rng.random() < 0.5:
        return []
    top = 4 if rt else 16
    return [nm(rng, Fraction(rng.randint(0, top), 8)) for _ in range(rng.randint(1, 3))]


def gen_play(rng, malformed, rt=False):
    if rng.random() < 0.15:
        return ['play_next_bar']
    if rt:
        q = Fraction(rng.choice([Fraction(1, 4), Fraction(1, 2), Fraction(3, 4), 1, 1, Fraction(3, 2)]))
        p = Fraction(rng.randint(-int(q * 8) + 1, int(q * 8) - 1), 8)
        return [rng.choice(['play', 'clock_play']), ['pair', nm(rng, q), nm(rng, p)], gen_walk(rng, rt)]
    return [rng.choice(['play', 'clock_play']), gen_quantarg(rng, malformed and rng.random() < 0.3), gen_walk(rng, rt)]


def gen_case(rng, malformed=False, nsteps=None, rt=False):
    """plays may come anywhere: what happens between a play and its wake-up is part of the replayed session"""
    t = rng.choice(RT_TEMPI if rt else TEMPI)
    init = {'tempo': nm(rng, t) if (rt or rng.random() < 0.85) else None,
            'beats': nm(rng, dy(rng, 2, -8, 16)) if rng.random() < 0.6 else None,
            'seconds': nm(rng, dy(rng, 2, 0, 8)) if rng.random() < 0.5 else None}
    if malformed and rng.random() < 0.25:
        init['tempo'] = nm(rng, rng.choice([0, -1, Fraction(-1, 2)]))
    if rt:
        sq = ['pair', nm(rng, rng.choice([Fraction(1, 4), Fraction(1, 2), 1])), nm(rng, Fraction(rng.choice([0, 0, 1, -1]), 8))]
    else:
        sq = gen_quantarg(rng, malformed and rng.random() < 0.3)
    case = {'t0': nm(rng, dy(rng, 3, 0, 6), allow_int=False), 'init': init, 'start_quant': sq, 'steps': []}
    # more TempoClock instances in the same process: tasks pending on one must not be moved by changes of another
    extra = []
    if rng.random() < 0.5:
        for _ in range(rng.randint(1, 2)):
            extra.append({'tempo': nm(rng, rng.choice(RT_TEMPI if rt else TEMPI[:8])),
                          'beats': nm(rng, dy(rng, 2, -8, 16)) if rng.random() < 0.6 else None,
                          'seconds': nm(rng, dy(rng, 2, 0, 8)) if rng.random() < 0.5 else None})
    case['extra'] = extra
    n = nsteps if nsteps is not None else (rng.randint(2, 3) if rt else rng.randint(1, 4))
    for k in range(n):
        acts = []
        for _ in range(rng.randint(1, 5)):
            r = rng.random()
            if rt and rng.random() < 0.25:
                acts.append(['sleep', rng.choice([20, 40, 60])])    # the routine runs LATE from here on
            if r < 0.4:
                a = gen_set(rng, malformed, rt)
            elif r < 0.52:
                a = gen_play(rng, malformed, rt)
            else:
                a = gen_ask(rng, malformed, rt)
            if extra and rng.random() < 0.35 and not (a[0] == 'set' and a[1] == 'meter'):
                a = ['on', rng.randint(1, len(extra)), a]      # made from the driver routine on another clock
            acts.append(a)
        y = Fraction(rng.randint(0, 4), 8) if rt else Fraction(rng.randint(0, 24), 8)
        case['steps'].append({'acts': acts, 'yield': nm(rng, y)})
    case['steps'][-1]['yield'] = None
    return case


FALSY = [['I', '0'], ['F', '0'], ['NZ'], ['B', '0']]


def falsify(rng, case, prob=0.4):
    """Bug class "falsy zero": every optional / explicit numeric argument also as an EXPLICIT 0, 0.0, -0.0, False
    (and empty list/tuple for the quant argument); False only where the value is used in arithmetic, not stored."""
    def z(stored=False):
        return list(rng.choice(FALSY[:3] if stored else FALSY))

    def zq(q):
        r = rng.random()
        if r < 0.2:
            return [rng.choice(['list', 'tuple']), []]
        if r < 0.5:
            return ['num', z()]
        if r < 0.75:
            return ['pair', z(), z()]
        if q is not None and q[0] == 'pair':
            return ['pair', q[1], z()]            # phase 0 with a real quant
        return ['quant1', z()]
    i = case['init']
    for k in ('tempo', 'beats', 'seconds'):
        if rng.random() < prob:
            i[k] = z(stored=True)
    if rng.random() < prob / 2:
        case['start_quant'] = zq(case['start_quant'])
    for st in case['steps']:
        if st.get('yield') is not None and rng.random() < prob / 2:
            st['yield'] = z(stored=True)
        for act in st['acts']:
            act = inner(act)
            if act[0] == 'set':
                if rng.random() < (prob if act[1] != 'meter' else prob / 3):
                    act[2] = z(stored=True)
            elif act[0] == 'ask':
                if act[1] == 'time_to_next_beat':
                    if rng.random() < prob:
                        act[2] = [zq(act[2][0])]
                else:
                    act[2] = [z() if rng.random() < prob else a for a in act[2]]
            elif act[0] in ('play', 'clock_play'):
                if rng.random() < prob:
                    act[1] = zq(act[1])
                if len(act) > 2:
                    act[2] = [z(stored=True) if rng.random() < prob / 2 else d for d in act[2]]
    return case


HEADER = ('From Coq Require Import ZArith QArith NArith List. Import ListNotations.\n'
          'Require Import SC3.lib.PyNum SC3.lib.TempoState SC3.gen.Gen_tempo SC3.model.Tempo.\n')
BODY = 'Eval vm_compute in bad_idx (fun c : option N => match c with None => true | Some _ => false end) cases.'


def is_nontrivial(case, out):
    if not isinstance(out.get('init'), list):
        return False
    flat = [a for st in case['steps'] for a in st['acts']]
    evs = [(inner(flat[e['k']]), e) for e in out['events'] if 'k' in e]
    okset = any(a[0] == 'set' and 'raised' not in e for a, e in evs)
    grid = False
    for a, e in evs:
        if a[0] == 'ask' and a[1] in ('next_time_on_grid', 'grid_rel', 'next_bar', 'next_bar_rel', 'beat_in_bar', 'bar', 'time_to_next_beat') \
                and 'result' in e and e['result'][0] in (0, 1):
            grid = True
    return okset and grid


def changes_before_wake(case, out):
    """number of played routines that woke after at least one successful change made after their play"""
    flat = [a for st in case['steps'] for a in st['acts']]
    pending, n = {}, 0
    for e in out.get('events', []):
        if 'k' not in e and 'wake' not in e:
            continue
        if 'wake' in e:
            n += 1 if pending.get(e['wake'], 0) else 0
            pending[e['wake']] = 0
        elif 'id' in e:
            pending[e['id']] = 0
        elif inner(flat[e['k']])[0] == 'set' and 'raised' not in e:
            for k in pending:
                pending[k] += 1
    return n


def diagnose(ctx, term, desc):
    rc, o = ctx.coq('diag', HEADER + 'Eval vm_compute in (%s).\n' % term, timeout=120)
    import re
    m = re.search(r'Some\s+(\d+)', o)
    if rc != 0 or not m:
        return None, o[-500:]
    k = int(m.group(1))
    return k, desc[k] if k < len(desc) else '?'


def rt_port(ctx, k=0):
    return 58200 + (os.getpid() * 17 + ctx.seed * 31 + k * 40) % 1500


def tally(c, tagged, out, mode):
    for (case, tag), o in zip(tagged, out):
        flat = [a for st in case['steps'] for a in st['acts']]
        c.count('stream:' + tag)
        c.count(mode + ' init:' + ('raised' if isinstance(o.get('init'), str) else 'ok'))
        for e in o.get('events', []):
            if 'wake' in e:
                c.count(mode + ' wake-up')
            elif 'k' not in e:
                c.count(mode + (' driver wake-up' if 'dwake' in e else ' yield of the driver' if 'dyield' in e else ' yield of a played routine'))
            else:
                a = flat[e['k']]
                if a[0] == 'on':
                    c.count(mode + ' act on another clock')
                    a = a[2]
                key = mode + ' ' + a[0] + ':' + (str(a[1]) if a[0] in ('set', 'ask') else '')
                c.count(key + ('!raised' if 'raised' in e else ''))
            c.evaluations += 1
        nb = changes_before_wake(case, o)
        if nb:
            c.count(mode + ' wake-ups after a change made since the play', nb)
        if is_nontrivial(case, o):
            c.nontriv((mode, case))


def correspond(ctx):
    c = Corr()
    rng = ctx.rng
    cases = []
    corpus = os.path.join(fw.VERIF, 'corpus', 'C12_sessions.json')
    if os.path.exists(corpus):
        cases += json.load(open(corpus))
    n_valid, n_mal = ctx.n(260, 3000), ctx.n(90, 1000)
    tagged = [(k, 'corpus') for k in cases]
    tagged += [(gen_case(rng, False), 'valid') for _ in range(n_valid)]
    tagged += [(gen_case(rng, True), 'malformed') for _ in range(n_mal)]
    tagged += [(falsify(rng, gen_case(rng, False)), 'falsy') for _ in range(ctx.n(90, 900))]
    cases = [t[0] for t in tagged]
    out = ctx.impl('c12_sessions', {'cases': cases}, timeout=900)['out']
    items, descs = [], []
    for (case, tag), o in zip(tagged, out):
        term, desc = case_term(case, o)
        why = incomplete(case, o)
        if why:
            term, desc = 'Some 0%N', [why]
        items.append('(%s)' % term)
        descs.append(desc)
    tally(c, tagged, out, 'nrt')

    # ---- RT: the same sessions on real clock threads, logical times only (exact, load independent)
    n_rt = ctx.n(10, 40)
    rt_tagged = [(gen_case(rng, False, rt=True), 'rt') for _ in range(n_rt)]
    rt_cases = [t[0] for t in rt_tagged]
    rt_out = ctx.impl('c12_sessions', {'cases': rt_cases, 'budget': 25}, mode='rt', timeout=120,
                      extra_env={'SC3_LIB_PORT': str(rt_port(ctx))})['out']
    for (case, tag), o in zip(rt_tagged, rt_out):
        term, desc = case_term(case, o, rt=True)
        why = incomplete(case, o) or rt_first_play_problem(case, o)
        if o.get('error', '') and str(o.get('error')).startswith('timeout'):
            c.count('rt session skipped: not finished in time')
            why = None
        if why:
            term, desc = 'Some 0%N', [why]
        items.append('(%s)' % term)
        descs.append(desc)
    tally(c, rt_tagged, rt_out, 'rt')
    tagged, cases, out = tagged + rt_tagged, cases + rt_cases, out + rt_out

    bad, errs = fw.check_shards(ctx, 'sess', HEADER, items, BODY, shard=40)
    c.rule = ('sessions on the real TempoClock, NRT and RT (constructor and every method called from routines on the clock; random '
              'histories of tempo / etempo / beats / beats_per_bar changes, power-of-two tempi and meters, dyadic beats, int and float '
              'arguments, all Quant argument shapes, routines played with a quant at any point and woken after further changes) replayed in '
              'execution order against the regenerated Gallina definitions and the pending-task model by vm_compute: state after every '
              'setter, every returned number and the beat/second at which every played routine first ran compared exactly (type and value). '
              'RT sessions use logical times only (explicit dyadic reference second), so they are exact and independent of load. '
              'evaluations = observations compared; non-trivial = a session with at least one successful state change and '
              'grid/bar queries that returned numbers')
    for (case, tag), o in list(zip(tagged, out))[:3] + list(zip(rt_tagged, rt_out))[:1]:
        c.samples.append({'case': case, 'impl': {'init': o.get('init'), 'events': o.get('events', [])[:3]}})
    for e in errs:
        c.failures.append(Failure('correspondence', 'coq evaluation of sessions failed: ' + e))
    for i in bad[:6]:
        k, what = diagnose(ctx, items[i], descs[i])
        c.failures.append(Failure(
            'correspondence',
            'model and TempoClock disagree in a %s session at observation %s: %s' % (tagged[i][1], k, what),
            replay={'mode': 'rt' if tagged[i][1] == 'rt' else 'nrt', 'case': cases[i], 'impl': out[i],
                    'first_disagreement': k, 'observation': what}))
    return c


def search(ctx, failures):
    """Probe the property's laws directly on the real TempoClock (independent of the Coq model)."""
    res = ctx.impl('c12_laws', {'seed': ctx.seed, 'n': ctx.n(150, 1500)}, timeout=900)
    allbad = list(res['bad'])
    try:   # the RT-only paths (setters pairing logical beats with seconds; the clock thread's queue keyed by beats)
        rt = ctx.impl('c12_laws', {'seed': ctx.seed, 'n': ctx.n(8, 24)}, mode='rt', timeout=120,
                      extra_env={'SC3_LIB_PORT': str(rt_port(ctx, 1))})
        allbad += rt['bad']
    except fw.ImplError as e:
        fw.log('rt law probes failed to run: %s' % e)
    found = []
    for b in allbad:
        found.append(Failure(
            'search', 'law %s fails on the real TempoClock: %s; history=%s call=%s observed=%s' % (
                b['law'], b['why'], b['history'], b['call'], b['got']),
            signature='C12:%s' % b['law'], replay=b, found_input=True, theorem=b['law']))
    return found
