"""C12 -- TempoClock time arithmetic and quantisation are consistent."""
import json, os
from fractions import Fraction
import fw
from fw import Corr, Failure, cz, cq

TITLE = 'TempoClock time arithmetic and quantisation are consistent'
TRANSLATED = ['Gen_tempo', 'Gen_builtins']
MODEL_TARGETS = ['model/Tempo.vo']
ALLOWED_AXIOMS = []
TRUSTED = [
    'translator harness/translator (py2coq.py, t_tempo.py): sc3/base/clock.py class TempoClock/Quant -> gen/Gen_tempo.v; '
    'sc3/base/builtins.py -> gen/Gen_builtins.v (roundup, mod, round, ceil, floor)',
    'statements dropped by exact shape in t_tempo.py: NotificationCenter.notify, the NRT-return / RT condition notify tail of the setters, '
    'the RT thread set-up at the end of __init__',
    'hand-written model/Tempo.v: Quant.as_quant, the NRT wake-up of a task handed to sched_abs (ClockTask), histories; tied by correspondence only',
    'floats modelled as rationals (exact on the dyadic grid the correspondence uses: power-of-two tempi and meters, dyadic beats/seconds/quants); '
    'binary64 rounding off the grid not verified (e.g. beats_per_bar = 3: bars_per_beat = 1/3 is rounded, so bar arithmetic is only approximately inverse)',
]
ASSUMES = [
    'the clock is running (self.running() is True: always in NRT; a stopped RT clock raises ClockNotRunning)',
    'meter changes are made from a routine playing on the clock (otherwise beats_per_bar raises ClockError)',
    'the logical seconds of a thread are a float (needed only for meter_change_rebases)',
    'no tempo/beats change between play(quant) and the wake-up of the played task (that interaction is C05/C10, DESIGN F11)',
]

NAMES = ['tempo', 'beat_dur', 'base_seconds', 'base_beats', 'beats_per_bar', 'bars_per_beat', 'base_bar', 'base_bar_beat']


# ---------------------------------------------------------------------------
# printers

def num_term(a):
    if a is None:
        return '(I 0%Z)'          # None and 0 are both falsy in `x or default`
    return '(I %s)' % cz(a[1]) if a[0] == 'I' else '(F %s)' % cq(Fraction(a[1]))


def enc_term(o):
    """implementation output [tag, n, d] -> canonical triple"""
    tag = o[0]
    if tag in (0, 1):
        n = int(o[1])
        return '(%d, %s, %s)%%Z' % (tag, n if n >= 0 else '(%d)' % n, o[2])
    return '(9, 0, 0)%Z'        # never produced by the model: a mismatch


def out_as_num(o):
    """implementation output -> the num the model should see as an argument (now, elapsed)"""
    if o[0] == 0:
        return '(I %s)' % cz(o[1])
    if o[0] == 1:
        return '(F %s)' % cq(Fraction(int(o[1]), int(o[2])))
    return 'NErr'


def state_term(st):
    return '[' + '; '.join(enc_term(x) for x in st) + ']'


def quant_term(q):
    if q is None:
        return 'QNone'
    k = q[0]
    if k in ('num', 'quant1'):
        return '(QNum %s)' % num_term(q[1])
    if k == 'pair':
        return '(QPair %s %s)' % (num_term(q[1]), num_term(q[2]))
    if k in ('list', 'tuple'):
        if len(q[1]) == 1:
            return '(QNum %s)' % num_term(q[1][0])
        return '(QPair %s %s)' % (num_term(q[1][0]), num_term(q[1][1]))
    raise ValueError(q)


ASK = {  # name -> (constructor, uses now, uses elapsed)
    'tempo': ('KTempo', 0, 0), 'beat_dur': ('KBeatDur', 0, 0), 'beats_per_bar': ('KBeatsPerBar', 0, 0),
    'base_bar': ('KBaseBar', 0, 0), 'base_bar_beat': ('KBaseBarBeat', 0, 0),
    'beats': ('KBeats', 1, 0), 'seconds': ('KSeconds', 1, 0), 'elapsed_beats': ('KElapsedBeats', 0, 1),
    'beats2secs': ('KB2S', 0, 0), 'secs2beats': ('KS2B', 0, 0),
    'beats2bars': ('KB2Bars', 0, 0), 'bars2beats': ('KBars2B', 0, 0),
    'bar': ('KBar', 1, 0), 'beat_in_bar': ('KBeatInBar', 1, 0),
    '_calc_sched_beats': ('KSchedBeats', 1, 0),
}
SETS = {'tempo': 'OTempo', 'etempo': 'OEtempo', 'beats': 'OBeats', 'meter': 'OMeter'}


def ask_term(act, ev):
    name, args = act[1], act[2]
    now, el = out_as_num(ev['now']), out_as_num(ev['elapsed'])
    if name == 'next_time_on_grid':
        if len(args) == 3:
            return '(KGridRef %s %s %s)' % tuple(num_term(a) for a in args)
        return '(KGrid %s %s %s)' % (now, num_term(args[0]), num_term(args[1]))
    if name == 'next_bar':
        return '(KNextBarAt %s)' % num_term(args[0]) if args else '(KNextBar %s)' % now
    if name == 'time_to_next_beat':
        return '(KTtnb %s %s)' % (now, quant_term(args[0]))
    con, un, ue = ASK[name]
    parts = [con] + ([now] if un else []) + ([el] if ue else []) + [num_term(a) for a in args]
    return '(' + ' '.join(parts) + ')' if len(parts) > 1 else con


def play_actions(kind, q, ev):
    """two observations per play: beat and logical second at which the played routine first ran"""
    now = out_as_num(ev['now'])
    if 'raised' in ev or 'woke_beats' not in ev:
        # play raised (negative quant): the model's beat is the error value
        return ['AAsk (KPlayBeat %s %s) (2, 0, 0)%%Z' % (now, quant_term(q))] if 'raised' in ev else \
               ['AAsk KTempo (9, 0, 0)%Z']
    if kind == 'play_next_bar':
        return ['AAsk (KPlayNextBar %s) %s' % (now, enc_term(ev['woke_beats']))]
    return ['AAsk (KPlayBeat %s %s) %s' % (now, quant_term(q), enc_term(ev['woke_beats'])),
            'AAsk (KPlaySecs %s %s) %s' % (now, quant_term(q), enc_term(ev['woke_secs']))]


def case_term(case, out):
    """-> (Gallina term of type option N  (None = agreement), list describing each action)"""
    i = case['init']
    if out.get('error'):
        return 'Some 0%N', ['runner error: ' + out['error']]
    now0 = out_as_num(out['init_now']) if out.get('init_now') else num_term(case['t0'])
    if isinstance(out['init'], str):                 # constructor raised
        return ('session_bad %s %s %s %s [] []' % (now0, num_term(i['tempo']), num_term(i['beats']), num_term(i['seconds'])),
                ['constructor'])
    acts, desc = [], ['constructor']
    for a in play_actions('play', case['start_quant'], out['first_play']):
        acts.append(a)
        desc.append('first play quant=%s -> %s' % (case['start_quant'], out['first_play']))
    flat = [a for st in case['steps'] for a in st['acts']]
    evs = out['events']
    for k, act in enumerate(flat):
        if k >= len(evs):
            break                                     # the driver died: reported through `complete`
        ev = evs[k]
        if act[0] == 'set':
            o = '(%s %s %s)' % (SETS[act[1]], out_as_num(ev['elapsed'] if act[1] == 'etempo' else ev['now']), num_term(act[2]))
            exp = '[]' if 'raised' in ev else state_term(ev['state'])
            acts.append('ASet %s %s' % (o, exp))
            desc.append('%s -> %s' % (act, ev))
        elif act[0] == 'ask':
            if 'raised' in ev:
                exp = '(2, 0, 0)%Z'
            else:
                exp = enc_term(ev['result'])
            acts.append('AAsk %s %s' % (ask_term(act, ev), exp))
            desc.append('%s -> %s' % (act, ev))
        else:
            for a in play_actions(act[0], act[1] if len(act) > 1 else None, ev):
                acts.append(a)
                desc.append('%s -> %s' % (act, ev))
    term = 'session_bad %s %s %s %s %s [%s]' % (now0, num_term(i['tempo']), num_term(i['beats']), num_term(i['seconds']),
                                             state_term(out['init']), ';\n  '.join(acts))
    return term, desc


# ---------------------------------------------------------------------------
# generator (dyadic grid: binary64 arithmetic is exact on everything produced here)

def dy(rng, bits=3, lo=-40, hi=40):
    j = rng.choice([0, 0, 1, 2, bits])
    return Fraction(rng.randint(lo << j, hi << j), 1 << j)


def nm(rng, v, allow_int=True):
    v = Fraction(v)
    if allow_int and v.denominator == 1 and rng.random() < 0.5:
        return ['I', str(int(v))]
    return ['F', str(v)]


def gen_quant_phase(rng, valid=True):
    q = rng.choice([1, 1, 2, 3, 4, 4, 5, 8, Fraction(1, 2), Fraction(3, 2), Fraction(3, 4), Fraction(5, 2), 6, 7])
    q = Fraction(q)
    r = rng.random()
    if r < 0.25:
        p = Fraction(0)
    elif valid or rng.random() < 0.7:
        # strictly inside (-q, q), biased to the ends and to grid points
        steps = int(q * 8)
        p = Fraction(rng.randint(-steps + 1, steps - 1), 8)
        if rng.random() < 0.3:
            p = Fraction(int(p))
            if not (-q < p < q):
                p = Fraction(0)
    else:
        p = dy(rng, 3, -20, 20)
    return q, p


def gen_quantarg(rng, malformed=False):
    r = rng.random()
    if malformed and r < 0.3:
        return ['num', nm(rng, -rng.choice([1, 2, Fraction(1, 2)]))]
    if malformed and r < 0.5:
        return ['pair', nm(rng, 0), nm(rng, dy(rng))]
    q, p = gen_quant_phase(rng, valid=not malformed)
    r = rng.random()
    if r < 0.1:
        return None
    if r < 0.3:
        return ['num', nm(rng, q)]
    if r < 0.4:
        return ['quant1', nm(rng, q)]
    if r < 0.8:
        return ['pair', nm(rng, q), nm(rng, p)]
    if r < 0.9:
        return [rng.choice(['list', 'tuple']), [nm(rng, q), nm(rng, p)]]
    return [rng.choice(['list', 'tuple']), [nm(rng, q)]]


TEMPI = [Fraction(1, 4), Fraction(1, 2), 1, 1, 2, 2, 4, 8]
METERS = [Fraction(1, 2), 1, 2, 2, 4, 4, 8]


def gen_ask(rng, malformed):
    r = rng.random()
    if r < 0.30:
        q, p = gen_quant_phase(rng, valid=not malformed)
        if malformed and rng.random() < 0.3:
            q = -q if rng.random() < 0.6 else Fraction(0)
        args = [nm(rng, q), nm(rng, p)]
        if rng.random() < 0.5:
            ref = dy(rng, 3, -30, 60)
            if rng.random() < 0.3:
                ref = Fraction(int(ref))     # often exactly on a grid point
            args.append(nm(rng, ref))
        return ['ask', 'next_time_on_grid', args]
    if r < 0.40:
        return ['ask', 'time_to_next_beat', [gen_quantarg(rng, malformed)]]
    if r < 0.52:
        return ['ask', 'next_bar', [nm(rng, dy(rng, 2, -20, 60))] if rng.random() < 0.6 else []]
    name = rng.choice(['beats', 'seconds', 'elapsed_beats', 'beats2secs', 'secs2beats', 'beats2bars', 'bars2beats',
                       'bar', 'beat_in_bar', 'bar', 'beat_in_bar', 'tempo', 'beat_dur', 'beats_per_bar', 'base_bar',
                       'base_bar_beat', '_calc_sched_beats'])
    if name in ('beats2secs', 'secs2beats', 'beats2bars', 'bars2beats', '_calc_sched_beats'):
        return ['ask', name, [nm(rng, dy(rng, 3, -30, 60))]]
    return ['ask', name, []]


def gen_set(rng, malformed):
    r = rng.random()
    if r < 0.35:
        v = rng.choice(TEMPI)
        if malformed and rng.random() < 0.4:
            v = rng.choice([0, -1, -2, Fraction(-1, 2)])
        return ['set', 'tempo', nm(rng, v)]
    if r < 0.5:
        v = rng.choice(TEMPI)
        if malformed and rng.random() < 0.4:
            v = rng.choice([0, -1, Fraction(-1, 2)])
        return ['set', 'etempo', nm(rng, v)]
    if r < 0.72:
        return ['set', 'beats', nm(rng, dy(rng, 3, -20, 40))]
    v = rng.choice(METERS)
    if malformed and rng.random() < 0.3:
        v = -v
    return ['set', 'meter', nm(rng, v)]


def gen_case(rng, malformed=False, nsteps=None):
    t = rng.choice(TEMPI)
    init = {'tempo': nm(rng, t) if rng.random() < 0.85 else None,
            'beats': nm(rng, dy(rng, 2, -8, 16)) if rng.random() < 0.6 else None,
            'seconds': nm(rng, dy(rng, 2, 0, 8)) if rng.random() < 0.5 else None}
    if malformed and rng.random() < 0.25:
        init['tempo'] = nm(rng, rng.choice([0, -1, Fraction(-1, 2)]))
    case = {'t0': nm(rng, dy(rng, 3, 0, 6), allow_int=False), 'init': init,
            'start_quant': gen_quantarg(rng, malformed and rng.random() < 0.3), 'steps': []}
    n = nsteps if nsteps is not None else rng.randint(1, 4)
    for k in range(n):
        acts = []
        for _ in range(rng.randint(1, 5)):
            acts.append(gen_set(rng, malformed) if rng.random() < 0.4 else gen_ask(rng, malformed))
        case['steps'].append({'acts': acts, 'yield': nm(rng, Fraction(rng.randint(0, 24), 8))})
    # plays only at the very end: nothing changes between a play and the wake-up it is compared with
    last = case['steps'][-1]
    last['yield'] = None
    for _ in range(rng.randint(0, 3)):
        k = rng.random()
        if k < 0.15:
            last['acts'].append(['play_next_bar'])
        else:
            last['acts'].append([rng.choice(['play', 'clock_play']), gen_quantarg(rng, malformed and rng.random() < 0.3)])
    return case


HEADER = ('From Coq Require Import ZArith QArith NArith List. Import ListNotations.\n'
          'Require Import SC3.lib.PyNum SC3.lib.TempoState SC3.gen.Gen_tempo SC3.model.Tempo.\n')
BODY = 'Eval vm_compute in bad_idx (fun c : option N => match c with None => true | Some _ => false end) cases.'


def is_nontrivial(case, out):
    if not isinstance(out.get('init'), list):
        return False
    flat = [a for st in case['steps'] for a in st['acts']]
    okset = any(a[0] == 'set' and 'raised' not in e for a, e in zip(flat, out['events']))
    grid = False
    for a, e in zip(flat, out['events']):
        if a[0] == 'ask' and a[1] in ('next_time_on_grid', 'next_bar', 'beat_in_bar', 'bar', 'time_to_next_beat') and 'result' in e \
                and e['result'][0] in (0, 1):
            grid = True
    return okset and grid


def diagnose(ctx, term, desc):
    rc, o = ctx.coq('diag', HEADER + 'Eval vm_compute in (%s).\n' % term, timeout=120)
    import re
    m = re.search(r'Some\s+(\d+)', o)
    if rc != 0 or not m:
        return None, o[-500:]
    k = int(m.group(1))
    return k, desc[k] if k < len(desc) else '?'


def correspond(ctx):
    c = Corr()
    rng = ctx.rng
    cases = []
    corpus = os.path.join(fw.VERIF, 'corpus', 'C12_sessions.json')
    if os.path.exists(corpus):
        cases += json.load(open(corpus))
    n_valid, n_mal = ctx.n(260, 3000), ctx.n(90, 1000)
    tagged = [(k, 'corpus') for k in cases]
    tagged += [(gen_case(rng, False), 'valid') for _ in range(n_valid)]
    tagged += [(gen_case(rng, True), 'malformed') for _ in range(n_mal)]
    cases = [t[0] for t in tagged]
    out = ctx.impl('c12_sessions', {'cases': cases}, timeout=900)['out']
    items, descs = [], []
    for (case, tag), o in zip(tagged, out):
        term, desc = case_term(case, o)
        flat = [a for st in case['steps'] for a in st['acts']]
        started = 'raised' not in (o.get('first_play') or {})
        if not o.get('error') and isinstance(o.get('init'), list) and started and len(o['events']) != len(flat):
            term = 'Some 0%N'
            desc = ['driver routine did not complete: %d of %d acts' % (len(o['events']), len(flat))]
        items.append('(%s)' % term)
        descs.append(desc)
        c.count('stream:' + tag)
        c.count('init:' + ('raised' if isinstance(o.get('init'), str) else 'ok'))
        for a, e in zip(flat, o.get('events', [])):
            key = a[0] + ':' + (a[1] if a[0] in ('set', 'ask') else '')
            c.count(key + ('!raised' if 'raised' in e else ''))
            c.evaluations += 1
        if is_nontrivial(case, o):
            c.nontriv(case)
    bad, errs = fw.check_shards(ctx, 'sess', HEADER, items, BODY, shard=40)
    c.rule = ('sessions on the real TempoClock in NRT (constructor and every method called from routines; random histories of '
              'tempo / etempo / beats / beats_per_bar changes, power-of-two tempi and meters, dyadic beats, int and float arguments, '
              'all Quant argument shapes) replayed against the regenerated Gallina definitions by vm_compute: state after every setter, '
              'every returned number and the beat/second at which every played routine first ran compared exactly (type and value). '
              'evaluations = method calls compared; non-trivial = a session with at least one successful state change followed by '
              'grid/bar queries that returned numbers')
    for (case, tag), o in list(zip(tagged, out))[:4]:
        c.samples.append({'case': case, 'impl': {'init': o.get('init'), 'events': o.get('events', [])[:3]}})
    for e in errs:
        c.failures.append(Failure('correspondence', 'coq evaluation of sessions failed: ' + e))
    for i in bad[:6]:
        k, what = diagnose(ctx, items[i], descs[i])
        c.failures.append(Failure(
            'correspondence',
            'regenerated model and TempoClock disagree in a %s session at observation %s: %s' % (tagged[i][1], k, what),
            replay={'case': cases[i], 'impl': out[i], 'first_disagreement': k, 'observation': what}))
    return c


def search(ctx, failures):
    """Probe the property's laws directly on the real TempoClock (independent of the Coq model)."""
    res = ctx.impl('c12_laws', {'seed': ctx.seed, 'n': ctx.n(150, 1500)}, timeout=900)
    found = []
    for b in res['bad']:
        found.append(Failure(
            'search', 'law %s fails on the real TempoClock: %s; history=%s call=%s observed=%s' % (
                b['law'], b['why'], b['history'], b['call'], b['got']),
            signature='C12:%s' % b['law'], replay=b, found_input=True, theorem=b['law']))
    return found
