"""Shared by C05 and C07: script-program generator, Gallina printers, NRT/RT correspondence drivers.

A program is the JSON form read by harness/impl/c05_kscript.py and the Gallina form of
coq/model/KProg.v (prog)."""
import json, os
from fractions import Fraction
import fw
from fw import Failure, cz, cq, cnat, cbool, clist, copt

HEADER = ('From Coq Require Import ZArith QArith List Bool. Import ListNotations.\n'
          'Require Import SC3.lib.PyNum SC3.model.KProg SC3.model.KNrt SC3.model.KRt SC3.model.KCmp.\n')
HEADER_NRT = ('From Coq Require Import ZArith QArith List Bool. Import ListNotations.\n'
              'Require Import SC3.lib.PyNum SC3.model.KProg SC3.model.KNrt SC3.model.KCmp.\n')
FUEL = 600

# ------------------------------------------------------------------ printers
def q(x):
    return cq(Fraction(x))


def olat(l):
    return 'None' if l is None else '(Some %s)' % q(l)


def clock(c):
    if c == 'S':
        return 'CSystem'
    if c == 'A':
        return 'CApp'
    return '(CTempo %d)' % c[1]


def clock_name(c):
    return c if c in ('S', 'A') else 'T%d' % c[1]


def elem(e):
    if e[0] == 'm':
        return '(EMsg %s)' % cz(e[1])
    return '(EBundle %s %s)' % (olat(e[1]), clist(e[2], elem))


def act(a):
    k = a[0]
    if k == 'Y':
        return '(Yield %s)' % q(a[1])
    if k == 'S':
        return '(Send %s %s)' % (olat(a[1]), cz(a[2]))
    if k == 'M':
        return '(SendMsg %s)' % cz(a[1])
    if k == 'B':
        return '(SendBundle %s %s)' % (olat(a[1]), clist(a[2], elem))
    if k == 'P':
        return '(Play %d %s)' % (a[1], clock(a[2]))
    if k == 'F':
        return '(Fork %d)' % a[1]
    if k == 'T':
        return '(SetTempo %d %s)' % (a[1], q(a[2]))
    if k == 'R':
        return 'Return'
    raise ValueError(a)


def prog(p):
    return '(mkProg %s %s %s %s)' % (clist(p['tempos'], q), clist(p['bodies'], lambda b: clist(b, act)),
                                     clist(p['main'], act), q(p['tail']))


def org(o):
    return 'None' if o is None else '(Some (%d, %d)%%nat)' % (o[0], o[1])


def selem(s):
    if s[0] == 'm':
        return '(SMsg %s)' % cz(s[1])
    t = s[2] if s[2] is not None else '0'
    return '(SBundle %s %s %s %s)' % (cbool(s[1]), q(t), cz(s[3]), clist(s[4], selem))


def event(e):
    k = e[0]
    if k == 'resume':
        return '(EvResume %d %d %s %s %s)' % (e[1], e[2], clock(e[3]), q(e[4]), q(e[5]))
    if k == 'play':
        return '(EvPlay %s %d %s %s)' % (org(e[1]), e[2], clock(e[3]), q(e[4]))
    if k == 'send':
        return '(EvSend %s %s %s %s %s)' % (org(e[1]), q(e[2]), olat(e[3]), clist(e[4], elem),
                                            'None' if e[5] is None else '(Some %s)' % selem(e[5]))
    if k == 'sendmsg':
        return '(EvSendMsg %s %s %s)' % (org(e[1]), q(e[2]), cz(e[3]))
    if k == 'tempo':
        return '(EvTempo %s %d %s %s)' % (org(e[1]), e[2], q(e[3]), cbool(e[4]))
    if k == 'end':
        return '(EvEnd %d %d %s)' % (e[1], e[2], cbool(e[3]))
    raise ValueError(e)


def quirks(app, tail, tempo):
    return '(mkQuirks %s %s %s)' % (cbool(app), cbool(tail), cbool(tempo))


# ------------------------------------------------------------------ generator
DELTAS = ['0', '1/8', '1/4', '3/8', '1/2', '1', '5/4', '1/16']
LATS = [None, '0', '1/8', '1/4', '1/2', '1', '2', '-1/4', '3/16']
TEMPI = ['1', '2', '1/2', '4']


def gen_elems(rng, plat, depth, valid=True):
    n = rng.randint(1, 3)
    out = []
    for _ in range(n):
        if depth > 0 and rng.random() < 0.4:
            # nested bundle: not before its parent (mostly)
            if valid:
                if plat is None:
                    sl = rng.choice(LATS)
                else:
                    cands = [l for l in LATS if l is not None and Fraction(l) >= Fraction(plat)]
                    sl = rng.choice(cands) if cands else plat
            else:
                sl = rng.choice(LATS)
            out.append(['b', sl, gen_elems(rng, sl, depth - 1, valid)])
        else:
            out.append(['m', rng.randint(0, 99)])
    return out


def gen_send(rng, malformed=False):
    r = rng.random()
    if r < 0.45:
        return ['S', rng.choice(LATS), rng.randint(0, 99)]
    if r < 0.6:
        return ['M', rng.randint(0, 99)]
    lat = rng.choice(LATS)
    return ['B', lat, gen_elems(rng, lat, 2, valid=not (malformed or rng.random() < 0.12))]


def gen_prog(rng, profile='mixed', malformed=False):
    """profile: 'mixed' | 'time' (no tempo changes while pending, no AppClock from routines: the
    repaired and the as-found code agree) | 'rt' (short, RT-safe)"""
    rt = profile == 'rt'
    ntempo = rng.choice([0, 1, 1, 2])
    tempos = [rng.choice(TEMPI) for _ in range(ntempo)]
    nb = rng.randint(1, 4 if not rt else 3)
    scale = Fraction(1, 8) if rt else Fraction(1)

    def delta():
        d = Fraction(rng.choice(DELTAS)) * scale
        if malformed and rng.random() < 0.2:
            d = -d
        return str(d)

    def a_clock(allow_app):
        r = rng.random()
        if ntempo and r < 0.45:
            return ['T', rng.randrange(ntempo)]
        if allow_app and r < 0.65:
            return 'A'
        return 'S'
    bodies = []
    for j in range(nb):
        body = []
        nplay = 0
        for _ in range(rng.randint(1, 6 if not rt else 4)):
            r = rng.random()
            if r < 0.35:
                body.append(['Y', delta()])
            elif r < 0.7:
                s = gen_send(rng, malformed)
                if rt and s[0] != 'M':
                    # keep latencies as they are: stamps do not take real time
                    pass
                body.append(s)
            elif r < 0.85 and j + 1 < nb and nplay < 2:
                nplay += 1
                tgt = rng.randint(j + 1, nb - 1)
                if rng.random() < 0.3:
                    body.append(['F', tgt])
                else:
                    body.append(['P', tgt, a_clock(allow_app=(profile == 'mixed'))])
            elif r < 0.93 and ntempo and profile == 'mixed':
                v = rng.choice(TEMPI) if not (malformed and rng.random() < 0.3) else rng.choice(['0', '-1'])
                body.append(['T', rng.randrange(ntempo), v])
            elif r < 0.95:
                body.append(['R'])
            else:
                body.append(['Y', delta()])
        bodies.append(body)
    main = []
    for _ in range(rng.randint(1, 2 if rt else 3)):
        r = rng.random()
        if r < 0.7:
            main.append(['P', rng.randrange(0, min(2, nb)), a_clock(allow_app=not rt)])
        elif not rt:
            main.append(gen_send(rng, malformed))
    if not any(a[0] == 'P' for a in main):
        main.insert(0, ['P', 0, 'S'])
    tail = rng.choice(['0', '0', '1/4', '1'])
    return spice(rng, {'tempos': tempos, 'bodies': bodies, 'main': main, 'tail': tail}, rt)


# latencies at the edges of the timetag representation (int(x * 2**32)): one unit, half a unit (truncation), just below and
# just above a whole second, negative zero, a very large latency
EDGE_LATS = ['-0', '1/4294967296', '1/8589934592', '3/8589934592', '4294967295/4294967296', '4294967297/4294967296',
             '8589934591/8589934592', '1048576', '2147483649/2147483648']


EDGE_LATS_RT = ['-0', '1/4294967296', '4294967295/4294967296', '4294967297/4294967296', '1048576']


ADDR_KINDS = ['fresh', 'global', 'server', 'previous', 'mixed', 'mixed']


def spice(rng, p, rt=False):
    """Bug-class review: (1) integral numbers as Python ints, -0.0; (4)(5) the same send repeated at one instant (equal
    content, many bundles at the same instant); (5) latencies at timetag-unit edges; (3) several sends in a row from the main
    thread in RT.  Applied to every generated program; the model is untouched (same values)."""
    p['ints'] = rng.random() < 0.4
    # NRT: every case is a new life of the session (main.reset()); send through address objects created before the reset
    # (a module-level NetAddr, Server.default.addr, the previous life's address), after it, or alternating
    p['addr'] = rng.choice(ADDR_KINDS)
    for b in p['bodies']:
        sends = [i for i, a in enumerate(b) if a[0] in ('S', 'M', 'B')]
        if sends and rng.random() < 0.3:
            i = rng.choice(sends)
            b[i:i] = [json.loads(json.dumps(b[i])) for _ in range(rng.choice([1, 1, 2, 6]))]
        for a in b:
            if a[0] == 'S' and rng.random() < 0.12:
                # RT: only the timetag is observable, the harness derives the due seconds from it, so stay on the 2^-32 grid there
                # (truncation below a unit is exercised at unit level, `tag_rt`, and in NRT)
                a[1] = rng.choice(EDGE_LATS_RT if rt else EDGE_LATS)
            if a[0] == 'Y' and Fraction(a[1]) == 0 and rng.random() < 0.3:
                a[1] = '-0'
    if rt:
        for _ in range(rng.choice([0, 2, 3, 4])):
            p['main'].append(['S', rng.choice([None, '0', '1/8', '-1/4', '1/4294967296', '-0']), rng.randint(0, 99)])
        # RT deltas are tiny fractions: the only integral yield is 0 -- make sure every RT wake-up loop (SystemClock._run,
        # TempoClock._run) sees `yield 0` as an int and as a float
        p['ints'] = rng.random() < 0.5
        for b in p['bodies']:
            if rng.random() < 0.6:
                b.insert(rng.randint(0, len(b)), ['Y', rng.choice(['0', '0', '-0'])])
    return p


# ------------------------------------------------------------------ fixed programs for the suspected defects
F20_PROG = {'tempos': [], 'bodies': [[['Y', '1'], ['P', 1, 'A'], ['Y', '1/2']], [['Y', '1/4']]],
            'main': [['P', 0, 'S']], 'tail': '0'}
F17_PROG = {'tempos': [], 'bodies': [[['S', '1/2', 1], ['Y', '1/4'], ['S', '0', 2]]],
            'main': [['P', 0, 'S']], 'tail': '0'}
F11_PROG = {'tempos': ['1'], 'bodies': [[['Y', '1/2'], ['Y', '0']], [['Y', '1/8'], ['T', 0, '2']]],
            'main': [['P', 0, ['T', 0]], ['P', 1, 'S']], 'tail': '0'}
DEFECT_PROGS = [('F20', F20_PROG), ('F17', F17_PROG), ('F11', F11_PROG)]

# C07 deepening: scenarios that must agree with the model in list order, raw order and timetags
# (a) the SAME nested-bundle list object sent more than once from different logical times
SHARE_PROGS = [
    {'tempos': [], 'bodies': [[['Y', '1'], ['B', '1/8', [['m', 1], ['b', '1/4', [['m', 2], ['b', '1/2', [['m', 3]]]]]]],
                               ['Y', '1'], ['B', '1/8', [['m', 1], ['b', '1/4', [['m', 2], ['b', '1/2', [['m', 3]]]]]]]]],
     'main': [['P', 0, 'S']], 'tail': '0'},
    {'tempos': ['2'], 'bodies': [[['B', None, [['b', '0', [['b', '1/4', [['m', 7]]]]], ['m', 8]]], ['Y', '1/2'],
                                   ['B', None, [['b', '0', [['b', '1/4', [['m', 7]]]]], ['m', 8]]]]],
     'main': [['P', 0, 'S'], ['P', 0, ['T', 0]], ['B', None, [['b', '0', [['b', '1/4', [['m', 7]]]]], ['m', 8]]]], 'tail': '1/4'},
]
# (b) negative latency inside a routine at logical time > 0, with other bundles at the same instant
NEG_PROGS = [
    {'tempos': [], 'bodies': [[['Y', '1/4'], ['S', '-1/4', 1], ['S', '0', 2], ['S', None, 3],
                               ['B', '-1', [['m', 4], ['b', '-1/2', [['m', 5]]], ['b', '1/8', [['m', 6]]]]], ['M', 7]],
                              [['Y', '1/4'], ['S', '0', 8], ['B', '-1/2', [['b', '-1', [['m', 9]]]]], ['S', '-2', 10]]],
     'main': [['P', 0, 'S'], ['P', 1, 'S'], ['S', '-1', 11], ['S', '1/4', 12]], 'tail': '0'},
    {'tempos': ['4'], 'bodies': [[['Y', '1/2'], ['S', '-1/8', 1], ['B', None, [['b', '-3', [['m', 2]]]]], ['S', '1/8', 3]]],
     'main': [['P', 0, ['T', 0]], ['P', 0, 'A'], ['P', 0, 'S']], 'tail': '0'},
]

SIGNATURES = {
    'F20': 'C05:F20-nrt-appclock-sched-delta-is-absolute',
    'F17': 'C07:F17-nrt-tail-marker-before-later-bundle',
    'F11': 'C05:F11-nrt-tempo-change-with-pending-task',
    'MUT': 'C07:nrt-score-add-mutates-callers-nested-bundle-lists',
    'FN': 'C07:nrt-function-task-bundle-absolute',
}


def nrt_item(p, o):
    return '(%s, mkNObs %s %s %s)' % (prog(p), clist(o['events'], event), clist(o['score'], selem), q(o['elapsed']))


QUIRK_SETS = [(a, t, m) for a in (False, True) for t in (False, True) for m in (False, True)]


def run_nrt_correspondence(ctx, cases, name, share=False):
    """Run cases on the real library (NRT) and on the repaired model.
    Returns (outs, bad_indices, explain, errors) where explain[i] = list of quirk triples under
    which the model reproduces the implementation on bad case i."""
    outs = ctx.impl('c05_kscript', {'cases': cases, 'share_lists': share}, mode='nrt')['out']
    items, idx = [], []
    errors = []
    for i, (p, o) in enumerate(zip(cases, outs)):
        if 'fatal' in o or not o.get('raw_ok', False):
            errors.append((i, o.get('fatal', 'raw score is not a sequence of length-prefixed chunks matching the list')))
            continue
        items.append(nrt_item(p, o))
        idx.append(i)
    body = 'Eval vm_compute in bad_idx (fun c => nrt_agrees repaired (fst c) %d (snd c)) cases.' % FUEL
    bad, errs = fw.check_shards(ctx, name, HEADER_NRT, items, body, shard=40)
    for e in errs:
        errors.append((-1, 'coq evaluation failed: ' + e))
    bad = [idx[b] for b in bad]
    explain = {}
    if bad:
        items2 = [nrt_item(cases[i], outs[i]) for i in bad]
        qs = clist([quirks(*t) for t in QUIRK_SETS])
        body2 = ('Eval vm_compute in flat_map (fun c => map (fun qk => nrt_compare qk (fst c) %d (snd c)) %s) cases.'
                 % (FUEL, qs))
        res = ctx.coq_shards(name + '_explain', HEADER_NRT, items2, body2, shard=20)
        k = 0
        for rc, out, base in res:
            codes = fw.parse_nat_list(out) if rc == 0 else None
            n = min(20, len(bad) - base)
            for j in range(n):
                i = bad[base + j]
                if codes is None:
                    explain[i] = None
                else:
                    explain[i] = codes[j * 8:(j + 1) * 8]
    return outs, bad, explain, errors


def classify(explain_codes):
    """-> (label, quirks) : the smallest set of as-found quirks under which the model agrees"""
    if explain_codes is None:
        return None
    best = None
    for t, code in zip(QUIRK_SETS, explain_codes):
        if code == 0:
            if best is None or sum(t) < sum(best):
                best = t
    return best


# ------------------------------------------------------------------ RT
def choice(c):
    if c[0] == 'clock':
        return '(ChClock %s)' % q(c[1])
    if c[0] == 'top':
        return '(ChTop %s)' % q(c[1])
    return '(ChWake %d %s)' % (c[1], q(c[2]))


def rt_item(p, o):
    return '(%s, %s, %s, %s)' % (prog(p), cz(int(o['offset'])), clist(o['schedule'], choice), clist(o['events'], event))


def run_rt_correspondence(ctx, cases, name, seed=1):
    """Run cases on the real clocks under injected jitter and replay the recorded oracle in the model.
    Returns (outs, codes) ; codes[i] in 0..3 (KCmp.rt_compare) or -1 (not run / incomplete)."""
    port = 58000 + (os.getpid() * 7 + seed * 131) % 1500
    outs = ctx.impl('c05_kscript', {'cases': cases, 'seed': seed}, mode='rt', timeout=900,
                    extra_env={'SC3_LIB_PORT': str(port)})['out']
    outs = outs + [{'fatal': 'not run: the runner stopped at a stuck program'}] * (len(cases) - len(outs))
    items, idx = [], []
    codes = [-1] * len(cases)
    for i, (p, o) in enumerate(zip(cases, outs)):
        if 'fatal' in o or not o.get('completed'):
            continue
        items.append(rt_item(p, o))
        idx.append(i)
    body = 'Eval vm_compute in map (fun c => match c with (p, off, sch, evs) => rt_compare off p sch evs end) cases.'
    res = ctx.coq_shards(name, HEADER, items, body, shard=20)
    for rc, out, base in res:
        cs = fw.parse_nat_list(out) if rc == 0 else None
        if cs is None:
            for j in range(base, min(base + 20, len(idx))):
                codes[idx[j]] = -2
            continue
        for j, c in enumerate(cs):
            codes[idx[base + j]] = c
    return outs, codes


# ------------------------------------------------------------------ monitors (search): no model involved
def monitors(p, o):
    """Check the property statements directly on what the real library did (NRT run).
    -> list of (theorem, signature-key, text)"""
    bad = []
    ev = o['events']
    F = Fraction
    res = {}            # rid -> list of (k, clock, secs, beats)
    plays = {}          # child -> (clock, secs)
    defs = {}
    nplay = 0
    order = []
    for e in ev:
        if e[0] == 'resume':
            res.setdefault(e[1], []).append((e[2], e[3], F(e[4]), F(e[5])))
            order.append(F(e[4]))
        elif e[0] == 'play':
            plays[e[2]] = (e[3], F(e[4]), e[1])
    # which body does routine rid run?  replay the play order on the script
    # (children are numbered in the order play() was called; the script tells which body)
    body_of = {}
    pending = []
    for e in ev:
        if e[0] == 'play':
            body_of[e[2]] = None
    # derive body index: walk events and scripts together
    progress = {}       # rid -> index into its body
    def next_play_target(acts, start):
        for j in range(start, len(acts)):
            if acts[j][0] in ('P', 'F'):
                return j
        return None
    main_idx = 0
    for e in ev:
        if e[0] != 'play':
            continue
        org = e[1]
        if org is None:
            j = next_play_target(p['main'], main_idx)
            if j is None:
                break
            body_of[e[2]] = p['main'][j][1]
            main_idx = j + 1
        else:
            rid = org[0]
            b = body_of.get(rid)
            if b is None:
                continue
            j = next_play_target(p['bodies'][b], progress.get(rid, 0))
            if j is None:
                continue
            body_of[e[2]] = p['bodies'][b][j][1]
            progress[rid] = j + 1
    negative = any(a[0] == 'Y' and F(a[1]) < 0 for b in p['bodies'] for a in b)
    for rid, lst in res.items():
        b = body_of.get(rid)
        if b is None:
            continue
        ys = []
        for a in p['bodies'][b]:
            if a[0] == 'R':
                break
            if a[0] == 'Y':
                ys.append(F(a[1]))
        b0 = lst[0][3]
        for (k, c, secs, beats) in lst:
            exp = b0 + sum(ys[:k], F(0))
            if beats != exp:
                bad.append(('kth_resume_time', 'F11', 'routine %d resumption %d on clock %s: beats %s, expected start %s + yields %s = %s'
                            % (rid, k, c, beats, b0, [str(y) for y in ys[:k]], exp)))
                break
        # seconds on a TempoClock whose tempo is never changed in the run: s_k = s_0 + (sum of deltas) / tempo
        c0 = lst[0][1]
        if c0 not in ('S', 'A') and not any(e[0] == 'tempo' and e[2] == c0[1] and e[4] for e in ev):
            tp = F(p['tempos'][c0[1]]) or F(1)
            for (k, c, secs, beats) in lst:
                exp = lst[0][2] + sum(ys[:k], F(0)) / tp
                if secs != exp:
                    bad.append(('kth_resume_time_seconds', None, 'routine %d resumption %d on TempoClock %d (tempo %s, never changed): seconds %s, expected %s'
                                % (rid, k, c0[1], tp, secs, exp)))
                    break
        if rid in plays:
            c, T, org = plays[rid]
            if lst[0][2] != T:
                bad.append(('child_starts_at_parent_time', 'F20', 'routine %d was played on clock %s at logical time %s but starts at %s'
                            % (rid, c, T, lst[0][2])))
    if not negative:
        for a, b in zip(order, order[1:]):
            if b < a:
                bad.append(('nrt_time_monotone', 'F20', 'logical time runs backwards between executed tasks: %s then %s' % (a, b)))
                break
    if order and F(o['elapsed']) != order[-1]:
        bad.append(('nrt_elapsed_ends_at_last_instant', None, 'elapsed_time() = %s, last executed task at %s' % (o['elapsed'], order[-1])))
    return bad


def gen_ties_prog(rng, k):
    """Class (7): FIFO among equal times.  Several routines of one clock are due at the SAME beat again and again (same
    yields), routines of another clock are due at the same SECONDS, every wake-up sends a message (so the order is visible in the
    score), and a routine of a third thread changes the tempo while the ties are pending (re-timing / re-adding the tied tasks)."""
    t0 = rng.choice(['1', '2', '1/2', '4'])
    c = [['T', 0], 'S', ['T', 1], 'A'][k % 4]
    n = rng.randint(3, 5)
    d = Fraction(rng.choice(['1/4', '1/2', '1']))
    steps = rng.randint(2, 4)
    bodies = [[]]
    mid = 0
    for w in range(n):                       # the tied workers on clock c
        b = []
        for _ in range(steps):
            b += [['S', rng.choice(['0', None, '1/8']), mid], ['Y', str(d)]]
            mid += 1
        b.append(['M', mid]); mid += 1
        bodies.append(b)
        bodies[0].append(['P', len(bodies) - 1, c])
    # workers of another clock due at the same SECONDS
    tc = Fraction(t0) if c == ['T', 0] else Fraction(1)
    oc = 'S' if c != 'S' else ['T', 1]
    for w in range(2):
        b = []
        for _ in range(steps):
            b += [['S', '0', mid], ['Y', str(d / tc)]]
            mid += 1
        bodies.append(b)
        bodies[0].insert(rng.randint(0, len(bodies[0])), ['P', len(bodies) - 1, oc])
    # the tempo of T0 changes while ties are pending (re-time), then again at a tie instant
    changer = [['Y', str(d / tc / 2)], ['T', 0, rng.choice(['2', '4', '1/2'])], ['Y', str(d / tc / 2)], ['T', 0, t0], ['S', '0', mid]]
    bodies.append(changer)
    bodies[0].insert(rng.randint(0, len(bodies[0])), ['P', len(bodies) - 1, rng.choice(['S', 'A'])])
    return spice(rng, {'tempos': [t0, '1'], 'bodies': bodies, 'main': [['P', 0, rng.choice(['S', ['T', 0]])]], 'tail': '0'})


def _two_site(node, bad, where):
    """class (6): the seconds in the list view and the timetag in the bytes of the SAME bundle (any depth)"""
    if node[0] != 'b' or node[1]:
        return
    t = Fraction(node[2])
    if t >= 0 and node[3] != int(float(t) * 4294967296.0):
        bad.append(('score_times_exact', None, '%s: list view says %s s, the bytes carry timetag %s (= %s s)'
                    % (where, t, node[3], Fraction(node[3], 1 << 32))))
    for x in node[4]:
        _two_site(x, bad, where + ' / nested')


def score_monitors(p, o):
    bad = []
    F = Fraction
    sc = o['score']
    for j, s in enumerate(sc):
        _two_site(s, bad, 'score entry %d' % j)
    times = [F(s[2]) for s in sc]
    # equal times must appear in SEND order (position of the bundle among the send events of the run)
    sent = [e[5] for e in o['events'] if e[0] == 'send' and e[5] is not None]
    pos, used = [], set()
    for s_ in sc:
        idx = next((i for i, x in enumerate(sent) if i not in used and x == s_), None)
        if idx is not None:
            used.add(idx)
        pos.append(idx)
    for a in range(len(sc) - 1):
        if times[a] == times[a + 1] and pos[a] is not None and pos[a + 1] is not None and pos[a] > pos[a + 1] and sc[a] != sc[a + 1]:
            bad.append(('score_sorted_stable', None, 'two bundles due at %s s are listed against their send order: %s (sent %d-th) before %s (sent %d-th)'
                        % (times[a], sc[a][4], pos[a], sc[a + 1][4], pos[a + 1])))
            break
    if any(b < a for a, b in zip(times, times[1:])):
        bad.append(('score_sorted_stable', None, 'score not ordered by time: %s' % [str(t) for t in times]))
    if not sc or sc[-1][4] != [['m', -1]]:
        bad.append(('score_ends_with_tail_marker', 'F17',
                    'the score does not close with the tail marker: marker at %s, last bundle at %s'
                    % ([s[2] for s in sc if s[4] == [['m', -1]]], sc[-1][2] if sc else None)))
    for e in o['events']:
        if e[0] == 'send' and e[5] is not None:
            T, lat = F(e[2]), e[3]
            lv = F(0) if lat is None or F(lat) < 0 else F(lat)
            exp = lv + (T if e[1] is not None else 0)
            if F(e[5][2]) != exp or e[5][3] != int(exp * (1 << 32)):
                bad.append(('stamp_is_logical_plus_latency', None, 'bundle sent at logical %s with latency %s is stamped %s / %s'
                            % (T, lat, e[5][2], e[5][3])))
            if not any(s == e[5] for s in sc):
                bad.append(('score_times_exact', None, 'bundle %s is not in the score' % (e[5],)))
    return bad


# ------------------------------------------------------------------ scenario class: every (parent clock, child clock) pair
CLOCK_KINDS = ['S', 'A', ['T', 0], ['T', 1]]
NONUNIT_TEMPI = ['2', '1/2', '4', '1/4']


def gen_cross_prog(rng, k, rt=False):
    """A routine started at a NON-ZERO time on clock pc advances its time, then starts a child on clock cc, which
    starts a grandchild on a third clock; k enumerates all (pc, cc) pairs (incl. App<-Tempo, Tempo<-App,
    Tempo_i<-Tempo_j); the two TempoClocks have different tempi != 1, so beats != seconds everywhere."""
    kinds = [c for c in CLOCK_KINDS if not (rt and c == 'A')]
    pairs = [(a, b) for a in kinds for b in kinds]
    pc, cc = pairs[k % len(pairs)]
    t0, t1 = rng.sample(['2', '1/2', '4'] if rt else NONUNIT_TEMPI, 2)
    scale = Fraction(1, 64) if rt else Fraction(1)

    def d():
        return str(Fraction(rng.choice(['1/8', '1/4', '3/8', '1/2', '1', '3/4'])) * scale)

    def send():
        return ['S', rng.choice(['0', '1/8', '1/4', None]), rng.randint(0, 99)]
    root = [['Y', d()], ['P', 1, pc]]
    play = ['F', 2] if (pc == cc and rng.random() < 0.3) else ['P', 2, cc]
    parent = [send(), ['Y', d()]]
    if rng.random() < 0.4:
        parent.append(['Y', d()])
    if pc not in ('S', 'A') and rng.random() < 0.4:
        parent.append(['T', pc[1], rng.choice(['2', '1/2', '4'])])
    parent += [play, send(), ['Y', d()], send()]
    gc = rng.choice(kinds)
    child = [send(), ['Y', d()], ['P', 3, gc], ['Y', d()], send()]
    grand = [send(), ['Y', d()], send()]
    return spice(rng, {'tempos': [t0, t1], 'bodies': [root, parent, child, grand],
                       'main': [['P', 0, 'S' if rt else rng.choice(['S', 'S', 'A', ['T', 1]])]], 'tail': '0'}, rt)


def gen_rt_tempo_prog(rng):
    """RT scenario class: routines ON a TempoClock change its tempo while running late (the runner busy-waits before
    every tempo change), then yield and send bundles with latency; sometimes a routine on another clock changes it."""
    tempos = [rng.choice(['1', '2', '4', '1/2']), rng.choice(['2', '4', '1/2'])]

    def d():
        return str(Fraction(rng.choice(['1/8', '1/4', '3/8', '1/2'])) / 32)

    def send():
        r = rng.random()
        if r < 0.6:
            return ['S', rng.choice(['0', '1/8', '1/4', '1/2', None, '-1/4']), rng.randint(0, 99)]
        return ['B', rng.choice(['0', '1/8']), [['m', rng.randint(0, 99)], ['b', '1/4', [['m', rng.randint(0, 99)]]]]]

    def tempo_body(i):
        b = [send(), ['Y', d()]]
        for _ in range(rng.randint(1, 2)):
            b += [['T', i, rng.choice(['1', '2', '4', '1/2'])], ['Y', d()], send()]
            if rng.random() < 0.5:
                b += [['Y', d()], send()]
        return b
    bodies = [tempo_body(0), tempo_body(1)]
    other = [['Y', d()], ['T', 0, rng.choice(['2', '4'])], ['Y', d()], send()]
    bodies.append(other)
    main = [['P', 0, ['T', 0]]]
    r = rng.random()
    if r < 0.4:
        main.append(['P', 1, ['T', 1]])
    elif r < 0.6:
        main.append(['P', 0, ['T', 0]])       # two routines of the same clock, both changing its tempo
    elif r < 0.75:
        main.append(['P', 2, 'S'])            # the tempo is changed from another clock's thread
    return spice(rng, {'tempos': tempos, 'bodies': bodies, 'main': main, 'tail': '0'}, True)


# ------------------------------------------------------------------ law probes: sched / defer / play / beats setter / etempo
def probe_combos(rt):
    kinds = [c for c in CLOCK_KINDS if not (rt and c == 'A')]
    combos = []
    for op in (['sched', 'play'] if rt else ['sched', 'defer', 'play']):
        for parent in kinds:
            for target in kinds:
                combos.append((op, parent, target))
    for op in (['beats', 'tempo', 'tempo', 'reads'] if rt else ['beats', 'etempo', 'tempo', 'reads']):
        for i in range(2):
            combos.append((op, ['T', i], ['T', i]))
    # reset / stop / pause+resume and the documented NO-OPS (play / resume on a playing routine, anything on a stopped one, pause on a
    # paused one) by another routine while a wake-up is pending: every operation kind on every victim clock in every run
    sops = ['noop_play', 'reset', 'stop_then_noops', 'pause_noops_resume'] + ([] if rt else ['stop', 'pause_resume', 'noop_play'])
    for ti, target in enumerate(kinds):
        for si, sop in enumerate(sops):
            parent = target if rt else kinds[(ti + si) % len(kinds)]   # RT: controller on the victim's own clock thread (one order)
            combos.append(('state_op:' + sop, parent, target))
    for parent in kinds:                                  # play with a Quant (default, int, tuple, Quant; negative phases) onto a TempoClock
        for target in (['T', 0], ['T', 1]):
            combos.append(('playq', parent, target))
    for parent in kinds:                                  # re-scheduling a task that is running / pending
        combos.append(('self_resched', parent, parent))
    for target in kinds:
        combos.append(('other_resched', rt and 'S' or kinds[(kinds.index(target) + 1) % len(kinds)], target))
        if target != 'A':                                   # AppClock has no sched_abs
            combos.append(('sched_abs', kinds[(kinds.index(target) + 2) % len(kinds)], target))
    # the pairs a seeded change is most likely to hide in come first: App <- Tempo, Tempo <- App, Tempo_i <- Tempo_j
    prio = [x for x in combos if x[1] != x[2] and 'S' not in (x[1], x[2])]
    return prio + [x for x in combos if x not in prio]


def gen_probe(rng, k, rt=False):
    combos = probe_combos(rt)
    op, parent, target = combos[k % len(combos)]
    scale = Fraction(1, 32) if rt else Fraction(1)
    q = lambda: str(Fraction(rng.choice(['1/8', '1/4', '3/8', '1/2', '1'])) * scale)
    t0, t1 = rng.sample(['2', '1/2', '4'], 2)
    zero = rng.random() < 0.25                             # class (1): explicit 0 / 0.0 / int deltas
    pr = {'tempos': [t0, t1], 'parent': parent, 'target': target, 'op': op, 'start': q(), 'adv': q(),
          'ints': rng.random() < 0.4, 'val2': rng.choice([None, '2', '4', '1/2']),
          'delta': '0' if (zero and op in ('sched', 'defer', 'sched_abs')) else q(),
          'val': rng.choice(['2', '4', '1/2', '1']) if op in ('etempo', 'tempo') else
          # RT: only move the beats forward (a task moved to the past runs at once; moved to the future it would wait)
          str(Fraction(rng.randint(512, 1024), 8) if rt else Fraction(rng.randint(0, 64), 8)),
          'after': q()}
    if op.startswith('state_op:'):
        pr['sop'] = op.split(':')[1]
        pr['op'] = op = 'state_op'
        pr['n'] = rng.randint(3, 5)
        pr['after'] = str(scale)                                               # the victim's delta (beats of ITS clock)
        # the operation falls strictly BETWEEN two wake-ups of the victim, while it still has yields to go
        tt_ = Fraction(1) if target in ('S', 'A') else Fraction(pr['tempos'][target[1]])
        tp_ = Fraction(1) if parent in ('S', 'A') else Fraction(pr['tempos'][parent[1]])
        m0 = rng.randint(0, pr['n'] - 2)
        pr['adv'] = str((Fraction(m0) + Fraction(rng.choice([1, 3, 5]), 8)) * scale / tt_ * tp_)
        pr['adv2'] = str(Fraction(rng.choice([1, 3, 5]), 32) * scale)
        pr['rquant'] = '0' if rt else rng.choice([None, '0'])
    if op == 'playq':
        qn = rng.choice([1, 2, 4, 3])
        ph = Fraction(rng.randint(-(4 * qn - 1), 4 * qn - 1), 4)          # any phase in (-quant, quant), negative ones included
        pr['quant'] = rng.choice([None, ['int', str(qn)], ['tuple', str(qn), str(ph)], ['Quant', str(qn), str(ph)],
                                  ['Quant', str(qn), str(-abs(ph))], ['tuple', '0', str(abs(ph))]])
        pr['how'] = rng.choice(['routine.play', 'clock.play'])
        pr['bpb'] = rng.choice(['3', '5']) if parent == target else None    # parent on the target clock: the bar line is moved first
        if parent == target and not rt:
            pr['quant'] = rng.choice([['int', str(qn)], ['Quant', str(qn), str(ph)], ['tuple', str(qn), str(-abs(ph))]])
        if rt:
            pr['quant'] = rng.choice([['int', '0'], ['tuple', '0', '0'], pr['quant'] if pr['quant'] and Fraction(pr['quant'][1]) == 0 else ['int', '0']])
    if op == 'other_resched':                              # the re-scheduling must come while the victim is still pending
        pr['adv'], pr['after'] = str(Fraction(1, 8) * scale), str(scale)
        if rng.random() < 0.5:
            pr['delta'] = str(6 * scale)                   # ... and moves the wake-up LATER than the one it replaces
    return pr


def probe_expected(pr, o):
    """The laws, computed by the harness (Fractions): returns list of (what, observed, expected) that differ."""
    F = Fraction
    bad = []
    if 'fatal' in o:
        return [('probe crashed', o['fatal'][-300:], '')]
    if not o.get('done'):
        return None                                    # not completed (RT under load): not compared
    base = [F(x) for x in o['clock_base']]
    tempo = [F(t) for t in pr['tempos']]

    def s2b(c, s):
        return s if c in ('S', 'A') else (s - base[c[1]]) * tempo[c[1]]

    def dur(c, beats):                                   # seconds spanned by `beats` of clock c
        return beats if c in ('S', 'A') else beats / tempo[c[1]]
    T0 = F(o['root']['secs'])
    T = T0 + F(pr['start']) + dur(pr['parent'], F(pr['adv']))

    def chk(what, got, exp):
        if F(got) != exp:
            bad.append((what, str(got), str(exp)))
    chk('parent logical seconds at the operation', o['at_op']['secs'], T)
    chk('parent clock beats at the operation', o['at_op']['beats'], s2b(pr['parent'], T))
    op, tg = pr['op'], pr['target']
    chk('beats of clock %s read from a routine on %s' % (clock_name(tg), clock_name(pr['parent'])), o['target_beats_at_op'], s2b(tg, T))
    import math
    if op == 'reads':
        r = o['reads']
        for name in ('System.seconds', 'System.beats', 'App.seconds', 'clock.seconds'):
            chk(name + ' read from a late routine', r[name], T)
        for j in range(2):
            b = s2b(['T', j], T)
            chk('T%d.beats' % j, r['T%d.beats' % j], b)
            chk('T%d.seconds' % j, r['T%d.seconds' % j], T)
            chk('T%d.next_time_on_grid(1, 0)' % j, r['T%d.next_time_on_grid' % j], F(math.ceil(b)))
            chk('T%d.time_to_next_beat(1)' % j, r['T%d.time_to_next_beat' % j], F(math.ceil(b)) - b)
            chk('T%d.bar()' % j, r['T%d.bar' % j], F(math.floor(b / 4)))
            chk('T%d.next_bar()' % j, r['T%d.next_bar' % j], F(math.ceil(b / 4)) * 4)
            chk('T%d.beat_in_bar()' % j, r['T%d.beat_in_bar' % j], b - F(math.floor(b / 4)) * 4)
    elif op == 'self_resched':
        dd = dur(pr['parent'], F(pr['after']))
        if [F(x) for x in o['resumes']] != [T + dd, T + 2 * dd]:
            bad.append(('a routine on %s that calls clock.sched(%s, itself) and then yields %s twice: seconds of its resumptions'
                        % (clock_name(pr['parent']), pr['delta'], pr['after']), str(o['resumes']), str([str(T + dd), str(T + 2 * dd)])))
    elif op == 'other_resched':
        T2 = T + dur(pr['parent'], F(pr['adv']))
        chk('seconds when the pending routine was scheduled again', o['at_resched']['secs'], T2)
        tt = None if tg in ('S', 'A') else (F(pr['val2']) if pr.get('val2') else tempo[tg[1]])
        d1 = F(pr['delta']) if tt is None else F(pr['delta']) / tt
        d2 = F(pr['after']) if tt is None else F(pr['after']) / tt
        exp = [T, T2 + d1, T2 + d1 + d2]
        # RT only: the victim's clock thread may not have started it yet when the other thread schedules it again; then the
        # re-scheduling replaces its FIRST wake-up (still exactly one pending wake-up)
        alt = [T2 + d1, T2 + d1 + 4 * d2, T2 + d1 + 5 * d2]
        got = [F(x) for x in o['resumes']]
        if got != exp and not (o['clock_base'] and F(o['root']['secs']) != 0 and got == alt):
            bad.append(('routine on %s, pending, scheduled again with %s.sched(%s, routine)%s: seconds of its resumptions (one wake-up, the new one)'
                        % (clock_name(tg), clock_name(tg), pr['delta'], ' then tempo = %s' % pr['val2'] if tt is not None and pr.get('val2') else ''),
                        str(o['resumes']), str([str(x) for x in exp])))
    if op in ('sched', 'defer', 'sched_abs'):
        exp = T + dur(tg, F(pr['delta']))
        chk('%s(%s) from a routine on %s onto %s: logical seconds when the function ran' % (op, pr['delta'], pr['parent'], tg), o['ran']['secs'], exp)
        chk('target clock beats when the function ran', o['ran']['beats'], s2b(tg, T) + (F(pr['delta']) if tg not in ('S', 'A') else dur(tg, F(pr['delta']))))
    if op == 'state_op':
        d = F(pr['after'])
        step = dur(tg, d)
        ttempo = F(1) if tg in ('S', 'A') else tempo[tg[1]]
        b0 = s2b(tg, T)
        T2 = T + dur(pr['parent'], F(pr['adv']))
        n = pr['n']
        m = 0
        while T + m * step < T2 and m <= n:
            m += 1                                       # resumptions 0 .. m-1 happened before the operation
        exp = [(T + j * step, b0 + j * d) for j in range(min(m, n + 1))]
        sop = pr['sop']
        if sop == 'noop_play':
            # play() / resume() on a routine that is already playing are documented no-ops: the whole timeline is untouched
            exp = [(T + j * step, b0 + j * d) for j in range(n + 1)]
        elif m <= n:
            if sop == 'reset':                           # restarts from its first line at the pending wake-up, on ITS clock
                D = T + m * step
                exp += [(D + i * step, b0 + (m + i) * d) for i in range(n + 1)]
            elif sop in ('pause_resume', 'pause_noops_resume'):
                T3 = T2 + dur(pr['parent'], F(pr['adv2']))
                bb = s2b(tg, T3)
                if tg in ('S', 'A') or pr.get('rquant') is not None:
                    g = bb
                else:
                    g = F(math.ceil(bb))                 # resume() plays on the routine's clock with the default Quant
                s3 = T3 + (g - bb) / ttempo
                exp += [(s3 + i * step, g + i * d) for i in range(n + 1 - m)]
        got = [(F(a), F(b)) for a, b in o['resumes']]
        if got != exp:
            k = next((i for i, (x, y) in enumerate(zip(got, exp)) if x != y), min(len(got), len(exp)))
            bad.append(('routine on %s (delta %s) that a routine on %s %ss at logical time %s while its wake-up is pending: (seconds, beats) of its '
                        'resumptions, first difference at index %d' % (clock_name(tg), pr['after'], clock_name(pr['parent']), sop, T2, k),
                        str([(str(a), str(b)) for a, b in got[max(0, k - 1):k + 2]]), str([(str(a), str(b)) for a, b in exp[max(0, k - 1):k + 2]])))
    if op == 'playq':
        # documented: the child starts at the NEXT beat >= now on the grid  base_bar_beat + phase + n * quant  (phase within
        # (-quant, quant), a negative one counts back from the next grid line); quant 0: now + phase; never before now
        qd = pr['quant']
        qn, ph = (F(1), F(0)) if qd is None else (F(qd[1]), F(qd[2]) if len(qd) > 2 else F(0))
        b = s2b(tg, T)
        base = F(o['base_bar_beat'])
        if qn == 0:
            g = b + ph
        else:
            phn = ph - qn * math.floor(ph / qn)
            g = base + phn + qn * math.ceil((b - base - phn) / qn)
        ttempo = tempo[tg[1]]
        chk('child played on %s with quant %s from a routine on %s at beat %s: beat of its first resumption (next grid point, never before now)'
            % (clock_name(tg), qd, clock_name(pr['parent']), b), o['ran']['beats'], g)
        chk('seconds of that first resumption', o['ran']['secs'], T + (g - b) / ttempo)
        if qn != 0 and F(o['ran']['secs']) < T:
            bad.append(('child start versus parent logical time', 'starts at %s, BEFORE the parent\'s %s' % (o['ran']['secs'], T), '>= %s' % T))
    if op == 'play':
        chk('child played on %s from a routine on %s: seconds of its first resumption' % (tg, pr['parent']), o['ran']['secs'], T)
    elif op == 'beats':
        chk('clock.beats right after clock.beats = v', o['after_set']['beats'], F(pr['val']))
        chk('seconds right after clock.beats = v', o['after_set']['secs'], T)
        # documented: the change re-bases the clock at the thread's LOGICAL time; a task already running keeps its
        # beat position, so after yielding d it is due at beat (old beats + d), whose seconds follow the new base
        ob = s2b(pr['parent'], T)
        chk('beats after clock.beats = v and yielding d', o['ran']['beats'], ob + F(pr['after']))
        chk('seconds after clock.beats = v and yielding d', o['ran']['secs'], T + dur(pr['parent'], ob + F(pr['after']) - F(pr['val'])))
    elif op == 'tempo':
        T2 = T + F(pr['after']) / F(pr['val'])
        chk('beats right after clock.tempo = v (issued by a routine of that clock)', o['after_set']['beats'], s2b(pr['parent'], T))
        chk('logical seconds after clock.tempo = v and yielding d beats (must be T + d / v whatever the lateness)', o['ran']['secs'], T2)
        chk('beats after clock.tempo = v and yielding d', o['ran']['beats'], s2b(pr['parent'], T) + F(pr['after']))
        if 'timetag' in o:
            chk('timetag - offset of a bundle sent with latency %s after the tempo change (logical time + latency, in 2^-32 s)' % pr['delta'],
                int(o['timetag']) - int(o['osc_offset']), (T2 + F(pr['delta'])) * (1 << 32))
    elif op == 'etempo':
        chk('beats right after etempo', o['after_set']['beats'], s2b(pr['parent'], T))
        chk('seconds after etempo(v) and yielding d', o['ran']['secs'], T + F(pr['after']) / F(pr['val']))
        chk('beats after etempo(v) and yielding d', o['ran']['beats'], s2b(pr['parent'], T) + F(pr['after']))
    return bad


# ------------------------------------------------------------------ strengthening 2 (C05): survivors next to tasks that end / raise
ENDER_KINDS = ['routine_end', 'routine_raise', 'func_end', 'func_raise', 'func_num', 'routine_raise_first', 'func_stop',
               'nested_raise', 'nested_end']


def gen_alongside(rng, k, rt=False):
    """Survivor routines on SystemClock and on TempoClocks (tempi powers of two) yield a small delta many times; on AppClock
    and on every other clock short routines END or RAISE and functions return or raise at staggered instants in between.
    k rotates which clock hosts most of the enders (AppClock first: it runs the drifting Scheduler in real time)."""
    tempos = rng.sample(['2', '4', '1/2', '1'], 2)
    n = rng.choice([16, 20, 24])
    step = Fraction(1, 64)
    surv = [{'clock': 'S', 'delta': str(step), 'n': n}]
    for i in range(2):
        if rng.random() < 0.8:
            surv.append({'clock': ['T', i], 'delta': str(step * Fraction(tempos[i])), 'n': n})   # the same span in seconds
    hosts = [['A', 'S', ['T', 0], ['T', 1]][k % 4]] * 3 + ['A', 'S', ['T', 0], ['T', 1]]
    enders = []
    span = step * n
    for j in range(rng.randint(10, 16)):
        c = rng.choice(hosts)
        delay = span * Fraction(rng.randint(1, 120), 128) + Fraction(rng.randint(1, 7), 1024)    # off the survivors' grid
        if c not in ('S', 'A'):
            delay = delay * Fraction(tempos[c[1]])
        enders.append({'clock': c, 'kind': ENDER_KINDS[(j + k) % len(ENDER_KINDS)], 'delay': str(delay)})
    return {'tempos': tempos, 'survivors': surv, 'enders': enders, 'start': str(Fraction(rng.randint(1, 8), 128))}


def alongside_expected(pr, o):
    """kth_resume law for every survivor: seconds_k = seconds_0 + k * delta / tempo, beats_k = beats_0 + k * delta."""
    F = Fraction
    if 'fatal' in o:
        return [('probe crashed', o['fatal'][-300:], '')]
    if o.get('lost_wakeup'):
        return [('survivors', 'not all ended and no clock holds a wake-up for them (main lock held: independent of load)', 'every yield re-scheduled')]
    if not o.get('completed'):
        return None
    bad = []
    for spec, lst in zip(pr['survivors'], o['survivors']):
        c = spec['clock']
        tempo = F(1) if c in ('S', 'A') else F(pr['tempos'][c[1]])
        d = F(spec['delta'])
        s0, b0 = F(lst[0][0]), F(lst[0][1])
        for k, (s, b) in enumerate(lst):
            es, eb = s0 + k * d / tempo, b0 + k * d
            if F(s) != es or F(b) != eb:
                bad.append(('survivor on %s, resumption %d: logical seconds / beats' % (clock_name(c), k),
                            '%s / %s (seconds off by %s)' % (s, b, F(s) - es), '%s / %s' % (es, eb)))
                break
    if o.get('current_tt_is_main') is False:
        bad.append(('main.current_tt after all tasks ran', 'not the main time thread', 'the main time thread'))
    if o.get('in_awake_call'):
        bad.append(('main._in_awake_call after all tasks ran', 'True', 'False'))
    return bad


# ------------------------------------------------------------------ strengthening 2 (C07): oversized bundles
CLUMP_ROUTES = ['clumped', 'bundlenetaddr', 'bundlenetaddr_server', 'sync']
CLUMP_LATS = [None, '-1/4', '0', '1/4', '-1', '1/8']


def gen_clump(rng, k, rt=False):
    route = CLUMP_ROUTES[k % 4]
    lat = CLUMP_LATS[(k // 4) % len(CLUMP_LATS)]
    inside = True if route == 'sync' else bool((k // 24) % 2 == 0 or rng.random() < 0.5)
    if route == 'bundlenetaddr':
        lat = None
    small = (k % 11 == 10)                       # now and then a bundle that fits: one piece, the latency untouched
    blob = rng.choice([3000, 4000, 5000])
    return {'route': route, 'lat': lat, 'inside': inside, 'start': str(Fraction(rng.randint(1, 8), 128 if rt else 4)),
            'nmsg': 3 if small else 70000 // blob + rng.randint(2, 8), 'blob': blob}


def clump_expected(pr, o, mode):
    """What the property allows.  Latency None / negative = "immediately": EVERY piece carries IMMEDIATELY (RT, timetag 1),
    resp. is listed at exactly the send time (NRT).  A timed send: piece k carries latency + k * 1e-9 s (k from 1 for
    send_clumped_bundles, from 0 for sync) -- the nanosecond spacing is sc3's documented way to keep the pieces ordered and is
    accepted for the TIMED case only; a bundle that fits in one datagram carries the latency itself."""
    F = Fraction
    if 'fatal' in o:
        return [('probe crashed', o['fatal'][-300:], '')]
    if not o.get('done'):
        return None
    bad = []
    if o.get('error'):
        return [('the send raised', o['error'], 'no exception')]
    pieces = o['pieces']
    ids = [i for pc in pieces for i in pc['ids']]
    if ids != list(range(pr['nmsg'])):
        bad.append(('messages delivered over all pieces, in order', str(ids), str(list(range(pr['nmsg'])))))
    lat = None if pr['lat'] is None else float(F(pr['lat']))
    immediate = lat is None or lat < 0.0
    first_k = 0 if pr['route'] == 'sync' else 1
    if len(pieces) == 1:
        first_k = 0
    T = None if o.get('T') is None else float(F(o['T']))
    for j, pc in enumerate(pieces):
        if immediate:
            if mode == 'rt':
                if int(pc['tag']) != 1:
                    bad.append(('piece %d of %d of a send with latency %s: timetag' % (j, len(pieces), pr['lat']), pc['tag'], '1 (immediately)'))
                    break
            else:
                exp = F(T) if pr['inside'] else F(0)
                if F(pc['time']) != exp or int(pc['tag']) != int(float(exp) * 4294967296.0):
                    bad.append(('piece %d of %d of a send with latency %s: score time / timetag' % (j, len(pieces), pr['lat']),
                                '%s / %s' % (pc['time'], pc['tag']), '%s / %s (exactly the send time)' % (exp, int(float(exp) * 4294967296.0))))
                    break
        else:
            lk = lat
            for _ in range(first_k + j if len(pieces) > 1 else 0):
                lk += 1e-9
            if mode == 'rt':
                if T is None:
                    continue                                   # outside routines each piece reads the physical clock: only order is checked
                exp = int((lk + T) * 4294967296.0) + int(o['osc_offset'])
                if int(pc['tag']) != exp:
                    bad.append(('piece %d of %d of a send with latency %s at logical time %s: timetag' % (j, len(pieces), pr['lat'], o['T']), pc['tag'], str(exp)))
                    break
            else:
                t = lk + T if pr['inside'] else lk
                if F(pc['time']) != F(t) or int(pc['tag']) != int(t * 4294967296.0):
                    bad.append(('piece %d of %d of a send with latency %s: score time / timetag' % (j, len(pieces), pr['lat']),
                                '%s / %s' % (pc['time'], pc['tag']), '%s / %s (send time + latency + k ns)' % (F(t), int(t * 4294967296.0))))
                    break
    if not immediate:
        tags = [int(pc['tag']) for pc in pieces]
        if any(b < a for a, b in zip(tags, tags[1:])):
            bad.append(('timetags of successive pieces', str(tags), 'non-decreasing'))
    return bad


# ------------------------------------------------------------------ round 3 (C07): bundles nested in messages; oracle = the Coq stamping model
def gen_msgnest(rng, k, rt=False):
    """A message whose argument is a bundle [lat, elems...] (completion message), sent with send_msg or inside send_bundle,
    from outside routines and from a (late) routine on every kind of clock; latencies None / negative / 0 / positive / edges."""
    parents = [None, 'S', ['T', 0], ['T', 1]] + ([] if rt else ['A'])
    parent = parents[k % len(parents)]
    form = ['msg', 'msg', 'in_bundle'][(k // len(parents)) % 3]
    lat = rng.choice(LATS + (EDGE_LATS if rng.random() < 0.3 else []))
    scale = Fraction(1, 32) if rt else Fraction(1)
    q_ = lambda: str(Fraction(rng.choice(['1/8', '1/4', '3/8', '1/2', '1'])) * scale)
    return {'tempos': rng.sample(['2', '1/2', '4'], 2), 'parent': parent, 'form': form, 'lat': lat,
            'outer': rng.choice([None, '0', '1/4', '-1/4', '2']),
            'es': gen_elems(rng, lat, 2, valid=rng.random() < 0.85), 'start': q_(), 'adv': q_(), 'ints': rng.random() < 0.4}


MSGNEST_HEADER = HEADER_NRT + """
Fixpoint tags_eqb (a b : selem) {struct a} : bool :=
  match a, b with
  | SMsg m, SMsg n => Z.eqb m n
  | SBundle i _ g es, SBundle i' _ g' es' => Bool.eqb i i' && Z.eqb g g' && list_eqb tags_eqb es es'
  | _, _ => false
  end.
Definition agree (x y : option selem) : bool :=
  match x, y with Some a, Some b => tags_eqb a b | None, None => true | _, _ => false end.
"""


def msgnest_item(pr, o, mode):
    """(model: stamp_bundle <mode> T lat es) versus the nested bundle read back from the bytes"""
    if mode == 'rt':
        md = '(MRt %s)' % cz(int(o['osc_offset']))
    else:
        md = '(MNrt %s)' % cbool(pr['parent'] is not None)
    obs = 'None' if o.get('raised') else '(Some %s)' % selem(o['nested'])
    return '(agree (stamp_bundle %s %s %s %s) %s)' % (md, q(o['T']), olat(pr['lat']), clist(pr['es'], elem), obs)


# ------------------------------------------------------------------ round 3 (C05): wake-up latency larger than the yielded delta
def gen_late_prog(rng):
    """RT: several routines on SystemClock and TempoClocks yield deltas far SMALLER than the time their wake-ups burn (the runner
    busy-waits 3 ms in a large share of the resumptions): the clock threads run behind by more than a delta most of the time."""
    tempos = [rng.choice(['1', '2', '1/2']), rng.choice(['2', '4'])]
    bodies = []
    for j in range(rng.randint(2, 3)):
        b = []
        for _ in range(rng.randint(4, 8)):
            b.append(['Y', str(Fraction(rng.choice(['1', '1/2', '1/4', '2'])) / 1024)])
            if rng.random() < 0.4:
                b.append(['S', rng.choice(['0', '1/8', None, '1/4']), rng.randint(0, 99)])
        bodies.append(b)
    clocks = ['S', ['T', 0], ['T', 1], 'S']
    main = [['P', j, clocks[(j + rng.randrange(4)) % 4]] for j in range(len(bodies))]
    p = spice(rng, {'tempos': tempos, 'bodies': bodies, 'main': main, 'tail': '0'}, True)
    p['busy'] = rng.choice(['1/2', '3/4', '1'])
    return p


# ------------------------------------------------------------------ round 3 (C07): equal times + later-sent earlier bundles
def gen_heap_prog(rng):
    """NRT: runs of bundles falling on the SAME time, followed by later-sent bundles that are due EARLIER (shorter latency), again and
    again, from routines and (absolute times) from outside routines: the queue behind the score is reshuffled many times; the score
    must still list equal times in send order."""
    lats = ['0', '1/8', '1/4', '1/2', '1', '2']
    def block(base_m):
        b, m = [], base_m
        for _ in range(rng.randint(2, 4)):
            L = rng.choice(lats[2:])
            for _ in range(rng.randint(2, 6)):
                b.append(['S', L, m]); m += 1
            for _ in range(rng.randint(1, 4)):
                b.append(['S', rng.choice([l for l in lats if Fraction(l) < Fraction(L)]), m]); m += 1
            if rng.random() < 0.5:
                b.append(['Y', rng.choice(['0', '1/8', '1/4'])])
        return b
    bodies = [block(100 * j) for j in range(rng.randint(1, 3))]
    main = block(900)
    for j in range(len(bodies)):
        main.insert(rng.randint(0, len(main)), ['P', j, rng.choice(['S', 'A', 'S'])])
    p = {'tempos': [], 'bodies': bodies, 'main': [a for a in main if a[0] != 'Y'], 'tail': rng.choice(['0', '1/4'])}
    p['ints'] = rng.random() < 0.3
    p['addr'] = rng.choice(ADDR_KINDS)
    return p


# ------------------------------------------------------------------ round 4 (C07): the score closed from INSIDE a routine
def gen_close_prog(rng):
    """NRT: the routine that runs last (a 'conductor' on SystemClock, AppClock or a TempoClock) closes the score itself, at its
    logical time T > 0, with score.finish(tail) or main.process(tail); helpers and the code outside routines have sent bundles that
    may reach beyond T + tail.  Model: KScore.nrt_run_closed_inside."""
    t0 = rng.choice(['1', '2', '1/2', '4'])
    cc = rng.choice(['S', 'A', ['T', 0]])
    tc = Fraction(t0) if cc == ['T', 0] else Fraction(1)
    lats = [None, '0', '1/4', '1', '2', '4', '-1/4']
    helpers = []
    for h in range(rng.randint(0, 2)):
        b = []
        for _ in range(rng.randint(1, 3)):
            b += [['S', rng.choice(lats), 10 * h + len(b)], ['Y', rng.choice(['1/8', '1/4'])]]
        helpers.append(b)
    cond = []
    for _ in range(rng.randint(1, 3)):
        cond += [['S', rng.choice(lats), 50 + len(cond)], ['Y', str(Fraction(rng.choice(['1', '3/2', '2'])) * tc)]]
    for _ in range(rng.randint(0, 2)):
        cond.append(['S', rng.choice(lats), 70 + len(cond)])
    bodies = helpers + [cond]
    main = [['P', len(bodies) - 1, cc]] + [['P', j, 'S'] for j in range(len(helpers))]
    for _ in range(rng.randint(0, 2)):
        main.insert(rng.randint(0, len(main)), ['S', rng.choice(['0', '1', '3', '6', None]), 90 + len(main)])
    return {'tempos': [t0], 'bodies': bodies, 'main': main, 'tail': '0', 'ints': rng.random() < 0.3, 'addr': rng.choice(ADDR_KINDS),
            'close': {'body': len(bodies) - 1, 'tail': rng.choice(['0', '1/4', '1/2', '4', '-1/4', '-0', '1/8', '1']),
                      'how': rng.choice(['finish', 'process'])}}


CLOSE_HEADER = HEADER_NRT.replace('SC3.model.KCmp.', 'SC3.model.KCmp SC3.model.KScore.') + """
Require Import SC3.model.Osc.
(* the WHOLE binary form: model/KScore.score_raw_osc (C06's encoder applied to the model's score) versus the bytes of score.raw *)
Definition raw_agrees (sc : list sentry) (raw : list Z) : bool :=
  match score_raw_osc true sc with Ok r => list_eqb Z.eqb r raw | Err _ => false end.
Definition closed_agrees (p : prog) (fuel : nat) (tail : Q) (o : nrt_obs) : bool :=
  let st := nrt_loop repaired p fuel (nrt_main repaired p) in
  nrt_completed repaired p fuel && list_eqb event_eqb (rev (n_log st)) (no_events o)
  && score_eqb (n_score (nrt_run_closed_inside repaired p fuel tail)) (no_score o) && Qeq_bool (n_mtime st) (no_elapsed o)
  && score_in_domain (n_score (nrt_run_closed_inside repaired p fuel tail)).
"""


def close_monitor(p, o):
    """the marker of a score closed from a routine at logical time T: last entry, at max(T + tail, last bundle, T)"""
    F = Fraction
    sc = o['score']
    T = F(o['elapsed'])
    tail = F(p['close']['tail'])
    others = [F(s[2]) for s in sc if s[4] != [['m', -1]]]
    marks = [F(s[2]) for s in sc if s[4] == [['m', -1]]]
    exp = max(T + tail, max(others), T)
    if not marks or sc[-1][4] != [['m', -1]] or marks[-1] != exp:
        return ('score closed from inside a routine at logical time %s with tailtime %s (last bundle at %s): the marker is %s, expected the last '
                'entry at %s' % (T, p['close']['tail'], max(others), [str(m) for m in marks] or 'missing', exp))
    return None


# ------------------------------------------------------------------ round 5 (a): routines stepped with next() from outside any clock
def gen_nextdrive(rng, k, rt=False):
    """A routine stepped with next() from the MAIN thread (no clock), optionally through a second routine, or from inside a late
    routine on every kind of clock; at each step it sends bundles (nested, every latency kind).  Stamps vs the Coq kernel at the
    logical time the routine reports; in RT from the main thread that time must lie between two readings of the harness."""
    hosts = [None, None, 'S', ['T', 0], ['T', 1]] + ([] if rt else ['A'])
    host = hosts[k % len(hosts)]
    steps = []
    for _ in range(rng.randint(2, 4)):
        sends = []
        for _ in range(rng.randint(1, 2)):
            lat = rng.choice(LATS)
            sends.append([lat, gen_elems(rng, lat, 2, valid=rng.random() < 0.9)])
        steps.append(sends)
    scale = Fraction(1, 32) if rt else Fraction(1)
    pr = {'tempos': rng.sample(['2', '1/2', '4'], 2), 'host': host, 'wrap': host is None and k % 2 == 1, 'steps': steps,
          'start': str(Fraction(rng.choice(['1/4', '1/2', '1'])) * scale), 'ints': rng.random() < 0.4}
    if rt and host is None:
        # routines PLAYED ON CLOCKS keep waking (small deltas) while the main thread is inside slow next() steps of another routine
        while len(pr['steps']) < 6:
            pr['steps'].append([[rng.choice(LATS), [['m', rng.randint(0, 99)]]]])
        pr['slow_ms'] = rng.choice([4, 6])
        pr['tickers'] = [{'clock': c_, 'delta': str(Fraction(1, 256) * (Fraction(pr['tempos'][c_[1]]) if c_ != 'S' else 1)), 'n': rng.randint(10, 14),
                          'lat': rng.choice(['0', '1/8', '1/4'])} for c_ in rng.sample(['S', ['T', 0], ['T', 1]], 2)]
    return pr


def nextdrive_items(pr, o, mode):
    """-> (coq items, direct failures)"""
    items, bad = [], []
    F = Fraction
    if pr.get('tickers') and o.get('tickers_done'):
        for spec, lst in zip(pr['tickers'], o['tickers']):
            c_ = spec['clock']
            tp = F(1) if c_ == 'S' else F(pr['tempos'][c_[1]])
            d, L = F(spec['delta']), F(spec['lat'])
            s0, b0 = F(lst[0][0]), F(lst[0][1])
            for i, (s_, b_, tag) in enumerate(lst):
                es, eb = s0 + i * d / tp, b0 + i * d
                if F(s_) != es or F(b_) != eb or (tag is not None and int(tag) - int(o['osc_offset']) != (es + L) * (1 << 32)):
                    bad.append('a routine playing on %s while the main thread steps another routine with next(): resumption %d has logical seconds / beats '
                               '%s / %s and timetag - offset %s, expected %s / %s and (seconds + %s) * 2^32 (it must keep its own scheduled time, not the '
                               'time of the routine the main thread is inside)' % (clock_name(c_), i, s_, b_, None if tag is None else int(tag) - int(o['osc_offset']), es, eb, L))
                    break
    for j, rec in enumerate(o['steps']):
        T = rec['T']
        if 'bounds' in rec and not (Fraction(rec['bounds'][0]) <= Fraction(T) <= Fraction(rec['bounds'][1])):
            bad.append('step %d: the routine stepped with next() from the main thread ran at logical time %s, but the physical clock read %s just '
                       'before and %s just after the call (outside a clock wake-up the main thread\'s time is the current time)'
                       % (j, T, rec['bounds'][0], rec['bounds'][1]))
        if 'outer_T' in rec and Fraction(rec['outer_T']) != Fraction(T):
            bad.append('step %d: a routine stepped with next() inside a routine at logical time %s ran at %s' % (j, rec['outer_T'], T))
        for sd in rec['sends']:
            md = '(MRt %s)' % cz(int(o['osc_offset'])) if mode == 'rt' else '(MNrt true)'
            obs = 'None' if sd['raised'] else '(Some %s)' % selem(sd['tree'])
            items.append('(agree (stamp_bundle %s %s %s %s) %s)' % (md, q(T), olat(sd['lat']), clist(sd['es'], elem), obs))
    return items, bad


# ------------------------------------------------------------------ round 5 (b): TempoClock state changes, then the routine keeps sending
CLOCK_CHANGES = ['tempo', 'etempo', 'beats', 'bpb']


def gen_clockseq(rng, k, rt=False):
    kinds = [c for c in CLOCK_CHANGES if not (rt and c == 'etempo')]     # etempo anchors at PHYSICAL time in RT (documented)
    scale = Fraction(1, 64) if rt else Fraction(1)
    seq = [['send', rng.choice(['0', '1/4', None])], ['yield', str(Fraction(rng.choice(['1/4', '1/2', '1'])) * scale)]]
    pos = Fraction(100)
    for j in range(rng.randint(2, 4)):
        ch = kinds[(k + j) % len(kinds)]
        if ch in ('tempo', 'etempo'):
            seq.append([ch, rng.choice(['1', '2', '4', '1/2'])])
        elif ch == 'beats':
            pos += rng.randint(1, 64)
            seq.append(['beats', str(pos if rt else Fraction(rng.randint(0, 32), 8))])   # RT: forward only (no waiting)
        else:
            seq.append(['bpb', rng.choice(['3', '4', '5', '7/2'])])
        for _ in range(rng.randint(1, 3)):
            seq.append(['yield', str(Fraction(rng.choice(['0', '1/4', '1/2', '1', '3/4'])) * scale)])
            seq.append(['send', rng.choice(['0', '1/4', '1/8', None, '-1/4', '1'])])
    # other routines PENDING on the same clock while it is changed (keys never coincide with the changer's)
    bys = [{'offset': str(Fraction(o_, 16) * scale), 'delta': str(Fraction(1, 2) * scale), 'n': rng.randint(3, 6)}
           for o_ in rng.sample([1, 3], rng.choice([1, 2, 2]))]
    # NRT: start late enough that a forward jump of the beats (tasks become due in the past) never reaches negative seconds
    return {'tempo': rng.choice(['1', '2', '4', '1/2']), 'seq': seq,
            'start': str(Fraction(rng.choice(['1/4', '1/2', '1'])) * scale + (0 if rt else 40)),
            'ints': rng.random() < 0.4, 'bystanders': bys}


def clockseq_expected(pr, o, mode):
    """Joint simulation (harness oracle, exact): the routine that changes the clock AND the routines pending on the same clock.  Every
    task is due at a BEAT; its seconds are that beat under the tempo map in force when it runs; a map change re-times everything pending."""
    F = Fraction
    if 'fatal' in o:
        return [('probe crashed', o['fatal'][-300:], '')]
    if not o.get('done') or not o.get('all_done', True):
        return None
    bad = []
    tr = list(o['trace'])
    st = {'t': F(pr['tempo']), 'bs': F(o['clock_base']), 'bb': F(0)}

    def s2b(s_):
        return (s_ - st['bs']) * st['t'] + st['bb']

    def b2s(b_):
        return (b_ - st['bb']) / st['t'] + st['bs']
    first = tr.pop(0)
    T0, key0 = F(first[1]), F(first[2])
    if key0 != s2b(T0):
        bad.append(('beats at the first resumption', str(key0), str(s2b(T0))))
    seq = list(pr['seq'])
    done = []
    bys = pr.get('bystanders', [])
    obs_b = [list(x) for x in o.get('bystanders', [[] for _ in bys])]
    exp_b = [[] for _ in bys]

    def run_main(T, key):
        """execute the changer's steps up to its next yield; -> new key or None when it ended"""
        while seq:
            stp = seq.pop(0)
            done.append(stp)
            k = stp[0]
            if k in ('tempo', 'etempo'):
                cur = s2b(T)
                st.update(bb=cur, bs=T, t=F(stp[1]))
            elif k == 'beats':
                st.update(bs=T, bb=F(stp[1]))
            elif k == 'yield':
                return key + F(stp[1])
            elif k == 'send':
                got = tr.pop(0)
                lat = stp[1]
                imm = lat is None or F(lat) < 0
                due = T + (F(0) if imm else F(lat))
                if mode == 'nrt':
                    if F(got[2]) != due or int(got[3]) != int(due * (1 << 32)):
                        bad.append(('bundle sent with latency %s at logical time %s after %s: score time / timetag' % (lat, T, json.dumps(done[-5:-1])),
                                    '%s / %s' % (got[2], got[3]), '%s / %s' % (due, int(due * (1 << 32)))))
                else:
                    exp = 1 if imm else int(due * (1 << 32)) + int(o['osc_offset'])
                    if int(got[3]) != exp:
                        bad.append(('bundle sent with latency %s at logical time %s after %s: timetag' % (lat, T, json.dumps(done[-5:-1])), got[3], str(exp)))
        return None
    pend = {}                                   # rid -> key ; rid 0 = the changer, j+1 = bystander j
    left = {}
    k0 = run_main(T0, key0)
    if k0 is not None:
        pend[0] = k0
    for j, sp in enumerate(bys):
        exp_b[j].append((T0, key0))
        pend[j + 1] = key0 + F(sp['offset'])
        left[j + 1] = sp['n']
    guard = 0
    while pend and not bad and guard < 1000:
        guard += 1
        dues = sorted((b2s(kv), rid) for rid, kv in pend.items())
        if len(dues) > 1 and dues[0][0] == dues[1][0]:
            return []                           # a tie between two routines: order not specified here, not compared
        T, rid = dues[0]
        key = pend.pop(rid)
        if rid == 0:
            got = tr.pop(0)
            if F(got[1]) != T or F(got[2]) != key:
                bad.append(('after %s: logical seconds / beats of the changing routine at its next resumption' % json.dumps(done[-6:]),
                            '%s / %s' % (got[1], got[2]), '%s / %s' % (T, key)))
                break
            nk = run_main(T, key)
            if nk is not None:
                pend[0] = nk
        else:
            exp_b[rid - 1].append((T, key))
            if left[rid] > 0:
                left[rid] -= 1
                pend[rid] = key + F(bys[rid - 1]['delta'])
    for j in range(len(bys)):
        got = [(F(a), F(b)) for a, b in obs_b[j]]
        if got != exp_b[j] and not bad:
            i = next((i for i, (x, y) in enumerate(zip(got, exp_b[j])) if x != y), min(len(got), len(exp_b[j])))
            bad.append(('routine PENDING on the clock (delta %s beats) while another routine does %s: (seconds, beats) of its resumptions, first '
                        'difference at index %d' % (bys[j]['delta'], json.dumps([x for x in pr['seq'] if x[0] in CLOCK_CHANGES]), i),
                        str([(str(a), str(b)) for a, b in got[max(0, i - 1):i + 2]]), str([(str(a), str(b)) for a, b in exp_b[j][max(0, i - 1):i + 2]])))
    return bad


# ------------------------------------------------------------------ round 8: AppClock tasks in RT; main-thread sends racing a slow clock task
def gen_appclock(rng, k, rt=True):
    """RT AppClock (the drifting Scheduler): several plain functions queued at once -- some due in the SAME tick, one far later -- and a
    routine, all sending with a latency.  AppClock promises no exact logical time, but the time a task runs with must be ITS OWN scheduled
    time: within the bracket of its scheduling, never later than the clock reading it sees, and its bundle is stamped that time + L."""
    base = [Fraction(1, 64), Fraction(1, 32), Fraction(3, 64), Fraction(1, 16)]
    delays = [str(rng.choice(base)) for _ in range(rng.randint(2, 4))]
    delays += [delays[0]] * rng.choice([0, 1, 2])                 # same tick
    delays.append(str(Fraction(rng.choice([1, 2, 3]), 2)))        # one entry pending far in the future
    rng.shuffle(delays)
    return {'delays': delays, 'lat': rng.choice(['0', '1/8', '1/4', '1']), 'routine_steps': rng.randint(2, 4),
            'routine_delta': str(Fraction(rng.choice([1, 2, 3]), 128))}


def appclock_expected(pr, o, mode):
    F = Fraction
    if 'fatal' in o:
        return [('probe crashed', o['fatal'][-300:], '')]
    bad = []
    sched = {i: (F(lo), F(hi)) for i, lo, hi in o['tasks_sched']}
    off = int(o['osc_offset'])
    lat = F(pr['lat'])
    for t in o['tasks']:
        T, now = F(t['T']), F(t['now'])
        if int(t['tag']) - off != (T + lat) * (1 << 32):
            bad.append(('%s: timetag - offset' % t['name'], str(int(t['tag']) - off), '(its logical time %s + latency %s) * 2^32' % (T, lat)))
        if T > now:
            bad.append(('%s on AppClock: the logical time it runs with' % t['name'], '%s, LATER than the clock reading %s it sees (the time of another queued task)' % (T, now), '<= %s' % now))
        if t['name'].startswith('function'):
            i = int(t['name'].split()[1])
            lo, hi = sched[i]
            if not (lo <= T <= hi):
                bad.append(('%s on AppClock (scheduled with delay %s): the logical time it runs with' % (t['name'], pr['delays'][i]), str(T),
                            'its own scheduled time, within [%s, %s]' % (lo, hi)))
        elif t['lower'] is not None and T < F(t['lower']):
            bad.append(('%s on AppClock: the logical time it runs with' % t['name'], str(T), '>= %s (re-scheduled after that reading + its delta)' % t['lower']))
        if bad:
            break
    return bad


def gen_race(rng, k, rt=True):
    """slow plain functions on a clock thread (S, T, A by turns) while the main thread keeps sending without holding the library lock"""
    return {'host': ['S', 'T', 'A'][k % 3], 'tempo': rng.choice(['1', '2']), 'ntasks': rng.randint(3, 5), 'gap': str(Fraction(1, 32)),
            'busy_ms': rng.choice([8, 12, 16]), 'lat': rng.choice(['0', '1/4', '1/8'])}


def race_expected(pr, o, mode):
    F = Fraction
    if 'fatal' in o:
        return [('probe crashed', o['fatal'][-300:], '')]
    off = int(o['osc_offset'])
    lat = F(pr['lat'])
    for before, tag, after in o['sends']:
        used = F(int(tag) - off, 1 << 32) - lat
        if not (F(before) <= used <= F(after)):
            return [('bundle sent from the MAIN thread with latency %s while %s runs slow tasks: the time it is stamped from (timetag - latency)' % (pr['lat'], {'S': 'SystemClock', 'T': 'a TempoClock', 'A': 'AppClock'}[pr['host']]),
                     str(used), 'the current time: between the clock readings %s (before the call) and %s (after it)' % (before, after))]
    return []


# ------------------------------------------------------------------ function tasks that send: plain functions woken by a clock
def gen_fntask(rng, k, rt=False):
    """clock.sched(delta, f) on every kind of clock, from the main thread and from a routine on every kind of clock; f sends a bundle
    (nested, every latency kind) when it is woken at logical time t, and once more when it returns a number.  A function task runs
    outside any routine, at the CURRENT time t of its wake-up: its bundle is due at t + latency (RT: timetag of t + latency)."""
    kinds = [c for c in CLOCK_KINDS if not (rt and c == 'A')]
    clock = kinds[k % len(kinds)]
    frm = ([None] + kinds)[(k // len(kinds)) % (len(kinds) + 1)]
    scale = Fraction(1, 32) if rt else Fraction(1)
    q_ = lambda: str(Fraction(rng.choice(['1/8', '1/4', '3/8', '1/2', '1', '2'])) * scale)
    lat = rng.choice(LATS)
    return {'tempos': rng.sample(['2', '1/2', '4'], 2), 'clock': clock, 'from': frm, 'delta': rng.choice([q_(), q_(), '0']),
            'start': q_(), 'adv': q_(), 'lat': lat, 'es': gen_elems(rng, lat, 2, valid=rng.random() < 0.9),
            'again': rng.choice([None, q_()]), 'ints': rng.random() < 0.4}


def fntask_times(pr, o, mode):
    """expected logical times of the runs of the function (harness oracle), or None when not determined (RT from the main thread)"""
    F = Fraction
    tempo = [F(t) for t in pr['tempos']]

    def dur(c, beats):
        return beats if c in ('S', 'A') else beats / tempo[c[1]]
    if pr['from'] is None:
        if mode == 'rt':
            return None
        t0 = F(0)
    else:
        t0 = F(o['T'])
    t1 = t0 + dur(pr['clock'], F(pr['delta']))
    out = [t1]
    if pr.get('again') is not None:
        out.append(t1 + dur(pr['clock'], F(pr['again'])))
    return out


# ------------------------------------------------------------------ round 10 (C05): many pending routines, many re-timings
def gen_retime_prog(rng):
    """NRT: 5-9 routines pending on one TempoClock (different deltas, started in non-increasing order of their first delta, some on a
    second TempoClock / SystemClock) while other routines change the tempo 3-6 times: every change re-times (removes and re-adds) every
    pending wake-up of that clock, so the scheduler queue fills with replaced entries several times over."""
    tempos = [rng.choice(['1', '2', '1/2', '4']), rng.choice(['2', '1'])]
    n = rng.randint(5, 9)
    ds = sorted([Fraction(rng.choice([3, 5, 7, 9, 11, 13, 17, 19, 23]), 16) for _ in range(n)], reverse=rng.random() < 0.7)
    bodies = [[]]
    mid = 0
    for j in range(n):
        b = []
        for _ in range(rng.randint(3, 6)):
            b += [['Y', str(ds[j] if rng.random() < 0.7 else Fraction(rng.choice([1, 3, 5, 7]), 8))]]
            if rng.random() < 0.3:
                b.append(['S', rng.choice(['0', '1/4', None]), mid]); mid += 1
        bodies.append(b)
        bodies[0].append(['P', len(bodies) - 1, ['T', 0] if rng.random() < 0.8 else rng.choice([['T', 1], 'S'])])
    for c_ in range(rng.randint(1, 2)):               # the changers (SystemClock / the clock itself)
        ch = []
        for _ in range(rng.randint(2, 4)):
            ch += [['Y', str(Fraction(rng.choice([1, 3, 5, 7]), 32) + Fraction(rng.choice([0, 1, 2]), 4))], ['T', 0, rng.choice(['1', '2', '4', '1/2', '1/4'])]]
        bodies.append(ch)
        bodies[0].insert(rng.randint(0, len(bodies[0])), ['P', len(bodies) - 1, rng.choice(['S', 'S', ['T', 0]])])
    p = {'tempos': tempos, 'bodies': bodies, 'main': [['P', 0, 'S']], 'tail': '0', 'ints': rng.random() < 0.3, 'addr': rng.choice(ADDR_KINDS)}
    return p
