"""C13 -- patterns denote the sequences their definitions say, compositionally."""
import json, os, sys
from fractions import Fraction
import fw
from fw import Corr, Failure, cz, cq, cnat, cbool, clist

sys.path.insert(0, os.path.join(fw.VERIF, 'harness', 'oracles'))

TITLE = 'Patterns denote the sequences their definitions say, compositionally'
TRANSLATED = ['Gen_builtins']
MODEL_TARGETS = ['model/Pattern.vo']
ALLOWED_AXIOMS = []
TRUSTED = [
    'hand-written model coq/model/Pattern.v of the __embed__ generators (tie = differential correspondence on generated pattern expressions)',
    'bi.wrap/roundup/mod/min/max/clip/fold inside Pwrap/Pconst/operators are the regenerated gen/Gen_builtins.v (translator trusted)',
    'floats modelled as rationals; the correspondence uses small ints and dyadic floats only',
    'Python generators / yield from / StopIteration propagation modelled by specification',
]
ASSUMES = ['repeat counts are ints or inf; pattern arguments are numbers, bools, lists, tuples or patterns of the listed classes',
           'arithmetic on list/tuple values is outside the model (treated as an error)',
           'Pseed-wrapped Prand / Pxrand / Pwhite(int bounds): the draws are an oracle, recorded from the seeded random.Random instances (a result is a function of the seed and of the earlier randrange calls on that generator); int seeds only',
           'ListPattern constructors refuse an empty list (checked on every run); a list emptied afterwards is modelled for Pseq / Pser / Place']

INFN = 10 ** 9
FUEL = 40000


# --------------------------------------------------------------------------- values
def vi(n):
    return ['i', str(int(n))]


def vf(x):
    fr = Fraction(x)
    return ['f', '%d/%d' % (fr.numerator, fr.denominator)]


def V(v):
    return ['val', v]


def cval(v):
    t = v[0]
    if t == 'i':
        return '(VN (I %s))' % cz(int(v[1]))
    if t == 'f':
        return '(VN (F %s))' % cq(Fraction(v[1]))
    if t == 'b':
        return '(VB %s)' % cbool(v[1])
    if t == 'l':
        return '(VL %s)' % clist(v[1], cval)
    if t == 't':
        return '(VT %s)' % clist(v[1], cval)
    if t == 'n':
        return 'VNone'
    raise ValueError(v)


def cnum(v):
    return '(I %s)' % cz(int(v[1])) if v[0] == 'i' else '(F %s)' % cq(Fraction(v[1]))


def creps(r):
    return 'Inf' if r == 'inf' else '(Fin %s)' % cz(r)


BOPS = {'add': 'BAdd', 'sub': 'BSub', 'mul': 'BMul', 'div': 'BDiv', 'floordiv': 'BFloordiv', 'mod': 'BMod',
        'min': 'BMin', 'max': 'BMax', 'lt': 'BLt', 'le': 'BLe', 'gt': 'BGt', 'ge': 'BGe', 'eq': 'BEq', 'ne': 'BNe',
        'pow': 'BPow', 'lshift': 'BShl', 'rshift': 'BShr', 'bitand': 'BAnd', 'bitor': 'BOr', 'bitxor': 'BXor'}
NAMED = ['round', 'roundup', 'trunc', 'thresh', 'clip2', 'wrap2', 'fold2', 'excess', 'scaleneg', 'amclip', 'ring1', 'ring2', 'ring3', 'ring4', 'difsqr', 'sumsqr', 'sqrsum', 'sqrdif', 'absdif']
for _n in NAMED:
    BOPS[_n] = '(BNamed K%s)' % _n.capitalize()
NONCOMM = ['sub', 'div', 'floordiv', 'mod', 'pow', 'lshift', 'rshift', 'lt', 'le', 'gt', 'ge'] + \
          [n for n in NAMED if n not in ('sumsqr', 'sqrsum', 'absdif', 'ring3')]
UOPS = {'neg': 'UNeg', 'abs': 'UAbs'}
NOPS = {'clip': 'NClip', 'wrap': 'NWrap', 'fold': 'NFold'}
FNS = {'float': 'FFloat', 'abs': 'FAbs', 'wrap1': 'FWrap1', 'boom': 'FBoom', 'inc': 'FInc', 'dbl': 'FDbl', 'neg': 'FNeg', 'pair': 'FPair', 'even': 'FEven', 'lt3': 'FLt3', 'pos': 'FPos'}
FKS = {'collect': 'KCollect', 'select': 'KSelect', 'reject': 'KReject'}


def place_subs(e):
    """Place indexes into every item that is a list or a tuple -- also a plain list/tuple VALUE."""
    out = []
    for sub, plain in zip(e[1], e[4]):
        if plain and sub[0][0] == 'val' and sub[0][1][0] in 'lt':
            out.append([V(x) for x in sub[0][1][1]])
        else:
            out.append(sub)
    return out


def cexpr(e):
    k = e[0]
    C = cexpr
    L = lambda xs: clist(xs, C)
    if k == 'val':
        return '(PVal %s)' % cval(e[1])
    if k in ('Pseq', 'Pser'):
        return '(%s %s %s %s)' % (k, L(e[1]), creps(e[2]), cz(e[3]))
    if k == 'Pn':
        return '(Pn %s %s)' % (C(e[1]), creps(e[2]))
    if k == 'Place':
        return '(Place %s %s %s)' % (clist([L(s) for s in place_subs(e)]), creps(e[2]), cz(e[3]))
    if k in ('Plen', 'Pdrop'):
        return '(%s %s %s)' % (k, C(e[1]), cz(e[2]))
    if k in ('Pstutter', 'Pclump', 'Pflatten'):
        return '(%s %s %s)' % (k, C(e[1]), C(e[2]))
    if k == 'Pdiff':
        return '(Pdiff %s)' % C(e[1])
    if k == 'Pconst':
        return '(Pconst %s %s %s)' % (C(e[1]), cnum(e[2]), cnum(e[3]))
    if k == 'Pfun':
        return '(Pfun %s %s %s)' % (FKS[e[1]], FNS[e[2]], C(e[3]))
    if k == 'Pwrap':
        return '(Pwrap %s %s %s)' % (C(e[1]), C(e[2]), C(e[3]))
    if k == 'Punop':
        return '(Punop %s %s)' % (UOPS[e[1]], C(e[2]))
    if k == 'Pbinop':
        return '(Pbinop %s %s %s)' % (BOPS[e[1]], C(e[2]), C(e[3]))
    if k == 'Pnarop':
        return '(Pnarop %s %s %s %s)' % (NOPS[e[1]], C(e[2]), C(e[3]), C(e[4]))
    if k == 'Pif':
        return '(Pif %s %s %s)' % (C(e[1]), C(e[2]), C(e[3]))
    if k in ('Pseries', 'Pgeom'):
        return '(%s %s %s %s)' % (k, cnum(e[1]), C(e[2]), creps(e[3]))
    if k in ('Pswitch', 'Pswitch1'):
        return '(%s %s %s)' % (k, L(e[1]), C(e[2]))
    if k == 'Ptuple':
        return '(Ptuple %s %s)' % (L(e[1]), creps(e[2]))
    if k == 'Pslide':
        return '(Pslide %s %s %s %s %s %s)' % (L(e[1]), C(e[2]), C(e[3]), cz(e[4]), cbool(e[5]), creps(e[6]))
    if k == 'Pseed':
        b = e[2]
        if b[0] == 'Prand':
            return '(PseedRand %s %s %s)' % (C(e[1]), L(b[1]), creps(b[2]))
        if b[0] == 'Pxrand':
            return '(PseedXrand %s %s %s)' % (C(e[1]), L(b[1]), creps(b[2]))
        if b[0] == 'Pwhite':
            return '(PseedWhite %s %s %s %s)' % (C(e[1]), C(b[1]), C(b[2]), creps(b[3]))
        if b[0] == 'Pwrand':
            nw = len(b[2]) if b[2] else len(b[1])
            return '(PseedWrand %s %s %s %s)' % (C(e[1]), L(b[1]), cnat(nw), creps(b[3]))
    raise ValueError(k)


def show(e):
    """Python-ish rendering of an expression (for reports)."""
    k = e[0]
    S = show
    def sv(v):
        t = v[0]
        if t == 'i':
            return v[1]
        if t == 'f':
            return repr(float(Fraction(v[1])))
        if t == 'b':
            return 'True' if v[1] else 'False'
        if t == 'l':
            return '[' + ', '.join(sv(x) for x in v[1]) + ']'
        if t == 'n':
            return 'None'
        return '(' + ', '.join(sv(x) for x in v[1]) + ',)'
    r = lambda x: 'inf' if x == 'inf' else str(x)
    L = lambda xs: '[' + ', '.join(S(x) for x in xs) + ']'
    if k == 'val':
        return sv(e[1])
    if k in ('Pseq', 'Pser'):
        return '%s(%s, %s, %s)' % (k, L(e[1]), r(e[2]), e[3])
    if k == 'Pn':
        return 'Pn(%s, %s)' % (S(e[1]), r(e[2]))
    if k == 'Place':
        return 'Place([%s], %s, %s)' % (', '.join(S(s[0]) if p else L(s) for s, p in zip(e[1], e[4])), r(e[2]), e[3])
    if k in ('Plen', 'Pdrop'):
        return '%s(%s, %s)' % (k, S(e[1]), e[2])
    if k in ('Pstutter', 'Pclump', 'Pflatten'):
        return '%s(%s, %s)' % (k, S(e[1]), S(e[2]))
    if k == 'Pdiff':
        return 'Pdiff(%s)' % S(e[1])
    if k == 'Pconst':
        return 'Pconst(%s, %s, %s)' % (S(e[1]), sv(e[2]), sv(e[3]))
    if k == 'Pfun':
        return 'P%s(%s, %s)' % (e[1], e[2], S(e[3]))
    if k == 'Pwrap':
        return 'Pwrap(%s, %s, %s)' % (S(e[1]), S(e[2]), S(e[3]))
    if k == 'Punop':
        return '%s(%s)' % (e[1], S(e[2]))
    if k == 'Pbinop':
        return '%s(%s, %s)' % (e[1], S(e[2]), S(e[3]))
    if k == 'Pnarop':
        return '%s.%s(%s, %s)' % (S(e[2]), e[1], S(e[3]), S(e[4]))
    if k == 'Pif':
        return 'Pif(%s, %s, %s)' % (S(e[1]), S(e[2]), S(e[3]))
    if k in ('Pseries', 'Pgeom'):
        return '%s(%s, %s, %s)' % (k, sv(e[1]), S(e[2]), r(e[3]))
    if k in ('Pswitch', 'Pswitch1'):
        return '%s(%s, %s)' % (k, L(e[1]), S(e[2]))
    if k == 'Ptuple':
        return 'Ptuple(%s, %s)' % (L(e[1]), r(e[2]))
    if k == 'Pslide':
        return 'Pslide(%s, length=%s, step=%s, start=%s, wrap=%s, repeats=%s)' % (
            L(e[1]), S(e[2]), S(e[3]), e[4], bool(e[5]), r(e[6]))
    if k == 'Pseed':
        return 'Pseed(%s, %s)' % (S(e[1]), S(e[2]))
    if k in ('Prand', 'Pxrand'):
        return '%s(%s, %s)' % (k, L(e[1]), r(e[2]))
    if k == 'Pwhite':
        return 'Pwhite(%s, %s, %s)' % (S(e[1]), S(e[2]), r(e[3]))
    if k == 'Pwrand':
        return 'Pwrand(%s, %s, %s)' % (L(e[1]), None if e[2] is None else '[' + ', '.join(sv(x) for x in e[2]) + ']', r(e[3]))
    if k == 'Pext':
        return '%s(%s)' % (e[1], ', '.join(repr(a) for a in e[2]))
    return repr(e)


def children(e):
    """Sub-expressions (patterns) of an expression."""
    k = e[0]
    if k == 'val':
        return []
    if k == 'Pext':
        return []
    if k in ('Pseq', 'Pser', 'Pswitch', 'Pswitch1', 'Ptuple', 'Pslide', 'Prand', 'Pxrand', 'Pwrand'):
        out = list(e[1])
        out += [x for x in e[2:] if isinstance(x, list) and x and isinstance(x[0], str) and x[0][0] in 'Pv']
        return out
    if k == 'Place':
        return [x for s in e[1] for x in s]
    return [x for x in e[1:] if isinstance(x, list) and x and isinstance(x[0], str) and (x[0][0] == 'P' or x[0] == 'val')]


def depth(e):
    cs = children(e)
    return 1 + max([depth(c) for c in cs] or [0]) if e[0] != 'val' else 0


def kinds(e, acc=None):
    acc = acc if acc is not None else {}
    if e[0] != 'val':
        key = e[0] if e[0] != 'Pfun' else 'P' + e[1]
        acc[key] = acc.get(key, 0) + 1
    for c in children(e):
        kinds(c, acc)
    return acc


# --------------------------------------------------------------------------- generator
class Gen:
    """Sort-directed random pattern expressions.  gen(sort, d, mode) -> (expr, fin, mn):
    fin = the pattern certainly ends, mn = lower bound on the number of values (no error).
    Sorts: 'int' (Python ints), 'float' (dyadic floats), 'num' (mixed), 'small' (ints in a
    small range: counts, lengths, indices), 'bool', 'list', 'any'.
    Infinite repeats are only put around productive bodies and selections only on finite
    sources, so that every pull terminates in Python."""

    def __init__(self, rng, maxdepth):
        self.rng = rng
        self.maxdepth = maxdepth

    # -- leaves
    def leaf(self, sort, lo=0, hi=3):
        r = self.rng
        if sort == 'int':
            return vi(0) if r.random() < 0.12 else vi(r.randint(-6, 9))
        if sort == 'float':
            return vf(0) if r.random() < 0.12 else vf(Fraction(r.randint(-24, 36), r.choice([1, 2, 4])))
        if sort == 'num':
            return self.leaf(r.choice(['int', 'int', 'float']))
        if sort == 'small':
            return vi(r.randint(lo, hi))
        if sort == 'bool':
            return ['b', r.randint(0, 1)]
        if sort == 'list':
            return ['l', [self.leaf('int') for _ in range(r.randint(0, 3))]]
        # 'any': falsy values of every kind must be yielded like any other value
        return r.choice([lambda: self.leaf('int'), lambda: self.leaf('float'), lambda: self.leaf('list'),
                         lambda: ['n'], lambda: ['b', 0], lambda: vi(0), lambda: vf(0), lambda: ['l', []],
                         lambda: ['t', []], lambda: ['t', [vi(0), ['n']]], lambda: ['b', 1]])()

    def reps(self, allow_inf):
        r = self.rng
        if allow_inf and r.random() < 0.18:
            return 'inf'
        return r.choice([0, 1, 1, 2, 2, 3]) if r.random() < 0.9 else r.choice([-1, 4])

    def simple(self, sort, mode, lo, hi, need_min1):
        """Fallback: certainly finite, at least one value."""
        n = self.rng.randint(1, 4)
        return ['Pseq', [V(self.leaf(sort, lo, hi)) for _ in range(n)], 1, 0], True, n

    def gen(self, sort, d, mode, need_fin=False, need_min1=False, lo=0, hi=3):
        for _ in range(8):
            e, fin, mn = self._gen(sort, d, mode, lo, hi)
            if (fin or not need_fin) and (mn >= 1 or not need_min1):
                return e, fin, mn
        return self.simple(sort, mode, lo, hi, need_min1)

    def items(self, sort, d, lo, hi, nmax=4, need_fin=False, need_min1=False):
        n = self.rng.randint(1, nmax)
        out = [self.gen(sort, d, 'emb', need_fin, need_min1, lo, hi) for _ in range(n)]
        return [o[0] for o in out], all(o[1] for o in out), [o[2] for o in out]

    def _gen(self, sort, d, mode, lo, hi):
        r = self.rng
        if d <= 0 or r.random() < 0.12:
            v = V(self.leaf(sort, lo, hi))
            return (v, True, 1) if mode == 'emb' else (v, False, INFN)
        G = lambda s, **kw: self.gen(s, d - 1, kw.pop('mode', 'str'), lo=lo, hi=hi, **kw)
        arith = sort in ('int', 'float', 'num')
        menu = ['Pseq', 'Pseq', 'Pser', 'Pn', 'Place', 'Plen', 'Pdrop', 'Pstutter', 'Pswitch', 'Pswitch1', 'Pif',
                'Pslide', 'Pselect', 'Pseed']
        if arith:
            menu += ['Pdiff', 'Pconst', 'Pcollect', 'Pwrap', 'Punop', 'Pbinop', 'Pbinop', 'Pnarop', 'Pseries',
                     'Pgeom', 'Pflatten']
        if sort == 'bool':
            menu = ['Pseq', 'Pser', 'Pn', 'Plen', 'Pcmp', 'Pcmp', 'Ppred', 'Pif', 'Pseed']
        if sort == 'list':
            menu = ['Pseq', 'Pn', 'Plen', 'Pclump', 'Pclump', 'Ppair', 'Pstutter', 'Pdrop', 'Pseed', 'Pflat0', 'Pclump0']
        if sort == 'any' and r.random() < 0.7:
            s2 = r.choice(['num', 'num', 'int', 'list', 'tuple'])
            if s2 == 'tuple':
                return self._tuple(d, lo, hi)
            return self._gen(s2, d, mode, lo, hi)
        if sort == 'any':
            menu = ['Pseq', 'Pseq', 'Pser', 'Pn', 'Place', 'Plen', 'Pdrop', 'Pstutter', 'Pswitch', 'Pswitch1', 'Pif',
                    'Pslide', 'Pseed', 'Pdup']
        if sort != 'any' and r.random() < 0.06:
            menu = ['Pdup']
        k = r.choice(menu)
        if k == 'Pdup':
            # ONE sub-expression used at two places (the runner may build it as one shared object)
            x, fx, mx = G(sort, mode='emb', need_fin=True)
            kk = r.choice(['seq', 'seq', 'tuple', 'bin', 'sw1'] if arith else ['seq', 'seq', 'sw1'])
            if kk == 'seq':
                return ['Pseq', [x, V(self.leaf(sort, lo, hi)), x], r.choice([1, 2]), r.choice([0, 1])], True, 2 * mx + 1
            if kk == 'bin':
                return ['Pbinop', r.choice(['sub', 'add', 'mul']), x, ['Pseq', [x, x], 1, 0]], True, mx
            if kk == 'sw1':
                return ['Pswitch1', [x, x], ['Pseq', [V(vi(0)), V(vi(1)), V(vi(0)), V(vi(1))], 1, 0]], True, 0
            return ['Pseq', [x, x], 1, 0], True, 2 * mx
        if k == 'Pseed':
            nseed = r.randint(1, 3)
            const_seed = r.random() < 0.15
            seeds = V(vi(r.randint(0, 50))) if const_seed else \
                ['Pseq', [V(vi(r.randint(0, 50))) for _ in range(nseed)], r.choice([1, 1, 2]), 0]
            if sort in ('int', 'small') and r.random() < 0.35:
                ln = r.choice([1, 2, 3, 5]) if const_seed else r.choice([0, 1, 2, 3, 5, 'inf'])
                lo_, fl, ml = self.gen('small', min(d - 1, 1), 'str', need_min1=True, lo=lo, hi=hi)
                hi_, fh, mh = self.gen('small', min(d - 1, 1), 'str', need_min1=True, lo=lo, hi=hi)
                if sort == 'int' and r.random() < 0.5:
                    lo_, hi_, fl, fh, ml, mh = V(vi(r.randint(-5, 5))), V(vi(r.randint(-5, 12))), False, False, INFN, INFN
                body_fin = ln != 'inf' or fl or fh
                body = ['Pwhite', lo_, hi_, ln]
                mnb = min(INFN if ln == 'inf' else ln, ml, mh)
            else:
                rp = r.choice([1, 2, 3, 4]) if const_seed else r.choice([0, 1, 2, 3, 4, 'inf'])
                xs, finx, mns = self.items(sort, d - 1, lo, hi, need_min1=(const_seed or rp == 'inf'))
                body = [r.choice(['Prand', 'Pxrand', 'Pwrand']), xs, rp]
                if body[0] == 'Pwrand':
                    nw = len(xs) if r.random() < 0.85 else r.randint(1, len(xs) + 1)
                    w = None if r.random() < 0.2 else [r.choice([vi(0), vi(1), vi(2), vf(Fraction(1, 2)), vf(Fraction(1, 4)), vi(3)]) for _ in range(nw)]
                    if w is not None and all(Fraction(x[1]) == 0 for x in w):
                        w[0] = vi(1)
                    body = ['Pwrand', xs, w, rp]
                body_fin = finx and rp != 'inf'
                mnb = INFN if rp == 'inf' else rp * min(mns)
            e = ['Pseed', seeds, body]
            if const_seed:
                return e, False, INFN
            return e, body_fin, (mnb if mnb >= 1 else 0)
        if k in ('Pseq', 'Pser', 'Place'):
            rp = self.reps(True)
            inf = rp == 'inf'
            xs, fin, mns = self.items(sort, d - 1, lo, hi, need_min1=inf)
            off = r.choice([0, 0, 0, 1, 2, -1, len(xs), len(xs) + 1, -len(xs) - 2, 5])
            tot = sum(mns)
            if k == 'Place':
                subs, plain = [], []
                for x in xs:
                    if r.random() < 0.5:
                        subs.append([x]); plain.append(1)
                    else:
                        more, fin2, _ = self.items(sort, d - 1, lo, hi, nmax=2, need_min1=inf)
                        fin = fin and fin2
                        subs.append([x] + more); plain.append(0)
                return ['Place', subs, rp, off, plain], fin and not inf, (INFN if inf else 0)
            if inf:
                return [k, xs, rp, off], False, INFN
            if k == 'Pseq':
                return [k, xs, rp, off], fin, max(rp, 0) * tot
            return [k, xs, rp, off], fin, max(rp, 0) * min(mns)
        if k == 'Pn':
            rp = self.reps(True)
            p, fin, mn = G(sort, mode='emb', need_min1=(rp == 'inf'))
            if rp == 'inf':
                return ['Pn', p, rp], False, INFN
            return ['Pn', p, rp], fin, max(rp, 0) * mn
        if k == 'Plen':
            n = r.choice([0, 1, 2, 3, 5, -1])
            p, fin, mn = G(sort)
            return ['Plen', p, n], True, min(max(n, 0), mn)
        if k == 'Pdrop':
            n = r.choice([0, 1, 2, 3, -1])
            p, fin, mn = G(sort)
            return ['Pdrop', p, n], fin, max(0, mn - max(n, 0)) if mn < INFN else INFN
        if k == 'Pstutter':
            p, fin, mn = G(sort)
            if r.random() < 0.5:
                return ['Pstutter', p, V(vi(r.randint(1, 3)))], fin, mn
            q, finq, mnq = self.gen('small', d - 1, 'str', need_fin=not fin, lo=0, hi=3)
            return ['Pstutter', p, q], fin or finq, 0
        if k == 'Pclump':
            p, fin, mn = self.gen(r.choice(['int', 'num', 'any']), d - 1, 'str')
            if r.random() < 0.6:
                return ['Pclump', p, V(vi(r.randint(1, 3)))], fin, min(mn, 1)
            q, finq, mnq = self.gen('small', d - 1, 'str', lo=1, hi=3)
            return ['Pclump', p, q], fin or finq, min(mn, mnq, 1)
        if k == 'Pflat0':
            # levels = 0 is the identity on the values
            p_, fin, mn = self.gen('list', d - 1, 'str')
            return ['Pflatten', p_, V(vi(0))], fin, mn
        if k == 'Pclump0':
            # n = 0: empty groups for ever, the source is never pulled
            p_, fin, mn = self.gen(r.choice(['int', 'any']), d - 1, 'str')
            n = r.randint(0, 3)
            return ['Plen', ['Pclump', p_, V(r.choice([vi(0), vf(0), ['b', 0]]))], n], True, n
        if k == 'Ppair':
            p, fin, mn = self.gen(r.choice(['int', 'num']), d - 1, 'str')
            return ['Pfun', 'collect', r.choice(['pair', 'wrap1']), p], fin, mn
        if k == 'Pflatten':
            p, fin, mn = G(sort)
            if r.random() < 0.7:
                p, mn = ['Pclump', p, V(vi(r.randint(1, 3)))], min(mn, 1)
            else:
                p = ['Pfun', 'collect', 'pair', p]
            return ['Pflatten', p, V(vi(r.choice([1, 1, 2])))], fin, mn   # levels 0 yields lists: see the 'list' sort
        if k == 'Pdiff':
            p, fin, mn = G(sort)
            return ['Pdiff', p], fin, (max(0, mn - 1) if mn < INFN else INFN)
        if k == 'Pconst':
            p, fin, mn = G(sort)
            total = self.leaf('float') if sort == 'float' else (vi(r.randint(0, 12)) if sort == 'int' else self.leaf('num'))
            tol = r.choice([vf(Fraction(1, 1024)), vf(Fraction(1, 8)), vi(0), vf(0)])
            if r.random() < 0.15:
                total = vi(0) if sort != 'float' else vf(0)
            return ['Pconst', p, total, tol], fin, 1
        if k == 'Pcollect':
            p, fin, mn = G(sort)
            return ['Pfun', 'collect', r.choice(['inc', 'dbl', 'neg', 'abs'] + (['float'] if sort in ('float', 'num') else [])), p], fin, mn
        if k == 'Pselect':
            p, fin, mn = G(sort if arith else sort, need_fin=True)
            if arith:
                return ['Pfun', r.choice(['select', 'reject']), r.choice(['even', 'lt3', 'pos', 'pos', 'float', 'abs']), p], True, 0
            return ['Plen', p, 3], True, min(3, mn)
        if k == 'Pwrap' or k == 'Pnarop':
            s = sort if sort != 'num' else r.choice(['int', 'float'])
            # int/float TYPE MIX of element and bounds (only where the result sort allows it)
            mix = sort in ('num', 'float') and r.random() < 0.6
            sp = r.choice(['int', 'float', 'num']) if (mix and sort == 'num') else s
            sl = r.choice(['int', 'float']) if mix else s
            sh = r.choice(['int', 'float']) if mix else s
            p, fin, mn = G(sp)
            lo_, fl, ml = self.gen(sl, min(d - 1, 1), 'str')
            hi_, fh, mh = self.gen(sh, min(d - 1, 1), 'str')
            # keep lo < hi: lo := -|lo| - 1 style shifts are expressed with constants
            lo_ = ['Pbinop', 'sub', ['Punop', 'neg', ['Punop', 'abs', lo_]], V(vi(1) if sl == 'int' else vf(1))]
            hi_ = ['Pbinop', 'add', ['Punop', 'abs', hi_], V(vi(1) if sh == 'int' else vf(Fraction(1, 2)))]
            z = r.random()
            if z < 0.15:
                lo_, fl, ml = V(vi(0) if sl == 'int' else vf(0)), False, INFN       # lo = 0 < hi
            elif z < 0.3:
                hi_, fh, mh = V(vi(0) if sh == 'int' else vf(0)), False, INFN       # lo < hi = 0
            if k == 'Pwrap':
                return ['Pwrap', p, lo_, hi_], fin or fl or fh, min(mn, ml, mh)
            return ['Pnarop', r.choice(['clip', 'wrap', 'fold']), p, lo_, hi_], fin or fl or fh, min(mn, ml, mh)
        if k == 'Punop':
            p, fin, mn = G(sort)
            return ['Punop', r.choice(['neg', 'abs']), p], fin, mn
        if k == 'Pbinop':
            if r.random() < 0.3:
                return self._binop_more(sort, d, lo, hi)
            a, fa, ma = G(sort)
            op = r.choice(['add', 'sub', 'mul', 'min', 'max', 'add', 'sub', 'mul', 'floordiv', 'mod', 'div'])
            if op in ('floordiv', 'mod', 'div'):
                if op == 'div' and sort == 'int':
                    op = 'floordiv'
                dv = [1, 2, 4, -2] if op == 'div' else [1, 2, 3, -2, 4]
                if sort == 'float':
                    b = ['Pseq', [V(vf(r.choice(dv + [Fraction(1, 2)]))) for _ in range(r.randint(1, 3))], self.reps(True), 0]
                else:
                    b = ['Pseq', [V(vi(r.choice(dv))) for _ in range(r.randint(1, 3))], self.reps(True), 0]
                if r.random() < 0.4:
                    b = V(b[1][0][1])
                fb = b[0] != 'val' and b[2] != 'inf'
                mb = INFN if not fb else len(b[1]) * max(b[2], 0)
                return ['Pbinop', op, a, b], fa or fb, min(ma, mb)
            b, fb, mb = G(sort)
            if r.random() < 0.5:
                a, b, fa, fb, ma, mb = b, a, fb, fa, mb, ma
            return ['Pbinop', op, a, b], fa or fb, min(ma, mb)
        if k == 'Pcmp':
            a, fa, ma = self.gen('num', d - 1, 'str')
            b, fb, mb = self.gen('num', d - 1, 'str')
            return ['Pbinop', r.choice(['lt', 'le', 'gt', 'ge', 'eq', 'ne']), a, b], fa or fb, min(ma, mb)
        if k == 'Ppred':
            a, fa, ma = self.gen('num', d - 1, 'str')
            return ['Pfun', 'collect', r.choice(['even', 'lt3', 'pos']), a], fa, ma
        if k == 'Pif':
            c, fc, mc = self.gen('bool', d - 1, 'str')
            t, ft, mt = G(sort)
            f, ff, mf = G(sort)
            return ['Pif', c, t, f], fc, min(mc, mt, mf)
        if k in ('Pseries', 'Pgeom'):
            s = sort if sort != 'num' else r.choice(['int', 'float'])
            ln = r.choice([0, 1, 3, 5, 6, 'inf']) if k == 'Pseries' else r.choice([0, 1, 3, 5, 'inf'])
            if k == 'Pgeom':
                if s == 'int':
                    st = ['Pseq', [V(vi(r.choice([1, 2, 3, -1, 0]))) for _ in range(r.randint(1, 3))], self.reps(True), 0]
                else:
                    st = ['Pseq', [V(vf(r.choice([2, Fraction(1, 2), Fraction(3, 2), -1]))) for _ in range(r.randint(1, 3))],
                          self.reps(True), 0]
                if r.random() < 0.5:
                    st = V(st[1][0][1])
                fs = st[0] != 'val' and st[2] != 'inf'
                ms = INFN if not fs else len(st[1]) * max(st[2], 0)
                if ln == 'inf' and not fs:
                    ln = 6
            else:
                st, fs, ms = self.gen(s, d - 1, 'str')
            start = self.leaf(s if sort != 'num' else r.choice(['int', 'float']))    # start and step may differ in type
            return [k, start, st, ln], fs or ln != 'inf', (ms if ln == 'inf' else min(ln, ms))
        if k == 'Pswitch':
            w, fw_, mw = self.gen('small', d - 1, 'str', lo=-2, hi=5)
            xs, fin, mns = self.items(sort, d - 1, lo, hi, need_min1=not fw_)
            return ['Pswitch', xs, w], fw_ and fin, 0
        if k == 'Pswitch1':
            w, fw_, mw = self.gen('small', d - 1, 'str', lo=-2, hi=5)
            n = r.randint(1, 3)
            ys = [self.gen(sort, d - 1, 'str', lo=lo, hi=hi) for _ in range(n)]
            return ['Pswitch1', [y[0] for y in ys], w], fw_ or all(y[1] for y in ys), min([mw] + [y[2] for y in ys])
        if k == 'Pslide':
            rp = self.reps(True)
            inf = rp == 'inf'
            xs, fin, mns = self.items(sort, d - 1, lo, hi, nmax=5, need_min1=inf)
            if inf or r.random() < 0.6:
                ln, fl = V(vi(r.randint(1, 3))), False
            else:
                ln, fl, _ = self.gen('small', min(d - 1, 1), 'str', lo=0, hi=3)
            if r.random() < 0.6:
                st, fs = V(vi(r.choice([1, 1, 2, -1, 0, -2]))), False
            else:
                st, fs, _ = self.gen('small', min(d - 1, 1), 'str', lo=-2, hi=2)
            start = r.choice([0, 0, 1, 2, -1, -3, len(xs), 7])
            return ['Pslide', xs, ln, st, start, r.choice([1, 1, 0]), rp], (fin and (not inf or fl or fs)), 0
        raise AssertionError(k)

    def _binop_more(self, sort, d, lo, hi):
        """The other binary operators of AbstractObject: ** << >> & | ^ and the named kernels, with a
        plain number on EITHER side (reflected forms) or two patterns."""
        r = self.rng
        ints = sort == 'int' or (sort == 'num' and r.random() < 0.4)
        kinds = ['pow', 'pow', 'named', 'named', 'named'] + (['shift', 'bit'] if ints else [])
        kind = r.choice(kinds)
        s = 'int' if ints else sort
        a, fa, ma = self.gen(s, d - 1, 'str', lo=lo, hi=hi)
        small = lambda: ['Pseq', [V(vi(r.randint(0, 3))) for _ in range(r.randint(1, 3))], self.reps(True), 0]
        if kind == 'pow':
            # int exponents 0..3 (exact); base or exponent may be the plain number
            if r.random() < 0.5:
                b = V(vi(r.randint(0, 3))) if r.random() < 0.5 else small()
                e = ['Pbinop', 'pow', a, b]
            else:
                base = V(self.leaf(s)) if r.random() < 0.6 else a
                e = ['Pbinop', 'pow', base, small() if base[0] == 'val' or r.random() < 0.5 else V(vi(r.randint(0, 3)))]
        elif kind == 'shift':
            op = r.choice(['lshift', 'rshift'])
            cnt = V(vi(r.randint(0, 3))) if r.random() < 0.5 else small()
            e = ['Pbinop', op, a, cnt] if r.random() < 0.6 else ['Pbinop', op, V(vi(r.randint(-9, 40))), small()]
        elif kind == 'bit':
            op = r.choice(['bitand', 'bitor', 'bitxor'])
            b, fb, mb = self.gen('int', d - 1, 'str', lo=lo, hi=hi)
            e = ['Pbinop', op, a, b] if r.random() < 0.5 else ['Pbinop', op, V(vi(r.randint(-9, 9))), a]
        else:
            op = r.choice(NAMED)
            if op in ('ring1', 'ring2', 'ring3', 'ring4', 'difsqr', 'sumsqr', 'sqrsum', 'sqrdif') and d > 2:
                a, fa, ma = self.gen(s, 1, 'str', lo=lo, hi=hi)          # products: keep the magnitudes small
            z = r.random()
            other = V(self.leaf(s)) if r.random() < 0.7 else self.gen(s, min(d - 1, 1), 'str', lo=lo, hi=hi)[0]
            e = ['Pbinop', op, a, other] if z < 0.5 else ['Pbinop', op, other, a]
        fin, mn = self._fin_of_binop(e)
        return e, fin, mn

    def _fin_of_binop(self, e):
        def info(x):
            if x[0] == 'val':
                return False, INFN
            if x[0] == 'Pseq' and all(y[0] == 'val' for y in x[1]):
                return (x[2] != 'inf'), (INFN if x[2] == 'inf' else len(x[1]) * max(x[2], 0))
            return None
        ia, ib = info(e[2]), info(e[3])
        fin = bool((ia and ia[0]) or (ib and ib[0]))
        return fin, 0

    def _tuple(self, d, lo, hi):
        r = self.rng
        rp = r.choice([1, 1, 2, 0, 'inf'])
        n = r.randint(1, 3)
        ys = [self.gen(r.choice(['int', 'num', 'any']), d - 1, 'str', need_min1=(rp == 'inf')) for _ in range(n)]
        if not any(y[1] for y in ys):
            e, f, m = self.simple('int', 'str', 0, 3, True)
            ys[r.randrange(n)] = (e, f, m)
        mn = min(y[2] for y in ys)
        if rp == 'inf':
            return ['Ptuple', [y[0] for y in ys], rp], False, INFN
        return ['Ptuple', [y[0] for y in ys], rp], True, max(rp, 0) * mn

    def top(self):
        r = self.rng
        sort = r.choice(['num', 'num', 'int', 'float', 'any', 'any', 'list', 'bool'])
        d = r.randint(1, self.maxdepth)
        for _ in range(20):
            e, fin, mn = self.gen(sort, d, 'str')
            if e[0] != 'val':
                return e, fin
        return self.simple(sort, 'str', 0, 3, True)[0], True

    def malformed(self):
        """A mostly valid expression with one type/arity fault (must raise in Python)."""
        r = self.rng
        d = r.randint(0, max(1, self.maxdepth - 2))
        p, fin, mn = self.gen('int', d, 'str', need_fin=False)
        k = r.choice(['float_count', 'float_index', 'div_zero', 'list_sub', 'list_neg', 'empty', 'list_diff',
                      'place_empty', 'float_clump_ok', 'list_const', 'float_len', 'boom', 'boom_seed', 'err_seed'])
        if k == 'float_count':
            e = ['Pstutter', p, V(vf(Fraction(3, 2)))]
        elif k == 'float_index':
            e = ['Pswitch', [V(vi(1)), p], ['Pseq', [V(vi(1)), V(vf(Fraction(1, 2))), V(vi(0))], 1, 0]]
        elif k == 'div_zero':
            e = ['Pbinop', r.choice(['div', 'floordiv', 'mod']), p, ['Pseq', [V(vi(2)), V(vi(0)), V(vi(1))], 'inf', 0]]
        elif k == 'list_sub':
            e = ['Pbinop', 'sub', ['Pclump', p, V(vi(2))], V(vi(1))]
        elif k == 'list_neg':
            e = ['Punop', 'neg', ['Pseq', [p, V(['l', [vi(1)]])], 1, 0]]
        elif k == 'empty':
            kk = r.choice(['Pseq', 'Pser', 'Place', 'Ptuple', 'Prand'])
            rr, off = r.choice([-1, 0, 1, 2, 3]), r.choice([0, 1, -2, 5])
            if kk == 'Ptuple':
                e = ['Ptuple', [], 1]                         # refused by the constructor
            elif kk == 'Prand':
                e = ['Pseed', V(vi(3)), ['Prand', [], 2]]     # refused by the constructor
            else:
                # the list attribute emptied after construction (see impl/c13_patterns.build)
                emp = [kk, [], rr, off] + ([[]] if kk == 'Place' else [])
                e = ['Pseq', [p, emp, V(vi(7))], 2, 0] if r.random() < 0.7 else emp
        elif k == 'list_diff':
            e = ['Pdiff', ['Pclump', p, V(vi(1))]]
        elif k == 'place_empty':
            e = ['Place', [[p], []], 2, 0, [1, 0]]
        elif k == 'float_clump_ok':
            e = ['Pclump', p, V(vf(Fraction(5, 2)))]        # int(2.5) = 2: accepted
        elif k == 'boom':
            # a BaseException (not an Exception) raised after a few values
            e = ['Pseq', [V(vi(1)), ['Pfun', 'collect', 'boom', p], V(vi(2))], 2, 0]
        elif k in ('boom_seed', 'err_seed'):
            # ... inside the routine that Pseed runs: every exit path must restore the thread state
            bad = ['Pfun', 'collect', 'boom', p] if k == 'boom_seed' else ['Punop', 'neg', V(['l', [vi(1)]])]
            e = ['Pseed', ['Pseq', [V(vi(0)), V(vi(1))], 1, 0], [r.choice(['Prand', 'Pxrand']), [V(vi(5)), bad, p], 4]]
            if r.random() < 0.5:
                e = ['Pseq', [V(vi(9)), e], 1, 0]
        elif k == 'list_const':
            e = ['Pconst', ['Pseq', [p, V(['l', [vi(1)]])], 1, 0], vi(50), vf(Fraction(1, 1024))]
        else:
            e = ['Pslide', [V(vi(1)), V(vi(2)), V(vi(3))], V(vf(Fraction(3, 2))), V(vi(1)), 0, 1, 2]
        return e


def directed():
    """Boundary expressions that are always run (cheap, deterministic)."""
    I = lambda n: V(vi(n))
    S = lambda xs, r=1, o=0: ['Pseq', [I(x) for x in xs], r, o]
    out = [
        S([1, 2, 3], 2, 1), S([1, 2, 3], 1, 3), S([1, 2, 3], 1, 5), S([1, 2, 3], 1, -1), S([1, 2, 3], 1, -5),
        ['Pser', [I(1), I(2), I(3)], 5, 1], ['Pser', [I(1), I(2), I(3)], 3, 5], ['Pser', [I(1), I(2), I(3)], 4, -4],
        ['Place', [[I(1)], [I(2), I(3)], [I(4), I(5), I(6)]], 3, 0, [1, 0, 0]],
        ['Place', [[I(1)], [I(2), I(3)], [I(4), I(5), I(6)]], 2, 4, [1, 0, 0]],
        ['Pn', S([1, 2]), 2], ['Pn', I(3), 2], ['Pn', S([1, 2]), 'inf'],
        ['Plen', S([1, 2, 3], 'inf'), 5], ['Plen', I(7), 3], ['Pdrop', S([1, 2, 3, 4]), 2], ['Pdrop', S([1, 2]), 6],
        ['Pstutter', S([1, 2, 3]), S([2, 0, 1])], ['Pstutter', S([1, 2, 3]), S([2])], ['Pstutter', S([1, 2]), I(-2)],
        ['Pclump', S([1, 2, 3, 4, 5]), I(2)], ['Pclump', S([1, 2, 3, 4, 5]), S([1, 3])], ['Pclump', S([1, 2, 3]), I(0)],
        ['Pflatten', ['Pclump', S([1, 2, 3, 4, 5]), I(2)], I(1)],
        ['Pflatten', ['Pseq', [V(['l', [vi(1), ['l', [vi(2), vi(3)]]]]), I(4), V(['l', [['l', [vi(5)]]]])], 1, 0], I(1)],
        ['Pflatten', ['Pseq', [V(['l', [vi(1), ['l', [vi(2), vi(3)]]]]), I(4), V(['l', [['l', [vi(5)]]]])], 1, 0], I(2)],
        ['Pdiff', S([1, 4, 9, 16])], ['Pdiff', S([1])],
        ['Pconst', S([1, 2, 3, 4], 'inf'), vi(7), vf(Fraction(1, 1024))], ['Pconst', S([1, 2]), vi(7), vf(Fraction(1, 1024))],
        ['Pconst', ['Pseq', [V(vf(Fraction(1, 2))), V(vf(Fraction(1, 4)))], 'inf', 0], vi(2), vf(Fraction(1, 8))],
        ['Pswitch', [S([1, 2]), I(10), S([7, 8])], S([0, 1, 2, 1, 5, -1])],
        ['Pswitch1', [S([1, 2, 3]), I(10), S([7, 8])], S([0, 1, 2, 0, 2, 0, 2, 1])],
        ['Ptuple', [S([1, 2, 3]), S([7, 8])], 2], ['Ptuple', [S([1, 2, 3]), I(5)], 1],
        ['Pslide', [I(1), I(2), I(3), I(4), I(5)], I(3), I(1), 0, 1, 4],
        ['Pslide', [I(1), I(2), I(3), I(4), I(5)], I(3), I(1), 0, 0, 6],
        ['Pslide', [I(1), I(2), I(3), I(4), I(5)], I(3), I(-1), 0, 1, 3],
        ['Pslide', [I(1), I(2), I(3), I(4), I(5)], I(3), I(-1), 0, 0, 3],
        ['Pslide', [I(1), I(2), I(3), I(4), I(5)], I(2), I(-3), 0, 0, 4],
        ['Pslide', [I(1), I(2), I(3), I(4), I(5)], I(2), I(1), -2, 0, 3],
        ['Pslide', [S([1, 2]), I(3)], S([1, 2]), S([1]), 0, 1, 5],
        ['Pseries', vi(0), I(1), 5], ['Pseries', vi(0), S([1, 2]), 5], ['Pgeom', vi(1), I(2), 5],
        ['Pseries', vf(Fraction(1, 2)), V(vf(Fraction(1, 4))), 'inf'],
        ['Pbinop', 'add', S([1, 2, 3]), S([10, 20])], ['Pbinop', 'add', S([1, 2, 3]), I(10)], ['Pbinop', 'sub', I(10), S([1, 2, 3])],
        ['Pbinop', 'lt', S([1, 2, 3]), I(2)], ['Punop', 'neg', S([1, 2, 3])],
        ['Pnarop', 'clip', S([1, 5, 9]), I(2), S([6, 7, 8, 9])],
        ['Pfun', 'collect', 'inc', S([1, 2, 3])], ['Pfun', 'select', 'even', S([1, 2, 3, 4])], ['Pfun', 'reject', 'even', S([1, 2, 3, 4])],
        ['Pif', ['Pseq', [V(['b', 1]), V(['b', 0]), V(['b', 1]), V(['b', 1])], 1, 0], S([1, 2, 3]), S([10, 20])],
        ['Pwrap', S([1, 5, 9, -3]), I(2), I(6)],
        ['Pseq', [['Plen', S([1]), 0], I(5)], 1, 0],
    ]
    # --- zero / falsy arguments and values (exact results, type tags included)
    NONE, FALSE, ZF = V(['n']), V(['b', 0]), V(vf(0))
    falsy = ['Pseq', [NONE, I(0), FALSE, V(['l', []]), V(['t', []]), ZF, I(5)], 1, 0]
    out += [
        falsy, ['Pstutter', falsy, I(2)], ['Pclump', falsy, I(2)], ['Pdrop', falsy, 0], ['Plen', falsy, 7],
        ['Ptuple', [falsy, ['Pseq', [FALSE, NONE, I(0)], 3, 0]], 1],
        ['Pswitch1', [falsy, ['Pseq', [NONE, I(0)], 1, 0]], S([0, 1, 0, 1, 0, 0])],
        ['Pswitch', [falsy, NONE, I(0)], S([0, 1, 2])],
        ['Pif', falsy, I(1), I(2)], ['Pif', S([1, 0, 1]), NONE, FALSE],
        ['Pflatten', falsy, I(1)], ['Pflatten', ['Pseq', [V(['l', [vi(1), ['l', [vi(2)]]]]), I(3)], 1, 0], I(0)],
        ['Pfun', 'collect', 'pair', falsy], ['Pslide', [NONE, I(0), FALSE, I(4)], I(2), I(1), 0, 1, 3],
        ['Pseed', S([0, 0]), ['Prand', [NONE, I(0), FALSE], 5]], ['Pseed', S([0]), ['Pxrand', [I(0), NONE], 6]],
        ['Pseed', S([0]), ['Pwhite', I(0), I(0), 3]], ['Pseed', S([0, 3]), ['Pwhite', I(0), I(4), 0]],
        ['Pn', falsy, 0], S([1, 2], 0), ['Pser', [I(1), I(2)], 0, 0], ['Place', [[I(1)], [I(2), I(3)]], 0, 0, [1, 0]],
        ['Pstutter', S([1, 2]), I(0)], ['Pstutter', S([1, 2]), FALSE], ['Plen', ['Pclump', S([1, 2]), I(0)], 3],
        ['Plen', ['Pclump', S([1, 2]), ZF], 2], ['Pseries', vi(0), I(0), 3], ['Pseries', vf(0), ZF, 0],
        ['Pgeom', vi(0), I(0), 3], ['Pgeom', vi(3), I(0), 3],
        ['Pwrap', S([1, 5, -3, 0]), I(0), I(3)], ['Pwrap', S([1, 5, -3, 0]), I(-3), I(0)],
        ['Pnarop', 'clip', S([1, 5, -3, 0]), I(0), I(3)], ['Pnarop', 'fold', S([1, 5, -3, 0]), I(-3), I(0)],
        ['Pconst', S([1, 2, 4, 5]), vi(7), vi(0)], ['Pconst', S([1, 2, 4, 5]), vi(7), vf(0)],
        ['Pconst', S([1, 2]), vi(0), vf(Fraction(1, 1024))], ['Pconst', S([0, 0, 0]), vi(0), vi(0)],
        ['Pslide', [I(1), I(2), I(3)], I(0), I(1), 0, 1, 3], ['Pslide', [I(1), I(2), I(3)], I(2), I(0), 0, 1, 3],
        ['Ptuple', [S([1, 2])], 0], ['Pbinop', 'mul', S([0, 1, 2]), I(0)], ['Pbinop', 'eq', S([0, 1]), FALSE],
    ]
    # --- function arguments of every callable kind (class, builtin, partial, bound method, callable instance)
    mixed = ['Pseq', [I(1), I(-2), I(0), V(vf(Fraction(5, 2)))], 1, 0]
    for fname in ('float', 'abs', 'wrap1', 'inc', 'neg', 'dbl', 'pos'):
        for kind in ('collect', 'select', 'reject'):
            out += [['Pfun', kind, fname, mixed], ['Pfun', kind, fname, ['Pn', mixed, 2]], ['Pseq', [['Pfun', kind, fname, mixed], I(9)], 2, 0],
                    ['Pbinop', 'add', ['Pfun', 'collect', fname, S([1, 2, 3])], I(1)] if fname != 'wrap1' else ['Pflatten', ['Pfun', kind, fname, mixed], I(1)]]
    # --- both ends of every range
    out += [
        ['Pdrop', S([1, 2, 3]), 3], ['Pdrop', S([1, 2, 3]), 4], ['Plen', S([1, 2, 3]), 3], ['Plen', S([1, 2, 3]), 4],
        ['Plen', S([1, 2, 3]), 1], ['Pdrop', S([1, 2, 3]), 1], ['Pclump', S([1, 2, 3]), I(3)], ['Pclump', S([1, 2, 3]), I(4)],
        ['Pclump', S([1, 2, 3, 4]), I(3)], ['Pclump', S([1]), I(1)], ['Pseries', vi(5), I(1), 1], ['Pgeom', vi(5), I(2), 1],
        ['Pconst', S([1, 2, 4, 5]), vi(7), vf(Fraction(1, 1024))], ['Pconst', S([1, 2, 4, 5]), vi(8), vf(Fraction(1, 1024))],
        ['Pconst', S([1, 2, 4, 5]), vi(12), vf(Fraction(1, 1024))], ['Pconst', S([1, 2, 4, 5]), vi(13), vf(Fraction(1, 1024))],
        ['Pslide', [I(1), I(2), I(3)], I(3), I(1), 0, 0, 3], ['Pslide', [I(1), I(2), I(3)], I(1), I(1), 2, 0, 3],
        ['Pslide', [I(1), I(2), I(3)], I(1), I(-1), 0, 0, 3], ['Pslide', [I(1), I(2), I(3)], I(4), I(3), -3, 1, 2],
        ['Pswitch', [I(1), I(2), I(3)], S([2, 3, -1, -3, -4])], ['Pswitch1', [I(1), I(2), I(3)], S([2, 3, -1, -3, -4])],
        # indices that are equal modulo the size but differ as numbers must reach the SAME persistent stream
        ['Pswitch1', [S([1, 2, 3, 4, 5, 6]), S([10, 20, 30, 40, 50, 60])], S([0, 2, -2, 1, 3, -1, 4, 5, -4])],
        ['Pswitch1', [S([1, 2, 3, 4, 5, 6]), S([10, 20, 30, 40, 50, 60])], ['Pseries', vi(0), I(1), 9]],
        ['Pswitch1', [S([1, 2, 3, 4], 'inf')], ['Pseries', vi(-3), I(2), 6]],
        ['Pswitch', [S([1, 2]), S([10, 20])], S([0, 2, -2, 1, 3, -1])],
        S([7], 3, 1), ['Pser', [I(7)], 3, 1], ['Pdiff', S([1, 2])], ['Pseed', S([4]), ['Pxrand', [I(9)], 3]],
        ['Pfun', 'select', 'lt3', S([3, 2, 3])], ['Pfun', 'reject', 'lt3', S([3, 2, 3])],
    ]
    # --- pull order: stream i ends by an exception exactly when stream j ends normally (and vice versa);
    # the ending tells which one was pulled first
    ERR = ['Pseq', [I(1), ['Punop', 'neg', V(['l', [vi(1)]])]], 1, 0]      # 1, then TypeError
    END = S([1])                                                          # 1, then StopStream
    for a, b in ((ERR, END), (END, ERR)):
        out += [['Pbinop', 'sub', a, b], ['Pstutter', a, b], ['Pclump', a, b], ['Pflatten', a, b],
                ['Pnarop', 'clip', a, b, I(5)], ['Pnarop', 'clip', a, I(0), b], ['Pnarop', 'clip', I(1), a, b],
                ['Pwrap', a, b, I(5)], ['Pwrap', a, I(0), b], ['Pwrap', I(1), a, b],
                ['Ptuple', [a, b], 1], ['Ptuple', [I(0), a, b], 2], ['Pif', a, b, b], ['Pif', S([1, 1]), a, b],
                ['Pif', S([0, 0]), b, a], ['Pseries', vi(0), a, 1], ['Pslide', [I(1), I(2)], a, b, 0, 1, 3],
                ['Pslide', [I(1), I(2)], b, a, 0, 1, 3], ['Pseed', S([2]), ['Pwhite', a, b, 3]]]
    # --- int/float TYPE MIX of element and bounds / start and step (values outside, at and inside the range)
    FL = lambda v: V(vf(v))
    ints, flts = ['Pseries', vi(-4), I(1), 13], ['Pseries', vf(Fraction(-7, 2)), FL(Fraction(3, 4)), 12]
    for lo_, hi_ in ((FL(0), FL(Fraction(5, 2))), (I(0), FL(Fraction(5, 2))), (FL(Fraction(1, 2)), I(3)), (I(-1), I(2)),
                     (FL(-1), FL(2)), (FL(Fraction(-3, 2)), I(0))):
        for src in (ints, flts, ['Pseq', [I(7), FL(Fraction(15, 4)), I(-6), FL(-2), I(0), FL(0)], 1, 0]):
            out += [['Pwrap', src, lo_, hi_]] + [['Pnarop', op, src, lo_, hi_] for op in ('wrap', 'fold', 'clip')]
    out += [['Pseries', vi(1), FL(Fraction(1, 2)), 5], ['Pseries', vf(Fraction(1, 2)), I(2), 5], ['Pseries', vi(0), ['Pseq', [I(1), FL(Fraction(1, 4))], 'inf', 0], 6],
            ['Pgeom', vi(3), FL(Fraction(1, 2)), 5], ['Pgeom', vf(Fraction(3, 2)), I(2), 5], ['Pgeom', vi(1), ['Pseq', [I(2), FL(Fraction(3, 2))], 'inf', 0], 6],
            ['Pconst', ['Pseq', [I(1), FL(Fraction(1, 2))], 'inf', 0], vi(4), vf(Fraction(1, 8))], ['Pconst', S([1, 2, 3]), vf(Fraction(9, 2)), vi(0)],
            ['Pdiff', ['Pseq', [I(1), FL(Fraction(5, 2)), I(4)], 1, 0]]]
    # EVERY binary operator of AbstractObject with a plain number on either side (reflected forms),
    # standalone and nested; operands chosen so that a op b != b op a for the non-commutative ones
    for op in sorted(BOPS):
        x, ys = (2, [1, 2, 3, 5]) if op in ('pow', 'lshift', 'rshift') else ((8, [1, 2, 4, 16]) if op == 'div' else (8, [1, 2, 4, 3]))
        refl, fwd, both = ['Pbinop', op, I(x), S(ys)], ['Pbinop', op, S(ys), I(x)], ['Pbinop', op, S(ys), S([x, 1, 2])]
        out += [refl, fwd, both, ['Pseq', [refl, I(0), fwd], 2, 1], ['Pbinop', 'sub', I(100), ['Pn', refl, 2]],
                ['Pstutter', refl, I(2)], ['Pbinop', op, I(x), ['Pbinop', op, I(x), S([1, 2])]]]
    for op in ('pow', 'div', 'sub', 'floordiv', 'mod', 'round', 'thresh', 'scaleneg'):
        F_ = lambda v: V(vf(v))
        out += [['Pbinop', op, F_(Fraction(1, 2)), S([1, 2, 4])], ['Pbinop', op, ['Pseq', [F_(Fraction(3, 2)), F_(-2)], 1, 0], I(2)]]
    out += [['Pbinop', 'pow', I(2), S([-1, -2, 0])], ['Pbinop', 'pow', S([2, 4, 0]), I(-1)], ['Pbinop', 'pow', I(0), S([0, 1, -1])],
            ['Pbinop', 'lshift', I(1), S([0, 1, -1])], ['Pbinop', 'rshift', S([8, -8]), I(1)]]
    return out


EXT = [('Pwhite', [0.0, 1.0, 5]), ('Pwhite', [0.5, 3, 4]), ('Pbrown', [0.0, 1.0, 0.125, 6]), ('Pgbrown', [0.1, 1.0, 0.125, 5]),
       ('Plprand', [0.0, 1.0, 5]), ('Phprand', [0.0, 1.0, 5]), ('Pmeanrand', [0.0, 1.0, 5]), ('Pbeta', [0.0, 1.0, 2, 3, 5]),
       ('Pcauchy', [0.0, 1.0, 5]), ('Pgauss', [0.0, 1, 5]), ('Ppoisson', [3, 5]), ('Pexprand', [0.1, 1.0, 5]),
       ('Pprob', [[0, 1, 2, 1, 0], 0.0, 1.0, None, 5]), ('Pwrand', [[1, 2, 3], [0.2, 0.3, 0.5], 6]), ('Pwrand', [[1, 2, 3], None, 6]),
       ('Pshuffle', [[1, 2, 3], 2]), ('Pwalk', [[1, 2, 3, 4]]), ('Prand', [[1, 2, 3], 'inf']), ('Pxrand', [[1, 2, 3], 6])]


def ext_cases(rng):
    """EVERY random pattern class of the library under Pseed (float-valued ones included): not modelled, but all
    streams of one blueprint must give the same sequence and must not touch the global generator."""
    I = lambda x: V(vi(x))
    out = []
    for cls, args in EXT:
        seed = rng.randint(0, 999)
        out.append(['Pseed', ['Pseq', [I(seed), I(seed)], 1, 0], ['Pext', cls, args]])
    return out


def seeded_cases(rng, n):
    """Pseed-wrapped Prand / Pxrand / Pwhite with small bodies (many recorded draws)."""
    I = lambda x: V(vi(x))
    out = []
    for _ in range(n):
        seed = rng.randint(0, 99)
        size = rng.randint(1, 4)
        lst = [I(rng.randint(0, 9)) for _ in range(size)]
        k = rng.choice(['Prand', 'Pxrand', 'Pwhite', 'nest', 'Pwhite2', 'Pwrand', 'Pwrand'])
        if k == 'Pwhite':
            body = ['Pwhite', I(0), I(rng.randint(1, 20)), rng.randint(1, 6)]
        elif k == 'Pwhite2':
            body = ['Pwhite', ['Pseq', [I(rng.randint(-3, 3)) for _ in range(3)], 'inf', 0],
                    ['Pseq', [I(rng.randint(-3, 6)) for _ in range(2)], 'inf', 0], rng.randint(1, 6)]
        elif k == 'nest':
            inner = ['Pseed', I(seed), ['Pxrand', lst, 2]]       # same seed value, different call history
            body = ['Prand', [inner, ['Pseq', lst, 1, 0], I(77)], rng.randint(1, 4)]
        elif k == 'Pwrand':
            w = None if rng.random() < 0.25 else [rng.choice([vi(0), vi(1), vi(2), vf(Fraction(1, 2)), vi(5)]) for _ in lst]
            if w is not None and all(Fraction(x[1]) == 0 for x in w):
                w[-1] = vi(1)
            body = ['Pwrand', lst, w, rng.randint(0, 6)]
        else:
            body = [k, lst, rng.randint(0, 6)]
        seeds = ['Pseq', [I(seed), I(rng.choice([seed, seed + 1]))], 1, 0]
        e = ['Pseed', seeds, body]
        if rng.random() < 0.3:
            e = ['Pn', e, 2]
        out.append(e)
    return out


# --------------------------------------------------------------------------- correspondence
def cres(r):
    vals, end = r
    code = {'stop': 0, 'more': 2}.get(end, 1)
    return '(R %s %s)' % (clist(vals, cval), cnat(code))


def ctable(draws):
    def ch(h):
        return '[' + '; '.join('(%s, %s)' % (cz(a), cz(b)) for a, b in h) + ']'
    return '(T [' + '; '.join('(%s, %s, %s, %s, %s)' % (cz(s), ch(h), cz(a), cz(b), cz(r)) for s, h, a, b, r in draws) + '])'


def has_x(r):
    def hx(v):
        return v[0] == 'x' or (v[0] in 'lt' and any(hx(x) for x in v[1]))
    return any(hx(v) for v in r[0])


def canon_end(r):
    return [r[0], r[1] if r[1] in ('stop', 'more', 'timeout') else 'err']


HEADER = ('From Coq Require Import ZArith QArith List NArith. Import ListNotations.\n'
          'Require Import SC3.lib.PyNum SC3.model.Pattern.\nOpen Scope nat_scope.\n'
          'Definition fuel := N.to_nat %d%%N.\n' % FUEL)
HEADER += ('Definition T (l : list (Z * hist * Z * Z * Z)) := l.\n'
           'Definition R (l : list val) (n : nat) := (l, n).\n'
           'Definition chk (c : pat * nat * (list val * nat) * list (Z * hist * Z * Z * Z)) : nat :=\n'
           '  let \'(p, n, r, tbl) := c in let m := run_pat (mk_rnd tbl) fuel n p in\n'
           '  if Nat.eqb (rend_code (snd m)) 3 then 2 else if res_eqb m r then 0 else 1.\n'
           'Fixpoint enc (l : list nat) (i : nat) : list nat :=\n'
           '  match l with [] => [] | 0 :: r => enc r (S i) | 1 :: r => i :: enc r (S i)\n'
           '  | _ :: r => (i + 100000) :: enc r (S i) end.\n')
BODY = 'Eval vm_compute in enc (map chk cases) 0.'


def make_cases(ctx):
    g = Gen(ctx.rng, 4 if ctx.quick else 6)
    cases = []
    corpus = os.path.join(fw.VERIF, 'corpus', 'C13_expressions.json')
    if os.path.exists(corpus):
        for k in json.load(open(corpus)):
            cases.append({'expr': k['expr'], 'n': k.get('n', 24), 'finite': False, 'src': 'corpus'})
    for e in directed():
        cases.append({'expr': e, 'n': 24, 'finite': False, 'src': 'directed'})
    for _ in range(ctx.n(420, 6000)):
        e, fin = g.top()
        cases.append({'expr': e, 'n': ctx.rng.choice([6, 12, 24]), 'finite': fin, 'src': 'random'})
    for _ in range(ctx.n(60, 600)):
        cases.append({'expr': g.malformed(), 'n': 12, 'finite': False, 'src': 'malformed'})
    for e in seeded_cases(ctx.rng, ctx.n(60, 500)):
        cases.append({'expr': e, 'n': 16, 'finite': False, 'src': 'seeded'})
    for e in ext_cases(ctx.rng):
        cases.append({'expr': e, 'n': 14, 'finite': False, 'src': 'seeded_unmodelled', 'implonly': True})
    for c in cases:
        m = ctx.rng.randint(4, 2 * c['n'])
        c['sched'] = [ctx.rng.randint(0, 1) for _ in range(m)]
        c['share'] = ctx.rng.random() < 0.5        # identical sub-expressions built as ONE object
    return cases


CTOR = {}
RERUN = []


def run_impl(ctx, cases, tag=''):
    out = []
    chunk = 1500
    for i in range(0, len(cases), chunk):
        r = ctx.impl('c13_patterns', {'cases': cases[i:i + chunk]}, timeout=900)
        out.extend(r['out'])
        CTOR.update(r.get('ctor_empty', {}))
        RERUN.extend((cases[i + j]['expr'] for j in r.get('rerun_diff', [])))
    return out


def correspond(ctx):
    c = Corr()
    cases = make_cases(ctx)
    out = run_impl(ctx, cases)
    items, owner = [], []          # Coq items and (case index, which observation)
    # the lifting law of EVERY operator method of AbstractObject (argument forwarding + end to end on patterns)
    try:
        lr = ctx.impl('c13_lifting', {})
        c.count('operator_methods_probed', lr.get('methods', 0))
        c.evaluations_extra = getattr(c, 'evaluations_extra', 0) + lr.get('methods', 0)
        for b in lr['bad'][:3]:
            c.failures.append(Failure('correspondence', 'operator lifting law fails on %s: got %s, expected %s' % (b['expr'], b['got'], b['want']),
                                      signature='C13:operator_lifting', found_input=True, theorem='narop_ends_with_shortest', replay=b))
    except fw.ImplError as e_:
        c.failures.append(Failure('correspondence', 'operator lifting probe did not run: %s' % e_))
    for e in RERUN[:3]:
        c.failures.append(Failure('correspondence', 'the same case gives another result when run again later in the same process: %s' % show(e),
                                  signature='C13:process_state', found_input=True, theorem='streams_independent',
                                  replay={'expr': e, 'show': show(e)}))
    del RERUN[:]
    for cls, what in sorted(CTOR.items()):
        c.count('ctor_empty:%s:%s' % (cls, what))
        if what != 'ValueError':
            c.failures.append(Failure('correspondence', '%s([]) is not refused by the constructor (%s); the model assumes it is' % (cls, what),
                                      signature='C13:ctor_accepts_empty', found_input=True, replay={'class': cls, 'got': what}))
    for i, (k, o) in enumerate(zip(cases, out)):
        e = k['expr']
        if o.get('skipped'):
            c.count('skipped_after_timeouts')
            continue
        for kk, vv in kinds(e).items():
            c.count('class:' + kk, vv)
        c.count('src:' + k['src'])
        c.count('depth:%d' % depth(e))
        if 'harness_error' in o or o.get('timeout') or o.get('iter') is None:
            c.failures.append(Failure('correspondence', 'implementation run did not finish on %s: %s' % (show(e), o),
                                      replay={'expr': e, 'show': show(e), 'out': o}))
            continue
        it_ = canon_end(o['iter'])
        c.count('end:' + it_[1])
        # observations that must agree among themselves on the implementation (immutability)
        for name in ('next', 'again', 'embed', 'reset'):
            if canon_end(o[name]) != it_:
                c.failures.append(Failure(
                    'correspondence', 'streams of one pattern differ (%s vs iter) for %s: %s vs %s' % (name, show(e), o[name], o['iter']),
                    signature='C13:streams_differ', found_input=True, theorem='streams_independent',
                    replay={'expr': e, 'show': show(e), 'iter': o['iter'], name: o[name]}))
        # Pif is a FunctionStream: after an end caused by a BRANCH stream it answers again on HEAD (noted, not claimed)
        for a_ in ([] if 'Pif' in kinds(e) else (o.get('after_end') or [])):
            if a_[1] != 'stop' or a_[0]:
                c.failures.append(Failure('correspondence', 'a stream that had ended does not stay ended when pulled again: %s gives %s' % (show(e), a_),
                                          signature='C13:stream_restarts_after_end', found_input=True, theorem='run_eq_den',
                                          replay={'expr': e, 'show': show(e), 'after_end': o['after_end'], 'iter': o['iter']}))
                break
        if o.get('global_rng_touched'):
            c.failures.append(Failure('correspondence', 'a pattern whose randomness is entirely under Pseed used the GLOBAL generator: %s' % show(e),
                                      signature='C13:global_generator_used', found_input=True, theorem='seeded_same_sequence',
                                      replay={'expr': e, 'show': show(e)}))
        if o.get('leaked_tt'):
            c.failures.append(Failure('correspondence', 'the current time thread is not restored after %s (left: %s)' % (show(e), o['leaked_tt']),
                                      signature='C13:leaked_current_tt', found_input=True, theorem='streams_independent',
                                      replay={'expr': e, 'show': show(e), 'left': o['leaked_tt']}))
        if o.get('args_mutated'):
            c.failures.append(Failure('correspondence', 'a list handed to a pattern constructor was changed: %s' % show(e),
                                      signature='C13:argument_mutated', found_input=True, theorem='streams_independent',
                                      replay={'expr': e, 'show': show(e)}))
        if k.get('share'):
            c.count('built_with_shared_subobjects')
        if o.get('mutated'):
            c.failures.append(Failure('correspondence', 'pattern object mutated by its streams: %s' % show(e),
                                      signature='C13:pattern_mutated', found_input=True, theorem='streams_independent',
                                      replay={'expr': e, 'show': show(e)}))
        if o.get('all') is not None and it_[1] == 'stop' and o['all'] != it_[0]:
            c.failures.append(Failure('correspondence', 'stream.all() differs from iteration for %s' % show(e),
                                      signature='C13:all_differs', found_input=True,
                                      replay={'expr': e, 'show': show(e), 'all': o['all'], 'iter': o['iter']}))
        if k.get('implonly'):
            for w in (0, 1):
                tw = canon_end(o['two'][w])
                mlen = min(len(tw[0]), len(it_[0]))
                if tw[0][:mlen] != it_[0][:mlen]:
                    c.failures.append(Failure('correspondence', 'interleaved streams of one seeded pattern differ: %s' % show(e),
                                              signature='C13:seeded_differs', found_input=True, theorem='seeded_same_sequence',
                                              replay={'expr': e, 'show': show(e), 'iter': o['iter'], 'two': o['two']}))
            c.evaluations_extra = getattr(c, 'evaluations_extra', 0) + 1
            continue
        if it_[1] == 'timeout' or has_x(it_):
            c.failures.append(Failure('correspondence', 'unexpected value or timeout on %s: %s' % (show(e), o['iter']),
                                      replay={'expr': e, 'show': show(e), 'iter': o['iter']}))
            continue
        if o.get('draws_inconsistent'):
            c.failures.append(Failure('correspondence', 'a seeded generator gave different results after the same history: %s' % show(e),
                                      signature='C13:seeded_differs', found_input=True, theorem='seeded_same_sequence',
                                      replay={'expr': e, 'show': show(e)}))
        pt = cexpr(e)
        tb = ctable(o.get('draws', []))
        if o.get('draws'):
            c.count('cases_with_recorded_draws')
            c.count('recorded_draws', len(o['draws']))
        items.append('(%s, %s, %s, %s)' % (pt, cnat(k['n']), cres(it_), tb))
        owner.append((i, 'iter'))
        # two interleaved streams: each must equal the model's run of a single stream
        for w in (0, 1):
            if o.get('ctor_error'):
                break
            calls = sum(1 for x in k['sched'] if x == w)
            tw = canon_end(o['two'][w])
            if has_x(tw):
                continue
            # the stream was asked `calls` times; after its end it is not asked again
            if tw[1] == 'more' and len(tw[0]) < calls:
                tw = [tw[0], 'more']
            items.append('(%s, %s, %s, %s)' % (pt, cnat(calls), cres(tw), tb))
            owner.append((i, 'two%d' % w))
        if len(it_[0]) >= 2 and depth(e) >= 2:
            c.nontriv(e)
    bad, errs = fw.check_shards(ctx, 'pat', HEADER, items, BODY, shard=120)
    fuel_out = [j - 100000 for j in bad if j >= 100000]
    bad = [j for j in bad if j < 100000]
    c.count('model_out_of_fuel', len(fuel_out))
    c.evaluations = len(items) + getattr(c, 'evaluations_extra', 0)
    c.rule = ('random expressions over Pseq Pser Pn Place Plen Pdrop Pstutter Pclump Pflatten Pdiff Pconst Pcollect Pselect '
              'Preject Pwrap Punop Pbinop Pnarop Pif Pseries Pgeom Pswitch Pswitch1 Ptuple Pslide Pseed(Prand|Pxrand|Pwhite) (depth <= %d, finite and inf '
              'repeats, ints / dyadic floats / bools / lists / tuples) plus directed boundary expressions and a malformed '
              'stream, built as REAL sc3 objects; observed with next(iter(p)) x n, stream.next() x n, stream.all(), two '
              'interleaved streams of one object, and a late third stream; the draws of every seeded generator are recorded and given to the model as its oracle table; model = run of the operational semantics by '
              'vm_compute; exact comparison of values (type and value) and of the ending (stop / exception / more). '
              'non-trivial = depth >= 2 and at least two values produced' % (4 if ctx.quick else 6))
    c.samples = [{'expr': show(k['expr']), 'impl': o.get('iter')} for k, o in list(zip(cases, out))[60:66]]
    for e_ in errs:
        c.failures.append(Failure('correspondence', 'coq evaluation of pattern cases failed: ' + e_))
    seen = set()
    for j in bad:
        i, what = owner[j]
        if i in seen:
            continue
        seen.add(i)
        k, o = cases[i], out[i]
        if len(seen) > 12:
            break
        c.failures.append(Failure(
            'correspondence', 'model and implementation disagree (%s) on %s: impl=%s' % (what, show(k['expr']), o['iter'] if what == 'iter' else o['two']),
            replay={'expr': k['expr'], 'show': show(k['expr']), 'n': k['n'], 'sched': k['sched'], 'impl': o, 'observation': what}))
    c.notes.append('mismatching cases: %d of %d observations' % (len(bad), len(items)))
    return c


# --------------------------------------------------------------------------- search
def classify(e):
    k = e[0]
    if k == 'Pslide' and not e[5]:
        return 'C13:Pslide.nowrap_negative_index'
    if k in ('Pseq', 'Place') and not (-len(e[1]) <= e[3] <= len(e[1])):
        return 'C13:%s.offset_not_wrapped' % k
    return 'C13:' + (k if k != 'Pfun' else 'P' + e[1])


class RefTimeout(Exception):
    pass


def bounded(f, seconds=1.0):
    """Run f() in this (main) thread under a CPU-time alarm: the reference is a plain Python generator
    algebra and spins for ever on an expression that never yields (Pstutter(1, 0), a selection that rejects
    a constant stream ...).  Such expressions can be produced by the shrinker on a broken tree."""
    import signal

    def onalarm(sig, frm):
        raise RefTimeout()
    old = signal.signal(signal.SIGVTALRM, onalarm)
    signal.setitimer(signal.ITIMER_VIRTUAL, seconds)
    try:
        return f()
    finally:
        signal.setitimer(signal.ITIMER_VIRTUAL, 0)
        signal.signal(signal.SIGVTALRM, old)


def oracle_disagrees(ctx, exprs, n=24):
    """Return [(expr, impl, ref)] for expressions on which the implementation differs from the reference."""
    import c13_reference as ref
    cases = [{'expr': e, 'n': n, 'finite': False, 'sched': []} for e in exprs]
    out = run_impl(ctx, cases)
    bad = []
    for e, o in zip(exprs, out):
        if o.get('iter') is None or o.get('skipped'):
            continue
        im = canon_end(o['iter'])
        try:
            rf = bounded(lambda: ref.evaluate(e, n))
        except (RecursionError, ref.Unsupported, RefTimeout):
            continue            # no verdict from the reference (e.g. an expression that never yields)
        if im != rf:
            bad.append((e, im, rf))
    return bad


def shrink_candidates(e):
    cands = [c for c in children(e) if c[0] != 'val']
    k = e[0]
    if k in ('Pseq', 'Pser', 'Pswitch', 'Pswitch1', 'Ptuple', 'Pslide') and len(e[1]) > 1:
        for i in range(len(e[1])):
            cands.append([k, e[1][:i] + e[1][i + 1:]] + e[2:])
    # replace a non-value child by a plain value / simple sequence
    for i in range(1, len(e)):
        x = e[i]
        if isinstance(x, list) and x and isinstance(x[0], str) and x[0].startswith('P') and depth(x) >= 1 and k != 'Place':
            for rep in (V(vi(1)), ['Pseq', [V(vi(1)), V(vi(2)), V(vi(3))], 1, 0]):
                if rep != x:
                    cands.append(e[:i] + [rep] + e[i + 1:])
        if isinstance(x, list) and x and isinstance(x[0], list) and k != 'Place':
            for j, y in enumerate(x):
                if isinstance(y, list) and y and y[0] != 'val':
                    cands.append(e[:i] + [x[:j] + [V(vi(j + 1))] + x[j + 1:]] + e[i + 1:])
    return cands


def random_laws(ctx):
    """Draw-free documented laws of the seeded random patterns, probed on the implementation:
    Prand/Pxrand yield `repeats` items of the list per seed, Pxrand never the same item twice in
    a row, Pwhite(lo, hi) ints stay within the bounds and yields `length` values."""
    I = lambda x: V(vi(x))
    exprs, meta = [], []
    for _ in range(ctx.n(40, 200)):
        size = ctx.rng.randint(2, 5)
        vals = ctx.rng.sample(range(-20, 20), size)
        r = ctx.rng.randint(1, 12)
        seed = ctx.rng.randint(0, 999)
        kind = ctx.rng.choice(['Prand', 'Pxrand', 'Pxrand', 'Pwhite', 'Pwrand'])
        if kind == 'Pwhite':
            lo, hi = sorted(ctx.rng.sample(range(-10, 10), 2))
            body = ['Pwhite', I(lo), I(hi), r]
            meta.append((kind, [lo, hi], r))
        elif kind == 'Pwrand':
            w = [ctx.rng.choice([0, 0, 1, 3]) for _ in vals]
            w[ctx.rng.randrange(size)] = 2
            body = ['Pwrand', [I(v) for v in vals], [vi(x) for x in w], r]
            meta.append((kind, [v for v, x in zip(vals, w) if x > 0], r))       # items of weight 0 never appear
        else:
            body = [kind, [I(v) for v in vals], r]
            meta.append((kind, vals, r))
        exprs.append(['Pseed', ['Pseq', [I(seed)], 1, 0], body])
    out = run_impl(ctx, [{'expr': e, 'n': 40, 'finite': False, 'sched': []} for e in exprs])
    found = []
    for e, (kind, vals, r), o in zip(exprs, meta, out):
        if not o.get('iter') or o['iter'][1] != 'stop':
            why = 'did not end normally: %s' % (o.get('iter') and o['iter'][1])
            xs = []
        else:
            xs = [int(v[1]) if v[0] == 'i' else None for v in o['iter'][0]]
            why = None
            if len(xs) != r:
                why = 'yields %d values, documented %d' % (len(xs), r)
            elif kind == 'Pwhite' and not all(x is not None and vals[0] <= x <= vals[1] for x in xs):
                why = 'value outside the bounds'
            elif kind != 'Pwhite' and not all(x in vals for x in xs):
                why = 'value not in the list'
            elif kind == 'Pxrand' and any(a == b for a, b in zip(xs, xs[1:])):
                why = 'the same item twice in a row'
        if why:
            found.append(Failure('search', 'seeded %s breaks its documented law (%s) on %s: got %s' % (kind, why, show(e), xs),
                                 signature='C13:%s.law' % kind, found_input=True, theorem='den_sound_all_classes',
                                 replay={'expr': e, 'show': show(e), 'impl': o.get('iter'), 'law': why}))
            if len(found) >= 2:
                break
    return found


def search(ctx, failures):
    g = Gen(ctx.rng, 3)
    exprs = [f.replay['expr'] for f in failures if f.replay.get('expr')]
    exprs += directed()
    exprs += [g.top()[0] for _ in range(ctx.n(150, 1500))]
    bad = oracle_disagrees(ctx, exprs)
    found, sigs = [], set()
    for e, im, rf in bad:
        # shrink (a few rounds, each one implementation process)
        for _ in range(6):
            cands = shrink_candidates(e)
            if not cands:
                break
            sub = oracle_disagrees(ctx, cands[:40])
            if not sub:
                break
            sub.sort(key=lambda t: len(json.dumps(t[0])))
            e, im, rf = sub[0]
        sig = classify(e)
        if sig in sigs:
            continue
        sigs.add(sig)
        found.append(Failure(
            'search', 'implementation contradicts the documented meaning on %s: got %s, documented %s' % (show(e), im, rf),
            signature=sig, found_input=True, theorem='run_eq_den',
            replay={'expr': e, 'show': show(e), 'impl': im, 'documented': rf,
                    'how': 'PYTHONPATH=/repo python: import sc3; sc3.init("nrt"); list(islice(iter(%s), 24))' % show(e)}))
        if len(found) >= 5:
            break
    if any('seed' in (f.replay.get('show') or '') for f in failures) or not found:
        found.extend(random_laws(ctx))
    # lifting law of every binary operator (number op pattern, pattern op number, nested)
    try:
        for b in ctx.impl('c13_reflected', {})['bad'][:3]:
            found.append(Failure('search', 'operator lifting law fails on %s: got %s, element-wise %s' % (b['expr'], b['got'], b['want']),
                                 signature='C13:operator_lifting', found_input=True, theorem='binop_ends_with_shortest', replay=b))
    except fw.ImplError as e:
        fw.log('reflected probe failed: %s' % e)
    return found
