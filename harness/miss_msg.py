#!/usr/bin/env python3
"""miss_msg.py Cxx k [k ...]: text of a strengthening request for seeded changes the check missed (from their meta.json)."""
import json, sys, os
V = os.path.dirname(os.path.dirname(os.path.abspath(__file__)))
pid, ks = sys.argv[1], sys.argv[2:]
out = ['Seeded changes MISSED by ./check %s (each kept under /verif/seeded/%s-<k>/ with patch.diff, demo.py, meta.json):' % (pid, pid)]
for k in ks:
    m = json.load(open(os.path.join(V, 'seeded', '%s-%s' % (pid, k), 'meta.json')))
    out.append('- seeded/%s-%s (%s): %s NEEDS: %s' % (pid, k, m.get('file'), m.get('summary'), m.get('needs')))
out.append('Same procedure as /verif/build/ROUND3_MSG.md steps 1-5 (decide whether each is a genuine violation inside the quantifier; '
           'find the general CLASS of inputs / operations / configurations the check lacks and add that class, not the seed\'s input; '
           'confirm with your own SEED_WT and seed_eval --skip-suite; ./check %s on three seeds + thorough must stay OK on /repo HEAD; '
           'quick tier should stay under ~1 minute; a defect of unmodified sc3 exposed on the way goes to build/proposed_fixes), '
           'then refresh build/claims_update/%s.json and notes/%s.md.' % (pid, pid, pid))
print('\n'.join(out))
