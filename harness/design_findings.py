#!/usr/bin/env python3
"""Rewrites the findings table of DESIGN.md (between FINDINGS markers) from known_findings.json."""
import json, os, re
HERE = os.path.dirname(os.path.dirname(os.path.abspath(__file__)))
k = json.load(open(os.path.join(HERE, 'known_findings.json')))['findings']
rows = []
for f in k:
    what = re.sub(r'^fixed: property=C\d+ \w+ ', '', f['what'])
    rows.append('| %s | %s | %s | %s |' % (f['property'], 'known' if f['status'] == 'known' else 'fixed `%s`' % f['commit'],
                                         f['signature'], what.replace('|', '\\|')))
rows.sort()
nfix = sum(1 for f in k if f['status'] == 'fixed'); nk = len(k) - nfix
block = ('<!-- FINDINGS-BEGIN -->\n%d findings: %d repaired by `fix:` commits in /repo, %d recorded as known.\n\n'
         '| prop. | status | signature | failing input / what failed |\n|---|---|---|---|\n' % (len(k), nfix, nk)
         + '\n'.join(rows) + '\n<!-- FINDINGS-END -->')
p = os.path.join(HERE, 'DESIGN.md')
s = open(p).read()
s = re.sub(r'<!-- FINDINGS-BEGIN -->.*?<!-- FINDINGS-END -->', lambda m: block, s, flags=re.S)
open(p, 'w').write(s)
print(len(k), nfix, nk)
