#!/usr/bin/env python3
"""add_claim.py Cxx <<< JSON {text, technique, note, ref}; add_claim.py --fixed Cxx signature 'commit-subject-fragment' 'what failed'"""
import json, sys, subprocess, os
HERE = os.path.dirname(os.path.dirname(os.path.abspath(__file__)))
if sys.argv[1] == '--fixed':
    _, _, pid, sig, frag, what = sys.argv
    sha = None
    for l in subprocess.check_output(['git', '-C', '/repo', 'log', '--format=%h %s']).decode().splitlines():
        if frag in l:
            sha = l.split()[0]
    assert sha, frag
    p = os.path.join(HERE, 'known_findings.json')
    k = json.load(open(p))
    k['findings'].append({'status': 'fixed', 'property': pid, 'signature': sig, 'commit': sha,
                          'what': 'fixed: property=%s %s %s' % (pid, sha, what)})
    json.dump(k, open(p, 'w'), indent=1)
else:
    pid = sys.argv[1]
    p = os.path.join(HERE, 'harness', 'claims.json')
    c = json.load(open(p))
    c[pid] = json.load(sys.stdin)
    json.dump(c, open(p, 'w'), indent=1, sort_keys=True)
