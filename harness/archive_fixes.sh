#!/bin/sh
# Archive every "fix:" commit of /repo (on top of the pinned snapshot) under /verif/fixes.
cd /repo || exit 1
for c in $(git rev-list 43c8f67..HEAD); do
  s=$(git log -1 --format=%f $c | cut -c1-62)
  f=/verif/fixes/$(git rev-parse --short $c)-$s.patch
  [ -f "$f" ] || { git format-patch -1 --stdout $c > "$f"; echo "new $f"; }
done
