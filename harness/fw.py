"""Framework shared by every property check (see DESIGN.md section 2).

One check = regenerate -> re-prove -> correspond -> decide.
Property modules live in harness/props/Cxx.py and expose:

    TITLE            short text
    TRANSLATED       list of generated files this property depends on (names in translator.TARGETS)
    ALLOWED_AXIOMS   list of axiom names allowed in Print Assumptions (default [])
    def correspond(ctx) -> Corr        (runs model and implementation on the same cases)
    def search(ctx, reason) -> list of Failure   (look for a concrete failing input on the implementation)
    TRUSTED          list of strings (trusted base specific to this property)
"""
import fcntl
import hashlib
import json
import os
import random
import re
import subprocess
import sys
import time
from fractions import Fraction

VERIF = os.path.dirname(os.path.dirname(os.path.abspath(__file__)))
BUILD = os.path.join(VERIF, 'build')
REPO = os.environ.get('SC3_REPO', '/repo')
COQ_SRC = os.path.join(VERIF, 'coq')
if os.path.realpath(REPO) == os.path.realpath('/repo'):
    COQ = COQ_SRC
else:
    # checks against another tree (SC3_REPO=<scratch worktree>) get their own copy of the Coq build
    # directory, so that their regenerated coq/gen files cannot race with checks running against /repo
    COQ = os.path.join(BUILD, 'coq_alt', hashlib.sha1(os.path.realpath(REPO).encode()).hexdigest()[:12])
PY = os.environ.get('SC3_PY', '/venv/bin/python')
NPROC = int(os.environ.get('VERIF_JOBS', '0')) or min(16, os.cpu_count() or 4)

FORBIDDEN = re.compile(
    r'\b(Admitted|admit|Axiom|Axioms|Parameter|Parameters|Conjecture|Conjectures|'
    r'Admit Obligations|bypass_check|Unset Guard Checking|Unset Positivity Checking|'
    r'Unset Universe Checking|type-in-type|impredicative-set)\b')

STD_TRUSTED = [
    'Coq 8.16.1 kernel (coqc, vm_compute; no native_compute)',
    'Coq standard library (ZArith QArith Lia Lra List Permutation Sorting Bool String)',
    'harness: case generators, canonicalisation and the subprocess runner that drives the real library',
]


# ---------------------------------------------------------------------------
# small utilities

def log(*a):
    print(*a, file=sys.stderr, flush=True)


def sh(cmd, timeout=600, cwd=None, env=None, input=None):
    """Run a command, return (rc, stdout+stderr)."""
    try:
        p = subprocess.run(cmd, cwd=cwd, env=env, input=input, timeout=timeout,
                           stdout=subprocess.PIPE, stderr=subprocess.STDOUT,
                           text=True, shell=isinstance(cmd, str))
        return p.returncode, p.stdout
    except subprocess.TimeoutExpired as e:
        out = e.stdout if isinstance(e.stdout, str) else (e.stdout or b'').decode('utf8', 'replace')
        return 124, (out or '') + '\n[timeout after %ss]' % timeout


def sync_alt_coq():
    """Bring the alternative build directory up to date with /verif/coq (sources and compiled files)."""
    if COQ == COQ_SRC:
        return
    os.makedirs(COQ, exist_ok=True)
    sh(['rsync', '-a', '--delete', '--exclude', 'gen/', COQ_SRC + '/', COQ + '/'])
    os.makedirs(os.path.join(COQ, 'gen'), exist_ok=True)


class Lock:
    """flock on build/.lock: serialises regenerate+make between concurrent checks."""
    def __init__(self, name='coq'):
        os.makedirs(BUILD, exist_ok=True)
        if COQ != COQ_SRC:
            name += '-' + os.path.basename(COQ)
        self.path = os.path.join(BUILD, '.lock-' + name)

    def __enter__(self):
        self.f = open(self.path, 'w')
        fcntl.flock(self.f, fcntl.LOCK_EX)
        return self

    def __exit__(self, *a):
        fcntl.flock(self.f, fcntl.LOCK_UN)
        self.f.close()


# ---------------------------------------------------------------------------
# Coq term printers (Python value -> Gallina text)

def cz(n):
    n = int(n)
    return '(%d)%%Z' % n if n < 0 else '%d%%Z' % n


def cnat(n):
    assert 0 <= n < 5000, n
    return '%d%%nat' % n


def cN(n):
    assert n >= 0
    return '%d%%N' % n


def cq(x):
    fr = Fraction(x)
    return '(%s # %d)%%Q' % (('(%d)' % fr.numerator) if fr.numerator < 0 else str(fr.numerator), fr.denominator)


def cbool(b):
    return 'true' if b else 'false'


def clist(items, f=None):
    if f is not None:
        items = [f(i) for i in items]
    return '[' + '; '.join(items) + ']'


def copt(x, f):
    return 'None' if x is None else '(Some %s)' % f(x)


def cpair(*xs):
    return '(' + ', '.join(xs) + ')'


def cbytes(b):
    return clist(['%d' % x for x in bytes(b)]) + '%Z' if False else '[' + ';'.join(str(x) for x in bytes(b)) + ']%Z'


def cstr(s):
    """Python str -> Coq string literal (ASCII printable only)."""
    assert all(32 <= ord(c) < 127 for c in s), s
    return '"' + s.replace('"', '""') + '"%string'


# ---------------------------------------------------------------------------

class Failure:
    """One thing that went wrong, possibly with a concrete failing input."""
    def __init__(self, kind, what, signature=None, replay=None, found_input=False, theorem=None):
        self.kind = kind              # 'translator' | 'proof' | 'assumptions' | 'correspondence' | 'search' | 'gate'
        self.what = what              # human text
        self.signature = signature    # compared with known_findings.json
        self.replay = replay or {}    # json-able: the input / history / theorem name
        self.found_input = found_input
        self.theorem = theorem

    def as_json(self):
        return {'kind': self.kind, 'what': self.what, 'signature': self.signature,
                'found_failing_input': self.found_input, 'theorem': self.theorem, 'replay': self.replay}


class Corr:
    """Result of a correspondence run."""
    def __init__(self):
        self.evaluations = 0
        self.nontrivial = set()       # hashes of distinct non-trivial cases
        self.rule = ''
        self.samples = []
        self.distribution = {}
        self.failures = []            # list of Failure
        self.notes = []
        self.known_demonstrated = []  # (signature, text) demonstrations of known findings reproduced on impl

    def count(self, key, n=1):
        self.distribution[key] = self.distribution.get(key, 0) + n

    def nontriv(self, case):
        self.nontrivial.add(hashlib.sha1(repr(case).encode()).hexdigest())


class Ctx:
    def __init__(self, pid, tier, seed):
        self.pid = pid
        self.tier = tier
        self.seed = seed
        self.rng = random.Random(seed * 1000003 + int(pid[1:]))
        self.work = os.path.join(BUILD, 'work', pid if COQ == COQ_SRC else pid + '-' + os.path.basename(COQ))
        os.makedirs(self.work, exist_ok=True)
        self.proof_ok = None
        self.proof_log = ''
        self.translator_errors = []
        self.t0 = time.time()

    @property
    def quick(self):
        return self.tier == 'quick'

    def n(self, quick, thorough):
        return quick if self.quick else thorough

    # -- run Coq on generated text ------------------------------------
    def coq(self, name, text, timeout=600):
        """Compile text as build/work/<pid>/<name>.v against the development; return (rc, out)."""
        path = os.path.join(self.work, name + '.v')
        with open(path, 'w') as f:
            f.write(text)
        cmd = 'ulimit -s unlimited 2>/dev/null; exec coqc -q -Q %s SC3 -Q %s W %s' % (COQ, self.work, path)
        return sh(['bash', '-c', cmd], timeout=timeout, cwd=self.work)

    def coq_shards(self, name, header, items, body, shard=300, timeout=900):
        """Evaluate many cases in parallel shards.

        items: list of Gallina terms (strings); each shard file is
            header ++ 'Definition cases := [items].' ++ body
        body must print with  Eval vm_compute in <term using cases>.
        Returns list of (rc, out, first_index) per shard."""
        shards = [items[i:i + shard] for i in range(0, len(items), shard)]
        procs = []
        results = [None] * len(shards)
        paths = []
        for k, sh_items in enumerate(shards):
            path = os.path.join(self.work, '%s_%03d.v' % (name, k))
            with open(path, 'w') as f:
                f.write(header + '\nDefinition cases := [\n' + ';\n'.join(sh_items) + '\n].\n' + body + '\n')
            paths.append(path)
        running = {}
        k = 0
        deadline = time.time() + timeout
        while k < len(paths) or running:
            while k < len(paths) and len(running) < NPROC:
                cmd = 'ulimit -s unlimited 2>/dev/null; exec coqc -q -Q %s SC3 -Q %s W %s' % (COQ, self.work, paths[k])
                running[k] = subprocess.Popen(['bash', '-c', cmd], cwd=self.work, stdout=subprocess.PIPE,
                                              stderr=subprocess.STDOUT, text=True)
                k += 1
            for j, p in list(running.items()):
                if p.poll() is not None:
                    results[j] = (p.returncode, p.stdout.read(), j * shard)
                    del running[j]
            if time.time() > deadline:
                for j, p in running.items():
                    p.kill()
                    results[j] = (124, '[timeout]', j * shard)
                running = {}
                for j in range(len(results)):
                    if results[j] is None:
                        results[j] = (124, '[timeout: not started]', j * shard)
                break
            time.sleep(0.02)
        return results

    # -- run the real library -------------------------------------------
    def impl(self, script, payload, mode='nrt', timeout=600, hashseed='0', extra_env=None):
        """Run harness/impl/<script>.py on the real library in a fresh process.

        payload (json-able) is written to a file; the script prints one JSON document."""
        inp = os.path.join(self.work, 'impl_%s_%d_in.json' % (script, os.getpid()))
        outp = os.path.join(self.work, 'impl_%s_%d_out.json' % (script, os.getpid()))
        with open(inp, 'w') as f:
            json.dump(payload, f)
        env = dict(os.environ)
        env.update({'PYTHONPATH': REPO + os.pathsep + os.path.join(VERIF, 'harness'),
                    'PYTHONHASHSEED': str(hashseed),
                    'SC3_MODE': mode, 'PYTHONWARNINGS': 'ignore'})
        if extra_env:
            env.update(extra_env)
        if os.path.exists(outp):
            os.remove(outp)
        cmd = [PY, '-W', 'ignore', os.path.join(VERIF, 'harness', 'impl', script + '.py'), inp, outp]
        if mode == 'rt' and netns_available():
            # real-time mode binds UDP ports: give every RT runner a private network namespace (own loopback),
            # so that concurrently running checks / other jobs can never collide on a port
            import shlex
            cmd = ['unshare', '-rn', 'sh', '-c', 'ip link set lo up 2>/dev/null; exec ' + ' '.join(shlex.quote(c) for c in cmd)]
        rc, out = sh(cmd, timeout=timeout, cwd=self.work, env=env)
        if rc != 0 or not os.path.exists(outp):
            raise ImplError('impl runner %s failed rc=%s\n%s' % (script, rc, out[-4000:]))
        with open(outp) as f:
            return json.load(f)


class ImplError(Exception):
    pass


_NETNS = None


def netns_available():
    global _NETNS
    if _NETNS is None:
        try:
            rc, out = sh(['unshare', '-rn', 'sh', '-c', 'ip link set lo up && echo ok'], timeout=20)
            _NETNS = (rc == 0 and 'ok' in out)
        except Exception:
            _NETNS = False
    return _NETNS


def parse_nat_list(out):
    """Parse the '= [a; b; c]' printed by Eval vm_compute of a list of nat."""
    m = re.search(r'=\s*\[(.*?)\]\s*:\s*list', out, re.S)
    if not m:
        return None
    body = m.group(1).strip()
    if not body:
        return []
    return [int(x.replace('%nat', '').strip()) for x in body.split(';')]


def check_shards(ctx, name, header, items, body, shard=300, timeout=900):
    """Run shards whose body prints the list of mismatching local indices (list nat).
    Return (bad_indices_global, errors)."""
    bad, errors = [], []
    for rc, out, base in ctx.coq_shards(name, header, items, body, shard=shard, timeout=timeout):
        if rc != 0:
            errors.append(out[-3000:])
            continue
        idx = parse_nat_list(out)
        if idx is None:
            errors.append('unparsable coq output: ' + out[-2000:])
            continue
        bad.extend(base + i for i in idx)
    return bad, errors


# ---------------------------------------------------------------------------
# stages

def gate():
    """No Admitted/Axiom/... anywhere in the development."""
    hits = []
    for root, _, files in os.walk(COQ):
        for fn in files:
            if fn.endswith('.v'):
                p = os.path.join(root, fn)
                for i, line in enumerate(open(p, encoding='utf8'), 1):
                    if FORBIDDEN.search(line):
                        hits.append('%s:%d: %s' % (p, i, line.strip()))
    return hits


def regenerate(ctx, targets=None):
    """Re-run the translator on /repo's working tree (all targets; cheap)."""
    sys.path.insert(0, os.path.join(VERIF, 'harness'))
    from translator import targets as T
    errs = T.regenerate_all(REPO, os.path.join(COQ, 'gen'), only=targets)
    ctx.translator_errors = errs
    return errs


def ensure_makefile():
    mk = os.path.join(COQ, 'Makefile')
    proj = os.path.join(COQ, '_CoqProject')
    files = []
    for d in ('lib', 'gen', 'model', 'proofs', 'props'):
        dd = os.path.join(COQ, d)
        for fn in sorted(os.listdir(dd)):
            if fn.endswith('.v'):
                files.append('%s/%s' % (d, fn))
    want = '-Q . SC3\n-arg -w -arg -notation-overridden,-deprecated-hint-without-locality,-deprecated-instance-without-locality\n' + '\n'.join(files) + '\n'
    old = open(proj).read() if os.path.exists(proj) else ''
    if want != old or not os.path.exists(mk):
        with open(proj, 'w') as f:
            f.write(want)
        rc, out = sh('coq_makefile -f _CoqProject -o Makefile', cwd=COQ)
        if rc != 0:
            raise RuntimeError(out)


def make(targets, timeout=1500, keep_going=True):
    ensure_makefile()
    cmd = ['make', '-j%d' % NPROC] + (['-k'] if keep_going else []) + targets
    env = dict(os.environ)
    env['TIMED'] = ''
    return sh(['bash', '-c', 'ulimit -s unlimited 2>/dev/null; exec timeout %d ' % timeout + ' '.join(cmd)], timeout=timeout + 30, cwd=COQ, env=env)


def theorems_of(pid):
    p = os.path.join(COQ, 'props', pid + '.v')
    if not os.path.exists(p):
        return []
    txt = open(p).read()
    return re.findall(r'^\s*Theorem\s+([A-Za-z0-9_\']+)', txt, re.M)


def deps_of(pid):
    """Transitive .v dependencies of props/<pid>.v inside the development (from .Makefile.d)."""
    d = os.path.join(COQ, '.Makefile.d')
    deps = {}
    if os.path.exists(d):
        for line in open(d):
            if ':' not in line:
                continue
            lhs, rhs = line.split(':', 1)
            for t in lhs.split():
                if t.endswith('.vo'):
                    deps[t] = [x for x in rhs.split() if x.endswith('.vo')]
    seen, todo = [], ['props/%s.vo' % pid]
    while todo:
        t = todo.pop()
        if t in seen:
            continue
        seen.append(t)
        todo.extend(deps.get(t, []))
    return [s[:-1] for s in seen]


def print_assumptions(ctx, theorems):
    txt = 'Require Import SC3.props.%s.\n' % ctx.pid
    for t in theorems:
        txt += 'Print Assumptions %s.\n' % t
    rc, out = ctx.coq('assump', txt, timeout=900)
    res = {}
    if rc != 0:
        return None, out
    # split outputs: each is either "Closed under the global context" or "Axioms:\n name : type ..."
    chunks = re.split(r'(?=Closed under the global context|Axioms:)', out)
    chunks = [c for c in chunks if c.strip().startswith(('Closed', 'Axioms:'))]
    for t, c in zip(theorems, chunks):
        if c.strip().startswith('Closed'):
            res[t] = []
        else:
            res[t] = sorted(set(re.findall(r'^([A-Za-z_][\w\.\']*)\s*:', c, re.M)) - {'Axioms'})
    if len(chunks) != len(theorems):
        return None, 'could not parse Print Assumptions output:\n' + out
    return res, out


# ---------------------------------------------------------------------------
# known findings

def load_known():
    p = os.path.join(VERIF, 'known_findings.json')
    if not os.path.exists(p):
        return []
    return json.load(open(p)).get('findings', [])


def known_for(pid):
    return [k for k in load_known() if k.get('property') == pid and k.get('status') == 'known']


# ---------------------------------------------------------------------------
# driver

def write_replay(pid, fail, idx):
    d = os.path.join(VERIF, 'replays')
    os.makedirs(d, exist_ok=True)
    body = fail.as_json()
    body['property'] = pid
    h = hashlib.sha1(json.dumps(body, sort_keys=True, default=str).encode()).hexdigest()[:10]
    path = os.path.join(d, '%s-%s.json' % (pid, h))
    with open(path, 'w') as f:
        json.dump(body, f, indent=1, default=str)
    return path


def evidence_dir():
    """evidence/ is only written by checks of /repo itself; runs against a scratch tree write elsewhere."""
    if COQ == COQ_SRC:
        return os.path.join(VERIF, 'evidence')
    return os.path.join(BUILD, 'evidence_alt', os.path.basename(COQ))


def clean_work(ctx):
    """Remove the previous run's shard files (disk space)."""
    for fn in os.listdir(ctx.work):
        if fn.endswith(('.v', '.vo', '.vok', '.vos', '.glob', '.aux', '.json')) or fn.startswith('.'):
            try:
                os.remove(os.path.join(ctx.work, fn))
            except OSError:
                pass


def run_check(pid, tier, seed, mod):
    with Lock('check-' + pid):
        return _run_check(pid, tier, seed, mod)


def _run_check(pid, tier, seed, mod):
    t0 = time.time()
    ctx = Ctx(pid, tier, seed)
    clean_work(ctx)
    failures = []
    known_lines = []

    # 0. gate
    hits = gate()
    if hits:
        failures.append(Failure('gate', 'forbidden construct in development: ' + '; '.join(hits[:5])))

    # 1+2. regenerate, re-prove (under lock: shared .vo files)
    with Lock():
        sync_alt_coq()
        theorems = theorems_of(pid)
        terrs = regenerate(ctx)
        ensure_makefile()
        rc, out = make(['props/%s.vo' % pid], timeout=getattr(mod, 'MAKE_TIMEOUT', 1500))
        ctx.proof_ok = (rc == 0)
        ctx.proof_log = out
        if rc != 0:
            # make sure the executable models are built even if a proof broke
            mrc, mout = make(getattr(mod, 'MODEL_TARGETS', []), timeout=900) if getattr(mod, 'MODEL_TARGETS', None) else (0, '')
            ctx.model_ok = (mrc == 0)
        else:
            ctx.model_ok = True
    relevant_terrs = [e for e in terrs if e['target'] in getattr(mod, 'TRANSLATED', [])]
    for e in relevant_terrs:
        failures.append(Failure('translator', 'translator refused %s: %s' % (e['target'], e['error']),
                                replay={'target': e['target'], 'error': e['error']}))
    discharged = 0
    assumptions = {}
    if ctx.proof_ok:
        assumptions, aout = print_assumptions(ctx, theorems)
        if assumptions is None:
            failures.append(Failure('assumptions', 'Print Assumptions failed: ' + aout[-1500:]))
            assumptions = {}
        else:
            allowed = set(getattr(mod, 'ALLOWED_AXIOMS', []))
            for t, ax in assumptions.items():
                extra = [a for a in ax if a.split('.')[-1] not in allowed and a not in allowed]
                if extra:
                    failures.append(Failure('assumptions', 'theorem %s depends on axioms outside the allow-list: %s' % (t, extra), theorem=t))
                else:
                    discharged += 1
    else:
        m = re.findall(r'File "([^"]+)", line (\d+), characters[^\n]*\n(?:.*\n){0,12}?Error:?([^\n]*(?:\n[^\n]+){0,6})', out)
        where = '; '.join('%s:%s %s' % (a, b, ' '.join(c.split())[:300]) for a, b, c in m[:3]) or out[-1500:]
        if not relevant_terrs:
            failures.append(Failure('proof', 'proof obligations of props/%s.v no longer check: %s' % (pid, where),
                                    replay={'coq_error': where, 'theorems': theorems}, theorem=','.join(theorems)))

    # 3. correspondence
    corr = Corr()
    try:
        if ctx.model_ok:
            corr = mod.correspond(ctx)
        else:
            failures.append(Failure('correspondence', 'model files do not build, correspondence not run: ' + ctx.proof_log[-1500:]))
    except ImplError as e:
        failures.append(Failure('correspondence', 'implementation runner failed: %s' % e, replay={'error': str(e)}))
    failures.extend(corr.failures)

    # 4. search: when something broke without a concrete input, look for one on the implementation
    need_search = [f for f in failures if not f.found_input]
    if need_search and hasattr(mod, 'search'):
        try:
            found = mod.search(ctx, need_search)
        except ImplError as e:
            found = []
            log('search failed: %s' % e)
        if found:
            # concrete inputs replace the input-less reports they explain
            # (only broken proofs / refused translations are explained by a found input;
            #  correspondence disagreements, gate and assumption failures always stay)
            failures = [f for f in failures if f.found_input] + found + \
                       [f for f in need_search if f.kind not in ('proof', 'translator')]

    # 5. decide
    known = known_for(pid)
    ksigs = {k['signature']: k for k in known}
    real = []
    for f in failures:
        if f.signature and f.signature in ksigs:
            line = 'KNOWN-FINDING: property=%s %s' % (pid, ksigs[f.signature]['what'])
            if line not in known_lines:
                known_lines.append(line)
        else:
            real.append(f)
    for sig, text in corr.known_demonstrated:
        if sig in ksigs:
            line = 'KNOWN-FINDING: property=%s %s' % (pid, ksigs[sig]['what'])
            if line not in known_lines:
                known_lines.append(line)

    wall = time.time() - t0
    ev = {
        'property_id': pid, 'tier': tier, 'seed': seed, 'level': 'proof',
        'coverage': {
            'obligations': max(len(theorems), 1),
            'discharged': discharged,
            'theorems': theorems,
            'print_assumptions': assumptions,
            'checker_cmd': 'cd /verif/coq && make props/%s.vo   (full .vo build of the property file and every file it depends on; then coqc of a generated file that runs Print Assumptions on each theorem)' % pid,
            'trusted_base': STD_TRUSTED + list(getattr(mod, 'TRUSTED', [])),
            'proof_files': deps_of(pid),
            'translated_targets': getattr(mod, 'TRANSLATED', []),
            'evaluations': corr.evaluations,
            'distinct_nontrivial': len(corr.nontrivial),
            'rule': corr.rule,
            'samples': corr.samples[:8] or [{'theorem': t} for t in theorems[:3]],
            'distribution': corr.distribution,
            'notes': corr.notes,
            'known_findings_printed': known_lines,
            'failures': [f.as_json() for f in real][:20],
        },
        'assumptions': list(getattr(mod, 'ASSUMES', [])),
        'wall_s': round(wall, 2),
        'violations': len(real),
    }
    evdir = evidence_dir()
    os.makedirs(evdir, exist_ok=True)
    with open(os.path.join(evdir, pid + '.json'), 'w') as f:
        json.dump(ev, f, indent=1, default=str)

    for line in known_lines:
        print(line)
    if real:
        # one VIOLATION line per distinct replay (at most 5 printed)
        for i, f in enumerate(real[:5]):
            path = write_replay(pid, f, i)
            tail = '' if f.found_input else ' no-failing-input-found'
            print('VIOLATION property=%s replay=%s%s' % (pid, path, tail))
            log('  [%s] %s' % (f.kind, f.what[:600]))
        return 1
    print('OK property=%s tier=%s theorems=%d/%d cases=%d nontrivial=%d wall=%.1fs' % (
        pid, tier, discharged, len(theorems), corr.evaluations, len(corr.nontrivial), wall))
    return 0
