#!/usr/bin/env python3
"""Rewrites the block between <!-- SEEDED-BEGIN --> and <!-- SEEDED-END --> in DESIGN.md from seeded/*/meta.json."""
import json, os, glob, subprocess, re
HERE = os.path.dirname(os.path.dirname(os.path.abspath(__file__)))
summ = subprocess.check_output(['python3', os.path.join(HERE, 'harness', 'seeded_summary.py')]).decode()
table = subprocess.check_output(['python3', os.path.join(HERE, 'harness', 'seeded_table.py')]).decode()
open(os.path.join(HERE, 'seeded', 'TABLE.md'), 'w').write(table)
block = '<!-- SEEDED-BEGIN -->\n```\n' + summ + '```\n\n' + table + '\n<!-- SEEDED-END -->'
p = os.path.join(HERE, 'DESIGN.md')
s = open(p).read()
s = re.sub(r'<!-- SEEDED-BEGIN -->.*?<!-- SEEDED-END -->', lambda m: block, s, flags=re.S)
open(p, 'w').write(s)
print(summ)
