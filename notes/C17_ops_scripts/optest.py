import re, subprocess, os, sys, concurrent.futures
ROOT=os.environ.get('C17ROOT','/verif/coq')
src=open(ROOT+'/model/Proto.v').read()
blk=src[src.index("Inductive op :="):src.index("Fixpoint lookupZ")]
ctors={}
for line in blk.split('\n'):
    m=re.match(r'^\| (O\w+)(.*)$', line)
    if not m: continue
    name, rest = m.group(1), m.group(2)
    rest = rest.split('(*')[0]
    # top-level binder groups
    n=0; depth=0; cur=''
    groups=[]
    for ch in rest:
        if ch=='(':
            if depth==0: cur=''
            else: cur+=ch
            depth+=1
        elif ch==')':
            depth-=1
            if depth==0: groups.append(cur)
            else: cur+=ch
        elif depth>0: cur+=ch
    for g in groups:
        names=g.split(':')[0].split()
        n+=len(names)
    ctors[name]=n
tac=open('/tmp/c17/tactics.v').read()
hdr='''From Coq Require Import ZArith QArith List String Bool Lia.
Import ListNotations.
Require Import SC3.model.ProtoGrammar SC3.model.Proto SC3.gen.Gen_proto.
Require Import SC3.proofs.C17_gram SC3.proofs.C17_args SC3.proofs.C17_bind SC3.proofs.C17_life SC3.proofs.C17_conform.
Open Scope string_scope. Open Scope Z_scope. Open Scope list_scope.
'''
def lemma(name, extra, final):
    n=ctors[name]
    vs=' '.join('a%d'%i for i in range(n))
    return '''
Lemma og_%s : forall n L s %s s1 sends e,
  InvO L s -> wf_op n s (%s %s) = true -> obj_step repaired s (%s %s) = (s1, sends, e) ->
  InvO (op_ids s (%s %s) ++ L) s1 /\\ Forall (Good (op_ids s (%s %s) ++ L)) (flat_map send_msgs sends).
Proof.
  intros n L s %s s1 sends e I Hw H.
  cbn [wf_op] in Hw; try discriminate Hw; split_ands.
  unfold obj_step, obj_step_core, ok, fail in H.
%s
%s
''' % (name,vs,name,vs,name,vs,name,vs,name,vs,vs,extra,final)
DEFAULT='''  brk_hyp H; inversion H; subst; clear H.
  all: cbn [flat_map send_msgs app op_ids].
  all: (split; [ try solve [inv_tac I] | try solve [constructor] ]).
  all: try solve [ use_objs L I; ions; repeat match goal with b : bool |- _ => destruct b end;
                   repeat (constructor; [good_fixed|]); constructor ].
'''
if __name__=='__main__':
    name=sys.argv[1]
    extra=open(sys.argv[2]).read() if len(sys.argv)>2 else DEFAULT
    body=hdr+tac+lemma(name, extra, '  all: let n := numgoals in idtac "REMAINING" n.\n  Show.\nAbort.')
    f='/tmp/c17/ops/%s.v'%name
    open(f,'w').write(body)
    p=subprocess.run(['timeout','150','coqc','-q','-Q',ROOT,'SC3',f],capture_output=True,text=True)
    print((p.stdout+p.stderr)[-int(os.environ.get('TAIL','5000')):])
