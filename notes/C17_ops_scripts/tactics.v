
Lemma action_cases : forall act a, action_number act = Some a -> a = 0 \/ a = 1 \/ a = 2 \/ a = 3 \/ a = 4.
Proof. intros act a H. apply action_number_range in H. lia. Qed.

Lemma known_cons : forall x X L k i, known (X ++ L) k i -> known ((x :: X) ++ L) k i.
Proof. intros x X L k i. apply known_mono. intros y Hy. right. exact Hy. Qed.

Ltac brk_hyp H :=
  repeat match type of H with
         | context [match ?x with _ => _ end] => destruct x eqn:?
         | context [if ?x then _ else _] => destruct x eqn:?
         end.

Ltac split_ands :=
  repeat match goal with
         | Q : (_ && _) = true |- _ => let P := fresh "P" in apply andb_true_iff in Q; destruct Q as [P Q]
         end.

Ltac known_tac :=
  first
    [ assumption
    | left; reflexivity
    | right; left; split; reflexivity
    | apply known_r; assumption
    | apply known_cons; assumption
    | apply known_l; cbn [op_ids tg_ids In]; tauto
    | apply known_l; cbn; tauto
    | apply known_r; match goal with Kc : forall i, _ <= i < _ -> known _ KBus i |- _ => apply Kc; lia end
    | match goal with KN : forall i, In i (zrange _ _) -> known _ _ i |- _ => apply KN; first [left; reflexivity | assumption] end ].

Ltac ids_tac Hk :=
  repeat (destruct Hk as [Hk|Hk]; [inversion Hk; subst; clear Hk; known_tac|]); try contradiction Hk.

Ltac plain_rw :=
  repeat match goal with P : plain ?x = true |- _ =>
           let A := fresh in let B := fresh in destruct (plain_eqs x P) as [A B]; rewrite ?A, ?B; clear P
         end.

Ltac good_fixed :=
  eexists; split;
  [ rewrite wire_msg_eq; cbn [wire_args wire_arg]; plain_rw; reflexivity
  | split; [ reflexivity
           | let k := fresh "k" in let i := fresh "i" in let Hk := fresh "Hk" in
             intros k i Hk; vm_compute in Hk; ids_tac Hk ] ].

Ltac use_nodes L I :=
  repeat match goal with
         | G : get_node ?s ?n = Some ?x |- _ =>
           let z := fresh "z" in let E := fresh "E" in let K := fresh "K" in
           destruct (node_int L s n x I G) as [z [E K]]; cbn [n_id] in E; try subst; try rewrite E in *; clear G
         end.

Ltac use_target L I :=
  try match goal with T : negb (target_ok ?s ?tg) = false |- _ =>
        let z := fresh "tz" in let E := fresh "TE" in let K := fresh "TK" in
        apply negb_false_iff in T; destruct (target_known L s tg I T) as [z [E K]]; rewrite ?E in *; clear T
      end;
  try match goal with A : action_number ?act = Some ?a |- _ =>
        destruct (action_cases act a A) as [?|[?|[?|[?|?]]]]; subst a; clear A
      end.

(* a buffer of the state: its fields are ints or None; when the number is an int it is known *)
Ltac use_buf L I G :=
  match type of G with
  | get_buf ?s ?b = Some ?x =>
    let K1 := fresh "K" in let K2 := fresh "K" in let K3 := fresh "K" in
    destruct (buf_ions L s b x I G) as [K1 [K2 K3]];
    try rewrite (bufnum_of_get s b x G) in *;
    unfold live_buf in *; try rewrite G in *;
    let En := fresh "En" in
    destruct (b_num x) eqn:En; cbn [is_none is_pint ion negb andb orb] in *; try discriminate;
    try (pose proof (io_buf _ _ I b x _ G En)); clear G
  end.

Ltac use_bus L I G :=
  match type of G with
  | get_bus ?s ?u = Some ?x =>
    let K1 := fresh "K" in let K2 := fresh "K" in
    destruct (bus_ions L s u x I G) as [K1 K2];
    unfold chans_of in *; try rewrite G in *;
    let En := fresh "En" in
    destruct (u_index x) eqn:En; cbn [is_none is_pint ion negb andb orb] in *; try discriminate;
    try (let c := fresh "c" in let Ec := fresh "Ec" in
         destruct (io_bus _ _ I u x _ G En) as [c [Ec [? ?]]]; rewrite ?Ec in *); clear G
  end.

Ltac ions :=
  repeat match goal with
         | K : ion (PInt _) = true |- _ => clear K
         | K : ion PNone = true |- _ => clear K
         | K : ion ?v = true |- _ => destruct v; try discriminate K; clear K
         end.

Ltac inv_tac I :=
  repeat first
    [ assumption
    | apply invO_set_cblocks | apply invO_set_ablocks
    | apply invO_add_node_none | apply invO_add_buf_none | apply invO_add_bus_none
    | apply invO_clear_buf | apply invO_clear_bus
    | (apply invO_add_node; [|known_tac])
    | (eapply invO_mono; [|exact I]; apply incl_appr, incl_refl) ].

Ltac bools := repeat match goal with b : bool |- _ => destruct b end.

Ltac goods := repeat (constructor; [good_fixed|]); constructor.

Ltac brk_eqs :=
  repeat match goal with
         | Q : context [match ?x with _ => _ end] |- _ => destruct x eqn:?; try discriminate Q
         | Q : context [if ?x then _ else _] |- _ => destruct x eqn:?; try discriminate Q
         end;
  repeat match goal with
         | Q : Some _ = Some _ |- _ => inversion Q; subst; clear Q
         | Q : PInt _ = PInt _ |- _ => inversion Q; subst; clear Q
         end;
  try (exfalso; congruence).

Ltac toks :=
  repeat match goal with
         | Q : w_numstr ?v = true |- _ => is_var v; destruct v; cbn [w_numstr w_num w_str orb] in Q; try discriminate Q
         | Q : w_num ?v = true |- _ => is_var v; destruct v; cbn [w_num] in Q; try discriminate Q
         | Q : w_int ?v = true |- _ => is_var v; destruct v; cbn [w_int] in Q; try discriminate Q
         end.

Ltac wtok_tac :=
  cbn [forallb w_tok w_num w_str orb];
  repeat match goal with P : plain ?x = true |- _ => rewrite P end; reflexivity.

Ltac ids_goal :=
  let k := fresh "k" in let i := fresh "i" in let Hk := fresh "Hk" in
  intros k i Hk; vm_compute in Hk; ids_tac Hk.

Ltac compl_ids_goal :=
  let k := fresh "k" in let i := fresh "i" in let Hk := fresh "Hk" in
  intros k i Hk; apply known_l; cbn [op_ids new_compl_ids new_bufnum]; repeat (apply in_or_app; right);
  first [exact Hk | apply in_or_app; left; exact Hk].

Ltac good_compl Hc :=
  match goal with
  | |- Good _ [PStr ?a; ?x1; compl_val ?c ?n] => eapply (good_cmd_compl _ a [x1] c n)
  | |- Good _ [PStr ?a; ?x1; ?x2; compl_val ?c ?n] => eapply (good_cmd_compl _ a [x1; x2] c n)
  | |- Good _ [PStr ?a; ?x1; ?x2; ?x3; compl_val ?c ?n] => eapply (good_cmd_compl _ a [x1; x2; x3] c n)
  | |- Good _ [PStr ?a; ?x1; ?x2; ?x3; ?x4; compl_val ?c ?n] => eapply (good_cmd_compl _ a [x1; x2; x3; x4] c n)
  | |- Good _ [PStr ?a; ?x1; ?x2; ?x3; ?x4; ?x5; ?x6; compl_val ?c ?n] =>
    eapply (good_cmd_compl _ a [x1; x2; x3; x4; x5; x6] c n)
  | |- Good _ [PStr ?a; ?x1; ?x2; ?x3; ?x4; ?x5; ?x6; ?x7; compl_val ?c ?n] =>
    eapply (good_cmd_compl _ a [x1; x2; x3; x4; x5; x6; x7] c n)
  | |- Good _ (PStr ?a :: ?x1 :: ?x2 :: ?x3 :: ?x4 :: zs ?l ++ [compl_val ?c ?n]) =>
    eapply (good_cmd_compl_ints _ a [x1; x2; x3; x4] l c n)
  | |- Good _ (PStr ?a :: ?x1 :: ?x2 :: ?x3 :: ?x4 :: ?x5 :: ?x6 :: zs ?l ++ [compl_val ?c ?n]) =>
    eapply (good_cmd_compl_ints _ a [x1; x2; x3; x4; x5; x6] l c n)
  end;
  try reflexivity; try wtok_tac; try (let y := fresh "y" in intros y; reflexivity);
  try exact Hc; try solve [compl_ids_goal]; try solve [ids_goal].

Ltac inv_blk I :=
  apply invO_set_bblocks;
  [ inv_tac I
  | let blk := fresh "blk" in let i := fresh "i" in let Hb := fresh "Hb" in let Hi := fresh "Hi" in
    intros blk i Hb Hi; first [ contradiction Hb | apply known_r; eapply (io_blk _ _ I blk i); [eapply in_blk_remove; exact Hb | exact Hi] ] ].

Lemma good_d_recv : forall L nb c,
  compl_good c PNone = true -> (forall k i, In (k, i) (compl_ids c PNone) -> known L k i) ->
  Good L [PStr "/d_recv"; PBytes nb; compl_val c PNone].
Proof.
  intros L nb c Hc K. destruct (compl_good_spec c PNone Hc) as [x [Wx [Ox [Cx Ix]]]].
  eapply (good_build L "/d_recv" [PBytes nb; compl_val c PNone] ([ABytes nb] ++ [x]) _ ([] ++ [])).
  - cbn [wire_args wire_arg]. rewrite Wx. reflexivity.
  - reflexivity.
  - apply shape_compl_none; try reflexivity. exact Ox.
  - cbn [app forallb arg_conf]. rewrite Cx. reflexivity.
  - intros k i [].
  - cbn [app flat_map arg_ids]. rewrite app_nil_r, Ix. exact K.
Qed.

Lemma known_new : forall L k bufnum addr n C z i,
  new_bufnum bufnum addr = Some z -> In i (zrange z n) ->
  known ((optrange k addr n ++ optrange k bufnum n ++ C) ++ L) k i.
Proof.
  intros L k bufnum addr n C z i H Hi. apply known_l. rewrite app_assoc. apply in_or_app. left.
  destruct bufnum as [b|]; simpl in H.
  - inversion H; subst. apply in_or_app. right. apply in_range_ids. exact Hi.
  - destruct addr as [a|]; [|discriminate]. inversion H; subst. apply in_or_app. left. apply in_range_ids. exact Hi.
Qed.

Lemma known_new0 : forall L k bufnum addr n z i,
  new_bufnum bufnum addr = Some z -> In i (zrange z n) ->
  known ((optrange k addr n ++ optrange k bufnum n) ++ L) k i.
Proof.
  intros L k bufnum addr n z i H Hi. pose proof (known_new L k bufnum addr n [] z i H Hi) as K.
  rewrite !app_nil_r in K. exact K.
Qed.

(* a new Buffer: number from the caller or from the allocator *)
Ltac new_buf I A N :=
  let NB := fresh "NB" in let KN := fresh "KN" in let I0 := fresh "I0" in
  pose proof (alloc_bufnum_new _ _ _ _ _ _ A) as NB;
  unfold new_compl_ids, new_compl_good in *; rewrite ?NB in *;
  match goal with
  | |- context [(?X ++ ?L0)] =>
    match type of I with InvO L0 _ =>
      assert (KN : forall i, In i (zrange _ N) -> known (X ++ L0) KBuf i)
        by (intros; first [eapply known_new; eassumption | eapply known_new0; eassumption]);
      assert (I0 : InvO (X ++ L0) _)
        by (eapply (invO_alloc_bufnum _ _ _ _ N _ _); [eapply invO_mono; [|exact I]; apply incl_appr, incl_refl | exact A | exact KN])
    end
  end.

Lemma good_nested : forall L ia il, Good L (PStr ia :: il) ->
  exists x, wire_arg (PList (PStr ia :: il)) = Some [x] /\ compl_ok x = true /\ arg_conf x = true /\
            forall k i, In (k, i) (arg_ids x) -> known L k i.
Proof.
  intros L ia il [w [W [C K]]]. rewrite wire_msg_eq in W.
  destruct (wire_args il) as [wl|] eqn:E; [|discriminate]. inversion W; subst.
  exists (AMsg ia wl). split; [apply wire_list_msg; exact E|]. split; [reflexivity|]. split; [exact C | exact K].
Qed.

Ltac query_compl :=
  match goal with
  | |- context [PList [PStr "/b_query"; ?n]] =>
    change (PList [PStr "/b_query"; n]) with (compl_val (CFn "/b_query" []) n)
  end.

Lemma invO_fold_add_buf : forall L fr ch ids s0,
  InvO L s0 -> (forall i, In i ids -> known L KBuf i) -> ion fr = true -> ion ch = true ->
  InvO L (fold_left (fun acc i => add_buf acc (Some (mkBuf (PInt i) fr ch))) ids s0).
Proof.
  intros L fr ch ids. induction ids as [|i t IH]; intros s0 I K Hf Hc; [exact I|].
  cbn [fold_left]. apply IH; auto.
  - apply invO_add_buf; auto. apply K. left. reflexivity.
  - intros j Hj. apply K. right. exact Hj.
Qed.

Lemma flat_map_smsg : forall {A} (f : A -> pmsg) l,
  flat_map send_msgs (map (fun i => SMsg (f i)) l) = map f l.
Proof. intros A f l. induction l as [|x t IH]; [reflexivity|]. cbn [map flat_map send_msgs app]. rewrite IH. reflexivity. Qed.

Lemma good_s_new : forall L s n def id a tg args,
  inv_objs s = true -> plain def = true -> sargs_ok n args = true ->
  (a = 0 \/ a = 1 \/ a = 2 \/ a = 3 \/ a = 4) -> known L KNode id -> known L KNode tg ->
  Good L (s_new_msg false s def (PInt id) a (PInt tg) args).
Proof.
  intros L s n def id a tg args Hi Hd Ha Ca Kid Ktg. unfold s_new_msg.
  destruct (sargs_groups s n args Hi Ha) as [ws [W [G N]]].
  eapply (good_groups L "/s_new" [PStr def; PInt id; PInt a; PInt tg] (oal false s (args_or_empty args))
                      _ [TCtl; TVal] false [(KNode, id); (KNode, tg)] ws []);
    try reflexivity; try exact W; try exact G; try exact N.
  - cbn [forallb w_tok w_num w_str orb]. rewrite Hd. reflexivity.
  - intros Y. destruct Ca as [C|[C|[C|[C|C]]]]; subst a; reflexivity.
  - left. reflexivity.
  - intros k i [H|[H|[]]]; inversion H; subst; assumption.
  - intros k i [].
Qed.

(* play(): the creation command travels as the completion message of /d_recv *)
Lemma good_d_recv_msg : forall L nb a r, Good L (PStr a :: r) -> Good L [PStr "/d_recv"; PBytes nb; PList (PStr a :: r)].
Proof.
  intros L nb a r [w [W [C K]]]. unfold wire_msg in W.
  remember (PList (PStr a :: r)) as xp eqn:Exp.
  destruct (wire_arg xp) as [[|x [|y t]]|] eqn:Wx; try discriminate W; destruct x; try discriminate W.
  inversion W; subst w. clear W.
  match type of Wx with _ = Some [AMsg ?s0 ?l0] =>
    eapply (good_build L "/d_recv" [PBytes nb; xp] ([ABytes nb] ++ [AMsg s0 l0]) _ ([] ++ [])) end.
  - cbn [wire_args wire_arg]. rewrite Wx. reflexivity.
  - reflexivity.
  - apply shape_compl_none; reflexivity.
  - cbn [app forallb]. match goal with |- context [arg_conf (AMsg ?s0 ?l0)] => change (arg_conf (AMsg s0 l0)) with (conforms (s0, l0)) end. rewrite C. reflexivity.
  - intros k i [].
  - cbn [app flat_map]. rewrite app_nil_r. exact K.
Qed.

Lemma good_play : forall L s n nb def id a tg args,
  inv_objs s = true -> plain def = true -> sargs_ok n args = true ->
  (a = 0 \/ a = 1 \/ a = 2 \/ a = 3 \/ a = 4) -> known L KNode id -> known L KNode tg ->
  Good L [PStr "/d_recv"; PBytes nb; PList (s_new_msg false s def (PInt id) a (PInt tg) args)].
Proof.
  intros. unfold s_new_msg. apply good_d_recv_msg. eapply (good_s_new L s n def id a tg args); eassumption.
Qed.

(* ---- multi-packet operations ---- *)
Lemma forallb_firstn : forall {A} (f : A -> bool) n l, forallb f l = true -> forallb f (firstn n l) = true.
Proof.
  intros A f n. induction n as [|n IH]; intros l H; [reflexivity|]. destruct l; [reflexivity|].
  cbn [firstn forallb] in *. apply andb_true_iff in H. destruct H as [H1 H2]. rewrite H1, (IH _ H2). reflexivity.
Qed.
Lemma forallb_skipn : forall {A} (f : A -> bool) n l, forallb f l = true -> forallb f (skipn n l) = true.
Proof.
  intros A f n. induction n as [|n IH]; intros l H; [exact H|]. destruct l; [reflexivity|].
  cbn [skipn forallb] in *. apply andb_true_iff in H. apply IH. tauto.
Qed.

(* one '/b_setn buf start N v*N' packet *)
Lemma good_setn_packet : forall L z pos c,
  known L KBuf z -> forallb w_num c = true -> c <> [] ->
  Good L (PStr "/b_setn" :: PInt z :: PInt pos :: plen c :: c).
Proof.
  intros L z pos c K Hc Hne.
  eapply (good_cgroups L "/b_setn" [PInt z] (PInt pos :: plen c :: c) _ TInt TNum [(KBuf, z)]
                       ((AInt pos :: wtok (plen c) :: map wtok c) ++ []) ([] ++ []));
    try reflexivity; try (let Y := fresh "Y" in intros Y; reflexivity); try solve [intros k i []].
  all: try (rewrite app_nil_r; change (AInt pos :: wtok (plen c) :: map wtok c) with (map wtok (PInt pos :: plen c :: c));
            apply wire_toks; cbn [forallb w_tok w_num plen orb]; apply nums_toks; exact Hc).
  all: try (constructor; [discriminate | | constructor]; intros r; rewrite plen_tok; cbn [app];
            apply counted_one; [intros r'; reflexivity | apply nums_eat; exact Hc]).
  all: try discriminate.
  all: try (rewrite app_nil_r; change (AInt pos :: wtok (plen c) :: map wtok c) with (map wtok (PInt pos :: plen c :: c)); apply toks_not_msg).
  all: try (intros k i [H|[]]; inversion H; subst; exact K).
Qed.

Lemma firstn_nonempty : forall {A} (l : list A), l <> [] -> firstn setn_chunk l <> [].
Proof. intros A l H. destruct l; [contradiction H; reflexivity | discriminate]. Qed.

Lemma stream_good : forall L z fuel pos l,
  known L KBuf z -> forallb w_num l = true -> Forall (Good L) (stream_msgs fuel (PInt z) pos l).
Proof.
  intros L z fuel. induction fuel as [|f IH]; intros pos l K H; [constructor|].
  destruct l as [|x t]; [constructor|]. cbn [stream_msgs]. constructor.
  - apply good_setn_packet; [exact K | apply forallb_firstn; exact H | apply firstn_nonempty; discriminate].
  - apply IH; [exact K | apply forallb_skipn; exact H].
Qed.

Lemma getn_good : forall L z fuel pos stop,
  known L KBuf z -> Forall (Good L) (getn_msgs fuel (PInt z) pos stop).
Proof.
  intros L z fuel. induction fuel as [|f IH]; intros pos stop K; [constructor|].
  cbn [getn_msgs]. destruct (pos <? stop); [|constructor]. constructor; [|apply IH; exact K].
  good_fixed.
Qed.

Lemma flat_map_smsg_id : forall l, flat_map send_msgs (map SMsg l) = l.
Proof. induction l as [|x t IH]; [reflexivity|]. cbn [map flat_map send_msgs app]. rewrite IH. reflexivity. Qed.
