import optest, os
D=open('x_default.txt').read()
def f(n): return open('x_%s.txt'%n).read()
BC=f('bufcompl')
extra = {
 'OSynth': f('OSynth'), 'ONodeSet': f('ONodeSet'), 'ONodeSetn': f('ONodeSetn'), 'ONodeMap': f('ONodeMap'),
 'ONodeMapn': f('ONodeMapn'), 'ONodeFill': f('ONodeFill'), 'OReorder': f('OReorder'),
 'ODefSend': f('ODefSend'), 'ODefLoad': f('ODefLoad'),
 'OBufNew': f('OBufNew'), 'OBufConsecutive': f('OBufConsecutive'), 'OBufNewRead': f('OBufNewRead'),
 'OBufNewCue': f('OBufNewCue'), 'OBufAlloc': BC, 'OBufAllocRead': f('OBufAllocRead'), 'OBufRead': f('OBufRead'),
 'OBufCue': BC, 'OBufWrite': BC, 'OBufSimple': f('OBufSimple'), 'OBufFree': BC+f('OBufFree'),
 'OBufFreeAll': f('OBufFreeAll'),
 'OBufFill': f('bufdata_pre')+f('OBufFill'), 'OBufSet': f('bufdata_pre')+f('OBufSet'),
 'OBufSetn': f('bufdata_pre')+f('OBufSetn'), 'OBufGen': f('bufdata_pre')+f('OBufGen'),
 'OBusNew': f('OBusNew'), 'OBusSet': f('bus_pre')+f('OBusSet'), 'OBusSetn': f('bus_pre')+f('OBusSetn'),
 'OBusSetPairs': f('bus_pre')+f('OBusSetPairs'), 'ORaw': f('ORaw'), 'OBusSub': f('OBusSub'), 'OFreeDefaultGroup': f('dgroups'), 'OPlay': f('OPlay'), 'OBufSendList': f('OBufSendList'), 'OBufGetToList': f('OBufGetToList'), 'OBufNewSendList': f('OBufNewSendList'), 'OSendDefaultGroups': f('dgroups'),
}
names=list(optest.ctors)
groups={'C17_ops1.v': names[:26], 'C17_ops2.v': names[26:47], 'C17_ops3.v': names[47:]}
HDR='''(* C17 -- GENERATED FROM PROOF SCRIPTS (see notes/C17.md): for every op of the model, the messages it hands to
   server.addr are Good (conform + ids in the ledger) and the object invariant is kept. %s *)
From Coq Require Import ZArith QArith List String Bool Lia.
Import ListNotations.
Require Import SC3.model.ProtoGrammar SC3.model.Proto SC3.gen.Gen_proto.
Require Import SC3.proofs.C17_gram SC3.proofs.C17_args SC3.proofs.C17_bind SC3.proofs.C17_life SC3.proofs.C17_conform%s.
Open Scope string_scope. Open Scope Z_scope. Open Scope list_scope.
'''
open(optest.ROOT+'/proofs/C17_optac.v','w').write((HDR % ('Tactics and auxiliary lemmas.','')) + optest.tac)
for fn, ns in groups.items():
    body = HDR % ('Part %s.' % fn[7], ' SC3.proofs.C17_optac')
    for nme in ns:
        body += optest.lemma(nme, D + extra.get(nme,''), 'Qed.')
    open(optest.ROOT+'/proofs/'+fn,'w').write(body)
print({k:len(v) for k,v in groups.items()})
