import optest, subprocess, re, concurrent.futures, sys
extra=open('/tmp/c17/x_default.txt').read()
names=sys.argv[1:] or list(optest.ctors)
def run(name):
    body=optest.hdr+optest.tac+optest.lemma(name, extra, '  all: let n := numgoals in idtac "REMAINING" n.\nAbort.')
    f='/tmp/c17/ops/%s.v'%name
    open(f,'w').write(body)
    try:
        p=subprocess.run(['coqc','-q','-Q','/verif/coq','SC3',f],capture_output=True,text=True,timeout=100)
        out=p.stdout+p.stderr
        m=re.findall(r'REMAINING (\d+)',out)
        return name, ('rem '+m[0]) if m else ('ok?' if p.returncode==0 else 'ERR '+out[-200:])
    except subprocess.TimeoutExpired:
        return name,'TIMEOUT'
with concurrent.futures.ThreadPoolExecutor(12) as ex:
    res=list(ex.map(run,names))
print(' '.join('%s:%s'%(a,b.replace('rem ','')) for a,b in res))
