#!/bin/bash
# Run every claimed check sequentially: ./run_all.sh [quick|thorough]
cd "$(dirname "$0")"
tier=${1:-quick}
rc=0
for p in $(python3 -c "import json;print(' '.join(c['property_id'] for c in json.load(open('MANIFEST.json'))['checks']))"); do
  s=$(date +%s)
  out=$(./check $p --tier $tier 2>&1); r=$?
  e=$(date +%s)
  echo "$p rc=$r $((e-s))s :: $(echo "$out" | grep -E '^(OK|VIOLATION|KNOWN)' | head -3 | tr '\n' '|')"
  [ $r -ne 0 ] && rc=1
done
exit $rc
