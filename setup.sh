#!/bin/bash
# Build the whole Coq development from files on disk (offline). Regenerates coq/gen from /repo first.
set -e
cd "$(dirname "$0")"
mkdir -p build coq/gen evidence replays
python3 - <<'PY'
import sys, os
sys.path.insert(0, 'harness')
import fw
ctx = fw.Ctx('C00', 'quick', 0)
errs = fw.regenerate(ctx)
for e in errs: print('translator:', e)
fw.ensure_makefile()
PY
cd coq
ulimit -s unlimited 2>/dev/null || true
timeout 3000 make -k -j16 || true
echo setup done
