#!/bin/bash
# Run every claimed check, N at a time: ./run_all_par.sh [quick|thorough] [N]   (different checks do not share work directories)
cd "$(dirname "$0")"
tier=${1:-quick}; n=${2:-4}
python3 -c "import json;print('\n'.join(c['property_id'] for c in json.load(open('MANIFEST.json'))['checks']))" | \
  xargs -P $n -I{} sh -c 's=$(date +%s); out=$(./check {} --tier '$tier' 2>&1); r=$?; e=$(date +%s); echo "{} rc=$r $((e-s))s :: $(echo "$out" | grep -E "^(OK|VIOLATION|KNOWN)" | head -3 | cut -c1-160 | tr "\n" "|")"' | sort
