#!/bin/bash
# seed_batch3.sh: round-11 seeds (k=22,23) from /tmp/seed11_out_Cxx/k
cd "$(dirname "$0")/.."
for p in "$@"; do
  for kk in 22 23; do
    s=/tmp/seed11_out_$p/$((kk-21)); [ -f $s/patch.diff ] && [ -f $s/meta.json ] || continue
    python3 harness/seed_eval.py $p $kk --src $s > build/seed_eval_$p-$kk.json 2>build/seed_eval_$p-$kk.err
    python3 - $p $kk <<'PY' >> build/seed_results11.log
import sys,json
p,k=sys.argv[1:3]
try:
    d=json.load(open('build/seed_eval_%s-%s.json'%(p,k))); c=d.get('checks',{}).get(p,{})
    print(p,k,'valid=%s'%d['valid'],'caught=%s'%d['caught'],'applies=%s'%d.get('applies'),'demo=%s/%s'%(d.get('demo_without'),d.get('demo_with')),'suite_bad=%d'%len(d.get('suite_not_passing') or []),'stages=%s'%c.get('stages'),(c.get('lines') or [''])[0][:90],'%ss'%c.get('wall_s'))
except Exception as e:
    print(p,k,'EVAL-ERROR',e)
PY
  done
done
