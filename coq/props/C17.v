(* C17 -- Client objects speak the server command protocol and keep ids consistent.
   Property theorems only.  Model: model/ProtoGrammar.v (command reference), model/Proto.v
   (client objects + bind), gen/Gen_proto.v (add-action table and creation commands,
   regenerated from sc3/synth/node.py on every run).

   [repaired] = the code with the proposed patches (build/proposed_fixes/C17_*.diff: free_all, double free,
   cue argument order, dict embedded as pairs);
   [as_found] = the code as it stands.  The harness compares the implementation with
   [run repaired]; the *_refuted theorems record what is false of the code as found. *)
From Coq Require Import ZArith QArith List String Bool.
Import ListNotations.
Require Import SC3.model.ProtoGrammar SC3.model.Proto SC3.gen.Gen_proto.
Require Import SC3.model.ProtoMulti.
Require Import SC3.proofs.C17_bind SC3.proofs.C17_life SC3.proofs.C17_conform SC3.proofs.C17_run SC3.proofs.C17_multi.
Open Scope string_scope.
Open Scope Z_scope.
Open Scope list_scope.

(* ------------------------------------------------------------------------------------ *)
(* Every message emitted by ANY sequence of well-formed ops conforms to the command reference.

   [wf_ops n s ops] (proofs/C17_conform.v, C17_run.v) checks each op in the state in which it runs:
   control = index or name (not "[" / "]"); control value = number | None | bool | bus / buffer /
   node object | map symbol | list / tuple of those nested at most n deep; set / Synth args =
   alternating control, value, where a dict stands for its pairs; Synth args may also be None or a
   dict of scalars; setn values = number or list of numbers; map / mapn buses = int or live Bus;
   fill / b_set / b_fill / b_gen / c_set... = tokens of the types the reference lists, at least one
   group; completion messages supplied by the caller are absent or conform themselves; buffers /
   buses used by commands that do not check "already freed" are live; offsets into a bus stay inside
   it.  n is arbitrary.  All 60 ops of the model are covered (no fixed-shape restriction). *)
Theorem emitted_conform : forall n ops L s,
  Inv L s -> wf_ops n s ops = true ->
  Forall (fun st => all_conform (fst st) = true) (fst (run repaired s ops)).
Proof. exact run_conform_all. Qed.

(* the code as found: Buffer.cue sends leaveOpen = frames; a dict among set() arguments is wrapped
   in array brackets where a control name is expected *)
Theorem emitted_conform_refuted_cue : exists ops,
  wf_ops 2 st0 ops = true /\
  ~ Forall (fun st => all_conform (fst st) = true) (fst (run as_found st0 ops)).
Proof. exact cue_as_found_does_not_conform. Qed.

Theorem emitted_conform_refuted_dict : exists ops,
  wf_ops 2 st0 ops = true /\
  ~ Forall (fun st => all_conform (fst st) = true) (fst (run as_found st0 ops)).
Proof. exact dict_as_found_does_not_conform. Qed.

(* ------------------------------------------------------------------------------------ *)
(* Emitted messages mention only ids the client has allocated.

   "mentioned" = [msg_ids] (every field of a node / buffer / bus id type of the grammar, nested
   completion messages included).  [known L k i] = i is -1 (the reference's placeholder for a
   server-generated node id / unmap), or k = node and i = 0 (root), or (k, i) is in the ledger L; the default groups
   of the logins are in the ledger from the start (ledger0).  The ledger starts as given and grows with every op by
   [op_ids s o]: the ids the allocators returned in that op (oracle fields: node id, buffer block,
   bus block) and the ids the caller wrote himself (numeric targets, bufnum= / index=, basic_new ids,
   bus numbers passed to map / mapn, ids inside the completion / raw messages he supplied).  Ids are
   never removed from the ledger ("has allocated"); the free theorems below say when an id goes back
   to the allocator.  [ids_in_ledger L s ops]: every id of every message of every event of step i is
   known with respect to the ledger as it is right after op i. *)
Theorem ids_only_allocated : forall n ops L s,
  Inv L s -> wf_ops n s ops = true -> ids_in_ledger L s ops.
Proof. exact run_ids_all. Qed.

(* the state after login -- for ANY client id / number of logins: dg = this client's default group, dgs = the default
   groups of all logins -- satisfies the invariant with the ledger that holds exactly those groups *)
Theorem initial_state_invariant : forall dg dgs, Inv (ledger0 dg dgs) (st_init dg dgs).
Proof. exact inv_init. Qed.

(* ------------------------------------------------------------------------------------ *)
(* Creating an object emits its creation command with the object's own id.  ([pv_maps_ok]: every bus.as_map() among the
   arguments is of a bus that is still allocated; otherwise the caller's as_map() raises and the constructor is not called.) *)
Theorem create_emits_own_id :
  (forall V s par nid tg act a, target_ok s tg = true -> action_number act = Some a ->
     obj_step V s (OGroup par nid tg act) =
     (add_node s (Some (mkNode (PInt nid) NGroup)),
      [SMsg [PStr (if par then "/p_new" else "/g_new"); PInt nid; PInt a; target_id s tg]], None)) /\
  (forall V s nid def args tg act a, pv_maps_ok s args = true -> target_ok s tg = true -> action_number act = Some a ->
     obj_step V s (OSynth SInit nid def args tg act) =
     (add_node s (Some (mkNode (PInt nid) NSynth)),
      [SMsg (PStr "/s_new" :: PStr def :: PInt nid :: PInt a :: target_id s tg :: oal (v_dict_brackets V) s (args_or_empty args))], None)) /\
  (forall V s nid def args tg act a, pv_maps_ok s args = true -> target_ok s tg = true -> action_number act = Some a ->
     obj_step V s (OSynth SPaused nid def args tg act) =
     (add_node s (Some (mkNode (PInt nid) NSynth)),
      [SBundle PNone [PStr "/s_new" :: PStr def :: PInt nid :: PInt a :: target_id s tg :: oal (v_dict_brackets V) s (args_or_empty args);
                      [PStr "/n_run"; PInt nid; PInt 0]]], None)) /\
  (forall V s addr frames chans bufnum c num, new_bufnum bufnum addr = Some num -> is_none frames = false ->
     exists s1, obj_step V s (OBufNew addr frames chans bufnum c true) =
                (add_buf s1 (Some (mkBuf (PInt num) frames chans)),
                 [SMsg [PStr "/b_alloc"; PInt num; frames; chans; compl_val c (PInt num)]], None) /\ bufs s1 = bufs s) /\
  (forall V s addr n frames chans bufnum c base, new_bufnum bufnum addr = Some base ->
     exists s2, obj_step V s (OBufConsecutive addr n frames chans bufnum c) =
                (s2, map (fun i => SMsg [PStr "/b_alloc"; PInt i; frames; chans; compl_val c (PInt i)]) (zrange base n), None)).
Proof.
  repeat split.
  - exact create_group.
  - exact create_synth.
  - exact create_synth_paused.
  - exact create_buffer.
  - exact create_consecutive.
Qed.

(* the add actions are the numbers of the command reference *)
Theorem add_actions_are_reference_numbers :
  action_number (ActS "addToHead") = Some 0 /\ action_number (ActS "addToTail") = Some 1 /\
  action_number (ActS "addBefore") = Some 2 /\ action_number (ActS "addAfter") = Some 3 /\
  action_number (ActS "addReplace") = Some 4 /\
  action_number (ActS "head") = Some 0 /\ action_number (ActS "tail") = Some 1 /\
  action_number (ActS "before") = Some 2 /\ action_number (ActS "after") = Some 3 /\
  action_number (ActS "replace") = Some 4 /\
  action_number (ActS "h") = Some 0 /\ action_number (ActS "t") = Some 1 /\
  action_number (ActS "b") = Some 2 /\ action_number (ActS "a") = Some 3 /\
  action_number (ActS "r") = Some 4 /\
  action_number (ActI 0) = Some 0 /\ action_number (ActI 1) = Some 1 /\ action_number (ActI 2) = Some 2 /\
  action_number (ActI 3) = Some 3 /\ action_number (ActI 4) = Some 4.
Proof. exact add_action_numbers. Qed.

(* ------------------------------------------------------------------------------------ *)
(* Freeing emits the matching free command for every id the object owns exactly once and
   returns those ids to the allocator (repaired code). *)
Theorem free_emits_each_owned_id_once_and_returns_it :
  (* a node: one /n_free with its id *)
  (forall V s n x, get_node s n = Some x ->
     obj_step V s (ONodeFree n true) = (s, [SMsg [PStr "/n_free"; n_id x]], None)) /\
  (* a live buffer: one /b_free with its number, the block is returned, the object forgets the number *)
  (forall V s b x a c, get_buf s b = Some x -> b_num x = PInt a ->
     obj_step V s (OBufFree b c) =
     (set_buf (set_bblocks s (blk_remove a (bblocks s))) b (mkBuf PNone PNone PNone),
      [SMsg [PStr "/b_free"; PInt a; compl_val c (PInt a)]], None)) /\
  (* a second free: nothing *)
  (forall s b x c, get_buf s b = Some x -> b_num x = PNone ->
     obj_step repaired s (OBufFree b c) = (s, [], None)) /\
  (* free_all: one /b_free for every id of every used block, each exactly once, all blocks returned *)
  (forall s, obj_step repaired s OBufFreeAll =
     (set_bblocks s [], [SBundle PNone (map (fun i => [PStr "/b_free"; PInt i]) (owned_ids (bblocks s)))], None)) /\
  (forall blks i, In i (owned_ids blks) <->
                  exists b, In b blks /\ fst b <= i < fst b + Z.of_nat (Z.to_nat (snd b))) /\
  (forall blks lo, chain lo blks -> NoDup (owned_ids blks)).
Proof.
  repeat split.
  - exact free_node.
  - exact free_buffer_live.
  - exact free_buffer_again_repaired.
  - exact free_all_repaired.
  - apply in_owned_ids.
  - apply in_owned_ids.
  - intros blks lo H. exact (proj2 (owned_ids_chain blks lo H)).
Qed.

(* F15, code as found: the second Buffer.free() sends /b_free with None in the id position
   (encoded as buffer 0) *)
Theorem free_emits_each_owned_id_once_and_returns_it_refuted_double_free :
  exists ops, fst (run as_found st0 ops) =
    [ ([WMsg ("/b_alloc", [AInt 0; AInt 16; AInt 1; AInt 0])], None);
      ([WMsg ("/b_free", [AInt 0; AInt 0])], None);
      ([WMsg ("/b_alloc", [AInt 0; AInt 8; AInt 1; AInt 0])], None);
      ([WMsg ("/b_free", [AInt 0; AInt 0])], None) ].
Proof.
  exists [OBufNew (Some 0) (PInt 16) (PInt 1) None CNone true; OBufFree 0 CNone;
          OBufNew (Some 0) (PInt 8) (PInt 1) None CNone true; OBufFree 0 CNone].
  vm_compute. reflexivity.
Qed.

(* F14, code as found: blocks (0,1) and (1,3) -- only buffers 1 and 2 are freed *)
Theorem free_emits_each_owned_id_once_and_returns_it_refuted_free_all :
  exists ops, nth_error (fst (run as_found st0 ops)) 2 =
    Some ([WBundle PNone [("/b_free", [AInt 1]); ("/b_free", [AInt 2])]], None)
    /\ owned_ids [(0, 1); (1, 3)] = [0; 1; 2; 3].
Proof.
  exists [OBufNew (Some 0) (PInt 16) (PInt 1) None CNone true;
          OBufConsecutive (Some 1) 3 (PInt 8) (PInt 1) None CNone; OBufFreeAll].
  split; vm_compute; reflexivity.
Qed.

(* ------------------------------------------------------------------------------------ *)
(* Commands issued inside a bind() block reach the wire as one bundle, in issue order, when the
   block exits (and nothing before). *)
Theorem bind_is_one_bundle_in_issue_order : forall V s body,
  stack s = [] -> forallb nonbind body = true ->
  let r := run V s (OBindEnter :: body ++ [OBindExit]) in
  exists rb ex,
    fst r = ([], None) :: rb ++ [ex] /\
    silent rb /\ List.length rb = List.length body /\
    fst ex = flushed (issued V (set_stack s [[]]) body) /\
    stack (snd r) = [].
Proof. exact bind_one_bundle. Qed.

(* A server.sync() inside the block (real-time mode) splits it: what was issued before the sync leaves as one
   bundle right before the '/sync', what is issued after it leaves as one bundle when the block exits; every
   command is in exactly one piece, pieces and commands in issue order.  (Hypothesis: the commands before the
   sync are encodable; otherwise sync() raises ValueError, see sync_fuel.) *)
Theorem bind_with_sync_sends_every_command_once_in_order : forall V s b1 b2 id,
  stack s = [] -> forallb nonbind b1 = true -> forallb nonbind b2 = true ->
  let s1 := set_stack s [[]] in
  let s2 := set_stack (snd (run V s1 b1)) [[]] in
  wire_msgs (issued V s1 b1) <> None ->
  let r := run V s (OBindEnter :: b1 ++ OSync id :: b2 ++ [OBindExit]) in
  exists rb1 rb2 ex,
    fst r = ([], None) :: rb1 ++ (flushed (issued V s1 b1) ++ [sync_event id], None) :: rb2 ++ [ex] /\
    silent rb1 /\ silent rb2 /\ fst ex = flushed (issued V s2 b2) /\ stack (snd r) = [].
Proof. exact bind_sync_pieces. Qed.

(* ... and not at all if the block raises (nested blocks inside may exit or raise as they like;
   the exception leaves every block still open, the outermost included). *)
Theorem bind_raises_sends_nothing : forall V s body k,
  stack s = [] -> stays_inside 1 body = true ->
  List.length (stack (snd (run V (set_stack s [[]]) body))) = k ->
  let r := run V s (OBindEnter :: body ++ [OBindRaise k]) in
  silent (fst r) /\ stack (snd r) = [].
Proof. exact bind_raise_nothing. Qed.

(* ------------------------------------------------------------------------------------ *)
(* Multi-packet operations (Buffer.send_list / new_send_list, model [stream_msgs]): the '/b_setn' packets carry the
   list exactly once, in order; every packet announces exactly the number of values it carries (1..1626) and packet k
   starts at start + k * 1626.  (That each packet conforms and names a known buffer is part of emitted_conform /
   ids_only_allocated, which cover OBufSendList, OBufNewSendList and OBufGetToList like every other op.) *)
Theorem send_list_packets_tile_the_list : forall num fuel l pos, (List.length l <= fuel)%nat ->
  flat_map packet_values (stream_msgs fuel num pos l) = l.
Proof. exact stream_tiles. Qed.

Theorem send_list_packet_counts_and_starts : forall num fuel l pos m k,
  nth_error (stream_msgs fuel num pos l) k = Some m ->
  packet_count m = Some (plen (packet_values m)) /\
  (1 <= List.length (packet_values m) <= setn_chunk)%nat /\
  packet_start m = Some (PInt (pos + Z.of_nat k * Z.of_nat setn_chunk)).
Proof. exact stream_packets. Qed.

(* ------------------------------------------------------------------------------------ *)
(* The play() entry point (a function or a Buffer becomes a temporary definition and a Synth client object): one '/d_recv'
   whose completion message is the creation command with the object's own id, the reference number of the add action, the
   target's id and the controls '_iout' b 'out' b followed by the caller's controls; controls given as a dict arrive as
   (control, value) pairs -- twice as many items as the dict has keys --, list and tuple controls item by item. *)
Theorem play_emits_creation_command_with_own_id : forall V s nid def nb ob args tg act a r,
  pv_maps_ok s ob = true -> pv_maps_ok s args = true -> target_ok s tg = true ->
  play_elems s args = Some r -> action_number act = Some a ->
  obj_step V s (OPlay nid def nb ob args tg act) =
  (add_node s (Some (mkNode (PInt nid) NSynth)),
   [SMsg [PStr "/d_recv"; PBytes nb;
          PList (PStr "/s_new" :: PStr def :: PInt nid :: PInt a :: target_id s tg ::
                 oal (v_dict_brackets V) s (PList (PStr "_iout" :: ob :: PStr "out" :: ob :: r)))]], None).
Proof. exact create_play. Qed.

Theorem play_controls_are_control_value_pairs :
  (forall s ps, play_elems s (PDict ps) = Some (flat_map (fun kv => [aci s (fst kv); aci s (snd kv)]) ps)) /\
  (forall s ps r, play_elems s (PDict ps) = Some r -> List.length r = (2 * List.length ps)%nat) /\
  (forall s l, play_elems s (PList l) = Some (map (aci s) l) /\ play_elems s (PTuple l) = Some (map (aci s) l)).
Proof. split; [exact play_dict_pairs | split; [exact play_dict_length | exact play_list_items]]. Qed.

(* ------------------------------------------------------------------------------------ *)
(* Several Server objects (model/ProtoMulti.v): one copy of the client state per server, every op is executed by the
   copy of the server it addresses.  What a server's address receives in a two-server history is exactly the
   single-server run of the ops addressed to it, so every theorem above holds per server whatever the other one is
   asked to do in between; an op never touches the other server's objects, allocator blocks or open bind blocks and
   never sends to the other server's address.  (That the LIBRARY behaves like this product is the business of the
   two-server correspondence: harness/props/C17.py, split_multi.) *)
Theorem two_server_run_projects_to_single_server_runs : forall V k ops s,
  seen_by k (fst (run2 V s ops)) = fst (run V (comp k s) (ops_of k ops)) /\
  comp k (snd (run2 V s ops)) = snd (run V (comp k s) (ops_of k ops)).
Proof. exact run2_projection. Qed.

Theorem op_leaves_other_server_untouched : forall V s o,
  comp (negb (fst o)) (fst (step2 V s o)) = comp (negb (fst o)) s /\ fst (fst (snd (step2 V s o))) = fst o.
Proof. exact step2_other_untouched. Qed.

Theorem emitted_conform_two_servers : forall n ops L0 L1 s,
  Inv L0 (fst s) -> Inv L1 (snd s) ->
  wf_ops n (fst s) (ops_of false ops) = true -> wf_ops n (snd s) (ops_of true ops) = true ->
  forall k, Forall (fun x => all_conform (fst x) = true) (seen_by k (fst (run2 repaired s ops))).
Proof. exact two_servers_conform. Qed.

Example two_server_example :
  fst (run2 repaired (st0, st0)
         [(false, OGroup false 1000 TgNone (ActS "addToHead")); (false, OBindEnter);
          (true, OSynth SPaused 1000 "default" PNone TgServer (ActI 1));
          (false, ONodeRun 0 (PBool false)); (true, OBindEnter); (false, OBindExit);
          (true, ONodeFree 0 true); (true, OBindExit)]) =
  [ (false, [WMsg ("/g_new", [AInt 1000; AInt 0; AInt 1])], None); (false, [], None);
    (true, [WBundle PNone [("/s_new", [AStr "default"; AInt 1000; AInt 1; AInt 1]); ("/n_run", [AInt 1000; AInt 0])]], None);
    (false, [], None); (true, [], None);
    (false, [WBundle (PInt 0) [("/n_run", [AInt 1000; AInt 0])]], None);
    (true, [], None);
    (true, [WBundle (PInt 0) [("/n_free", [AInt 1000])]], None) ].
Proof. vm_compute. reflexivity. Qed.

(* ------------------------------------------------------------------------------------ *)
(* non-vacuity: the model computes, the hypotheses are satisfiable *)
Example bind_example :
  fst (run repaired st0
        [OGroup false 1000 TgNone (ActS "addToHead"); OBindEnter;
         OSynth SInit 1001 "default" (PList [PStr "freq"; PList [PInt 440; PFlt (1 # 2)]]) (TgNode 0) (ActS "tail");
         ONodeRun 1 (PBool false); ONodeRelease 1 (PFlt (2 # 1)); OBindExit]) =
  [ ([WMsg ("/g_new", [AInt 1000; AInt 0; AInt 1])], None); ([], None); ([], None); ([], None); ([], None);
    ([WBundle (PInt 0)
        [("/s_new", [AStr "default"; AInt 1001; AInt 1; AInt 1000; AStr "freq"; AOpen; AInt 440; AFlt (1 # 2); AClose]);
         ("/n_run", [AInt 1001; AInt 0]);
         ("/n_set", [AInt 1001; AStr "gate"; AFlt (-3 # 1)])]], None) ].
Proof. vm_compute. reflexivity. Qed.

Example sync_example :
  fst (run repaired st0
        [OGroup false 1000 TgNone (ActS "addToHead"); OBindEnter; ONodeRun 0 (PBool true); OBindEnter;
         ONodeTrace 0; OSync 7; ONodeQuery 0; OBindExit; ONodeFree 0 true; OBindExit; OSync 8]) =
  [ ([WMsg ("/g_new", [AInt 1000; AInt 0; AInt 1])], None); ([], None); ([], None); ([], None); ([], None);
    ([WBundle (PInt 0) [("/n_run", [AInt 1000; AInt 1]); ("/n_trace", [AInt 1000])];
      WBundle PNone [("/sync", [AInt 7])]], None);
    ([], None); ([], None); ([], None);
    ([WBundle (PInt 0) [("/n_query", [AInt 1000]); ("/n_free", [AInt 1000])]], None);
    ([WBundle PNone [("/sync", [AInt 8])]], None) ].
Proof. vm_compute. reflexivity. Qed.

Example raise_example :
  fst (run repaired st0
        [OGroup false 1000 TgNone (ActS "addToHead"); OBindEnter; ONodeFree 0 true; OBindEnter;
         ONodeTrace 0; OBindRaise 2; ONodeQuery 0]) =
  [ ([WMsg ("/g_new", [AInt 1000; AInt 0; AInt 1])], None); ([], None); ([], None); ([], None); ([], None);
    ([], None); ([WMsg ("/n_query", [AInt 1000])], None) ].
Proof. vm_compute. reflexivity. Qed.

Example free_all_example :
  fst (run repaired st0
        [OBufNew (Some 0) (PInt 16) (PInt 1) None CNone true;
         OBufConsecutive (Some 1) 3 (PInt 8) (PInt 1) None CNone; OBufFreeAll; OBufFree 0 CNone]) =
  [ ([WMsg ("/b_alloc", [AInt 0; AInt 16; AInt 1; AInt 0])], None);
    ([WMsg ("/b_alloc", [AInt 1; AInt 8; AInt 1; AInt 0]); WMsg ("/b_alloc", [AInt 2; AInt 8; AInt 1; AInt 0]);
      WMsg ("/b_alloc", [AInt 3; AInt 8; AInt 1; AInt 0])], None);
    ([WBundle PNone [("/b_free", [AInt 0]); ("/b_free", [AInt 1]); ("/b_free", [AInt 2]); ("/b_free", [AInt 3])]], None);
    ([WMsg ("/b_free", [AInt 0; AInt 0])], None) ].
Proof. vm_compute. reflexivity. Qed.

Example wf_example :
  wf_ops 2 st0
    [OGroup false 1000 TgNone (ActS "addToHead");
     OBusNew false (Some 4) 2 None;
     OBufNew (Some 0) (PInt 1024) (PInt 2) None (CFn "/b_query" []) true;
     OSynth SInit 1001 "default"
       (PList [PStr "freq"; PList [PInt 440; PTuple [PFlt (1 # 2); PBus 0]]; PDict [(PStr "buf", PBuf 0)]]) (TgNode 0) (ActS "tail");
     OPlay 1002 "temp__0" 485 (PBus 0) (PDict [(PStr "freq", PInt 220); (PStr "amp", PBus 0)]) (TgNode 0) (ActS "addToTail");
     OBindEnter;
     ONodeSet 1 [PDict [(PStr "amp", PFlt (1 # 4)); (PStr "in", PMap 0)]];
     ONodeSetn 1 [PInt 3; PList [PInt 1; PFlt (1 # 2)]; PStr "pan"; PInt 0];
     ONodeMapn false 1 [PStr "freq"; PBus 0; PInt 2; PInt 7];
     OBusSet 0 0 [PFlt (1 # 2); PInt 3];
     OBufSetn 0 [PInt 0; PList [PInt 1; PInt 2; PInt 3]];
     OBindExit;
     OBufFree 0 CNone; OBufFree 0 CNone; OBufFreeAll] = true.
Proof. vm_compute. reflexivity. Qed.

Example chain_example : chain 0 [(0, 1); (1, 3); (8, 2)].
Proof. simpl. repeat split; discriminate. Qed.

Print Assumptions emitted_conform.
Print Assumptions play_emits_creation_command_with_own_id.
Print Assumptions play_controls_are_control_value_pairs.
Print Assumptions emitted_conform_two_servers.
Print Assumptions ids_only_allocated.
Print Assumptions bind_is_one_bundle_in_issue_order.
Print Assumptions free_emits_each_owned_id_once_and_returns_it.
