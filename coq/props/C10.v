(* C10 -- Real-time and non-real-time modes run the same program identically; seeded runs are deterministic.
   Property theorems only.
   Models: model/KRand.v (script programs with routine random generators, conditions, flow variables,
   pause/resume, yields of inf / non-numbers (never re-scheduled) on top of KProg/KNrt: one segment executor shared by both modes; xnrt_* = NrtMain /
   ClockScheduler (dd = true: the repaired code, one pending wake-up per routine and clock as in the real-time
   queues -- obs_nrt; dd = false: the code as found -- obs_nrt_as_found); xrt_* = the real-time transition system: oracle = start instant t0 + a sequence of
   (routine whose task its clock thread performs next, physical clock reading)), model/KAgree.v (obs =
   time-sorted (due time - start, bundle) sequence, resumption times - start, logged values, endings).
   gen : seed -> requests served before -> request -> value  is ANY function (random.Random is one).

   STATUS.
   (1) rt_nrt_agree_partial: programs whose routines all run on SystemClock (sys_only), the whole language otherwise,
       EVERY oracle: RT = NRT.
   (2) rt_is_nrt_in_the_order_performed: EVERY program of the language (several clocks, tempo changes, anything shared across
       clocks; yields >= 0, no AppClock), EVERY accepted real-time execution = the non-real-time SEMANTICS performed in that
       order (xnrt_follow).  Corollary rt_nrt_agree_ordered_partial: executions in the scheduler's order agree with the NRT run.
   (3) rt_nrt_cross_clock_refuted: in another order, routines that share state across clocks can observe other values (witness
       reproduced on the real library by making one clock thread late; recorded as a known finding).
   (4) rt_observation_depends_only_on_order: EVERY program of the class: the oracle (start instant, offset, readings) influences
       an execution only through the ORDER of the wake-ups; the order matters across clocks (seeded_run_rt_order_dependent_refuted).
   (5) rt_nrt_before_start_refuted: the proviso 'no task at a negative logical time' of (2), (4) is necessary (a forward jump of
       a clock's beats puts a pending task before the start: RT sends, NRT cannot pack the timetag).
   NOT PROVED (the remaining part of the property's statement): for programs whose routines do not communicate across clocks,
   the executions in ANOTHER order than the scheduler's.  By (2) this is a statement about the non-real-time semantics alone:
       forall rids accepted, per-routine observations of xnrt_follow gen p rids = those of xnrt_loop (the scheduler's order),
   i.e. commutation of wake-ups of non-communicating routines.  Routine ids, generator ids and queue counts are allocated in
   execution order, so the two states are equal only up to a renaming: the diamond lemma needs interleaving-independent ids
   (creation paths) or an explicit renaming relation through every primitive.  The correspondence checks it on generated
   programs with several clocks (harness/props/C10.py, profile 'groups'). *)
From Coq Require Import ZArith QArith Qround List Bool Lqa.
Require Import SC3.model.KProg SC3.model.KNrt SC3.model.KRt SC3.model.KRand SC3.model.KAgree.
Require Import SC3.proofs.C10_frame SC3.proofs.C10_gens SC3.proofs.C10_sim SC3.proofs.C10_witness.
Require Import SC3.proofs.C10_sim2 SC3.proofs.C10_own.
Import ListNotations.
Open Scope Q_scope.

(* Every real-time execution of a single-clock program -- any start instant t0, any physical clock
   readings, any order of wake-ups the clock accepts (xs_bad = false), any prefix of the execution --
   yields the observation of the non-real-time run after the same number of wake-ups: the same
   time-sorted (time - start, bundle) sequence, the same logical times of every resumption, the same
   values drawn and read, the same endings. *)
Theorem rt_nrt_agree_partial : forall gen off p t0 sched,
  sys_only p -> 0 <= t0 -> (0 <= off)%Z ->
  xs_bad (xrt_run gen off p t0 sched) = false ->
  obs_rt gen off p t0 sched = obs_nrt gen p (length sched).
Proof. exact rt_nrt_agree_sys. Qed.

(* The statement is FALSE of the non-real-time code AS FOUND (obs_nrt_as_found): every sched() wraps the
   routine in a new ClockTask, so a routine that is scheduled while it already has a pending wake-up
   (pause(); resume() before the wake-up; a signal reaching a routine that was resumed meanwhile) is
   woken twice, while the real-time clocks' queues keep one entry per task.  Minimal program: the root
   plays a child, pauses it and resumes it at once; the child yields 1/4 twice and sends a bundle after
   each: as found it sends at 0 and 1/4, in real time (and repaired) at 1/4 and 1/2.
   Repair: build/proposed_fixes/C10_nrt_one_pending_wakeup.diff *)
Theorem rt_nrt_agree_as_found_refuted :
  xnrt_completed kgen false dup_prog 10 = true /\ xnrt_completed kgen true dup_prog 10 = true /\
  xs_bad (xrt_run kgen 0 dup_prog 0 dup_sched) = false /\ n_q (x_n (xs (xrt_run kgen 0 dup_prog 0 dup_sched))) = [] /\
  ob_resumes (obs_nrt_as_found kgen dup_prog 10) = [rs 0 0 0; rs 1 0 0; rs 1 1 0; rs 1 2 (1#4)] /\
  map fst (ob_bundles (obs_nrt_as_found kgen dup_prog 10)) = [0; 1#4] /\
  ob_resumes (obs_rt kgen 0 dup_prog 0 dup_sched) = [rs 0 0 0; rs 1 0 0; rs 1 1 (1#4); rs 1 2 (1#2)] /\
  map fst (ob_bundles (obs_rt kgen 0 dup_prog 0 dup_sched)) = [1#4; 1#2] /\
  obs_rt kgen 0 dup_prog 0 dup_sched = obs_nrt kgen dup_prog 10.
Proof. exact nrt_as_found_refuted. Qed.

(* timetags, relative to the timetag of the start instant: equal up to one unit (exact on dyadic data) *)
Theorem timetag_relative_to_start_within_one_unit : forall off T t0 l, 0 <= T -> 0 <= t0 -> 0 <= l ->
  (stamp_tag (MNrt true) T (Some l) <= stamp_tag (MRt off) (T + t0) (Some l) - elapsed_to_osc off t0
   <= stamp_tag (MNrt true) T (Some l) + 1)%Z.
Proof. exact timetag_shift. Qed.

(* Seeded runs are deterministic.  In non-real-time mode the run is a FUNCTION of the program (with
   its seeds) and of gen -- obs_nrt gen p fuel -- so two fresh runs are equal by construction (the
   correspondence checks that the real scores are byte-identical).  In real time the observation does
   not depend on the oracle: two complete executions (different start instants, clock readings,
   timetag offsets, orders) of one single-clock program give the same observation. *)
Theorem seeded_run_deterministic_partial : forall gen off1 off2 p t1 t2 s1 s2,
  sys_only p -> 0 <= t1 -> 0 <= t2 -> (0 <= off1)%Z -> (0 <= off2)%Z ->
  xs_bad (xrt_run gen off1 p t1 s1) = false -> xs_bad (xrt_run gen off2 p t2 s2) = false ->
  n_q (x_n (xs (xrt_run gen off1 p t1 s1))) = [] -> n_q (x_n (xs (xrt_run gen off2 p t2 s2))) = [] ->
  obs_rt gen off1 p t1 s1 = obs_rt gen off2 p t2 s2.
Proof. exact rt_oracle_independent. Qed.

(* EVERY program, both modes, every oracle: the values served by a generator object, in execution
   order, are the stream of ITS seed over the requests IT served -- whichever routines share it
   (inheritance) and whatever is drawn from other objects in between. *)
Theorem inherited_generator_interleaves_deterministically : forall gen p,
  (forall dd fuel g seed hist,
     nth_error (x_gens (xnrt_loop gen dd p fuel (xnrt_init p))) g = Some (seed, hist) ->
     draws_of g (x_vals (xnrt_loop gen dd p fuel (xnrt_init p))) = stream gen seed hist) /\
  (forall off t0 sched g seed hist,
     nth_error (x_gens (xs (xrt_run gen off p t0 sched))) g = Some (seed, hist) ->
     draws_of g (x_vals (xs (xrt_run gen off p t0 sched))) = stream gen seed hist).
Proof.
  intros gen p. split.
  - intros dd fuel g seed hist. apply gen_stream_nrt.
  - intros off t0 sched g seed hist. apply gen_stream_rt.
Qed.

(* rout.rand_seed = s gives the routine a new object seeded s, with nothing served, that no other
   routine points to; the objects of the others are untouched *)
Theorem seed_gives_fresh_generator : forall st rid s r,
  nth_error (x_routs st) rid = Some r ->
  (forall r', In r' (x_routs st) -> (xr_gen r' < length (x_gens st))%nat) ->
  nth_error (x_gens (fst (x_seed st rid s))) (length (x_gens st)) = Some (s, []) /\
  (exists r', nth_error (x_routs (fst (x_seed st rid s))) rid = Some r' /\ xr_gen r' = length (x_gens st)) /\
  (forall j r', j <> rid -> nth_error (x_routs (fst (x_seed st rid s))) j = Some r' -> xr_gen r' <> length (x_gens st)) /\
  (forall g' x, nth_error (x_gens st) g' = Some x -> nth_error (x_gens (fst (x_seed st rid s))) g' = Some x).
Proof. exact x_seed_fresh. Qed.

(* EVERY program, both modes, every oracle: a routine that keeps the generator it seeded to itself
   (it is the only routine drawing from object g, and g the only object it draws from) draws
   gen seed [] r0, gen seed [r0] r1, ... -- for gen s h _ := f s (length h): f seed 0, f seed 1, ... --
   whatever the other routines draw. *)
Theorem own_seed_stream_independent : forall gen p rid g seed hist,
  (forall dd fuel, let st := xnrt_loop gen dd p fuel (xnrt_init p) in
     nth_error (x_gens st) g = Some (seed, hist) -> keeps_to_itself rid g (x_vals st) ->
     draws_by rid (x_vals st) = stream gen seed hist) /\
  (forall off t0 sched, let st := xs (xrt_run gen off p t0 sched) in
     nth_error (x_gens st) g = Some (seed, hist) -> keeps_to_itself rid g (x_vals st) ->
     draws_by rid (x_vals st) = stream gen seed hist).
Proof.
  intros gen p rid g seed hist. split.
  - intros dd fuel st Hg Hk. subst st. rewrite (draws_by_of _ _ _ Hk). apply gen_stream_nrt. exact Hg.
  - intros off t0 sched st Hg Hk. subst st. rewrite (draws_by_of _ _ _ Hk). apply gen_stream_rt. exact Hg.
Qed.

(* Across clocks agreement FAILS: A on SystemClock and B on a TempoClock share the generator their
   parent seeded; A draws at logical time 1/32, B at 9/256.  The real-time execution in which B's
   clock thread runs first (recorded on the real library with a late SystemClock thread) is an
   execution of the model, no task runs early, every routine observes exactly its logical times --
   and B gets the first value of the stream, A the second; in non-real-time mode it is the converse.
   The real-time execution that follows logical time agrees. *)
Theorem rt_nrt_cross_clock_refuted :
  let s := xrt_run kgen 0 cross_prog 0 cross_sched in
  xs_bad s = false /\ xs_early s = false /\ n_q (x_n (xs s)) = [] /\
  xnrt_completed kgen true cross_prog 10 = true /\
  ob_vals (obs_rt kgen 0 cross_prog 0 cross_sched) = [VDraw 2 1 1 0 5000; VDraw 1 1 1 0 5001] /\
  ob_vals (obs_nrt kgen cross_prog 10) = [VDraw 1 1 1 0 5000; VDraw 2 1 1 0 5001] /\
  (forall rid, ob_resumes (obs_rout 0 (xs s) rid) = ob_resumes (obs_rout 0 (xnrt_loop kgen true cross_prog 10 (xnrt_init cross_prog)) rid)) /\
  obs_of 0 (xs (xrt_ordered kgen 0 cross_prog 10 (xrt_init cross_prog 0))) = obs_nrt kgen cross_prog 10.
Proof. exact cross_clock_refuted. Qed.

(* ---- several clocks, tempo maps: the ORDER of the wake-ups is the only thing the modes can differ by ------------ *)
(* prog_ok2 p: yields >= 0, no AppClock, initial tempi >= 0 -- the WHOLE language otherwise: several clocks,
   tempo changes (also from another clock's routine), conditions / flow variables / generators / pause-resume
   shared across clocks.
   xnrt_follow gen p rids = the non-real-time SEMANTICS (ClockTask wake-ups, re-timing on tempo changes, the
   score) performed in the order rids, each task being the first of its clock's entries; its flag is true when
   every step was accepted and no task ran at a negative logical time (NrtMain cannot pack a negative timetag).
   EVERY real-time execution -- any start instant t0, any timetag offset, any physical clock readings, any
   order of wake-ups the clocks accept -- yields exactly the observation of the non-real-time semantics
   performed in that order: the same time-sorted (time - start, bundle) sequence, resumption times, drawn and
   read values, endings.  Jitter, the start instant and the tempo-map representation (beats in the real-time
   queues, seconds re-timed in the non-real-time one) have no influence. *)
Theorem rt_is_nrt_in_the_order_performed : forall gen off p t0 sched,
  prog_ok2 p -> 0 <= t0 -> (0 <= off)%Z ->
  xs_bad (xrt_run gen off p t0 sched) = false ->
  snd (xnrt_follow gen p (map fst sched)) = true ->
  obs_rt gen off p t0 sched = obs_of 0 (fst (xnrt_follow gen p (map fst sched))).
Proof. exact rt_is_nrt_in_that_order. Qed.

(* hence: every real-time execution that performs the wake-ups in the order of the non-real-time scheduler
   (xnrt_order: logical time, then insertion) agrees with the non-real-time run -- for every program of the
   class, whatever its routines share across clocks.  (_partial: the property also covers the executions in
   another order for programs whose routines do not communicate across clocks; by the theorem above what
   remains for them is a statement about the non-real-time semantics alone: performing the wake-ups of
   non-communicating routines in another order does not change what each of them observes.) *)
Theorem rt_nrt_agree_ordered_partial : forall gen off p t0 sched,
  prog_ok2 p -> 0 <= t0 -> (0 <= off)%Z ->
  xs_bad (xrt_run gen off p t0 sched) = false ->
  map fst sched = xnrt_order gen p (length sched) (xnrt_init p) ->
  snd (xnrt_follow gen p (map fst sched)) = true ->
  obs_rt gen off p t0 sched = obs_nrt gen p (length sched).
Proof. exact rt_nrt_agree_ordered. Qed.

(* Determinism of seeded real-time runs, EVERY program of the class: the observation depends on the oracle ONLY through
   the order in which the clock threads perform the wake-ups -- two accepted executions in the same order, with
   different start instants, timetag offsets and physical clock readings (jitter), give the same observation: values,
   their order, resumption times, bundles.  (For single-clock programs the order is immaterial too:
   seeded_run_deterministic_partial; across clocks it is not: seeded_run_rt_order_dependent_refuted.) *)
Theorem rt_observation_depends_only_on_order : forall gen off1 off2 p t1 t2 s1 s2,
  prog_ok2 p -> 0 <= t1 -> 0 <= t2 -> (0 <= off1)%Z -> (0 <= off2)%Z ->
  xs_bad (xrt_run gen off1 p t1 s1) = false -> xs_bad (xrt_run gen off2 p t2 s2) = false ->
  map fst s1 = map fst s2 -> snd (xnrt_follow gen p (map fst s1)) = true ->
  obs_rt gen off1 p t1 s1 = obs_rt gen off2 p t2 s2.
Proof. exact rt_depends_only_on_order. Qed.

(* the unrestricted determinism statement is FALSE in real time: two accepted, complete, never-early executions of one
   seeded program (routines on two clocks drawing from one inherited generator) serve the values to different routines *)
Theorem seeded_run_rt_order_dependent_refuted :
  let s1 := xrt_run kgen 0 cross_prog 0 cross_sched in
  let s2 := xrt_run kgen 0 cross_prog 0 cross_sched_ordered in
  xs_bad s1 = false /\ xs_bad s2 = false /\ xs_early s1 = false /\ xs_early s2 = false /\
  n_q (x_n (xs s1)) = [] /\ n_q (x_n (xs s2)) = [] /\
  ob_vals (obs_rt kgen 0 cross_prog 0 cross_sched) = [VDraw 2 1 1 0 5000; VDraw 1 1 1 0 5001] /\
  ob_vals (obs_rt kgen 0 cross_prog 0 cross_sched_ordered) = [VDraw 1 1 1 0 5000; VDraw 2 1 1 0 5001].
Proof. exact rt_order_dependent. Qed.

(* the proviso "no task at a negative logical time" of the two theorems above cannot be dropped: a forward jump of a
   clock's beats moves a pending task BEFORE the start of the score; performed in the scheduler's order, accepted and
   never early, the real-time execution sends the bundle, the non-real-time one cannot pack the timetag, the send raises
   and the routine ends (same resumption times in both modes; reproduced on the real library: OscBundleBuildError) *)
Theorem rt_nrt_before_start_refuted :
  let s := xrt_run kgen 100 neg_prog 0 neg_sched in
  xs_bad s = false /\ xs_early s = false /\
  map fst neg_sched = xnrt_order kgen neg_prog (length neg_sched) (xnrt_init neg_prog) /\
  snd (xnrt_follow kgen neg_prog (map fst neg_sched)) = false /\
  ob_resumes (obs_rt kgen 100 neg_prog 0 neg_sched) = ob_resumes (obs_nrt kgen neg_prog 5) /\
  In (rs 1 1 (-77#8)) (ob_resumes (obs_nrt kgen neg_prog 5)) /\
  ob_bundles (obs_rt kgen 100 neg_prog 0 neg_sched) = [(-77#8, (None, [EMsg 1]))] /\
  ob_bundles (obs_nrt kgen neg_prog 5) = [] /\
  ob_ends (obs_rt kgen 100 neg_prog 0 neg_sched) = [(0%nat, 2%nat, false)] /\
  ob_ends (obs_nrt kgen neg_prog 5) = [(1%nat, 1%nat, true); (0%nat, 2%nat, false)].
Proof. exact before_start_refuted. Qed.

(* ---- a syntactic sufficient condition for own_seed_stream_independent -------------------------------------- *)
(* A body that seeds first and afterwards never plays, forks nor re-seeds (leafy: everything else is allowed:
   yields, sends, draws, conditions, flow variables, pause/resume, tempo changes): EVERY instance of it, in
   every program, in both modes (as found and repaired), every prefix, every oracle, draws
   gen s [] r0, gen s [r0] r1, ... over ITS OWN requests r0 r1 ... -- whatever the other routines draw, seed or
   play, and however the wake-ups are interleaved. *)
Theorem own_seed_stream_independent_syntactic : forall gen p b s rest0,
  nth_error (xp_bodies p) b = Some (XSeed s :: rest0) -> leafy rest0 ->
  (forall dd fuel rid r, let st := xnrt_loop gen dd p fuel (xnrt_init p) in
     nth_error (x_routs st) rid = Some r -> xr_body r = b ->
     draws_by rid (x_vals st) = stream gen s (map fst (draws_by rid (x_vals st)))) /\
  (forall off t0 sched rid r, let st := xs (xrt_run gen off p t0 sched) in
     nth_error (x_routs st) rid = Some r -> xr_body r = b ->
     draws_by rid (x_vals st) = stream gen s (map fst (draws_by rid (x_vals st)))).
Proof.
  intros gen p b s rest0 Hb Hl. split.
  - intros dd fuel rid r. apply (own_seed_syntactic_nrt gen p b s rest0); auto.
  - intros off t0 sched rid r. apply (own_seed_syntactic_rt gen p b s rest0); auto.
Qed.

(* non-vacuity: a single-clock program with a condition, a flow variable, inherited and own
   generators, pause/resume and nested bundles is in the class; a real-time schedule with start
   instant 3 and timetag offset 7 is accepted by the clock and completes *)
Example c10_class_inhabited : sys_only sys_prog.
Proof. exact sys_prog_ok. Qed.
Example c10_example :
  let s := xrt_run kgen 7 sys_prog 3 sys_sched in
  xs_bad s = false /\ n_q (x_n (xs s)) = [] /\ xnrt_completed kgen true sys_prog 10 = true /\
  length (ob_bundles (obs_nrt kgen sys_prog 10)) = 3%nat /\
  ob_vals (obs_nrt kgen sys_prog 10) =
    [VDraw 0 0 1 0 7000; VDraw 0 0 1 1 7001; VDraw 1 0 1 2 7002; VDraw 2 0 2 4 9000; VDraw 2 1 2 5 9001;
     VDraw 1 1 1 3 7003; VFlow 1 3 0 (Some 42%Z)].
Proof. exact sys_example. Qed.
Example c10_agree_instance : obs_rt kgen 7 sys_prog 3 sys_sched = obs_nrt kgen sys_prog 10.
Proof. apply (rt_nrt_agree_partial kgen 7 sys_prog 3 sys_sched sys_prog_ok); [discriminate|discriminate|]. exact (proj1 sys_example). Qed.
Example c10_own_seed_instance :
  draws_by 2 (x_vals (xnrt_loop kgen true sys_prog 10 (xnrt_init sys_prog))) = stream kgen 9 [4; 5]%Z.
Proof.
  apply (proj1 (own_seed_stream_independent kgen sys_prog 2 2 9%Z [4; 5]%Z) true 10%nat); [reflexivity|exact sys_keeps].
Qed.

(* non-vacuity of the multi-clock theorems: the cross-clock witness program is in the class; its out-of-order
   schedule is accepted and followed by the non-real-time semantics; the ordered one agrees with the run *)
Example c10_cross_in_class : prog_ok2 cross_prog.
Proof. split; repeat constructor; simpl; try lra; try discriminate. Qed.
Example c10_follow_instance :
  obs_rt kgen 0 cross_prog 0 cross_sched = obs_of 0 (fst (xnrt_follow kgen cross_prog (map fst cross_sched))).
Proof.
  apply rt_is_nrt_in_the_order_performed; [exact c10_cross_in_class|discriminate|discriminate| |]; vm_compute; reflexivity.
Qed.
Example c10_ordered_instance :
  let sched := [wk 0 5; wk 1 5; wk 2 5; wk 1 6; wk 2 6; wk 0 7] in
  obs_rt kgen 3 cross_prog 5 sched = obs_nrt kgen cross_prog 6.
Proof.
  apply (rt_nrt_agree_ordered_partial kgen 3 cross_prog 5); [exact c10_cross_in_class|discriminate|discriminate| | |]; vm_compute; reflexivity.
Qed.
(* the out-of-order execution of the cross-clock program under two different oracles (start 0 / 5, offsets 0 / 3, other
   clock readings): same order of wake-ups, same observation *)
Example c10_order_only_instance :
  obs_rt kgen 0 cross_prog 0 cross_sched =
  obs_rt kgen 3 cross_prog 5 [wk 0 5; wk 1 5; wk 2 6; wk 2 7; wk 1 9; wk 0 9].
Proof.
  apply rt_observation_depends_only_on_order; [exact c10_cross_in_class|discriminate|discriminate|discriminate|discriminate| | | |];
    vm_compute; reflexivity.
Qed.
Example c10_neg_in_class : prog_ok2 neg_prog.
Proof. split; repeat constructor; simpl; try lra; try discriminate. Qed.
(* a routine that yields inf (or None, True, '', [] ...): XHang.  In the class; never re-scheduled in either mode: the
   child resumes at 0 and 1/8 only, its second bundle is never sent, it never ends; real time (start 4, offset 11) agrees *)
Example c10_hang_instance :
  obs_rt kgen 11 hang_prog 4 hang_sched = obs_nrt kgen hang_prog 5 /\
  ob_resumes (obs_nrt kgen hang_prog 5) = [rs 0 0 0; rs 1 0 0; rs 1 1 (1#8); rs 0 1 (1#4); rs 0 2 (1#2)] /\
  ob_ends (obs_nrt kgen hang_prog 5) = [(0%nat, 2%nat, false)].
Proof.
  split; [|split; apply hang_example].
  apply (rt_nrt_agree_partial kgen 11 hang_prog 4 hang_sched hang_prog_ok); [discriminate|discriminate|]. exact (proj1 hang_example).
Qed.
(* the beats setter inside the routine's own wake-up: in the class; the ordered real-time execution (start 2, offset 9)
   agrees with the non-real-time run, where routine 1 resumes at 0, 1/16, 1/8, then at beat 1/2 + 1/4 = 3/4 of the rewound
   clock = 5/16 s, then 7/16 *)
Example c10_setbeats_instance :
  prog_ok2 setb_prog /\
  obs_rt kgen 9 setb_prog 2 setb_sched = obs_nrt kgen setb_prog 9 /\
  filter (fun x => Nat.eqb (fst (fst x)) 1) (ob_resumes (obs_nrt kgen setb_prog 9)) =
    [rs 1 0 0; rs 1 1 (1#16); rs 1 2 (1#8); rs 1 3 (5#16); rs 1 4 (7#16)].
Proof.
  assert (Hok : prog_ok2 setb_prog) by (split; repeat constructor; simpl; try lra; try discriminate).
  split; [exact Hok|]. split.
  - apply (rt_nrt_agree_ordered_partial kgen 9 setb_prog 2); [exact Hok|discriminate|discriminate| | |]; vm_compute; reflexivity.
  - vm_compute. reflexivity.
Qed.
Example c10_own_syntactic_instance :
  draws_by 2 (x_vals (xnrt_loop kgen true sys_prog 10 (xnrt_init sys_prog))) = stream kgen 9 [4; 5]%Z.
Proof.
  assert (L : leafy [XDraw 4; XYield (1#8); XDraw 5; XSend (Some 0) [EMsg 6]]) by (repeat constructor).
  rewrite (proj1 (own_seed_stream_independent_syntactic kgen sys_prog 2 9%Z _ eq_refl L) true 10%nat 2%nat
             (mkXR 2 [] CSystem 2 RDone 2)); [|vm_compute; reflexivity|reflexivity].
  vm_compute. reflexivity.
Qed.

Print Assumptions rt_nrt_agree_partial.
Print Assumptions rt_is_nrt_in_the_order_performed.
Print Assumptions rt_nrt_agree_ordered_partial.
Print Assumptions own_seed_stream_independent_syntactic.
Print Assumptions inherited_generator_interleaves_deterministically.
Print Assumptions rt_nrt_cross_clock_refuted.
Print Assumptions rt_observation_depends_only_on_order.
Print Assumptions seeded_run_rt_order_dependent_refuted.
Print Assumptions rt_nrt_before_start_refuted.
