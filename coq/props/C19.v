(* C19 -- envelopes encode to the server format and evaluate consistently.
   Property theorems only.  Model: model/Env.v (hand-written from sc3/synth/envelope.py; tables
   and constants from the REGENERATED gen/Gen_envtables.v; bi.pow from the REGENERATED
   gen/Gen_builtinsR.v).  server_shape_names / decode_env / decode_ienv are the hand-transcribed
   reference of the server's documented layout and shape numbers. *)
From Coq Require Import ZArith QArith Qabs Reals String List Permutation Sorting.Sorted.
Require Import SC3.lib.PyNum SC3.gen.Gen_envtables SC3.gen.Gen_builtinsR SC3.gen.Gen_envR SC3.model.Env.
Require Import SC3.proofs.C19_format SC3.proofs.C19_at SC3.proofs.C19_shapes SC3.proofs.C19_ctor SC3.proofs.C19_real SC3.proofs.C19_mc.
Import ListNotations.
Open Scope list_scope.

(* --- named shapes are mapped to the server's shape numbers: sc3's table is, as a function on ALL
       strings, the server's table; numeric curves are shape 5; an absent node is -99 ------------- *)
Theorem shape_numbers_match_server :
  (forall name, assoc name env_shape_names = assoc name server_shape_names)
  /\ env_numeric_shape = server_numeric_shape /\ env_absent_node = server_absent_node
  /\ (forall c k, server_shape c = Some k <-> shape_number c = Ok k).
Proof. exact (conj shape_table_matches (conj numeric_shape_matches (conj absent_node_matches shape_numbers_all))). Qed.

(* --- layout: for EVERY well-formed envelope object the encoded array decodes, with the server's
       layout, to initial level / segment count / release / loop (-99 when absent) followed by
       target, duration, shape number, curvature of each segment (curves wrapped), length 4 + 4n --- *)
Theorem env_format_layout : forall e, wf_env e ->
  exists data, envgen_format e = Ok data /\ decode_env data = Ok (normalise e)
               /\ length data = (4 + 4 * length (times e))%nat.
Proof. exact env_format_layout_wf. Qed.

Theorem interpolation_format_layout : forall e, wf_env e ->
  exists data, interpolation_format e = Ok data /\ decode_ienv data = Ok (inormalise e)
               /\ length data = (4 + 4 * length (times e))%nat.
Proof. exact interpolation_format_layout_wf. Qed.

(* every object built by Env(levels, times, curves, release, loop, offset) is well-formed as soon as
   its curve list is non-empty and made of documented names / numbers (needed only if there is a segment) *)
Theorem env_init_well_formed : forall lv t c rel lp off,
  ((length (init_levels lv) > 1)%nat -> curves_ok (curves_list c)) -> wf_env (env_init lv t c rel lp off).
Proof. exact env_init_wf. Qed.

(* times are wrapped to the number of segments (curves: wrap_at in normalise) *)
Theorem env_times_wrapped : forall lv t c rel lp off i d,
  (i < length (init_levels lv) - 1)%nat ->
  nth i (times (env_init lv t c rel lp off)) d = nth (i mod length (times_list t)) (times_list t) d.
Proof. exact env_init_times_wrapped. Qed.

(* the raising branch: an undocumented name in the first segment's curve is a ValueError *)
Theorem env_format_invalid_name : forall e l0 lv' t tm',
  levels e = l0 :: lv' -> times e = t :: tm' -> lv' <> [] -> curves e <> [] ->
  valid_curve (wrap_at (curves e) 0 (CName "")) = false -> envgen_format e = Err ValueError.
Proof. exact envgen_format_invalid_name. Qed.

(* --- multichannel envelopes (list items among levels / times / curves): _envgen_format returns one
       array per channel through utl.flop; there are max-item-width channels and channel j IS the
       single-channel array of the envelope's j-th projection (every list item at j mod its length),
       so it decodes with the server's layout and evaluates like that projection ------------------- *)
Theorem mc_format_expansion : forall e chans, mc_envgen_format e = Ok chans ->
  exists cs, mc_contents e = Ok cs /\ length chans = width cs /\ (1 <= width cs)%nat /\
  forall j, (j < width cs)%nat -> envgen_format (project e j) = Ok (nth j chans []).
Proof. exact mc_expansion. Qed.
Theorem mc_format_channels_decode : forall e chans j, mc_envgen_format e = Ok chans -> (j < length chans)%nat ->
  wf_env (project e j) ->
  decode_env (nth j chans []) = Ok (normalise (project e j))
  /\ length (nth j chans []) = (4 + 4 * length (m_times e))%nat.
Proof. exact mc_channels_decode. Qed.
Theorem mc_at_is_channelwise : forall e t vs, mc_env_at e t = Ok vs ->
  exists chans, mc_envgen_format e = Ok chans /\ length vs = length chans /\
  forall j, (j < length chans)%nat -> env_at (project e j) t = Ok (nth j vs 0%Q).
Proof. exact mc_at_channels. Qed.

(* --- constructors: documented breakpoints (time, level), release node, curves -------------------- *)
Open Scope Q_scope.
Theorem ctor_breakpoints_triangle : forall dur level, ok dur -> ok level ->
  let e := env_triangle dur level in
  bp_eq (breakpoints e) [(0, 0); (toQ dur * (1 # 2), toQ level); (toQ dur, 0)]
  /\ release e = None /\ loop e = None /\ curves e = [CName "lin"].
Proof. exact triangle_bp. Qed.
Theorem ctor_breakpoints_sine : forall dur level, ok dur -> ok level ->
  let e := env_sine dur level in
  bp_eq (breakpoints e) [(0, 0); (toQ dur * (1 # 2), toQ level); (toQ dur, 0)]
  /\ release e = None /\ loop e = None /\ curves e = [CName "sine"].
Proof. exact sine_bp. Qed.
Theorem ctor_breakpoints_perc : forall a r level c,
  let e := env_perc a r level c in
  bp_eq (breakpoints e) [(0, 0); (toQ a, toQ level); (toQ a + toQ r, 0)]
  /\ release e = None /\ loop e = None /\ curves e = curves_list c.
Proof. exact perc_bp. Qed.
Theorem ctor_breakpoints_linen : forall a s r level c,
  let e := env_linen a s r level c in
  bp_eq (breakpoints e) [(0, 0); (toQ a, toQ level); (toQ a + toQ s, toQ level); (toQ a + toQ s + toQ r, 0)]
  /\ release e = None /\ loop e = None /\ curves e = curves_list c.
Proof. exact linen_bp. Qed.
Theorem ctor_breakpoints_asr : forall a s r c,
  let e := env_asr a s r c in
  bp_eq (breakpoints e) [(0, 0); (toQ a, toQ s); (toQ a + toQ r, 0)]
  /\ release e = Some 1%Z /\ loop e = None /\ curves e = curves_list c.
Proof. exact asr_bp. Qed.
Theorem ctor_breakpoints_adsr : forall a d s r p c b, ok s -> ok p -> ok b ->
  let e := env_adsr a d s r p c b in
  bp_eq (breakpoints e)
        [(0, toQ b); (toQ a, toQ p + toQ b); (toQ a + toQ d, toQ p * toQ s + toQ b); (toQ a + toQ d + toQ r, toQ b)]
  /\ release e = Some 2%Z /\ loop e = None /\ curves e = curves_list c.
Proof. exact adsr_bp. Qed.
Theorem ctor_breakpoints_dadsr : forall dl a d s r p c b, ok s -> ok p -> ok b ->
  let e := env_dadsr dl a d s r p c b in
  bp_eq (breakpoints e)
        [(0, toQ b); (toQ dl, toQ b); (toQ dl + toQ a, toQ p + toQ b);
         (toQ dl + toQ a + toQ d, toQ p * toQ s + toQ b); (toQ dl + toQ a + toQ d + toQ r, toQ b)]
  /\ release e = Some 3%Z /\ loop e = None /\ curves e = curves_list c.
Proof. exact dadsr_bp. Qed.
Theorem ctor_breakpoints_cutoff : forall eps r level c k, server_shape c = Some k ->
  exists e, env_cutoff eps r level c = Ok e
  /\ bp_eq (breakpoints e) [(0, toQ level); (toQ r, if (k =? 2)%Z then toQ eps else 0)]
  /\ release e = Some 0%Z /\ loop e = None /\ curves e = [c].
Proof. exact cutoff_bp. Qed.
(* ... for EVERY accepted spelling of the curve: any alias of the table or a number, bare or inside a
   one-element list (only shape number 2, however spelt, selects the -100 dB target) *)
Theorem ctor_breakpoints_cutoff_spellings : forall eps r level c k, server_shape c = Some k ->
  forall ca, ca = CScalar c \/ ca = CList [c] ->
  exists e, env_cutoff_c eps r level ca = Ok e
  /\ bp_eq (breakpoints e) [(0, toQ level); (toQ r, if (k =? 2)%Z then toQ eps else 0)]
  /\ release e = Some 0%Z /\ loop e = None /\ curves e = [c].
Proof. exact cutoff_c_bp. Qed.
Example ex_cutoff_long_alias : exists e, env_cutoff_c (F (1 # 100000)) (I 1) (I 1) (CScalar (CName "exponential")) = Ok e
  /\ level_at e 1 == 1 # 100000.
Proof. eexists. split; [reflexivity|]. reflexivity. Qed.
(* step: n levels and n times give n flat segments: the levels are preceded by a copy of the first *)
Theorem ctor_breakpoints_step : forall lv tm rel lp off, lv <> [] -> length lv = length tm ->
  exists e, env_step (Some lv) (Some tm) rel lp off = Ok e
  /\ levels e = hd NErr lv :: lv /\ times e = tm /\ curves e = [CName "step"]
  /\ release e = option_map (fun r => (r - 1)%Z) rel /\ loop e = lp /\ offset e = off.
Proof. exact step_bp. Qed.
Theorem ctor_breakpoints_step_defaults : exists e, env_step None None None None (Some (I 0)) = Ok e
  /\ levels e = [I 0; I 0; I 1] /\ times e = [I 1; I 1] /\ release e = None.
Proof. exact step_defaults. Qed.
(* xyc (and pairs, which only attaches the curves and calls xyc): the points in (stable) time order,
   times measured from the first point, which becomes the offset; the last curve is dropped *)
Theorem ctor_breakpoints_xyc : forall pts s0 sr, sort_pts pts = s0 :: sr ->
  let s := s0 :: sr in
  exists e, env_xyc pts = Ok e
  /\ Permutation pts s
  /\ levels e = map (fun p => snd (fst p)) s
  /\ offset e = Some (pt_time s0)
  /\ curves e = removelast (map snd s)
  /\ release e = None /\ loop e = None
  /\ (Forall ok (map pt_time s) -> forall k, (k < length s)%nat ->
      breaktime e k == toQ (pt_time (nth k s s0)) - toQ (pt_time s0)).
Proof. exact xyc_bp. Qed.
(* the sort of xyc is a sort, and the breakpoints ARE the points in time order (times from the first) *)
Theorem ctor_breakpoints_xyc_sorted : forall pts s0 sr,
  sort_pts pts = s0 :: sr -> Forall (fun q => ok (pt_time q)) pts ->
  let s := s0 :: sr in
  exists e, env_xyc pts = Ok e
  /\ Permutation pts s /\ Sorted le_time s
  /\ bp_eq (breakpoints e) (map (fun p => (toQ (pt_time p) - toQ (pt_time s0), toQ (pt_level p))) s)
  /\ offset e = Some (pt_time s0) /\ curves e = removelast (map snd s)
  /\ release e = None /\ loop e = None.
Proof. exact xyc_breakpoints. Qed.
(* the sort is STABLE: the points of any one time keep the order in which they were given *)
Theorem ctor_xyc_sort_stable : forall k pts, Forall (fun q => ok (pt_time q)) pts ->
  filter (same_time k) (sort_pts pts) = filter (same_time k) pts.
Proof. exact sort_pts_stable. Qed.
(* pairs attaches 'lin' / the one curve / the i-th curve to the i-th pair (ValueError when the lengths
   differ) and is xyc of the result *)
Theorem ctor_pairs_is_xyc : forall ps c,
  match attach ps c with
  | Some pts => env_pairs ps c = env_xyc pts /\ map strip pts = ps
                /\ (forall l, c = PList l -> map snd pts = l)
  | None => env_pairs ps c = Err ValueError
  end.
Proof. exact pairs_is_xyc. Qed.
Theorem ctor_breakpoints_pairs : forall ps c pts s0 sr,
  attach ps c = Some pts -> sort_pts pts = s0 :: sr -> Forall (fun q => ok (fst q)) ps ->
  let s := s0 :: sr in
  exists e, env_pairs ps c = Ok e
  /\ Permutation ps (map strip s) /\ Sorted le_time s
  /\ bp_eq (breakpoints e) (map (fun p => (toQ (pt_time p) - toQ (pt_time s0), toQ (pt_level p))) s)
  /\ offset e = Some (pt_time s0) /\ curves e = removelast (map snd s)
  /\ release e = None /\ loop e = None.
Proof. exact pairs_breakpoints. Qed.

(* --- evaluation: for EVERY segment evaluator sv (in particular Env._env_at's, model seg_value) ----- *)
Theorem env_at_breakpoints : forall sv e o k s,
  wf_env e -> offset e = Some o -> times_nonneg e ->
  segment e k = Some s -> 0 < toQ (s_dur s) ->
  seg_starts sv (toQ (s_shape s)) (toQ (s_curve s)) ->
  exists v, env_at_with sv e (toQ o + breaktime e k) = Ok v /\ v == level_at e k.
Proof. intros sv e o k s Hwf Ho Hn. exact (env_at_breakpoint_start sv e o Hwf Ho Hn k s). Qed.

(* a 'step' segment is at its target level from its start on *)
Theorem env_at_breakpoints_step : forall sv e o k s,
  wf_env e -> offset e = Some o -> times_nonneg e ->
  segment e k = Some s -> 0 < toQ (s_dur s) ->
  seg_jumps sv (toQ (s_shape s)) (toQ (s_curve s)) ->
  forall t, breaktime e k <= t - toQ o -> t - toQ o < breaktime e (S k) ->
  env_at_with sv e t = Ok (level_at e (S k)).
Proof. intros sv e o k s Hwf Ho Hn. exact (env_at_breakpoint_step sv e o Hwf Ho Hn k s). Qed.

Theorem env_at_between_neighbours : forall sv e o k s t,
  wf_env e -> offset e = Some o -> times_nonneg e ->
  segment e k = Some s ->
  seg_inside sv (toQ (s_shape s)) (toQ (s_curve s)) ->
  breaktime e k <= t - toQ o -> t - toQ o < breaktime e (S k) ->
  exists v, env_at_with sv e t = Ok v /\ between (level_at e k) (level_at e (S k)) v.
Proof. intros sv e o k s t Hwf Ho Hn. exact (env_at_inside sv e o Hwf Ho Hn k s t). Qed.

Theorem env_at_holds_last : forall sv e o t,
  wf_env e -> offset e = Some o -> times_nonneg e ->
  times e <> [] -> breaktime e (length (times e)) <= t - toQ o ->
  env_at_with sv e t = Ok (level_at e (length (times e))).
Proof. intros sv e o t Hwf Ho Hn. exact (env_at_after sv e o Hwf Ho Hn t). Qed.

(* --- coinciding breakpoints, segment ends, offset, totality ---------------------------------------- *)
(* at ANY time that is, as a rational, the k-th breakpoint (segment k of positive length) *)
Theorem env_at_breakpoints_any_time : forall sv e o k s t,
  wf_env e -> offset e = Some o -> times_nonneg e ->
  segment e k = Some s -> 0 < toQ (s_dur s) ->
  seg_starts sv (toQ (s_shape s)) (toQ (s_curve s)) ->
  t - toQ o == breaktime e k ->
  exists v, env_at_with sv e t = Ok v /\ v == level_at e k.
Proof. intros sv e o k s t Hwf Ho Hn. exact (env_at_breakpoint_at sv e o Hwf Ho Hn k s t). Qed.
(* zero-length segments between breakpoints j and k: the value there is the level of the LAST of the
   coinciding breakpoints (the code skips every segment with time >= its end) *)
Theorem env_at_coinciding_breakpoints : forall sv e o j k s,
  wf_env e -> offset e = Some o -> times_nonneg e ->
  segment e k = Some s -> 0 < toQ (s_dur s) ->
  seg_starts sv (toQ (s_shape s)) (toQ (s_curve s)) ->
  breaktime e j == breaktime e k ->
  exists v, env_at_with sv e (toQ o + breaktime e j) = Ok v /\ v == level_at e k.
Proof. intros sv e o j k s Hwf Ho Hn. exact (env_at_coinciding sv e o Hwf Ho Hn j k s). Qed.
Theorem zero_length_segment_has_no_inside : forall e k s x,
  segment e k = Some s -> toQ (s_dur s) == 0 -> ~ (breaktime e k <= x /\ x < breaktime e (S k)).
Proof. exact zero_length_never_located. Qed.
(* exactly at the end (also through trailing zero-length segments) the last level is returned *)
Theorem env_at_end_exact : forall sv e o j t,
  wf_env e -> offset e = Some o -> times_nonneg e ->
  times e <> [] -> breaktime e j == breaktime e (length (times e)) -> t - toQ o == breaktime e j ->
  env_at_with sv e t = Ok (level_at e (length (times e))).
Proof. intros sv e o j t Hwf Ho Hn. exact (env_at_end sv e o Hwf Ho Hn j t). Qed.
(* times before the offset (negative relative time) evaluate as the offset itself *)
Theorem env_at_before_offset : forall sv e o t,
  offset e = Some o -> t - toQ o <= 0 -> env_at_with sv e t = env_at_with sv e (toQ o).
Proof. intros sv e o t Ho. exact (C19_at.env_at_before_offset sv e o Ho t). Qed.
(* totality: for EVERY time the evaluation answers -- between two consecutive levels or the last level *)
Theorem env_at_total : forall sv e o t,
  wf_env e -> offset e = Some o -> times_nonneg e -> times e <> [] ->
  (forall k s, segment e k = Some s -> seg_inside sv (toQ (s_shape s)) (toQ (s_curve s))) ->
  exists v k, env_at_with sv e t = Ok v /\ (k <= length (times e))%nat
    /\ ((k < length (times e))%nat -> between (level_at e k) (level_at e (S k)) v)
    /\ (k = length (times e) -> v = level_at e k).
Proof. intros sv e o t Hwf Ho Hn. exact (C19_at.env_at_total sv e o Hwf Ho Hn t). Qed.
(* the raising branches of the evaluation *)
Theorem env_at_raises : forall sv e t, wf_env e ->
  (offset e = None -> env_at_with sv e t = Err TypeError)
  /\ (forall o, offset e = Some o -> times e = [] -> env_at_with sv e t = Err ValueError).
Proof.
  intros sv e t Hwf. split; [apply env_at_offset_none; exact Hwf|].
  intros o Ho Ht. exact (env_at_no_segment sv e o t Hwf Ho Ht).
Qed.

(* --- the hypotheses hold: every interpolant start + (target - start) * phi(pos) with phi 0 = 0 and
       0 <= phi <= 1 on [0, 1); and the code's own rational shapes for every transcendental evaluator X -- *)
Theorem phi_interpolants_admissible : forall (sv : SV) (k c : Q) (phi : Q -> Q),
  (forall s t pos, sv k c s t pos = Ok (s + (t - s) * phi pos)) ->
  (forall pos, pos == 0 -> phi pos == 0) ->
  (forall pos, 0 <= pos -> pos < 1 -> 0 <= phi pos /\ phi pos <= 1) ->
  seg_inside sv k c /\ seg_starts sv k c.
Proof. exact phi_form_ok. Qed.

Theorem rational_shapes_admissible : forall X c,
  seg_jumps (seg_value X) (inject_Z 0) c
  /\ (seg_inside (seg_value X) (inject_Z 8) c /\ seg_starts (seg_value X) (inject_Z 8) c)
  /\ (seg_inside (seg_value X) (inject_Z 1) c /\ seg_starts (seg_value X) (inject_Z 1) c)
  /\ (Qabs c < env_curve_eps -> seg_inside (seg_value X) (inject_Z 5) c /\ seg_starts (seg_value X) (inject_Z 5) c).
Proof. intros X c. exact (conj (step_jumps X c) (conj (hold_ok X c) (conj (lin_ok X c) (flat_curve_ok X c)))). Qed.

Theorem sine_welch_admissible : forall X c,
  (cos_ok X -> seg_inside (seg_value X) (inject_Z 3) c /\ seg_starts (seg_value X) (inject_Z 3) c)
  /\ (sin_ok X -> seg_inside (seg_value X) (inject_Z 4) c /\ seg_starts (seg_value X) (inject_Z 4) c).
Proof. intros X c. exact (conj (sine_ok X c) (welch_ok X c)). Qed.
(* exp, numeric curvature above the threshold, sqr, cub: over the reals, below *)

(* --- cubed, over the reals, on the REGENERATED bi.pow: the sign of the base is kept ----------------- *)
Open Scope R_scope.
Theorem pow_sign_symmetric : forall a b : R, pyR_pow a b = spow a b.
Proof. exact pow_is_sign_symmetric. Qed.
Theorem cub_segment_starts_on_its_side_R : forall c s t : R,
  (s < 0 -> cubR c s t 0 < 0) /\ (0 < s -> 0 < cubR c s t 0).
Proof. exact cub_start_sign. Qed.
Theorem cub_segment_start_ideal_R : forall s t : R, s <> 0 -> cubR (1 / 3) s t 0 = s.
Proof. exact cub_start_ideal. Qed.
Theorem cub_segment_between_R : forall c s t pos : R, 0 <= pos <= 1 ->
  (cubR c s t 0 <= cubR c s t pos <= cubR c s t 1) \/ (cubR c s t 1 <= cubR c s t pos <= cubR c s t 0).
Proof. exact cub_between. Qed.
(* with the SOURCE's exponent c the start value is s * |s| ^ (3c - 1): the law "returns its level at the
   breakpoint" holds exactly only for |s| = 1; the distance is bounded for every exponent, and for
   the source's 0.3333333 it is at most 2.5e-7 * |ln |s|| relative (|ln |s|| <= 1000) *)
Theorem cub_segment_start_closed_form_R : forall c s t : R, s <> 0 ->
  cubR c s t 0 = s * Rpower (Rabs s) (3 * c - 1).
Proof. exact cub_start_closed_form. Qed.
Theorem cub_segment_start_error_R : forall c s t : R, s <> 0 ->
  let x := (3 * c - 1) * ln (Rabs s) in
  Rabs x < 1 -> Rabs (cubR c s t 0 - s) <= Rabs s * (Rabs x / (1 - Rabs x)).
Proof. exact cub_start_error. Qed.
Theorem cub_segment_start_source_exponent_R : forall s t : R, s <> 0 -> Rabs (ln (Rabs s)) <= 1000 ->
  Rabs (cubR env_cub_exponentR s t 0 - s) <= Rabs s * (Rabs (ln (Rabs s)) / 4000000).
Proof. exact cub_start_source_exponent. Qed.

(* --- exponential: domain = levels non-zero and of one sign (documented): 0 < s * t ----------------- *)
Theorem exp_segment_R : forall s t : R, 0 < s * t ->
  expR s t 0 = s /\ expR s t 1 = t /\ (forall pos, 0 <= pos <= 1 -> betweenR s t (expR s t pos)).
Proof. exact exp_segment. Qed.
(* --- numeric curvature, both branches (|curve| below / above the threshold): every curve, all levels  *)
Theorem curve_segment_R : forall c s t : R,
  curveR c s t 0 = s /\ curveR c s t 1 = t /\ (forall pos, 0 <= pos <= 1 -> betweenR s t (curveR c s t pos)).
Proof. exact curve_segment. Qed.
(* --- squared with the sign-keeping square (bi.sqrt is sign-symmetric): ALL levels; the plain square of
       the snapshot agrees on non-negative levels and can never reach a negative start level --------- *)
Theorem sqr_segment_R : forall s t : R,
  sqrR s t 0 = s /\ sqrR s t 1 = t /\ (forall pos, 0 <= pos <= 1 -> betweenR s t (sqrR s t pos)).
Proof. exact sqr_segment. Qed.
Theorem sqr_plain_square_R : forall s t : R,
  (forall pos, 0 <= s -> 0 <= t -> 0 <= pos <= 1 -> sqrR_plain s t pos = sqrR s t pos)
  /\ (s < 0 -> sqrR_plain s t 0 <> s).
Proof. intros s t. split; [intros pos; apply sqr_plain_nonneg|apply sqr_plain_negative_start]. Qed.
Close Scope R_scope.

(* --- non-vacuity: the hypotheses are satisfiable and the model computes ----------------------------- *)
Definition ex_env : env :=
  env_init (Some [I 0; I 1; F (1 # 2); I 0]) (TList [I 1]) (CList [CName "sin"; CNum (I (-4)); CName "lin"])
           (Some 2%Z) None (Some (I 0)).
Example ex_env_wf : wf_env ex_env.
Proof. apply env_init_wf. intros _. split; [discriminate|reflexivity]. Qed.
Example ex_env_format :
  envgen_format ex_env = Ok [I 0; I 3; I 2; I (-99); I 1; I 1; I 3; I 0; F (1 # 2); I 1; I 5; I (-4); I 0; I 1; I 1; I 0].
Proof. vm_compute. reflexivity. Qed.
Example ex_env_at : env_at ex_env (5 # 2) = Ok (2 # 8) /\ env_at ex_env 7 = Ok 0.
Proof. split; vm_compute; reflexivity. Qed.
Example ex_segment : exists s, segment ex_env 2 = Some s /\ 0 < toQ (s_dur s) /\ s_shape s = I 1.
Proof. eexists. split; [reflexivity|]. split; [reflexivity|reflexivity]. Qed.
Example ex_times_nonneg : times_nonneg ex_env.
Proof. repeat constructor; discriminate. Qed.

Definition ex_menv : menv :=
  menv_init [MS (I 0); ML [I 1; I 2; I 3]; MS (I 0)] [MS (I 1); ML [I 2; I 3]]
            [MCS (CName "lin"); MCL [CName "sin"; CNum (I (-2))]] (Some 1%Z) (Some 0%Z) (Some (I 0)).
Example ex_menv_format : mc_envgen_format ex_menv = Ok
  [[I 0; I 2; I 1; I 0; I 1; I 1; I 1; I 0; I 0; I 2; I 3; I 0];
   [I 0; I 2; I 1; I 0; I 2; I 1; I 1; I 0; I 0; I 3; I 5; I (-2)];
   [I 0; I 2; I 1; I 0; I 3; I 1; I 1; I 0; I 0; I 2; I 3; I 0]].
Proof. vm_compute. reflexivity. Qed.
Example ex_menv_wf : wf_env (project ex_menv 1).
Proof. split; [discriminate|]. split; [reflexivity|]. intros _. split; [discriminate|reflexivity]. Qed.
Example ex_stable : map (fun p => snd (fst p))
    (sort_pts [(I 1, I 5, CName "lin"); (I 0, I 3, CName "lin"); (F 1, I 4, CName "lin"); (I 0, I 2, CName "lin")])
  = [I 3; I 2; I 5; I 4].
Proof. vm_compute. reflexivity. Qed.

Print Assumptions env_format_layout.
Print Assumptions env_at_between_neighbours.
Print Assumptions cub_segment_starts_on_its_side_R.
Print Assumptions env_at_total.
Print Assumptions ctor_breakpoints_pairs.
Print Assumptions mc_format_expansion.
Print Assumptions ctor_xyc_sort_stable.
