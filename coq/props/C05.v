(* C05 -- Logical time in routines is exact and independent of physical jitter.
   Property theorems only.  Models: model/KProg.v, model/KNrt.v (NRT), model/KRt.v (RT transition
   system driven by an oracle).  "repaired" = behaviour after build/proposed_fixes/C05_*.diff,
   "as_found" = unpatched code (F20, F11), kept to state the refutations.

   STATUS (see notes/C05.md): the statements marked _partial are the ONE-STEP laws, proved for
   every state, every program and -- in RT -- with no physical time in scope at all; the
   whole-execution statement (induction over executions linking consecutive wake-ups of one routine)
   is written in the comment above each and is NOT proved here; it is what the correspondence
   replays (RT under injected jitter, NRT) and what the search monitors check. *)
From Coq Require Import ZArith QArith Qround List Bool.
Require Import SC3.model.KProg SC3.model.KNrt SC3.model.KRt.
Require Import SC3.proofs.C05_frame SC3.proofs.C07_runs SC3.proofs.C05_props.
Import ListNotations.
Open Scope Q_scope.

(* FULL STATEMENT (not proved): for every program p with non-negative initial tempi, every oracle
   sched and all rid k c s b c0 s0 b0 body:
     In (EvResume rid k c s b) (n_log (rs (rt_run off p sched))) ->
     In (EvResume rid 0 c0 s0 b0) (n_log (rs (rt_run off p sched))) -> body = script of rid ->
     b == b0 + Qsum (firstn k (yields body)) /\ s == beats2secs_c(b);
   and the same for nrt_loop repaired (for as_found under n_f11 = false).
   PROVED: (1) what a woken routine observes is determined by the key of its task alone:
   logical seconds = beats2secs(key), clock.beats = key; rt_wake has no physical-time argument, so
   the observation is the same under every wake-up latency, load and interleaving;
   (2) a routine that yields d is queued at key + d (not at "now" + d). *)
Theorem kth_resume_time_rt_partial : forall off p st e r,
  nth_error (n_routs st) (e_rid e) = Some r -> wf_tcs (n_tcs st) ->
  (exists beats, In (EvResume (e_rid e) (r_k r) (e_clock e) (Qred (b2s (n_tcs st) (e_clock e) (e_time e))) beats)
                    (n_log (rt_wake off p st e)) /\ beats == e_time e) /\
  (forall st2 d rest,
     let T := Qred (b2s (n_tcs st) (e_clock e) (e_time e)) in
     run_acts (Some off) repaired p
       (add_log (set_mtime st T) (EvResume (e_rid e) (r_k r) (e_clock e) T (Qred (s2b (n_tcs st) (e_clock e) T))))
       (Some (e_rid e, r_k r)) T (e_clock e) (r_rest r) = (st2, OYield d rest) ->
     yields (r_rest r) = d :: yields rest /\
     exists e', In e' (n_q (rt_wake off p st e)) /\ e_rid e' = e_rid e /\ e_clock e' = e_clock e /\
                e_time e' == e_time e + d).
Proof.
  intros off p st e r Hr W. split.
  - exact (rt_wake_observes off p st e r Hr W).
  - intros st2 d rest T E. exact (rt_wake_resched off p st e r st2 d rest Hr E).
Qed.

(* NRT one-step law, as-found or repaired code: the routine is re-queued at
   beats2secs(beats + d) where beats is what it observed at this resumption *)
Theorem kth_resume_time_nrt_partial : forall qk p st e r st2 d rest,
  nth_error (n_routs st) (e_rid e) = Some r ->
  let T := e_time e in
  let beats := Qred (s2b (n_tcs st) (e_clock e) T) in
  run_acts None qk p (add_log (set_mtime st T) (EvResume (e_rid e) (r_k r) (e_clock e) T beats))
    (Some (e_rid e, r_k r)) T (e_clock e) (r_rest r) = (st2, OYield d rest) ->
  yields (r_rest r) = d :: yields rest /\
  exists e', In e' (n_q (nrt_wake qk p st e)) /\ e_rid e' = e_rid e /\ e_clock e' = e_clock e /\
             e_beats e' == beats + d /\ e_time e' == b2s (n_tcs st2) (e_clock e) (beats + d).
Proof. exact nrt_wake_resched. Qed.

(* the whole-execution NRT statement is FALSE of the code as found (F11): TempoClock(1), routine 0
   yields 1/2 beat, at 1/8 s another routine sets the tempo to 2 while routine 0's task is pending:
   routine 0 resumes at beat 7/8 (as found) instead of 1/2 (repaired, and RT) *)
Theorem kth_resume_time_nrt_as_found_refuted :
  nrt_completed as_found f11_prog 10 = true /\
  n_f11 (nrt_run as_found f11_prog 10) = true /\
  In (EvResume 0 0 (CTempo 0) 0 0) (n_log (nrt_run as_found f11_prog 10)) /\
  In (EvResume 0 1 (CTempo 0) (1#2) (7#8)) (n_log (nrt_run as_found f11_prog 10)) /\
  In (EvResume 0 1 (CTempo 0) (5#16) (1#2)) (n_log (nrt_run repaired f11_prog 10)).
Proof. exact f11_refuted. Qed.

(* FULL STATEMENT (not proved): In (EvPlay o child c T) log -> In (EvResume child 0 c' s b) log -> s == T.
   PROVED: play() queues the child at the caller's logical time T on every clock (repaired NRT code;
   RT: the key converts back to T) *)
Theorem child_starts_at_parent_time_partial : forall qk off st T c rid, wf_tcs (n_tcs st) ->
  (qk_app_abs qk = false ->
   exists e, In e (n_q (nrt_sched_play None qk st T c rid)) /\ e_rid e = rid /\ e_clock e = c /\ e_time e == T) /\
  (c <> CApp ->
   exists e, In e (n_q (nrt_sched_play (Some off) repaired st T c rid)) /\ e_rid e = rid /\ e_clock e = c /\
             b2s (n_tcs st) c (e_time e) == T).
Proof.
  intros qk off st T c rid W. split.
  - intros Hq. exact (play_due_at_parent_time qk st T c rid Hq W).
  - intros Hc. exact (play_due_at_parent_time_rt off st T c rid Hc W).
Qed.
(* false of the code as found (F20): played on AppClock at logical time 1, the child starts at 0 *)
Theorem child_starts_at_parent_time_as_found_refuted :
  nrt_completed as_found f20_prog 10 = true /\
  In (EvPlay (Some (0, 1)%nat) 1 CApp 1) (n_log (nrt_run as_found f20_prog 10)) /\
  In (EvResume 1 0 CApp 0 0) (n_log (nrt_run as_found f20_prog 10)).
Proof. exact f20_child_refuted. Qed.

(* nrt_time_monotone -- FULL STATEMENT (not proved): yields >= 0, initial tempi >= 0 ->
   the seconds of successive EvResume of nrt_loop repaired are non-decreasing.
   What is proved is its refutation for the code as found (F20): 0, 1, 0, 1/4, 3/2 *)
Theorem nrt_time_monotone_as_found_refuted :
  nrt_completed as_found f20_prog 10 = true /\
  map Qred (resume_secs (n_log (nrt_run as_found f20_prog 10))) = [0; 1; 0; 1#4; 3#2].
Proof. exact f20_monotone_refuted. Qed.

(* every program, every fuel, as found or repaired: elapsed_time() after process() is the logical
   time of the last executed task (0 when none ran) *)
Theorem nrt_elapsed_ends_at_last_instant : forall qk p fuel,
  match last_resume_secs (n_log (nrt_run qk p fuel)) with
  | Some s => n_mtime (nrt_run qk p fuel) = s
  | None => n_mtime (nrt_run qk p fuel) = 0
  end.
Proof. exact nrt_elapsed_last. Qed.

(* non-vacuity: a tempo clock is well-formed; a nested program across three clocks runs *)
Example c05_wf : wf_tcs [tc_new 2 (1#4); tc_new 0 0].
Proof. repeat constructor; apply tc_new_wf. Qed.
Example c05_example :
  let p := mkProg [2] [[Yield (1#4); Play 1 CApp; Play 1 (CTempo 0); Yield (1#2)]; [Yield (1#8); Yield (1#8)]]
                  [Play 0 CSystem] 0 in
  nrt_completed repaired p 20 = true /\
  map Qred (resume_secs (n_log (nrt_run repaired p 20))) = [0; 1#4; 1#4; 1#4; 5#16; 3#8; 3#8; 1#2; 3#4].
Proof. vm_compute. split; reflexivity. Qed.

Print Assumptions kth_resume_time_rt_partial.
Print Assumptions nrt_elapsed_ends_at_last_instant.
