(* C05 -- Logical time in routines is exact and independent of physical jitter.
   Property theorems only.  Models: model/KProg.v, model/KNrt.v (NRT), model/KRt.v (RT transition
   system driven by an oracle).  "repaired" = behaviour after build/proposed_fixes/C05_*.diff,
   "as_found" = unpatched code (F20, F11), kept to state the refutations.

   STATUS (see notes/C05.md): wake_step_law_rt, wake_step_law_nrt and play_step_law are ONE-STEP laws: they
   hold in EVERY state (reachable or not), for every program, without guards on the deltas, and in RT with no
   physical time in scope; they were the stand-ins (then named *_partial) for the whole-execution statements
   and are kept because they say that much more.  The WHOLE-EXECUTION statements -- kth_resume_time_nrt,
   kth_resume_time_rt, child_starts_at_parent_time, child_starts_at_parent_time_rt, nrt_time_monotone --
   are proved in proofs/C05_exec.v by a scheduling invariant that links every queue entry to the progress
   of its routine (the entry of routine rid is due at beat B rid + sum of the first r_k deltas of its body;
   at most one entry per routine), for every program, every prefix of the non-real-time run (any fuel) and,
   in real time, EVERY oracle: any order of atomic steps (also the ones the clock refuses: they leave the
   state unchanged) and any physical clock readings. *)
From Coq Require Import ZArith QArith Qround List Bool Sorting.Sorted.
Require Import SC3.model.KProg SC3.model.KNrt SC3.model.KRt.
Require Import SC3.proofs.C05_frame SC3.proofs.C07_runs SC3.proofs.C05_props SC3.proofs.C05_exec SC3.proofs.C05_secs.
Import ListNotations.
Open Scope Q_scope.

(* One wake-up in real time, ANY state with well-formed tempo clocks, any task e of any routine:
   (1) what the woken routine observes is determined by the key of its task alone: logical seconds =
   beats2secs(key), clock.beats == key; rt_wake has no physical-time argument, so the observation is the same
   under every wake-up latency, load and interleaving; (2) a routine that yields d is queued at key + d (not
   at "now" + d).  The whole-execution law built on it is kth_resume_time_rt below. *)
Theorem wake_step_law_rt : forall off p st e r,
  nth_error (n_routs st) (e_rid e) = Some r -> wf_tcs (n_tcs st) ->
  (exists beats, In (EvResume (e_rid e) (r_k r) (e_clock e) (Qred (b2s (n_tcs st) (e_clock e) (e_time e))) beats)
                    (n_log (rt_wake off p st e)) /\ beats == e_time e) /\
  (forall st2 d rest,
     let T := Qred (b2s (n_tcs st) (e_clock e) (e_time e)) in
     run_acts (Some off) repaired p
       (add_log (set_mtime st T) (EvResume (e_rid e) (r_k r) (e_clock e) T (Qred (s2b (n_tcs st) (e_clock e) T))))
       (Some (e_rid e, r_k r)) T (e_clock e) (r_rest r) = (st2, OYield d rest) ->
     yields (r_rest r) = d :: yields rest /\
     exists e', In e' (n_q (rt_wake off p st e)) /\ e_rid e' = e_rid e /\ e_clock e' = e_clock e /\
                e_time e' == e_time e + d).
Proof.
  intros off p st e r Hr W. split.
  - exact (rt_wake_observes off p st e r Hr W).
  - intros st2 d rest T E. exact (rt_wake_resched off p st e r st2 d rest Hr E).
Qed.

(* One wake-up in non-real time, ANY state, as-found or repaired code: the routine is re-queued at
   beats2secs(beats + d) where beats is what it observed at this resumption (whole executions:
   kth_resume_time_nrt below) *)
Theorem wake_step_law_nrt : forall qk p st e r st2 d rest,
  nth_error (n_routs st) (e_rid e) = Some r ->
  let T := e_time e in
  let beats := Qred (s2b (n_tcs st) (e_clock e) T) in
  run_acts None qk p (add_log (set_mtime st T) (EvResume (e_rid e) (r_k r) (e_clock e) T beats))
    (Some (e_rid e, r_k r)) T (e_clock e) (r_rest r) = (st2, OYield d rest) ->
  yields (r_rest r) = d :: yields rest /\
  exists e', In e' (n_q (nrt_wake qk p st e)) /\ e_rid e' = e_rid e /\ e_clock e' = e_clock e /\
             e_beats e' == beats + d /\ e_time e' == b2s (n_tcs st2) (e_clock e) (beats + d).
Proof. exact nrt_wake_resched. Qed.

(* the whole-execution NRT statement is FALSE of the code as found (F11): TempoClock(1), routine 0
   yields 1/2 beat, at 1/8 s another routine sets the tempo to 2 while routine 0's task is pending:
   routine 0 resumes at beat 7/8 (as found) instead of 1/2 (repaired, and RT) *)
Theorem kth_resume_time_nrt_as_found_refuted :
  nrt_completed as_found f11_prog 10 = true /\
  n_f11 (nrt_run as_found f11_prog 10) = true /\
  In (EvResume 0 0 (CTempo 0) 0 0) (n_log (nrt_run as_found f11_prog 10)) /\
  In (EvResume 0 1 (CTempo 0) (1#2) (7#8)) (n_log (nrt_run as_found f11_prog 10)) /\
  In (EvResume 0 1 (CTempo 0) (5#16) (1#2)) (n_log (nrt_run repaired f11_prog 10)).
Proof. exact f11_refuted. Qed.

(* play() in ANY state with well-formed tempo clocks, no guard on the deltas: the child is queued at the
   caller's logical time T on every clock (repaired NRT code; RT: the key converts back to T).  That it then
   STARTS at T is child_starts_at_parent_time / _rt below (NRT needs deltas >= 0: a task that goes back in
   time may change the tempo before the child runs). *)
Theorem play_step_law : forall qk off st T c rid, wf_tcs (n_tcs st) ->
  (qk_app_abs qk = false ->
   exists e, In e (n_q (nrt_sched_play None qk st T c rid)) /\ e_rid e = rid /\ e_clock e = c /\ e_time e == T) /\
  (c <> CApp ->
   exists e, In e (n_q (nrt_sched_play (Some off) repaired st T c rid)) /\ e_rid e = rid /\ e_clock e = c /\
             b2s (n_tcs st) c (e_time e) == T).
Proof.
  intros qk off st T c rid W. split.
  - intros Hq. exact (play_due_at_parent_time qk st T c rid Hq W).
  - intros Hc. exact (play_due_at_parent_time_rt off st T c rid Hc W).
Qed.
(* false of the code as found (F20): played on AppClock at logical time 1, the child starts at 0 *)
Theorem child_starts_at_parent_time_as_found_refuted :
  nrt_completed as_found f20_prog 10 = true /\
  In (EvPlay (Some (0, 1)%nat) 1 CApp 1) (n_log (nrt_run as_found f20_prog 10)) /\
  In (EvResume 1 0 CApp 0 0) (n_log (nrt_run as_found f20_prog 10)).
Proof. exact f20_child_refuted. Qed.

(* nrt_time_monotone -- FULL STATEMENT (not proved): yields >= 0, initial tempi >= 0 ->
   the seconds of successive EvResume of nrt_loop repaired are non-decreasing.
   What is proved is its refutation for the code as found (F20): 0, 1, 0, 1/4, 3/2 *)
Theorem nrt_time_monotone_as_found_refuted :
  nrt_completed as_found f20_prog 10 = true /\
  map Qred (resume_secs (n_log (nrt_run as_found f20_prog 10))) = [0; 1; 0; 1#4; 3#2].
Proof. exact f20_monotone_refuted. Qed.

(* every program, every fuel, as found or repaired: elapsed_time() after process() is the logical
   time of the last executed task (0 when none ran) *)
Theorem nrt_elapsed_ends_at_last_instant : forall qk p fuel,
  match last_resume_secs (n_log (nrt_run qk p fuel)) with
  | Some s => n_mtime (nrt_run qk p fuel) = s
  | None => n_mtime (nrt_run qk p fuel) = 0
  end.
Proof. exact nrt_elapsed_last. Qed.

(* ---- whole executions -------------------------------------------------------------------------------- *)
(* ys_of p r = the deltas yielded by the body the routine instance r runs (up to its first Return).
   sec_ok c s b: on a clock without tempo (SystemClock, AppClock) seconds = beats; on a TempoClock the
   seconds are beats2secs(beats) under the tempo map of the moment of the resumption (the beats logged are
   secs2beats of the seconds: wake_step_law_* above). *)

(* NRT, every program, every fuel, the repaired code (no guard on the deltas: also negative ones): the
   beat observed at the k-th resumption of a routine = the beat of its first resumption + the sum of the
   first k deltas it yielded, on the clock it was played on -- whatever other routines and tempo changes
   are interleaved. *)
Theorem kth_resume_time_nrt : forall qk p fuel rid k c s b c0 s0 b0,
  qk_app_abs qk = false -> qk_tempo_frozen qk = false ->
  let st := nrt_loop qk p fuel (nrt_main qk p) in
  In (EvResume rid k c s b) (n_log st) -> In (EvResume rid 0 c0 s0 b0) (n_log st) ->
  exists r, nth_error (n_routs st) rid = Some r /\ c = r_clock r /\ c0 = r_clock r /\
            b == b0 + Qsum (firstn k (ys_of p r)) /\ sec_ok c s b.
Proof. exact kth_resume_nrt. Qed.

(* RT, every program, EVERY oracle (sched: which atomic step happens next and what the physical clock
   reads, arbitrary): the same law.  No physical reading occurs in it. *)
Theorem kth_resume_time_rt : forall off p sched rid k c s b c0 s0 b0,
  let st := rs (rt_run off p sched) in
  In (EvResume rid k c s b) (n_log st) -> In (EvResume rid 0 c0 s0 b0) (n_log st) ->
  exists r, nth_error (n_routs st) rid = Some r /\ c = r_clock r /\ c0 = r_clock r /\
            b == b0 + Qsum (firstn k (ys_of p r)) /\ sec_ok c s b.
Proof. exact kth_resume_rt. Qed.

(* NRT, deltas >= 0 and initial tempi >= 0 (nonneg_prog), every clock -- SystemClock, AppClock, TempoClocks,
   also when the tempo of the child's clock is changed before it starts: a routine played at logical time
   Tp (by a routine of any clock, or from outside) observes Tp at its first resumption, on the clock it was
   played on. *)
Theorem child_starts_at_parent_time : forall qk p fuel o ch c Tp c' s b,
  qk_app_abs qk = false -> qk_tempo_frozen qk = false -> nonneg_prog p ->
  let st := nrt_loop qk p fuel (nrt_main qk p) in
  In (EvPlay o ch c Tp) (n_log st) -> In (EvResume ch 0 c' s b) (n_log st) -> c' = c /\ s == Tp.
Proof. exact child_start_nrt. Qed.

(* RT, every program, every oracle: the same on SystemClock; on TempoClock i provided no tempo change of
   that clock happened during the run (start_ok: notempo i log -> s == Tp).  With a tempo change between
   play() and the start -- which in real time may come from a routine of another clock running at another
   logical time -- the child is woken at beats2secs(its beat) under the new map. *)
Theorem child_starts_at_parent_time_rt : forall off p sched o ch c Tp c' s b,
  let st := rs (rt_run off p sched) in
  In (EvPlay o ch c Tp) (n_log st) -> In (EvResume ch 0 c' s b) (n_log st) ->
  c' = c /\ start_ok (n_log st) c' s Tp.
Proof. exact child_start_rt. Qed.

(* NRT, deltas >= 0, initial tempi >= 0, every program, every fuel: the logical times of the successive
   resumptions (in execution order) never decrease -- across routines, clocks and tempo changes.
   (Latencies do not enter: they move bundles, not tasks; the score's order is C07's score_sorted_stable.) *)
Theorem nrt_time_monotone : forall qk p fuel,
  qk_app_abs qk = false -> qk_tempo_frozen qk = false -> nonneg_prog p ->
  StronglySorted Qle (resume_secs (n_log (nrt_loop qk p fuel (nrt_main qk p)))).
Proof. exact time_monotone_nrt. Qed.

(* non-vacuity: a tempo clock is well-formed; a nested program across three clocks runs *)
Example c05_wf : wf_tcs [tc_new 2 (1#4); tc_new 0 0].
Proof. repeat constructor; apply tc_new_wf. Qed.
Example c05_example :
  let p := mkProg [2] [[Yield (1#4); Play 1 CApp; Play 1 (CTempo 0); Yield (1#2)]; [Yield (1#8); Yield (1#8)]]
                  [Play 0 CSystem] 0 in
  nrt_completed repaired p 20 = true /\
  map Qred (resume_secs (n_log (nrt_run repaired p 20))) = [0; 1#4; 1#4; 1#4; 5#16; 3#8; 3#8; 1#2; 3#4].
Proof. vm_compute. split; reflexivity. Qed.

(* the hypotheses are satisfiable and the conclusions can be read off a run: routine 2 of c05_example
   (body [Yield 1/8; Yield 1/8] on TempoClock(2), played at 1/4 s = beat 1/2) *)
Definition c05_p : prog :=
  mkProg [2] [[Yield (1#4); Play 1 CApp; Play 1 (CTempo 0); Yield (1#2)]; [Yield (1#8); Yield (1#8)]] [Play 0 CSystem] 0.
Example c05_nonneg : nonneg_prog c05_p.
Proof. split; repeat constructor; simpl; discriminate. Qed.
Example c05_sigma_instance :
  In (EvResume 2 2 (CTempo 0) (3#8) (3#4)) (n_log (nrt_loop repaired c05_p 20 (nrt_main repaired c05_p))) /\
  In (EvResume 2 0 (CTempo 0) (1#4) (1#2)) (n_log (nrt_loop repaired c05_p 20 (nrt_main repaired c05_p))) /\
  In (EvPlay (Some (0, 1)%nat) 2 (CTempo 0) (1#4)) (n_log (nrt_loop repaired c05_p 20 (nrt_main repaired c05_p))) /\
  (3#4) == (1#2) + Qsum (firstn 2 [1#8; 1#8]).
Proof. vm_compute. repeat split; try tauto; discriminate. Qed.

(* ---- seconds on a TempoClock: the deltas "converted through the clock's tempo" ---------------------------
   kth_resume_time_* is a law on BEATS (on a TempoClock its sec_ok is empty).  Here, for every program, every
   fuel (NRT, repaired code) resp. EVERY oracle (RT): as long as the tempo of TempoClock i is not changed
   during the run (notempo i log; whoever else runs, whatever other clocks do), a routine playing on it
   observes at its k-th resumption the logical SECONDS  s == s0 + (sum of its first k deltas) * beat_dur,
   beat_dur * tempo == 1, with the clock's (unchanged) tempo map t read from the final state.  Across a tempo
   change of that clock the beats law still holds and each resumption logs beats == secs2beats(seconds) under
   the map of that moment (proofs/C05_secs.v: tinv); a closed seconds form over several tempo segments is not
   stated. *)
Theorem kth_resume_time_seconds_nrt : forall qk p fuel rid k i s b c0 s0 b0,
  qk_app_abs qk = false -> qk_tempo_frozen qk = false ->
  let st := nrt_loop qk p fuel (nrt_main qk p) in
  In (EvResume rid k (CTempo i) s b) (n_log st) -> In (EvResume rid 0 c0 s0 b0) (n_log st) ->
  notempo i (n_log st) ->
  exists r t, nth_error (n_routs st) rid = Some r /\ nth_error (n_tcs st) i = Some t /\
              s == s0 + Qsum (firstn k (ys_of p r)) * t_bdur t /\ t_bdur t * t_tempo t == 1.
Proof. exact seconds_sigma_nrt. Qed.
Theorem kth_resume_time_seconds_rt : forall off p sched rid k i s b c0 s0 b0,
  let st := rs (rt_run off p sched) in
  In (EvResume rid k (CTempo i) s b) (n_log st) -> In (EvResume rid 0 c0 s0 b0) (n_log st) ->
  notempo i (n_log st) ->
  exists r t, nth_error (n_routs st) rid = Some r /\ nth_error (n_tcs st) i = Some t /\
              s == s0 + Qsum (firstn k (ys_of p r)) * t_bdur t /\ t_bdur t * t_tempo t == 1.
Proof. exact seconds_sigma_rt. Qed.
(* the hypotheses hold on the run of c05_p: routine 2 on TempoClock(2) (no tempo change in the run) is at
   1/4 s when it starts and at 1/4 + (1/8 + 1/8) * (1/2) = 3/8 s at its 2nd resumption *)
Example c05_seconds_instance :
  notempo 0 (n_log (nrt_loop repaired c05_p 20 (nrt_main repaired c05_p))) /\
  (3#8) == (1#4) + Qsum (firstn 2 [1#8; 1#8]) * (1#2).
Proof.
  split; [|vm_compute; reflexivity]. apply no_tempo_b_sound. vm_compute. reflexivity.
Qed.

Print Assumptions wake_step_law_rt.
Print Assumptions wake_step_law_nrt.
Print Assumptions play_step_law.
Print Assumptions kth_resume_time_nrt.
Print Assumptions kth_resume_time_rt.
Print Assumptions child_starts_at_parent_time.
Print Assumptions child_starts_at_parent_time_rt.
Print Assumptions nrt_time_monotone.
Print Assumptions kth_resume_time_seconds_nrt.
Print Assumptions kth_resume_time_seconds_rt.
Print Assumptions nrt_elapsed_ends_at_last_instant.
