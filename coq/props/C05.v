(* C05 -- Logical time in routines is exact and independent of physical jitter.
   Property theorems only (first stage: see notes/C05.md). *)
From Coq Require Import ZArith QArith Qround List Bool.
Require Import SC3.model.KProg SC3.model.KNrt SC3.model.KRt.
Require Import SC3.proofs.C05_frame SC3.proofs.C07_runs SC3.proofs.C05_props.
Import ListNotations.
Open Scope Q_scope.

Theorem nrt_elapsed_ends_at_last_instant : forall qk p fuel,
  match last_resume_secs (n_log (nrt_run qk p fuel)) with
  | Some s => n_mtime (nrt_run qk p fuel) = s
  | None => n_mtime (nrt_run qk p fuel) = 0
  end.
Proof. exact nrt_elapsed_last. Qed.
