(* C12 -- TempoClock time arithmetic and quantisation are consistent.  Property theorems only.

   Every py_* function is the REGENERATED definition of the TempoClock method of the same name
   (gen/Gen_tempo.v, from sc3/base/clock.py; builtins from gen/Gen_builtins.v).  Numbers are
   Python numbers, `int | ideal float` (lib/PyNum.num): `val n q` = "n is a number, not an
   exception, whose exact value is the rational q"; `ok` = is a number, `fl` = is a float.
   The thread's logical seconds (`now`), the elapsed time and the reference beat are explicit
   arguments.  Hand-written: as_quant / wake_beat / run (model/Tempo.v, tied by correspondence).

   Typed s : the eight fields are numbers, bars_per_beat / base_bar / base_bar_beat floats
   TInv  s : beat_dur * tempo = 1
   MInv  s : bars_per_beat * beats_per_bar = 1, beats_per_bar > 0, base_bar is an integer
   WF    s : all three.  op_ok : tempo / etempo values > 0, beats_per_bar values > 0, numbers. *)
From Coq Require Import ZArith QArith List.
Require Import SC3.lib.PyNum SC3.lib.TempoState SC3.gen.Gen_builtins SC3.gen.Gen_tempo SC3.model.Tempo.
Require Import SC3.proofs.C12_num SC3.proofs.C12_tempo SC3.proofs.C12_history.
Import ListNotations.
Open Scope Q_scope.

(* --- one affine map ------------------------------------------------------------------- *)
Theorem beats_secs_inverse : forall (s : clockstate) (b x : num), Typed s -> TInv s -> ok b -> ok x ->
  val (py_secs2beats s (py_beats2secs s b)) (toQ b) /\ val (py_beats2secs s (py_secs2beats s x)) (toQ x).
Proof. exact inverse_both. Qed.

Theorem beats_advance_at_tempo : forall (s : clockstate) (x d : num), Typed s -> ok x -> ok d ->
  val (py_secs2beats s (nadd x d)) (toQ (py_secs2beats s x) + toQ d * toQ (tempo s)).
Proof. exact advance. Qed.

(* --- TInv (and the whole invariant) holds initially and after every setter, so after every history *)
Theorem TInv_initial : forall now t b x : num, ok now -> ok t -> ok b -> ok x -> 0 <= toQ t ->
  exists s, py_init clock_blank now t b x = Some s /\ WF s /\ 0 < toQ (tempo s) /\
    (0 < toQ t -> toQ (tempo s) == toQ t) /\
    (~ toQ x == 0 -> val (py_secs2beats s x) (toQ b)).
Proof. exact init_wf. Qed.

(* Bug-class review (falsy zero).  The constructor's documented arguments: "seconds: the reference time in
   seconds, to which the beats argument corresponds; defaults to the current thread's logical time".  So with
   `seconds` GIVEN -- any number, an explicit 0 / 0.0 included -- the one affine map goes through (seconds, beats),
   and with `seconds` omitted through (now, beats).  (py_init / py_init_now are the two regenerated readings of
   __init__; the original `seconds or now` fails the first statement at seconds = 0 and now <> 0.) *)
Theorem constructor_reference_point : forall now t b x : num, ok now -> ok t -> ok b -> ok x -> 0 <= toQ t ->
  exists s, py_init clock_blank now t b x = Some s /\ WF s /\ 0 < toQ (tempo s) /\
    (0 < toQ t -> toQ (tempo s) == toQ t) /\ val (py_secs2beats s x) (toQ b).
Proof. exact init_given. Qed.
Theorem constructor_default_seconds : forall now t b : num, ok now -> ok t -> ok b -> 0 <= toQ t ->
  exists s, py_init_now clock_blank now t b = Some s /\ WF s /\ 0 < toQ (tempo s) /\
    (0 < toQ t -> toQ (tempo s) == toQ t) /\ val (py_secs2beats s now) (toQ b).
Proof. exact init_default. Qed.

Theorem TInv_preserved_by_every_setter : forall (s : clockstate) (o : op), WF s -> 0 < toQ (tempo s) -> op_ok o ->
  exists s', step s o = Some s' /\ WF s' /\ 0 < toQ (tempo s').
Proof. exact step_wf. Qed.

Theorem TInv_all_histories : forall (h : list op) (s : clockstate), WF s -> 0 < toQ (tempo s) -> Forall op_ok h ->
  exists s', run s h = Some s' /\ WF s' /\ 0 < toQ (tempo s').
Proof. exact run_wf. Qed.

(* --- continuity: the (second, beat) pair of the changing instant lies on the new map ----- *)
Theorem tempo_change_continuous : forall (s : clockstate) (now v : num),
  WF s -> 0 < toQ (tempo s) -> ok now -> ok v -> 0 < toQ v ->
  exists s', py_tempo_set s now v = Some s' /\ WF s' /\ toQ (tempo s') == toQ v /\
    val (py_beats s' now) (toQ (py_beats s now)) /\
    val (py_beats2secs s' (py_beats s now)) (toQ now).
Proof. exact tempo_set_wf. Qed.

Theorem beats_set_continuous : forall (s : clockstate) (now v : num), WF s -> ok now -> ok v ->
  exists s', py_beats_set s now v = Some s' /\ WF s' /\ toQ (tempo s') == toQ (tempo s) /\
    val (py_beats s' now) (toQ v) /\ val (py_beats2secs s' v) (toQ now).
Proof. exact beats_set_wf. Qed.

Theorem etempo_continuous : forall (s : clockstate) (e v : num), WF s -> ok e -> ok v -> ~ toQ v == 0 ->
  exists s', py_etempo s e v = Some s' /\ WF s' /\ toQ (tempo s') == toQ v /\
    val (py_secs2beats s' e) (toQ (py_secs2beats s e)) /\
    val (py_beats2secs s' (py_secs2beats s e)) (toQ e).
Proof. exact etempo_wf. Qed.

(* --- the grid: next_time_on_grid(quant, phase, refbeat) ----------------------------------- *)
(* refbeat=None is the current beat *)
Theorem grid_default_ref_is_current_beat : forall (s : clockstate) (now q p : num),
  py_next_time_on_grid s now q p = py_next_time_on_grid_ref s q p (py_beats s now).
Proof. exact grid_now_is_ref. Qed.

Theorem grid_congruent : forall (s : clockstate) (q p r : num),
  fl (base_bar_beat s) -> ok q -> ok p -> ok r -> 0 < toQ q -> - toQ q < toQ p -> toQ p < toQ q ->
  exists g, val (py_next_time_on_grid_ref s q p r) g /\
    exists k : Z, g == toQ (base_bar_beat s) + toQ p + inject_Z k * toQ q.
Proof. exact grid_congruent_l. Qed.

Theorem grid_not_before_ref : forall (s : clockstate) (q p r : num),
  fl (base_bar_beat s) -> ok q -> ok p -> ok r -> 0 < toQ q -> - toQ q < toQ p -> toQ p < toQ q ->
  exists g, val (py_next_time_on_grid_ref s q p r) g /\ toQ r <= g.
Proof. exact grid_not_before_l. Qed.

Theorem grid_minimal : forall (s : clockstate) (q p r : num),
  fl (base_bar_beat s) -> ok q -> ok p -> ok r -> 0 < toQ q -> - toQ q < toQ p -> toQ p < toQ q ->
  exists g, val (py_next_time_on_grid_ref s q p r) g /\ g < toQ r + toQ q /\
    forall k : Z, toQ r <= toQ (base_bar_beat s) + toQ p + inject_Z k * toQ q ->
                  g <= toQ (base_bar_beat s) + toQ p + inject_Z k * toQ q.
Proof. exact grid_minimal_l. Qed.

Theorem grid_quant0 : forall (s : clockstate) (q p r : num), ok q -> toQ q == 0 -> ok p -> ok r ->
  val (py_next_time_on_grid_ref s q p r) (toQ r + toQ p).
Proof. exact C12_tempo.grid_quant0. Qed.

Theorem grid_negative_quant_raises : forall (s : clockstate) (q p r : num), ok q -> toQ q < 0 ->
  py_next_time_on_grid_ref s q p r = NErr.
Proof. exact grid_negative_raises. Qed.

Theorem time_to_next_beat_range : forall (s : clockstate) (now : num) (a : quantarg), Typed s -> ok now ->
  ok (fst (as_quant a)) -> ok (snd (as_quant a)) -> 0 < toQ (fst (as_quant a)) ->
  - toQ (fst (as_quant a)) < toQ (snd (as_quant a)) -> toQ (snd (as_quant a)) < toQ (fst (as_quant a)) ->
  exists d, val (ttnb s now a) d /\ 0 <= d /\ d < toQ (fst (as_quant a)).
Proof. exact ttnb_range. Qed.

(* play(task, quant) with NO change before the wake-up, under the weakest hypotheses: only the field types and
   beat_dur * tempo = 1 -- no meter invariant, and the tempo may be negative (etempo allows it).  The task is
   handed to sched_abs at next_time_on_grid(quant.quant, quant.phase), filed under beats2secs of it, and first
   runs where clock.beats reads exactly that beat.  (This is the case h = [] of play_quant_schedules_on_grid below,
   which needs WF and a positive tempo because its histories contain tempo setters; it replaces, and contains the
   statement of, the earlier theorem about the hand-written wake_beat / wake_seconds.) *)
Theorem play_quant_wakes_on_grid_any_tempo : forall (s : clockstate) (now : num) (a : quantarg),
  Typed s -> TInv s -> ok (py_next_time_on_grid s now (fst (as_quant a)) (snd (as_quant a))) ->
  run_pend s [] (sched_abs_nrt s (play_beat s now a)) = Some (s, sched_abs_nrt s (play_beat s now a)) /\
  p_beats (sched_abs_nrt s (play_beat s now a)) = py_next_time_on_grid s now (fst (as_quant a)) (snd (as_quant a)) /\
  p_secs (sched_abs_nrt s (play_beat s now a)) = py_beats2secs s (py_next_time_on_grid s now (fst (as_quant a)) (snd (as_quant a))) /\
  val (wake_beat_of s (sched_abs_nrt s (play_beat s now a)))
      (toQ (py_next_time_on_grid s now (fst (as_quant a)) (snd (as_quant a)))).
Proof. exact play_wakes_any_tempo. Qed.

(* FULL STRENGTH (deepening round).  A routine played with a Quant on the clock, followed by ANY history h
   of tempo / etempo / beats / beats_per_bar changes (each at its own logical time) before it wakes up.
   The scheduler side is model/Tempo.v: ClockTask keeps the beat it is due at and its key in seconds;
   a setter whose REGENERATED flag <setter>_retimes is true (tempo, etempo, beats in the repaired sc3;
   read off the source by the translator) files it again under the new beats2secs(beat)  -- in RT the
   clock's queue is keyed by the beat itself, which gives the same two numbers.  Then:
     - no setter raises, the clock stays well formed;
     - the task is still due at exactly next_time_on_grid(quant.quant, quant.phase) as computed at play time,
       and its wake-up second is beats2secs of that beat IN THE STATE OF THE WAKE-UP;
     - so the routine first runs when clock.beats reads exactly that beat, whatever happened in between;
     - it is not woken before "now": if the clock's beat at a logical second now' is not past the due beat,
       now' is not past the wake-up second.
   What does NOT hold (and is not claimed): after a beats_per_bar change the grid origin moves, so the due
   beat is on the grid of play time, not necessarily on the new one; after `beats = v` beyond the due beat the
   wake-up second lies in the past of the thread that made the change. *)
Theorem play_quant_schedules_on_grid : forall (s : clockstate) (now : num) (a : quantarg) (h : list op),
  WF s -> 0 < toQ (tempo s) -> Forall op_ok h ->
  ok (py_next_time_on_grid s now (fst (as_quant a)) (snd (as_quant a))) ->
  exists s' p', run_pend s h (sched_abs_nrt s (play_beat s now a)) = Some (s', p') /\ run s h = Some s' /\ WF s' /\
    p_beats p' = py_next_time_on_grid s now (fst (as_quant a)) (snd (as_quant a)) /\
    p_secs p' = py_beats2secs s' (p_beats p') /\
    val (wake_beat_of s' p') (toQ (py_next_time_on_grid s now (fst (as_quant a)) (snd (as_quant a)))) /\
    (forall now', ok now' -> toQ (py_beats s' now') <= toQ (p_beats p') -> toQ now' <= toQ (p_secs p')).
Proof. exact play_then_history. Qed.

(* Several tasks pending on the clock (each filed under beats2secs of its due beat): after ANY history of valid
   changes both are still due at their beats and the seconds they are filed under are ordered like those beats, so a
   scheduler that pops by seconds (C09: the ClockScheduler queue) runs them in beat order -- two routines played
   for grid points g1 <= g2 wake in that order whatever happens to the tempo in between. *)
Theorem pending_tasks_keep_beat_order : forall (h : list op) (s : clockstate) (p1 p2 : pend),
  WF s -> 0 < toQ (tempo s) -> Forall op_ok h ->
  p_secs p1 = py_beats2secs s (p_beats p1) -> p_secs p2 = py_beats2secs s (p_beats p2) ->
  ok (p_beats p1) -> ok (p_beats p2) -> toQ (p_beats p1) <= toQ (p_beats p2) ->
  exists s' p1' p2', run_pend s h p1 = Some (s', p1') /\ run_pend s h p2 = Some (s', p2') /\
    p_beats p1' = p_beats p1 /\ p_beats p2' = p_beats p2 /\ toQ (p_secs p1') <= toQ (p_secs p2').
Proof. exact pending_order. Qed.

(* A routine on the clock that yields a number ("beats advance at the current tempo", for every routine and
   every history of changes made from routines on the clock).  The routine is woken as the pending task p (due at
   beat p_beats p); while it runs the clock goes through ANY history h1 (its own changes); it yields d and is filed
   again (resched: due d beats after the beat it woke at, under beats2secs in the state of that moment); while it
   sleeps the clock goes through ANY history h2 (changes made by other routines, which re-time it).  Then it wakes
   when clock.beats reads exactly (beat it woke at) + d, at beats2secs of that beat in the wake-up state, and not
   before a second whose beat is not past it.  (Requires the scheduler to keep the NEW due beat of a re-scheduled
   task: ClockTask.beats.) *)
Theorem yield_advances_by_delta : forall (s : clockstate) (p : pend) (d : num) (h1 h2 : list op),
  WF s -> 0 < toQ (tempo s) -> Forall op_ok h1 -> Forall op_ok h2 ->
  ok (p_beats p) -> ok d -> p_secs p = py_beats2secs s (p_beats p) ->
  val (wake_beat_of s p) (toQ (p_beats p)) /\
  exists s1 s2 q, run s h1 = Some s1 /\ run_pend s1 h2 (resched s1 (wake_beat_of s p) d) = Some (s2, q) /\
    run s1 h2 = Some s2 /\ WF s2 /\
    p_secs q = py_beats2secs s2 (p_beats q) /\
    val (p_beats q) (toQ (p_beats p) + toQ d) /\
    val (wake_beat_of s2 q) (toQ (p_beats p) + toQ d) /\
    (forall now', ok now' -> toQ (py_beats s2 now') <= toQ (p_beats q) -> toQ now' <= toQ (p_secs q)).
Proof. exact yield_advances. Qed.

(* Several TempoClocks in one process (the model the multi-clock sessions are replayed against): a change on clock
   number c re-times exactly the pending tasks of clock c; a task of any other clock keeps its due beat AND the second
   it is filed under, so (play_quant_wakes_on_grid_any_tempo / yield_advances_by_delta on ITS clock, whose state did
   not change) it still wakes where its own clock reads its due beat. *)
Theorem other_clocks_pending_untouched : forall (c : nat) (s : clockstate) (l : list entry) (id : N),
  find_pend id (retime_on c s l) =
  match find_pend id l with
  | Some (k, p) => Some (if Nat.eqb k c then (c, retime s p) else (k, p))
  | None => None
  end.
Proof. exact retime_on_find. Qed.

(* --- histories, with the logical time of each change as data -------------------------------
   integrate folds the changes over the ideal piecewise-affine clock (T, B, V) = "beat B at second T,
   V beats per second since":  tempo/etempo at time t keep the beat of t and change V;  beats = v at t
   makes the beat of t equal v;  a meter change leaves it alone.  After ANY history made of valid changes
   the real clock state (regenerated setters, `run`) is well formed, reads at every second exactly the
   beat of the ideal clock (so beats advance at the current tempo between changes and are continuous /
   reset exactly at the changes), and beats<->seconds are mutually inverse. *)
Theorem history_consistent : forall (h : list op) (s : clockstate), WF s -> 0 < toQ (tempo s) -> Forall op_ok h ->
  exists s', run s h = Some s' /\ WF s' /\ 0 < toQ (tempo s') /\
    toQ (tempo s') == tl_V (integrate (tl_of s) h) /\
    (forall x, ok x -> val (py_secs2beats s' x) (tl_beats (integrate (tl_of s) h) (toQ x))) /\
    (forall b x, ok b -> ok x ->
       val (py_secs2beats s' (py_beats2secs s' b)) (toQ b) /\ val (py_beats2secs s' (py_secs2beats s' x)) (toQ x)) /\
    (forall x d, ok x -> ok d ->
       val (py_secs2beats s' (nadd x d)) (toQ (py_secs2beats s' x) + toQ d * toQ (tempo s'))).
Proof. exact history_spec. Qed.

(* --- bars ---------------------------------------------------------------------------------- *)
Theorem bars_beats_inverse : forall (s : clockstate) (b r : num), Typed s -> MInv s -> ok b -> ok r ->
  val (py_bars2beats s (py_beats2bars s b)) (toQ b) /\ val (py_beats2bars s (py_bars2beats s r)) (toQ r).
Proof. exact bars_inverse_both. Qed.

Theorem next_bar_default_is_current_beat : forall (s : clockstate) (now : num),
  py_next_bar s now = py_next_bar_at s (py_beats s now).
Proof. exact next_bar_now_is_at. Qed.

(* never before the beat, and less than one bar after it *)
Theorem next_bar_not_before : forall (s : clockstate) (b : num), Typed s -> MInv s -> ok b ->
  exists g, val (py_next_bar_at s b) g /\ toQ b <= g /\ g < toQ b + toQ (beats_per_bar s).
Proof. exact next_bar_not_before_l. Qed.

Theorem next_bar_is_barline : forall (s : clockstate) (b : num), Typed s -> MInv s -> ok b ->
  exists k : Z, val (py_beats2bars s (py_next_bar_at s b)) (inject_Z k).
Proof. exact next_bar_is_barline_l. Qed.

Theorem beat_in_bar_range : forall (s : clockstate) (now : num), Typed s -> MInv s -> ok now ->
  exists g, val (py_beat_in_bar s now) g /\ 0 <= g /\ g < toQ (beats_per_bar s).
Proof. exact beat_in_bar_spec. Qed.

(* a meter change at thread time now: invariant kept, the tempo map untouched, the current beat
   becomes a bar line (base_bar_beat; next_bar() = now's beat; beat_in_bar() = 0) numbered with
   the integer nearest to the old bar position *)
Theorem meter_change_rebases : forall (s : clockstate) (now v : num), WF s -> fl now -> ok v -> 0 < toQ v ->
  exists s', py_beats_per_bar_set s now v = Some s' /\ WF s' /\
    (forall x, py_secs2beats s' x = py_secs2beats s x) /\
    (forall b, py_beats2secs s' b = py_beats2secs s b) /\
    base_bar_beat s' = py_beats s now /\ beats_per_bar s' = v /\
    val (py_beats2bars s' (py_beats s now)) (toQ (base_bar s')) /\
    val (py_next_bar s' now) (toQ (py_beats s now)) /\
    val (py_beat_in_bar s' now) 0 /\
    2 * toQ (base_bar s') - 1 <= 2 * toQ (py_beats2bars s (py_beats s now)) /\
    2 * toQ (py_beats2bars s (py_beats s now)) < 2 * toQ (base_bar s') + 1.
Proof. exact meter_set_wf. Qed.

(* --- non-vacuity: a concrete well-formed state (int tempo, meter 3, re-based), a valid history,
       and the model computes ---------------------------------------------------------------- *)
Definition ex_clock : clockstate :=
  mkClock (I 2) (F (1 # 2)) (F (5 # 8)) (F (5 # 4)) (I 3) (F (1 # 3)) (F 1) (F (5 # 4)).
Example ex_clock_wf : WF ex_clock /\ 0 < toQ (tempo ex_clock).
Proof.
  unfold WF, Typed, TInv, MInv, ok, fl, ex_clock; cbn.
  repeat split; try reflexivity. exists 1%Z. reflexivity.
Qed.
Example ex_history_ok :
  Forall op_ok [OTempo (F (3 # 4)) (I 4); OMeter (F 1) (F (5 # 2)); OBeats (F (9 # 8)) (I 7); OEtempo (F 2) (F (1 # 2))].
Proof. repeat constructor. Qed.
Example ex_history_runs :
  option_map canon_state
    (run ex_clock [OTempo (F (3 # 4)) (I 4); OMeter (F 1) (F (5 # 2)); OBeats (F (9 # 8)) (I 7); OEtempo (F 2) (F (1 # 2))])
  = Some [(1, 1, 2); (1, 2, 1); (1, 2, 1); (1, 21, 2); (1, 5, 2); (1, 2, 5); (1, 1, 1); (1, 5, 2)]%Z.
Proof. vm_compute. reflexivity. Qed.
(* quant 4, phase -1, grid origin 5/4, reference beat 7/2  ->  17/4 = 5/4 - 1 + 1*4 *)
Example ex_grid : canon (py_next_time_on_grid_ref ex_clock (I 4) (I (-1)) (F (7 # 2))) = (1, 17, 4)%Z.
Proof. vm_compute. reflexivity. Qed.
Example ex_grid_hyps : fl (base_bar_beat ex_clock) /\ 0 < toQ (I 4) /\ - toQ (I 4) < toQ (I (-1)) /\ toQ (I (-1)) < toQ (I 4).
Proof. repeat split. Qed.
Example ex_next_bar : canon (py_next_bar_at ex_clock (F (7 # 2))) = (1, 17, 4)%Z.
Proof. vm_compute. reflexivity. Qed.
Example ex_play : canon (wake_beat ex_clock (play_beat ex_clock (F 1) (QPair (F (3 # 2)) (F (-1 # 2))))) = (1, 9, 4)%Z.
Proof. vm_compute. reflexivity. Qed.

(* the ideal clock of the example history: after tempo 4 at 3/4 s, meter, beats = 7 at 9/8 s, etempo 1/2 at 2 s
   the beat at second 4 is 7 + (2 - 9/8)*4 + (4 - 2)/2 = 23/2 -- and the model state says the same *)
Example ex_integrate :
  Qeq_bool (tl_beats (integrate (tl_of ex_clock)
     [OTempo (F (3 # 4)) (I 4); OMeter (F 1) (F (5 # 2)); OBeats (F (9 # 8)) (I 7); OEtempo (F 2) (F (1 # 2))]) 4) (23 # 2) = true.
Proof. vm_compute. reflexivity. Qed.
(* played with Quant(3/2, -1/2) at 1 s (due at beat 9/4), then tempo 8 at 17/16 s and beats += at 9/8 s: still wakes at beat 9/4 *)
Example ex_play_history :
  option_map (fun sp => (canon (wake_beat_of (fst sp) (snd sp)), canon (p_secs (snd sp))))
    (run_pend ex_clock [OTempo (F (17 # 16)) (I 8); OMeter (F (17 # 16)) (I 2); OBeats (F (9 # 8)) (F (2 # 1))]
       (sched_abs_nrt ex_clock (play_beat ex_clock (F 1) (QPair (F (3 # 2)) (F (-1 # 2))))))
  = Some ((1, 9, 4), (1, 37, 32))%Z.
Proof. vm_compute. reflexivity. Qed.

(* TempoClock(1, 0, 0) created at logical second 5: "as if it started counting beats 0 at second 0", so it reads 5 *)
Example ex_ctor_seconds_zero :
  option_map (fun s => canon (py_beats s (F 5))) (py_init clock_blank (F 5) (I 1) (I 0) (I 0)) = Some (1, 5, 1)%Z.
Proof. vm_compute. reflexivity. Qed.

(* a clock running backwards (etempo(-2)): Typed and TInv hold, WF's positive-tempo side condition does not;
   play(Quant(1, 1/2)) at second 1 (beat -3/4) is due at beat -1/2 and wakes reading exactly -1/2 *)
Definition ex_backwards : clockstate :=
  mkClock (F (-2 # 1)) (F (-1 # 2)) (F (1 # 2)) (F (1 # 4)) (F 4) (F (1 # 4)) (F 0) (F 0).
Example ex_backwards_hyps : Typed ex_backwards /\ TInv ex_backwards /\
  ok (py_next_time_on_grid ex_backwards (F 1) (fst (as_quant (QPair (I 1) (F (1 # 2))))) (snd (as_quant (QPair (I 1) (F (1 # 2)))))).
Proof. unfold Typed, TInv, ok, fl, ex_backwards; cbn. repeat split; reflexivity. Qed.
Example ex_backwards_play :
  (canon (py_beats ex_backwards (F 1)),
   canon (wake_beat_of ex_backwards (sched_abs_nrt ex_backwards (play_beat ex_backwards (F 1) (QPair (I 1) (F (1 # 2)))))))
  = ((1, -3, 4), (1, -1, 2))%Z.
Proof. vm_compute. reflexivity. Qed.
(* two tasks due at beats 9/4 and 3 on ex_clock; after tempo 8, a meter change and beats = 2 they are filed under 37/32 <= 5/4 s *)
Example ex_pending_order :
  let h := [OTempo (F (17 # 16)) (I 8); OMeter (F (17 # 16)) (I 2); OBeats (F (9 # 8)) (F (2 # 1))] in
  (option_map (fun sp => canon (p_secs (snd sp))) (run_pend ex_clock h (sched_abs_nrt ex_clock (F (9 # 4)))),
   option_map (fun sp => canon (p_secs (snd sp))) (run_pend ex_clock h (sched_abs_nrt ex_clock (I 3))))
  = (Some (1, 37, 32), Some (1, 5, 4))%Z.
Proof. vm_compute. reflexivity. Qed.

(* a walker woken at beat 9/4 on ex_clock yields 2; meanwhile another routine sets tempo 8 (at 17/16 s) and beats = 2 (at 9/8 s):
   it wakes reading 17/4 = 9/4 + 2, at second 9/8 + (17/4 - 2)/8 = 45/32 *)
Example ex_yield :
  option_map (fun sp => (canon (wake_beat_of (fst sp) (snd sp)), canon (p_secs (snd sp))))
    (run_pend ex_clock [OTempo (F (17 # 16)) (I 8); OBeats (F (9 # 8)) (F (2 # 1))]
       (resched ex_clock (wake_beat_of ex_clock (sched_abs_nrt ex_clock (F (9 # 4)))) (I 2)))
  = Some ((1, 17, 4), (1, 45, 32))%Z.
Proof. vm_compute. reflexivity. Qed.

(* two clocks: ex_clock (number 0) gets tempo 8 while task 7 of clock 1 (ex_backwards) is pending: task 7 is where it was,
   task 3 of clock 0 moved *)
Example ex_two_clocks :
  let l := [(3%N, (0%nat, sched_abs_nrt ex_clock (F (9 # 4)))); (7%N, (1%nat, sched_abs_nrt ex_backwards (F (-1 # 2))))] in
  match step ex_clock (OTempo (F (17 # 16)) (I 8)) with
  | Some s' => (option_map (fun kp => canon (p_secs (snd kp))) (find_pend 7%N (retime_on 0 s' l)),
                option_map (fun kp => canon (p_secs (snd kp))) (find_pend 3%N (retime_on 0 s' l)),
                option_map (fun kp => canon (p_secs (snd kp))) (find_pend 3%N l))
  | None => (None, None, None)
  end = (Some (1, 7, 8), Some (1, 69, 64), Some (1, 9, 8))%Z.
Proof. vm_compute. reflexivity. Qed.

Print Assumptions beats_secs_inverse.
Print Assumptions TInv_all_histories.
Print Assumptions grid_minimal.
Print Assumptions meter_change_rebases.
Print Assumptions play_quant_schedules_on_grid.
Print Assumptions history_consistent.
Print Assumptions constructor_reference_point.
Print Assumptions play_quant_wakes_on_grid_any_tempo.
Print Assumptions pending_tasks_keep_beat_order.
Print Assumptions yield_advances_by_delta.
Print Assumptions other_clocks_pending_untouched.
