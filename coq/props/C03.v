(* C03 -- multichannel expansion follows the wrap-and-zip law everywhere.
   Property theorems only; the model is model/Mce.v (hand-written from sc3/synth/ugen.py,
   sc3/base/utils.py, sc3/synth/ugens/inout.py), tied to the code by harness/props/C03.py. *)
From Coq Require Import ZArith List Bool Arith.
Import ListNotations.
Require Import SC3.model.Mce SC3.proofs.C03_mce SC3.proofs.C03_lists SC3.proofs.C03_wrap.

(* --- unit-generator constructors: SynthObject._multi_new ------------------------------ *)
(* for ALL constructors new1, ALL argument vectors and states: without a non-empty list
   argument one call; otherwise the channel list, as long as the longest list, whose i-th
   element is what the same call returns on element (i mod length) of every list argument
   -- recursively, because the right-hand side is multi_new again -- run one after the other
   on the growing SynthDef; an empty list next to a longer one raises ZeroDivisionError. *)
Theorem mce_law : forall (new1 : list arg -> M arg) args st,
  multi_new new1 args st =
  (if maxlen args =? 0 then new1 args
   else bind (loop (fun i => match pick_all i args with
                             | None => raise ZeroDivisionError
                             | Some picked => multi_new new1 picked
                             end) 0 (maxlen args))
             (fun results => ret (Lst results))) st.
Proof. exact multi_new_eq. Qed.

Theorem mce_length_is_max : forall new1 args st r st',
  0 < maxlen args -> multi_new new1 args st = Ok r st' ->
  exists rs, r = Lst rs /\ length rs = maxlen args.
Proof. exact multi_new_length. Qed.

Theorem mce_scalars_and_tuples_opaque : forall new1 args st,
  Forall (fun a => is_lst a = false) args -> multi_new new1 args st = new1 args st.
Proof. exact multi_new_no_list. Qed.

(* one unit per combination: an expanded call of a one-unit constructor appends exactly
   count_calls args units, all of that class; count_calls is 1 without expansion and otherwise
   the sum over the channels of the count of the picked call (no products) *)
Theorem mce_one_unit_per_combination : forall cls nouts args st r st',
  multi_new (new1_plain cls nouts) args st = Ok r st' ->
  exists new, st' = st ++ new /\ length new = count_calls args /\ Forall (flat_vector cls) new.
Proof. exact multi_new_units. Qed.
Theorem mce_count_is_sum_over_channels : forall args,
  count_calls args =
  if maxlen args =? 0 then 1
  else list_sum (map (fun i => match pick_all i args with
                               | None => 0 | Some picked => count_calls picked end)
                     (seq 0 (maxlen args))).
Proof. exact count_calls_eq. Qed.
(* under the guard of the law (no reachable list is empty) the call does not raise and every
   created unit has an argument vector of scalars and tuples only *)
Theorem mce_total_on_nonempty_lists : forall cls nouts args st,
  forallb noempty args = true -> exists r st', multi_new (new1_plain cls nouts) args st = Ok r st'.
Proof. exact mce_total. Qed.
Theorem mce_unit_vectors_are_scalar : forall cls nouts args st r st',
  forallb noempty args = true ->
  multi_new (new1_plain cls nouts) args st = Ok r st' ->
  exists new, st' = st ++ new /\ length new = count_calls args /\ Forall (scalar_vector cls) new.
Proof. exact mce_units_guard. Qed.

(* what the code does with empty lists (outside the law: i mod 0) *)
Theorem mce_all_lists_empty_single_call : forall new1 args st,
  Forall (fun a => lst_len a = 0) args -> multi_new new1 args st = new1 args st.
Proof. exact multi_new_all_empty. Qed.
Theorem mce_empty_list_among_longer_raises : forall new1 args st,
  0 < maxlen args -> In (Lst []) args -> multi_new new1 args st = Err ZeroDivisionError.
Proof. exact multi_new_empty_among. Qed.

(* --- arithmetic operators: utils.list_binop ------------------------------------------------ *)
(* FULL statement wanted:  for sequences a, b (both non-empty)
     list_binop op a b t = mk t [ list_binop op a[i mod |a|] b[i mod |b|] _ | i < max |a| |b| ]
   as ONE equation.  Proved here in two halves that together say the same: the recursive
   equation over the wrap-extended operands (below, all four shape cases, tuples being
   sequences exactly as the code treats them), and wrap_extend_law: the wrap-extended
   operands have length max |a| |b| and element i mod length.  Not proved: the fusion of the
   flat branch (mapM over zip) with the nested branch (loop over indices) into one formula. *)
Theorem list_binop_wrap_law_partial : forall (op2 : arg -> arg -> M arg) a b t st,
  list_binop op2 a b t st =
  (match is_seq a, is_seq b with
   | true, true =>
     if existsb is_seq (wrapped_a a b) || existsb is_seq (wrapped_b a b) then
       bind (loop (fun i => match nth_error (wrapped_a a b) i, nth_error (wrapped_b a b) i with
                            | Some x, Some y => list_binop op2 (untuple x) (untuple y) (elem_kind x y)
                            | _, _ => raise IndexError
                            end) 0 (length (wrapped_a a b)))
            (fun r => ret (mk t r))
     else bind (mapM (fun p => op2 (fst p) (snd p)) (combine (wrapped_a a b) (wrapped_b a b)))
               (fun r => ret (mk t r))
   | true, false => bind (mapM (fun x => list_binop op2 x b (kind_of x)) (items a)) (fun r => ret (mk t r))
   | false, true => bind (mapM (fun y => list_binop op2 a y (kind_of y)) (items b)) (fun r => ret (mk t r))
   | false, false => op2 a b
   end) st.
Proof. exact list_binop_eq. Qed.
Theorem wrap_extend_law : forall a b, items a <> [] -> items b <> [] ->
  length (wrapped_a a b) = Nat.max (length (items a)) (length (items b)) /\
  length (wrapped_b a b) = Nat.max (length (items a)) (length (items b)) /\
  forall i, i < Nat.max (length (items a)) (length (items b)) ->
    nth_error (wrapped_a a b) i = nth_error (items a) (i mod length (items a)) /\
    nth_error (wrapped_b a b) i = nth_error (items b) (i mod length (items b)).
Proof. exact wrapped_spec. Qed.

(* --- channel-list convenience methods: utils.flop -------------------------------------------- *)
Theorem flop_law : forall lst, lst <> [] ->
  length (flop lst) = list_max (map (fun x => length (as_list x)) lst) /\
  forall i, i < length (flop lst) ->
    nth_error (flop lst) i = Some (map (fun x => wrap_at (as_list x) i) lst).
Proof. exact flop_law_lemma. Qed.
(* madd as the law requires it (= the repaired code) is one _multi_new over receiver, mul, add,
   so mce_law applies to it.  FULL statement wanted (channel_list_methods_law): every
   _multichannel_perform method equals the channel list of the per-row method calls over
   flop([self, *args]); that is the DEFINITION of mc_perform in the model (corresponded, not
   a theorem), and flop_law says what the rows are. *)
Theorem channel_list_methods_law_partial : forall cls self mul add st,
  cl_madd cls self mul add st = multi_new (new1_plain cls 1) [Lst self; mul; add] st.
Proof. exact cl_madd_is_multi_new. Qed.

(* --- output units ---------------------------------------------------------------------------- *)
(* FULL statement wanted additionally: channels other than literal zeros are unchanged and keep
   their positions (checked by the correspondence on every Out case, not proved). *)
Theorem out_splice_and_silence_partial : forall dc out bus output st r st',
  out_ar dc out bus output st = Ok r st' ->
  exists chans silences outs,
    length chans = length (as_list output) /\ existsb has_zero chans = false /\
    Forall (is_dc dc) silences /\
    multi_new (new1_plain out 1) (bus :: chans) (st ++ silences) = Ok r st' /\
    st' = st ++ silences ++ outs /\ length outs = count_calls (bus :: chans) /\
    Forall (flat_vector out) outs.
Proof. exact out_ar_spec. Qed.

(* --- non-vacuity: the model computes, hypotheses are satisfiable -------------------------------- *)
Definition k (z : Z) := Scalar (K z).
(* SinOsc.ar([[1, 2], 3], [4, 5, 6]): five units, in this order *)
Example mce_example :
  observe (multi_new (new1_plain 1 1) [Lst [Lst [k 1; k 2]; k 3]; Lst [k 4; k 5; k 6]]) [] =
  ORes (Lst [Lst [Scalar (U 0 0); Scalar (U 1 0)]; Scalar (U 2 0); Lst [Scalar (U 3 0); Scalar (U 4 0)]])
       [mkUnit 1 [k 1; k 4]; mkUnit 1 [k 2; k 4]; mkUnit 1 [k 3; k 5]; mkUnit 1 [k 1; k 6]; mkUnit 1 [k 2; k 6]].
Proof. vm_compute. reflexivity. Qed.
Example mce_example_guard : forallb noempty [Lst [Lst [k 1; k 2]; k 3]; Lst [k 4; k 5; k 6]] = true
  /\ count_calls [Lst [Lst [k 1; k 2]; k 3]; Lst [k 4; k 5; k 6]] = 5.
Proof. vm_compute. auto. Qed.
(* Out.ar(0, [[u0, 0], [0.0, u1, 7]]) after two prelude units: three DC units, three Out units *)
Example out_example :
  observe (out_ar 9 8 (k 0) (Lst [Lst [Scalar (U 0 0); k 0]; Lst [k 0; Scalar (U 1 0); k 7]]))
          [mkUnit 1 [k 100; k 0]; mkUnit 1 [k 101; k 0]] =
  ORes (Lst [Scalar (U 5 0); Scalar (U 6 0); Scalar (U 7 0)])
       [mkUnit 1 [k 100; k 0]; mkUnit 1 [k 101; k 0]; mkUnit 9 [k 0]; mkUnit 9 [k 0]; mkUnit 9 [k 0];
        mkUnit 8 [k 0; Scalar (U 0 0); Scalar (U 4 0)]; mkUnit 8 [k 0; Scalar (U 3 0); Scalar (U 1 0)];
        mkUnit 8 [k 0; Scalar (U 0 0); k 7]].
Proof. vm_compute. reflexivity. Qed.
(* ChannelList.madd AS WRITTEN IN sc3 TODAY violates the law: ChannelList([u0, u1]).madd([2, 3], 5)
   gives a 2x2 nest and four MulAdd units where the law (and cl_madd) gives [u0*2+5, u1*3+5], two units.
   The same call is the replay of the VIOLATION printed on the unrepaired tree. *)
Example cl_madd_unpatched_violates_law :
  let pre := [mkUnit 1 [k 100; k 0]; mkUnit 1 [k 101; k 0]] in
  let self := [Scalar (U 0 0); Scalar (U 1 0)] in
  observe (cl_madd 7 self (Lst [k 2; k 3]) (k 5)) pre =
    ORes (Lst [Scalar (U 2 0); Scalar (U 3 0)])
         (pre ++ [mkUnit 7 [Scalar (U 0 0); k 2; k 5]; mkUnit 7 [Scalar (U 1 0); k 3; k 5]]) /\
  observe (cl_madd_unpatched 7 self (Lst [k 2; k 3]) (k 5)) pre =
    ORes (Lst [Lst [Scalar (U 2 0); Scalar (U 3 0)]; Lst [Scalar (U 4 0); Scalar (U 5 0)]])
         (pre ++ [mkUnit 7 [Scalar (U 0 0); k 2; k 5]; mkUnit 7 [Scalar (U 0 0); k 3; k 5];
                  mkUnit 7 [Scalar (U 1 0); k 2; k 5]; mkUnit 7 [Scalar (U 1 0); k 3; k 5]]).
Proof. vm_compute. split; reflexivity. Qed.

Print Assumptions mce_law.
Print Assumptions mce_one_unit_per_combination.
Print Assumptions list_binop_wrap_law_partial.
Print Assumptions out_splice_and_silence_partial.
