(* C03 -- multichannel expansion follows the wrap-and-zip law everywhere.
   Property theorems only; the model is model/Mce.v (hand-written from sc3/synth/ugen.py,
   sc3/base/utils.py, sc3/synth/ugens/inout.py), tied to the code by harness/props/C03.py. *)
From Coq Require Import ZArith List Bool Arith.
Import ListNotations.
Require Import SC3.model.Mce SC3.proofs.C03_mce SC3.proofs.C03_lists SC3.proofs.C03_wrap SC3.proofs.C03_full SC3.proofs.C03_rate SC3.proofs.C03_close.

(* --- unit-generator constructors: SynthObject._multi_new ------------------------------ *)
(* for ALL constructors new1, ALL argument vectors and states: without a non-empty list
   argument one call; otherwise the channel list, as long as the longest list, whose i-th
   element is what the same call returns on element (i mod length) of every list argument
   -- recursively, because the right-hand side is multi_new again -- run one after the other
   on the growing SynthDef; an empty list next to a longer one raises ZeroDivisionError. *)
Theorem mce_law : forall (new1 : list arg -> M arg) args st,
  multi_new new1 args st =
  (if maxlen args =? 0 then new1 args
   else bind (loop (fun i => match pick_all i args with
                             | None => raise ZeroDivisionError
                             | Some picked => multi_new new1 picked
                             end) 0 (maxlen args))
             (fun results => ret (Lst results))) st.
Proof. exact multi_new_eq. Qed.

Theorem mce_length_is_max : forall new1 args st r st',
  0 < maxlen args -> multi_new new1 args st = Ok r st' ->
  exists rs, r = Lst rs /\ length rs = maxlen args.
Proof. exact multi_new_length. Qed.

Theorem mce_scalars_and_tuples_opaque : forall new1 args st,
  Forall (fun a => is_lst a = false) args -> multi_new new1 args st = new1 args st.
Proof. exact multi_new_no_list. Qed.

(* one unit per combination: an expanded call of a one-unit constructor appends exactly
   count_calls args units, all of that class; count_calls is 1 without expansion and otherwise
   the sum over the channels of the count of the picked call (no products) *)
Theorem mce_one_unit_per_combination : forall cls nouts args st r st',
  multi_new (new1_plain cls nouts) args st = Ok r st' ->
  exists new, st' = st ++ new /\ length new = count_calls args /\ Forall (flat_vector cls) new.
Proof. exact multi_new_units. Qed.
Theorem mce_count_is_sum_over_channels : forall args,
  count_calls args =
  if maxlen args =? 0 then 1
  else list_sum (map (fun i => match pick_all i args with
                               | None => 0 | Some picked => count_calls picked end)
                     (seq 0 (maxlen args))).
Proof. exact count_calls_eq. Qed.
(* under the guard of the law (no reachable list is empty) the call does not raise and every
   created unit has an argument vector of scalars and tuples only *)
Theorem mce_total_on_nonempty_lists : forall cls nouts args st,
  forallb noempty args = true -> exists r st', multi_new (new1_plain cls nouts) args st = Ok r st'.
Proof. exact mce_total. Qed.
Theorem mce_unit_vectors_are_scalar : forall cls nouts args st r st',
  forallb noempty args = true ->
  multi_new (new1_plain cls nouts) args st = Ok r st' ->
  exists new, st' = st ++ new /\ length new = count_calls args /\ Forall (scalar_vector cls) new.
Proof. exact mce_units_guard. Qed.

(* what the code does with empty lists (outside the law: i mod 0) *)
Theorem mce_all_lists_empty_single_call : forall new1 args st,
  Forall (fun a => lst_len a = 0) args -> multi_new new1 args st = new1 args st.
Proof. exact multi_new_all_empty. Qed.
Theorem mce_empty_list_among_longer_raises : forall new1 args st,
  0 < maxlen args -> In (Lst []) args -> multi_new new1 args st = Err ZeroDivisionError.
Proof. exact multi_new_empty_among. Qed.

(* --- arithmetic operators: utils.list_binop ------------------------------------------------ *)
(* list_binop for EVERY pair of shapes, as a fuel-free recursive equation over the wrap-extended
   operands (tuples being sequences exactly as the code treats them): sequence-sequence (nested or
   flat), sequence-scalar, scalar-sequence, scalar-scalar -- including what happens with empty
   operands (flat branch: [], nested branch: IndexError).  The property's clause for two non-empty
   sequences is the single formula list_binop_wrap_law below; this theorem is kept because it also
   fixes the other three shapes and the empty cases. *)
Theorem list_binop_shape_cases : forall (op2 : arg -> arg -> M arg) a b t st,
  list_binop op2 a b t st =
  (match is_seq a, is_seq b with
   | true, true =>
     if existsb is_seq (wrapped_a a b) || existsb is_seq (wrapped_b a b) then
       bind (loop (fun i => match nth_error (wrapped_a a b) i, nth_error (wrapped_b a b) i with
                            | Some x, Some y => list_binop op2 (untuple x) (untuple y) (elem_kind x y)
                            | _, _ => raise IndexError
                            end) 0 (length (wrapped_a a b)))
            (fun r => ret (mk t r))
     else bind (mapM (fun p => op2 (fst p) (snd p)) (combine (wrapped_a a b) (wrapped_b a b)))
               (fun r => ret (mk t r))
   | true, false => bind (mapM (fun x => list_binop op2 x b (kind_of x)) (items a)) (fun r => ret (mk t r))
   | false, true => bind (mapM (fun y => list_binop op2 a y (kind_of y)) (items b)) (fun r => ret (mk t r))
   | false, false => op2 a b
   end) st.
Proof. exact list_binop_eq. Qed.
Theorem wrap_extend_law : forall a b, items a <> [] -> items b <> [] ->
  length (wrapped_a a b) = Nat.max (length (items a)) (length (items b)) /\
  length (wrapped_b a b) = Nat.max (length (items a)) (length (items b)) /\
  forall i, i < Nat.max (length (items a)) (length (items b)) ->
    nth_error (wrapped_a a b) i = nth_error (items a) (i mod length (items a)) /\
    nth_error (wrapped_b a b) i = nth_error (items b) (i mod length (items b)).
Proof. exact wrapped_spec. Qed.

(* --- channel-list convenience methods: utils.flop -------------------------------------------- *)
Theorem flop_law : forall lst, lst <> [] ->
  length (flop lst) = list_max (map (fun x => length (as_list x)) lst) /\
  forall i, i < length (flop lst) ->
    nth_error (flop lst) i = Some (map (fun x => wrap_at (as_list x) i) lst).
Proof. exact flop_law_lemma. Qed.
(* ChannelList.madd(mul, add) = MulAdd.new(self, mul, add): one _multi_new over (receiver, mul, add)
   (channel_list_madd_is_expansion), hence -- channel_list_madd_law -- for a non-empty receiver the
   channel list, as long as the longest of receiver, mul, add, whose i-th element is
   MulAdd.new(self[i mod |self|], mul_i, add_i): a list argument contributes element i modulo its
   length, anything else itself (recursively: muladd_new is the same expansion again), an empty
   list among them raises ZeroDivisionError. *)
Theorem channel_list_madd_is_expansion : forall B self mul add st,
  cl_madd B self mul add st = multi_new (muladd_new1 B) [Lst self; mul; add] st.
Proof. exact cl_madd_is_multi_new. Qed.
Theorem channel_list_madd_law : forall B self mul add st, self <> [] ->
  cl_madd B self mul add st =
  bind (loop (fun i => match pick i mul, pick i add with
                       | Some m, Some a => muladd_new B (nth (i mod length self) self (Lst [])) m a
                       | _, _ => raise ZeroDivisionError
                       end) 0 (maxlen [Lst self; mul; add]))
       (fun r => ret (Lst r)) st.
Proof. exact cl_madd_law. Qed.

(* --- output units: out_splice_and_silence and out_splice_and_silence_all_classes below ------- *)

(* ======================= full statements (deepening round) ============================ *)
(* list_binop, ONE formula: for two non-empty sequences (lists or tuples, as the code treats
   them) the result is the sequence, of the requested type, of
       list_binop op a[i mod |a|] b[i mod |b|]        for i = 0 .. max |a| |b| - 1
   evaluated in that order on the growing SynthDef -- recursively, the right-hand side being
   list_binop again (on two non-sequences list_binop IS op: list_binop_shape_cases, last
   case); the element type is tuple iff one of the two elements is a tuple. *)
Theorem list_binop_wrap_law : forall (op2 : arg -> arg -> M arg) a b t st,
  is_seq a = true -> is_seq b = true -> items a <> [] -> items b <> [] ->
  list_binop op2 a b t st =
  bind (loop (fun i => match nth_error (items a) (i mod length (items a)),
                             nth_error (items b) (i mod length (items b)) with
                       | Some x, Some y => list_binop op2 x y (elem_kind x y)
                       | _, _ => raise IndexError
                       end) 0 (Nat.max (length (items a)) (length (items b))))
       (fun r => ret (mk t r)) st.
Proof. exact list_binop_fused. Qed.
Theorem list_binop_length_is_max : forall (op2 : arg -> arg -> M arg) a b t st r st',
  is_seq a = true -> is_seq b = true -> items a <> [] -> items b <> [] ->
  list_binop op2 a b t st = Ok r st' ->
  exists rs, r = mk t rs /\ length rs = Nat.max (length (items a)) (length (items b)).
Proof. exact list_binop_fused_length. Qed.

(* ... and at the level of the ChannelList operators (self + other, self * other, self - other;
   scalar_binop = what the operator does on two non-sequences, unit creation included):
   two non-empty lists wrap and zip; a scalar on either side is combined with every channel *)
Theorem channel_list_operator_law : forall B o la lb st, la <> [] -> lb <> [] ->
  cl_binop B o (Lst la) (Lst lb) st =
  bind (loop (fun i => match nth_error la (i mod length la), nth_error lb (i mod length lb) with
                       | Some x, Some y => list_binop (scalar_binop B o) x y (elem_kind x y)
                       | _, _ => raise IndexError
                       end) 0 (Nat.max (length la) (length lb)))
       (fun r => ret (Lst r)) st.
Proof. exact cl_binop_law. Qed.
Theorem channel_list_operator_scalar_law : forall B o la s st,
  cl_binop B o (Lst la) (Scalar s) st =
  bind (mapM (fun x => list_binop (scalar_binop B o) x (Scalar s) (kind_of x)) la)
       (fun r => ret (Lst r)) st.
Proof. exact cl_binop_scalar_law. Qed.
Theorem channel_list_roperator_scalar_law : forall B o la s st,
  cl_rbinop B o (Scalar s) (Lst la) st =
  bind (mapM (fun y => list_binop (scalar_binop B o) (Scalar s) y (kind_of y)) la)
       (fun r => ret (Lst r)) st.
Proof. exact cl_rbinop_scalar_law. Qed.

(* EVERY other binary operator method / builtins function (round roundup trunc min max atan2 pow
   ring1.. clip2 ...; base = its BinaryOpUGen class): the same wrap-and-zip loop over
   scalar_binop_named, and on a number paired with a signal -- in EITHER order, the reflected
   dispatch included -- exactly one unit (name, left operand, right operand) *)
Theorem channel_list_named_operator_law : forall base la lb st, la <> [] -> lb <> [] ->
  cl_binop_named base (Lst la) (Lst lb) st =
  bind (loop (fun i => match nth_error la (i mod length la), nth_error lb (i mod length lb) with
                       | Some x, Some y => list_binop (scalar_binop_named base) x y (elem_kind x y)
                       | _, _ => raise IndexError
                       end) 0 (Nat.max (length la) (length lb)))
       (fun r => ret (Lst r)) st.
Proof. exact cl_binop_named_law. Qed.
Theorem named_operator_number_and_signal : forall base z u c st,
  scalar_binop_named base (Scalar (K z)) (Scalar (U u c)) st =
  new1_rated base 1 binop_ratef [Scalar (K z); Scalar (U u c)] st /\
  scalar_binop_named base (Scalar (U u c)) (Scalar (K z)) st =
  new1_rated base 1 binop_ratef [Scalar (U u c); Scalar (K z)] st.
Proof. exact scalar_binop_named_reflected. Qed.

(* _multichannel_perform, for EVERY selector (leaf = the element's own method, arbitrary) and
   every non-empty receiver: the result is the channel list, as long as the longest of receiver
   and list arguments, whose i-th element is the method of receiver element i mod |self| applied
   to every argument picked i modulo its length (scalars and tuples unchanged, [] for an empty
   list); a nested channel list element performs the same call recursively (mc_elem). *)
Theorem channel_list_methods_law : forall (leaf : arg -> list arg -> M arg) self args st,
  self <> [] ->
  mc_perform_gen leaf self args st =
  bind (loop (fun i => mc_elem leaf (nth (i mod length self) self (Lst []))
                               (map (fun a => wrap_at (as_list a) i) args))
             0 (list_max (length self :: map (fun a => length (as_list a)) args)))
       (fun r => ret (Lst r)) st.
Proof. exact mc_perform_law. Qed.
Theorem channel_list_methods_length_is_max : forall (leaf : arg -> list arg -> M arg) self args st r st',
  self <> [] -> mc_perform_gen leaf self args st = Ok r st' ->
  exists rs, r = Lst rs /\ length rs = list_max (length self :: map (fun a => length (as_list a)) args).
Proof. exact mc_perform_length. Qed.
(* ... and for lagud/slew/clip/fold/wrap/moddif (and lag* with a non-zero time) a unit element's
   method is the constructor's own expansion of (unit :: picked arguments): mce_law applies again *)
Theorem channel_list_methods_per_channel : forall b u c rest st,
  mc_elem (leaf_method (MClip b)) (Scalar (U u c)) rest st =
    match unit_rate st u with
    | RDemand => Err AttributeError
    | r => multi_new (new1_plain (with_rate b r) 1) (Scalar (U u c) :: rest) st
    end /\
  mc_elem (leaf_method (MDirect b)) (Scalar (U u c)) rest st =
    match unit_rate st u with
    | RScalar | RDemand => Err AttributeError
    | r => multi_new (new1_plain (with_rate b r) 1) (Scalar (U u c) :: rest) st
    end.
Proof. exact mc_per_channel. Qed.
(* dup creates nothing; poll is one expansion over (trig, receiver, labels, id) and returns the receiver *)
Theorem channel_list_dup_law : forall self n st, cl_dup self n st = Ok (Lst (repeat (Lst self) n)) st.
Proof. exact cl_dup_eq. Qed.
Theorem channel_list_poll_law : forall poll imp self trig label tid defl st rs,
  rates_of st self = Some rs ->
  cl_poll poll imp self trig label tid defl st =
  bind (multi_new (poll_new1 poll imp)
          [unbubble (Lst rs); trig; Lst self; if is_none label then Lst defl else label; tid])
       (fun _ => ret (Lst self)) st.
Proof. exact cl_poll_eq. Qed.

(* THE RATE CLAUSE.  For a class whose rate is determined by _init_ugen from the unit's inputs
   (BinaryOpUGen: _determine_rate; UnaryOpUGen: the input's rate; MulAdd: the rate of the inputs
   tuple) every unit created by an expanded call -- the j-th one, in the SynthDef as it is at that
   moment -- has the rate that the rate function gives for ITS OWN argument vector, i.e. for the
   picked elements, not for the complete lists.  (mce_law already says that channel i is the
   whole result of the same call on pick i, rate included, for any _new1; this is the clause
   spelled out on the created units.)  Classes with a fixed constructor rate: new1_plain, the
   rate is in the class id.  Convenience methods: channel_list_methods_per_channel, the rate is
   that of the channel's receiver element. *)
Theorem mce_rate_per_channel : forall base nouts (rf : ratefn) args st r st',
  multi_new (new1_rated base nouts rf) args st = Ok r st' ->
  exists new, st' = st ++ new /\
    forall j u, nth_error new j = Some u ->
      exists rt, rf (st ++ firstn j new) (uargs u) = Some rt /\
                 ucls u = with_rate base rt /\ cls_rate (ucls u) = rt.
Proof. exact multi_new_rated. Qed.

(* Out.ar(bus, output), complete.  With n = the number of lists reachable through lists in
   as_list(output) (the code creates one DC.ar(0) per such list, zeros or not):
   - exactly n units DC(0) are appended first, then the output units, nothing else;
   - the channels spliced after the bus are related to as_list(output) position by position, in
     order and at every list depth (list_rel): a literal zero became output 0 of one of those n
     units, a list became a list of the same length, everything else (units, non-zero numbers,
     strings, tuples with whatever inside) is unchanged; no literal zero is left;
   - the output units are those of the generic expansion of (bus :: channels). *)
Theorem out_splice_and_silence : forall dc out bus output st r st',
  out_ar dc out bus output st = Ok r st' ->
  let n := nlists (Lst (as_list output)) in
  exists chans outs,
    list_rel (fun uid => length st <= uid < length st + n) (as_list output) chans /\
    existsb has_zero chans = false /\
    multi_new (new1_plain out 1) (bus :: chans) (st ++ repeat (dc_unit dc) n) = Ok r st' /\
    st' = st ++ repeat (dc_unit dc) n ++ outs /\
    length outs = count_calls (bus :: chans) /\ Forall (flat_vector out) outs.
Proof. exact out_ar_full. Qed.
(* Constructors that convert their signal input to audio rate before the expansion (the .ar
   constructors of the delay-line family: ugen_param(input)._as_audio_rate_input()).  The
   conversion of a list (or tuple) is the conversion of EVERY element, in order, independently
   of the other elements -- an audio-rate element is kept, a control/scalar-rate unit gets a K2A,
   a number a DC (0: silence) -- and the converted list then goes through the generic expansion,
   so channel i is built from the conversion of element i, as in the single-channel call. *)
Theorem audio_input_conversion_elementwise : forall dc k2a l st,
  as_audio dc k2a (Lst l) st = bind (mapM (as_audio dc k2a) l) (fun l' => ret (Lst l')) st /\
  as_audio dc k2a (Tuple l) st = bind (mapM (as_audio dc k2a) l) (fun l' => ret (Tuple l')) st.
Proof. exact as_audio_elementwise. Qed.
Theorem audio_input_conversion_of_a_unit : forall dc k2a u c st,
  as_audio dc k2a (Scalar (U u c)) st =
  match unit_rate st u with
  | RAudio => Ok (Scalar (U u c)) st
  | _ => Ok (Scalar (U (length st) 0)) (st ++ [mkUnit k2a [Scalar (U u c)]])
  end.
Proof. exact as_audio_unit. Qed.
Theorem audio_input_constructor_law : forall dc k2a cls before l after st,
  audio_in_ctor dc k2a cls before (Lst l) after st =
  bind (mapM (as_audio dc k2a) l)
       (fun l' => multi_new (new1_plain cls 1) (before ++ Lst l' :: after)) st.
Proof. exact audio_in_ctor_lst. Qed.

(* ALL output-unit constructors.  Out / ReplaceOut / OffsetOut (.ar, .kr), XOut (.ar, .kr) and
   LocalOut (.ar, .kr) differ only in the arguments that precede the channel array ([fixed]:
   bus | bus, xfade | nothing).  Audio rate: the complete statement above with (fixed ++ channels)
   in the place of (bus :: channels).  Control rate: the channel array is spliced channel by
   channel -- out_units_splice_kr: with scalar fixed arguments and a flat channel array there is
   exactly ONE unit, whose inputs are the fixed arguments followed by every channel, in order
   (never one unit per channel); in general the units are those of the expansion of
   (fixed ++ channels), count_calls many. *)
Theorem out_splice_and_silence_all_classes : forall dc out fixed output st r st',
  out_ar_gen dc out fixed output st = Ok r st' ->
  let n := nlists (Lst (as_list output)) in
  exists chans outs,
    list_rel (fun uid => length st <= uid < length st + n) (as_list output) chans /\
    existsb has_zero chans = false /\
    multi_new (new1_plain out 1) (fixed ++ chans) (st ++ repeat (dc_unit dc) n) = Ok r st' /\
    st' = st ++ repeat (dc_unit dc) n ++ outs /\
    length outs = count_calls (fixed ++ chans) /\ Forall (flat_vector out) outs.
Proof. exact out_ar_gen_full. Qed.
Theorem out_units_splice_kr : forall out fixed output st,
  Forall (fun a => is_lst a = false) fixed -> Forall (fun a => is_lst a = false) (as_list output) ->
  out_kr_gen out fixed output st =
  Ok (Scalar (U (length st) 0)) (st ++ [mkUnit out (fixed ++ as_list output)]).
Proof. exact out_kr_gen_flat. Qed.
Theorem out_units_count_kr : forall out fixed output st r st',
  out_kr_gen out fixed output st = Ok r st' ->
  exists outs, st' = st ++ outs /\ length outs = count_calls (fixed ++ as_list output) /\
               Forall (flat_vector out) outs.
Proof. exact out_kr_gen_units. Qed.
(* the silence pass itself never raises and is this pure function of the next unit id *)
Theorem replace_zeroes_exact : forall dc a st,
  rz dc a st = Ok (fst (rzp (length st) a)) (st ++ repeat (dc_unit dc) (nlists a))
  /\ snd (rzp (length st) a) = length st + nlists a.
Proof. exact rz_exact. Qed.

(* --- non-vacuity: the model computes, hypotheses are satisfiable -------------------------------- *)
Definition k (z : Z) := Scalar (K z).
Definition u (n : nat) := Scalar (U n 0).
Definition ar (b : Z) := with_rate b RAudio.
Definition kr (b : Z) := with_rate b RControl.
Definition BB := mkBases 2 5 3 6 7.     (* bases of + - * neg MulAdd *)
(* SinOsc.ar([[1, 2], 3], [4, 5, 6]): five units, in this order *)
Example mce_example :
  observe (multi_new (new1_plain (ar 1) 1) [Lst [Lst [k 1; k 2]; k 3]; Lst [k 4; k 5; k 6]]) [] =
  ORes (Lst [Lst [u 0; u 1]; u 2; Lst [u 3; u 4]])
       [mkUnit (ar 1) [k 1; k 4]; mkUnit (ar 1) [k 2; k 4]; mkUnit (ar 1) [k 3; k 5];
        mkUnit (ar 1) [k 1; k 6]; mkUnit (ar 1) [k 2; k 6]].
Proof. vm_compute. reflexivity. Qed.
Example mce_example_guard : forallb noempty [Lst [Lst [k 1; k 2]; k 3]; Lst [k 4; k 5; k 6]] = true
  /\ count_calls [Lst [Lst [k 1; k 2]; k 3]; Lst [k 4; k 5; k 6]] = 5.
Proof. vm_compute. auto. Qed.
(* Out.ar(0, [[u0, 0], [0.0, u1, 7]]) after two prelude units: three DC units, three Out units *)
Example out_example :
  observe (out_ar (ar 9) (ar 8) (k 0) (Lst [Lst [u 0; k 0]; Lst [k 0; u 1; k 7]]))
          [mkUnit (ar 1) [k 100; k 0]; mkUnit (ar 1) [k 101; k 0]] =
  ORes (Lst [u 5; u 6; u 7])
       [mkUnit (ar 1) [k 100; k 0]; mkUnit (ar 1) [k 101; k 0]; mkUnit (ar 9) [k 0]; mkUnit (ar 9) [k 0]; mkUnit (ar 9) [k 0];
        mkUnit (ar 8) [k 0; u 0; u 4]; mkUnit (ar 8) [k 0; u 3; u 1]; mkUnit (ar 8) [k 0; u 0; k 7]].
Proof. vm_compute. reflexivity. Qed.
(* ChannelList.madd as written before fix 925c2da violated the law: ChannelList([u0, u1]).madd([2, 3], 5)
   gave a 2x2 nest and four MulAdd units where the law (and cl_madd) gives [u0*2+5, u1*3+5], two units. *)
Example cl_madd_unpatched_violates_law :
  let pre := [mkUnit (ar 1) [k 100; k 0]; mkUnit (ar 1) [k 101; k 0]] in
  observe (cl_madd BB [u 0; u 1] (Lst [k 2; k 3]) (k 5)) pre =
    ORes (Lst [u 2; u 3]) (pre ++ [mkUnit (ar 7) [u 0; k 2; k 5]; mkUnit (ar 7) [u 1; k 3; k 5]]) /\
  observe (cl_madd_unpatched BB [u 0; u 1] (Lst [k 2; k 3]) (k 5)) pre =
    ORes (Lst [Lst [u 2; u 3]; Lst [u 4; u 5]])
         (pre ++ [mkUnit (ar 7) [u 0; k 2; k 5]; mkUnit (ar 7) [u 0; k 3; k 5];
                  mkUnit (ar 7) [u 1; k 2; k 5]; mkUnit (ar 7) [u 1; k 3; k 5]]).
Proof. vm_compute. split; reflexivity. Qed.
(* MIXED RATES.  MulAdd.new([ar_sig, kr_sig], 2, 5): channel 0 is an audio-rate MulAdd, channel 1 a
   CONTROL-rate one, exactly what MulAdd.new(kr_sig, 2, 5) gives on its own (mce_rate_per_channel).
   A MulAdd whose units keep the rate computed once from the unexpanded lists (the seeded
   mutation: no rate recomputation in _init_ugen) would make channel 1 audio rate: the model of
   that variant, muladd_new_global_rate, differs from the law on this very call. *)
Definition muladd_new_global_rate (base : Z) (input mul add : arg) : M arg :=
  fun st => match inputs_ratef st [input; mul; add] with
            | Some r => multi_new (new1_plain (with_rate base r) 1) [input; mul; add] st
            | None => Err IndexError
            end.
Example mixed_rate_example :
  let pre := [mkUnit (ar 1) [k 100; k 0]; mkUnit (kr 1) [k 101; k 0]] in
  observe (muladd_new BB (Lst [u 0; u 1]) (k 2) (k 5)) pre =
    ORes (Lst [u 2; u 3]) (pre ++ [mkUnit (ar 7) [u 0; k 2; k 5]; mkUnit (kr 7) [u 1; k 2; k 5]]) /\
  observe (muladd_new BB (u 1) (k 2) (k 5)) pre =
    ORes (u 2) (pre ++ [mkUnit (kr 7) [u 1; k 2; k 5]]) /\
  observe (muladd_new_global_rate 7 (Lst [u 0; u 1]) (k 2) (k 5)) pre =
    ORes (Lst [u 2; u 3]) (pre ++ [mkUnit (ar 7) [u 0; k 2; k 5]; mkUnit (ar 7) [u 1; k 2; k 5]]).
Proof. vm_compute. repeat split; reflexivity. Qed.
(* ChannelList([u0 (ar), u1 (kr)]) * 2 and .lagud: each channel's unit has its operand's rate *)
Example mixed_rate_ops :
  let pre := [mkUnit (ar 1) [k 100; k 0]; mkUnit (kr 1) [k 101; k 0]] in
  observe (cl_binop BB OMul (Lst [u 0; u 1]) (k 2)) pre =
    ORes (Lst [u 2; u 3]) (pre ++ [mkUnit (ar 3) [u 0; k 2]; mkUnit (kr 3) [u 1; k 2]]) /\
  observe (mc_perform (MDirect 4) [u 0; u 1] [Lst [k 7; k 8; k 9]; k 5]) pre =
    ORes (Lst [u 2; u 3; u 4])
         (pre ++ [mkUnit (ar 4) [u 0; k 7; k 5]; mkUnit (kr 4) [u 1; k 8; k 5]; mkUnit (ar 4) [u 0; k 9; k 5]]).
Proof. vm_compute. split; reflexivity. Qed.
(* explicit zeros and ones: ChannelList([u0, u1]).madd([0, 1, -1], [5, 0, 0]) = [5, u0... ] by
   MulAdd's shortcuts: mul 0 -> add; mul 1, add 0 -> input; mul -1, add 0 -> -input (one neg unit) *)
Example falsy_example :
  let pre := [mkUnit (ar 1) [k 100; k 0]; mkUnit (kr 1) [k 101; k 0]] in
  observe (cl_madd BB [u 0; u 1] (Lst [k 0; k 1; k (-1)]) (Lst [k 5; k 0; k 0])) pre =
    ORes (Lst [k 5; u 1; u 2]) (pre ++ [mkUnit (ar 6) [u 0]]).
Proof. vm_compute. reflexivity. Qed.
(* XOut.kr(0, 5, [u0, u1]): ONE unit with both channels; handing the array over as one list
   argument (a seeded change) would give two one-channel units *)
Example xout_kr_example :
  let pre := [mkUnit (kr 1) [k 100; k 0]; mkUnit (kr 1) [k 101; k 0]] in
  observe (out_kr_gen (kr 8) [k 0; k 5] (Lst [u 0; u 1])) pre =
    ORes (u 2) (pre ++ [mkUnit (kr 8) [k 0; k 5; u 0; u 1]]) /\
  observe (multi_new (new1_plain (kr 8) 1) [k 0; k 5; Lst [u 0; u 1]]) pre =
    ORes (Lst [u 2; u 3]) (pre ++ [mkUnit (kr 8) [k 0; k 5; u 0]; mkUnit (kr 8) [k 0; k 5; u 1]]).
Proof. vm_compute. split; reflexivity. Qed.
(* channel_list_madd_law's hypotheses on a non-trivial state: receiver of two units, mul list of
   three, add scalar: three channels, receiver wraps *)
Example madd_law_example :
  let pre := [mkUnit (ar 1) [k 100; k 0]; mkUnit (kr 1) [k 101; k 0]] in
  [u 0; u 1] <> [] /\ maxlen [Lst [u 0; u 1]; Lst [k 2; k 3; k 4]; k 5] = 3 /\
  observe (cl_madd BB [u 0; u 1] (Lst [k 2; k 3; k 4]) (k 5)) pre =
    ORes (Lst [u 2; u 3; u 4])
         (pre ++ [mkUnit (ar 7) [u 0; k 2; k 5]; mkUnit (kr 7) [u 1; k 3; k 5]; mkUnit (ar 7) [u 0; k 4; k 5]]).
Proof. split; [discriminate|]. vm_compute. split; reflexivity. Qed.
(* DelayN.ar([u0 (ar), u1 (kr), 0], 2, 3): the audio unit is kept, the control one gets a K2A, the
   zero a DC; then three DelayN units, each on ITS converted element *)
Example audio_input_example :
  let pre := [mkUnit (ar 1) [k 100; k 0]; mkUnit (kr 1) [k 101; k 0]] in
  observe (audio_in_ctor (ar 9) (ar 10) (ar 11) [] (Lst [u 0; u 1; k 0]) [k 2; k 3]) pre =
    ORes (Lst [u 4; u 5; u 6])
         (pre ++ [mkUnit (ar 10) [u 1]; mkUnit (ar 9) [k 0];
                  mkUnit (ar 11) [u 0; k 2; k 3]; mkUnit (ar 11) [u 2; k 2; k 3]; mkUnit (ar 11) [u 3; k 2; k 3]]).
Proof. vm_compute. reflexivity. Qed.
(* ChannelList([5, u0]).round([u1, 2, u1]): three 'round' units, the number stays the LEFT operand *)
Example named_operator_example :
  let pre := [mkUnit (ar 1) [k 100; k 0]; mkUnit (kr 1) [k 101; k 0]] in
  observe (cl_binop_named 12 (Lst [k 5; u 0]) (Lst [u 1; k 2; u 1])) pre =
    ORes (Lst [u 2; u 3; u 4])
         (pre ++ [mkUnit (kr 12) [k 5; u 1]; mkUnit (ar 12) [u 0; k 2]; mkUnit (kr 12) [k 5; u 1]]).
Proof. vm_compute. reflexivity. Qed.
Example out_example_count : nlists (Lst [Lst [u 0; k 0]; Lst [k 0; u 1; k 7]]) = 3.
Proof. reflexivity. Qed.

Print Assumptions mce_law.
Print Assumptions mce_one_unit_per_combination.
Print Assumptions list_binop_shape_cases.
Print Assumptions channel_list_madd_law.
Print Assumptions channel_list_operator_law.
Print Assumptions out_splice_and_silence_all_classes.
Print Assumptions audio_input_constructor_law.
Print Assumptions list_binop_wrap_law.
Print Assumptions channel_list_methods_law.
Print Assumptions out_splice_and_silence.
Print Assumptions mce_rate_per_channel.
