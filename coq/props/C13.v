(* C13 -- Patterns denote the sequences their definitions say, compositionally.
   Property theorems only.  Model: SC3.model.Pattern (operational pull iterator [snext]/[run],
   compositional denotation [den]).  A trace is (values, ending); EStop = the stream ended,
   EErr = a Python exception after these values, EMore = "at least these values".
   [den k m p]: k is a budget (nesting depth explored / items embedded / known length of a
   constant stream); m = Emb (embedded in place: a plain value yields once) or Str (iter(p),
   stream(p): a plain value is an infinite constant stream). *)
From Coq Require Import ZArith QArith List Bool.
Require Import SC3.lib.PyNum SC3.model.Pattern SC3.proofs.C13_sound SC3.proofs.C13_meaning.
Import ListNotations.

(* --- operational = denotational (compositionality).
   FULL statement intended: for every pattern of the listed classes.  Proved for every class
   of [pat]; but [den] is informative for all classes EXCEPT Pswitch1, Ptuple and Pslide (for
   those it is the empty prefix, so the hypothesis below is never met by an expression whose
   result depends on them) -- hence the label _partial.  Those three stay covered by the
   correspondence with the implementation. *)
Theorem run_eq_den_partial : forall k p l,
  den k Str p = (l, EStop) ->
  exists f, forall fuel n, (f <= fuel)%nat -> (length l < n)%nat -> run_pat fuel n p = (l, RStop).
Proof. exact (fun k p => run_eq_den_any k Str p). Qed.
Theorem run_eq_den_embedded_partial : forall k p l,
  den k Emb p = (l, EStop) ->
  exists f, forall fuel n, (f <= fuel)%nat -> (length l < n)%nat -> run fuel n (init Emb p) = (l, RStop).
Proof. exact (fun k p => run_eq_den_any k Emb p). Qed.
(* the raising branch has its own statement *)
Theorem run_err_eq_den_partial : forall k p l,
  den k Str p = (l, EErr) ->
  exists f, forall fuel n, (f <= fuel)%nat -> (length l < n)%nat -> run_pat fuel n p = (l, RErr).
Proof. exact (fun k p => run_err_den_any k Str p). Qed.
(* every pattern, finite or not, any budget: the denotation is a prefix of what the iterator yields *)
Theorem den_is_prefix_of_run : forall k p,
  exists f, forall fuel n, (f <= fuel)%nat -> (length (fst (den k Str p)) < n)%nat ->
  exists l' r, run_pat fuel n p = (fst (den k Str p) ++ l', r).
Proof. exact (fun k p => den_prefix_any k Str p). Qed.
(* the invariant behind all of the above, for every state reachable or not *)
Theorem den_sound_all_classes : forall k m p, prod (init m p) (den k m p).
Proof. exact den_sound. Qed.

(* --- infinite repeats: within budget k, inf is any finite repeat count >= k *)
Theorem inf_truncation : forall k m lst off q (r : Z), (Z.of_nat k <= r)%Z ->
  den (S k) m (Pn q Inf) = den (S k) m (Pn q (Fin r)) /\
  den (S k) m (Pser lst Inf off) = den (S k) m (Pser lst (Fin r) off) /\
  den (S k) m (Pseq lst Inf off) = den (S k) m (Pseq lst (Fin r) off).
Proof. exact inf_truncation_den. Qed.

(* --- documented meaning of each class *)
(* Pseq: repeats * size items; item i is lst[(i mod size + offset) mod size]; each embedded in place *)
Theorem pseq_meaning : forall k m lst (r : nat) off qs,
  lst <> [] -> length qs = (r * length lst)%nat ->
  (forall i, (i < r * length lst)%nat -> nth_error qs i = wrap_at lst (Z.of_nat (i mod length lst) + off)) ->
  (forall q, In q qs -> snd (den k Emb q) = EStop) -> (r * length lst < k)%nat ->
  den (S k) m (Pseq lst (Fin (Z.of_nat r)) off) = (flat_map (fun q => fst (den k Emb q)) qs, EStop).
Proof. exact pseq_meaning_den. Qed.
(* Pser: repeats items in all; item i is lst[(i + offset) mod size] *)
Theorem pser_cyclic : forall k m lst (r : nat) off qs,
  lst <> [] -> length qs = r ->
  (forall i, (i < r)%nat -> nth_error qs i = wrap_at lst (Z.of_nat i + off)) ->
  (forall q, In q qs -> snd (den k Emb q) = EStop) -> (r < k)%nat ->
  den (S k) m (Pser lst (Fin (Z.of_nat r)) off) = (flat_map (fun q => fst (den k Emb q)) qs, EStop).
Proof. exact pser_cyclic_den. Qed.
Theorem pn_repeats : forall k m q (n : nat) l,
  den k Emb q = (l, EStop) -> (n < k)%nat ->
  den (S k) m (Pn q (Fin (Z.of_nat n))) = (concat (repeat l n), EStop).
Proof. exact pn_repeats_den. Qed.
Theorem plen_truncates : forall k m q n l e, den k Str q = (l, e) -> (Z.to_nat n <= length l)%nat ->
  den (S k) m (Plen q n) = (firstn (Z.to_nat n) l, EStop).
Proof. exact plen_truncates_l. Qed.
Theorem plen_of_shorter_source : forall k m q n l e, den k Str q = (l, e) -> (length l < Z.to_nat n)%nat ->
  den (S k) m (Plen q n) = (l, e).
Proof. exact plen_short_l. Qed.
Theorem pdrop_drops : forall k m q n l e, den k Str q = (l, e) ->
  den (S k) m (Pdrop q n) = (skipn (Z.to_nat n) l, e).
Proof. exact pdrop_drops_l. Qed.
Theorem pstutter_repeats_each : forall k m q c l, den (S k) Str q = (l, EStop) -> (length l <= k)%nat ->
  den (S (S k)) m (Pstutter q (PVal (VN (I c)))) = (flat_map (fun v => repeat v (Z.abs_nat c)) l, EStop).
Proof. exact pstutter_l. Qed.
Theorem binop_ends_with_shortest : forall k m o a b la ea lb eb,
  den k Str a = (la, ea) -> den k Str b = (lb, eb) ->
  (forall va vb, In va la -> In vb lb -> binop o va vb <> None) ->
  exists l', den (S k) m (Pbinop o a b) = (l', if (length la <=? length lb)%nat then ea else eb) /\
             length l' = Nat.min (length la) (length lb) /\
             map Some l' = map (fun ab => binop o (fst ab) (snd ab)) (combine la lb).
Proof. exact binop_l. Qed.
Theorem pconst_sums_exactly : forall k m q sum tol out, is_ok sum = true ->
  den (S k) m (Pconst q sum tol) = (out, EStop) -> (qsum out == toQ sum)%Q.
Proof. exact pconst_l. Qed.
Theorem pswitch_embeds_in_place : forall k m lst w iv lw ew z q, den k Str w = (iv :: lw, ew) ->
  as_index iv = Some z -> wrap_at lst z = Some q ->
  den (S k) m (Pswitch lst w) = tapp (den k Emb q) (tswitch (den k Emb) lst lw ew).
Proof. exact pswitch_l. Qed.

(* --- immutability: two streams of one pattern under ANY interleaving of steps each do what
   a single stream does; the pattern is a value (nothing to mutate in the model -- on the
   implementation this is what the interleaved-streams correspondence checks) *)
Theorem streams_independent : forall sched p,
  isteps sched (init Str p) (init Str p) =
  (steps (length (filter (fun b => b) sched)) (init Str p), steps (length (filter negb sched)) (init Str p)).
Proof. exact streams_independent_l. Qed.

(* --- non-vacuity: the hypotheses are met and the model computes *)
Definition i (z : Z) := PVal (VN (I z)).
Definition ex1 := Pbinop BAdd (Pseq [i 1; Pn (Pseq [i 2; i 3] (Fin 1) 0) (Fin 2); i 4] (Fin 2) 1)
                              (Pstutter (Pseries (I 10) (i 10) Inf) (i 2)).
Example ex1_den : den 40 Str ex1 =
  (map (fun z => VN (I z)) [12; 13; 22; 23; 34; 31; 42; 43; 52; 53; 64; 61]%Z, EStop).
Proof. vm_compute. reflexivity. Qed.
Example ex1_run : run_pat 2000 40 ex1 =
  (map (fun z => VN (I z)) [12; 13; 22; 23; 34; 31; 42; 43; 52; 53; 64; 61]%Z, RStop).
Proof. vm_compute. reflexivity. Qed.
Example ex_pconst : den 20 Str (Pconst (Pseq [i 1; i 2; i 3; i 4] Inf 0) (I 7) (F (1 # 1024))) =
  (map (fun z => VN (I z)) [1; 2; 3; 1]%Z, EStop).
Proof. vm_compute. reflexivity. Qed.
Example ex_clump_err : den 20 Str (Pbinop BSub (Pclump (Pseq [i 1; i 2; i 3] (Fin 1) 0) (i 2)) (i 1)) = ([], EErr).
Proof. vm_compute. reflexivity. Qed.
Example ex_slide_nowrap_stops : run_pat 2000 40 (Pslide [i 1; i 2; i 3; i 4; i 5] (i 3) (i (-1)) 0 false (Fin 3)) =
  (map (fun z => VN (I z)) [1; 2; 3]%Z, RStop).
Proof. vm_compute. reflexivity. Qed.
Example ex_two_streams : run2 [true; false; false; true; true; true; false; true; true; false; false; false]
                              (Pseq [i 1; i 2] (Fin 1) 0) =
  ([VN (I 1); VN (I 2)], [VN (I 1); VN (I 2)]).
Proof. vm_compute. reflexivity. Qed.

Print Assumptions run_eq_den_partial.
Print Assumptions pconst_sums_exactly.
Print Assumptions streams_independent.
