(* C13 -- Patterns denote the sequences their definitions say, compositionally.
   Property theorems only.  Model: SC3.model.Pattern (operational pull iterator [snext]/[run],
   compositional denotation [den]).  A trace is (values, ending); EStop = the stream ended,
   EErr = a Python exception after these values, EMore = "at least these values".
   [den rnd k m p]: k is a budget (nesting depth explored / items embedded / known length of a
   constant stream); m = Emb (embedded in place: a plain value yields once) or Str (iter(p),
   stream(p): a plain value is an infinite constant stream); rnd is the draw oracle of the
   seeded random patterns (result of randrange(a, b) given the seed and the earlier calls on
   that generator), universally quantified everywhere.
   [finp p]: p is a finite pattern (syntactic: every repeat count finite, every group of
   streams pulled together contains a finite pattern; see model/Pattern.v);  [nvb p]: p is a
   pattern object, not a plain value. *)
From Coq Require Import ZArith QArith List Bool.
Require Import SC3.lib.PyNum SC3.model.Pattern SC3.proofs.C13_sound SC3.proofs.C13_meaning
               SC3.proofs.C13_complete SC3.proofs.C13_finite SC3.proofs.C13_meaning2.
Import ListNotations.
Definition oracle := Z -> hist -> Z -> Z -> Z.

(* --- operational = denotational, full strength: every finite pattern of the language has ONE
   complete denotation (the same for every large enough budget) and the iterator, given enough
   fuel, returns exactly it -- ending normally or with the exception the denotation says. *)
Theorem run_eq_den : forall (rnd : oracle) p, finp p = true -> nvb p = true ->
  exists K l e, e <> EMore /\ (forall k, (K <= k)%nat -> den rnd k Str p = (l, e)) /\
  exists f, forall fuel n, (f <= fuel)%nat -> (length l < n)%nat -> run_pat rnd fuel n p = (l, rend_of e).
Proof. exact run_eq_den_finite. Qed.
(* termination: finite patterns always get a complete denotation *)
Theorem finite_patterns_complete : forall (rnd : oracle) p, finp p = true -> nvb p = true ->
  exists K, forall k, (K <= k)%nat -> snd (den rnd k Str p) <> EMore.
Proof. exact finite_complete. Qed.
Theorem finite_patterns_complete_embedded : forall (rnd : oracle) p, finp p = true ->
  exists K, forall k, (K <= k)%nat -> snd (den rnd k Emb p) <> EMore.
Proof. exact finite_complete_embedded. Qed.
(* the conditional forms (any pattern, any budget at which the denotation happens to be complete) *)
Theorem run_eq_den_of_complete : forall (rnd : oracle) k p l,
  den rnd k Str p = (l, EStop) ->
  exists f, forall fuel n, (f <= fuel)%nat -> (length l < n)%nat -> run_pat rnd fuel n p = (l, RStop).
Proof. exact (fun rnd k p => run_eq_den_any rnd k Str p). Qed.
Theorem run_eq_den_embedded_of_complete : forall (rnd : oracle) k p l,
  den rnd k Emb p = (l, EStop) ->
  exists f, forall fuel n, (f <= fuel)%nat -> (length l < n)%nat -> run rnd fuel n (init Emb p) = (l, RStop).
Proof. exact (fun rnd k p => run_eq_den_any rnd k Emb p). Qed.
Theorem run_err_eq_den : forall (rnd : oracle) k p l,
  den rnd k Str p = (l, EErr) ->
  exists f, forall fuel n, (f <= fuel)%nat -> (length l < n)%nat -> run_pat rnd fuel n p = (l, RErr).
Proof. exact (fun rnd k p => run_err_den_any rnd k Str p). Qed.
(* every pattern, finite or not, any budget: the denotation is a prefix of what the iterator yields *)
Theorem den_is_prefix_of_run : forall (rnd : oracle) k p,
  exists f, forall fuel n, (f <= fuel)%nat -> (length (fst (den rnd k Str p)) < n)%nat ->
  exists l' r, run_pat rnd fuel n p = (fst (den rnd k Str p) ++ l', r).
Proof. exact (fun rnd k p => den_prefix_any rnd k Str p). Qed.
(* the invariant behind all of the above: EVERY class of [pat] (Pswitch1, Ptuple, Pslide and the
   seeded random patterns included) *)
Theorem den_sound_all_classes : forall (rnd : oracle) k m p, prod rnd (init m p) (den rnd k m p).
Proof. exact den_sound. Qed.
(* the iterator is deterministic: two complete traces of one state are equal *)
Theorem complete_trace_unique : forall (rnd : oracle) s t t',
  prod rnd s t -> snd t <> EMore -> prod rnd s t' -> snd t' <> EMore -> t' = t.
Proof. exact prod_complete_unique. Qed.

(* --- infinite repeats: within budget k, inf is any finite repeat count >= k *)
Theorem inf_truncation : forall (rnd : oracle) k m lst off q (r : Z), (Z.of_nat k <= r)%Z ->
  den rnd (S k) m (Pn q Inf) = den rnd (S k) m (Pn q (Fin r)) /\
  den rnd (S k) m (Pser lst Inf off) = den rnd (S k) m (Pser lst (Fin r) off) /\
  (lst <> [] -> den rnd (S k) m (Pseq lst Inf off) = den rnd (S k) m (Pseq lst (Fin r) off)).
Proof. exact inf_truncation_den. Qed.

(* --- documented meaning of each class *)
Theorem pseq_meaning : forall (rnd : oracle) k m lst (r : nat) off qs,
  lst <> [] -> length qs = (r * length lst)%nat ->
  (forall i, (i < r * length lst)%nat -> nth_error qs i = wrap_at lst (Z.of_nat (i mod length lst) + off)) ->
  (forall q, In q qs -> snd (den rnd k Emb q) = EStop) -> (r * length lst < k)%nat ->
  den rnd (S k) m (Pseq lst (Fin (Z.of_nat r)) off) = (flat_map (fun q => fst (den rnd k Emb q)) qs, EStop).
Proof. exact pseq_meaning_den. Qed.
Theorem pser_cyclic : forall (rnd : oracle) k m lst (r : nat) off qs,
  lst <> [] -> length qs = r ->
  (forall i, (i < r)%nat -> nth_error qs i = wrap_at lst (Z.of_nat i + off)) ->
  (forall q, In q qs -> snd (den rnd k Emb q) = EStop) -> (r < k)%nat ->
  den rnd (S k) m (Pser lst (Fin (Z.of_nat r)) off) = (flat_map (fun q => fst (den rnd k Emb q)) qs, EStop).
Proof. exact pser_cyclic_den. Qed.
Theorem pn_repeats : forall (rnd : oracle) k m q (n : nat) l,
  den rnd k Emb q = (l, EStop) -> (n < k)%nat ->
  den rnd (S k) m (Pn q (Fin (Z.of_nat n))) = (concat (repeat l n), EStop).
Proof. exact pn_repeats_den. Qed.
Theorem plen_truncates : forall (rnd : oracle) k m q n l e, den rnd k Str q = (l, e) -> (Z.to_nat n <= length l)%nat ->
  den rnd (S k) m (Plen q n) = (firstn (Z.to_nat n) l, EStop).
Proof. exact plen_truncates_l. Qed.
Theorem plen_of_shorter_source : forall (rnd : oracle) k m q n l e, den rnd k Str q = (l, e) -> (length l < Z.to_nat n)%nat ->
  den rnd (S k) m (Plen q n) = (l, e).
Proof. exact plen_short_l. Qed.
Theorem pdrop_drops : forall (rnd : oracle) k m q n l e, den rnd k Str q = (l, e) ->
  den rnd (S k) m (Pdrop q n) = (skipn (Z.to_nat n) l, e).
Proof. exact pdrop_drops_l. Qed.
Theorem pstutter_repeats_each : forall (rnd : oracle) k m q c l, den rnd (S k) Str q = (l, EStop) -> (length l <= k)%nat ->
  den rnd (S (S k)) m (Pstutter q (PVal (VN (I c)))) = (flat_map (fun v => repeat v (Z.abs_nat c)) l, EStop).
Proof. exact pstutter_l. Qed.
(* Pclump with a constant group size n >= 1: the source cut into consecutive groups, all of
   size n except possibly the last (1..n) *)
Theorem pclump_groups : forall (rnd : oracle) k m q (n : nat) l, (1 <= n)%nat ->
  den rnd (S k) Str q = (l, EStop) -> (length l < k)%nat ->
  let groups := chunk (length l) n l in
  den rnd (S (S k)) m (Pclump q (PVal (VN (I (Z.of_nat n))))) = (map VL groups, EStop) /\
  concat groups = l /\
  Forall (fun g => (1 <= length g <= n)%nat) groups /\
  Forall (fun g => length g = n) (removelast groups).
Proof. exact pclump_groups_l. Qed.
(* Pslide with wrap: r windows of len items; window s starts at start + s*step; indexing wraps *)
Theorem pslide_windows : forall (rnd : oracle) k m lst (len r : nat) (step start : Z), lst <> [] ->
  (forall q, In q lst -> snd (den rnd (S k) Emb q) = EStop) -> (r <= k)%nat ->
  den rnd (S (S k)) m (Pslide lst (PVal (VN (I (Z.of_nat len)))) (PVal (VN (I step))) start true (Fin (Z.of_nat r)))
  = (windows (den rnd (S k) Emb) lst len start step r, EStop).
Proof. exact pslide_windows_l. Qed.
Theorem binop_ends_with_shortest : forall (rnd : oracle) k m o a b la ea lb eb,
  den rnd k Str a = (la, ea) -> den rnd k Str b = (lb, eb) ->
  (forall va vb, In va la -> In vb lb -> binop o va vb <> None) ->
  exists l', den rnd (S k) m (Pbinop o a b) = (l', if (length la <=? length lb)%nat then ea else eb) /\
             length l' = Nat.min (length la) (length lb) /\
             map Some l' = map (fun ab => binop o (fst ab) (snd ab)) (combine la lb).
Proof. exact binop_l. Qed.
Theorem pconst_sums_exactly : forall (rnd : oracle) k m q sum tol out, is_ok sum = true ->
  den rnd (S k) m (Pconst q sum tol) = (out, EStop) -> (qsum out == toQ sum)%Q.
Proof. exact pconst_l. Qed.
Theorem pswitch_embeds_in_place : forall (rnd : oracle) k m lst w iv lw ew z q, den rnd k Str w = (iv :: lw, ew) ->
  as_index iv = Some z -> wrap_at lst z = Some q ->
  den rnd (S k) m (Pswitch lst w) = tapp (den rnd k Emb q) (tswitch (den rnd k Emb) lst lw ew).
Proof. exact pswitch_l. Qed.

(* --- documented meaning of the remaining classes of the quantifier *)
(* Place: item i of repeats*size is taken from the sub-list lst[(i mod size + offset) mod size] at
   position (i / size) mod its length (a plain item = one-element sub-list) *)
Theorem place_interlaces : forall (rnd : oracle) k m lst (r : nat) off qs,
  lst <> [] -> length qs = (r * length lst)%nat ->
  (forall i, (i < r * length lst)%nat ->
     exists sub, wrap_at lst (Z.of_nat (i mod length lst) + off) = Some sub /\
                 nth_error qs i = wrap_at sub (Z.of_nat (i / length lst)) /\ sub <> []) ->
  (forall q, In q qs -> snd (den rnd k Emb q) = EStop) -> (r * length lst < k)%nat ->
  den rnd (S k) m (Place lst (Fin (Z.of_nat r)) off) = (flat_map (fun q => fst (den rnd k Emb q)) qs, EStop).
Proof. exact place_meaning_den. Qed.
(* Ptuple: every repeat yields the rows of the n-ary zip of fresh streams, ending with the shortest *)
Theorem ptuple_rows : forall (rnd : oracle) k m lp (r : nat), lp <> [] ->
  (forall q, In q lp -> snd (den rnd k Str q) = EStop) ->
  (exists q, In q lp /\ (length (fst (den rnd k Str q)) < k)%nat) -> (r < k)%nat ->
  den rnd (S k) m (Ptuple lp (Fin (Z.of_nat r))) =
  (concat (repeat (map VT (zipn k (map (fun q => fst (den rnd k Str q)) lp))) r), EStop).
Proof. exact ptuple_rows_l. Qed.
(* Pswitch1: each index takes ONE value of the chosen persistent stream; the others are untouched *)
Theorem pswitch1_takes_one : forall (rnd : oracle) k m lst w iv lw ew z (pre : list trace) v l' e (post : list trace),
  den rnd k Str w = (iv :: lw, ew) -> as_index iv = Some z -> lst <> [] ->
  split_at (Z.to_nat (z mod Z.of_nat (length lst))) (map (den rnd k Str) lst) = Some (pre, (v :: l', e), post) ->
  den rnd (S k) m (Pswitch1 lst w) = tcons v (tsw1 (pre ++ (l', e) :: post) lw ew).
Proof. exact pswitch1_l. Qed.
Theorem pflatten_flattens : forall (rnd : oracle) k m q nv n l e, as_num nv = Some n ->
  den rnd (S k) Str q = (l, e) -> (length l < k)%nat ->
  den rnd (S (S k)) m (Pflatten q (PVal nv)) =
  (flat_map (fun v => match v with VL _ => flat (Z.to_nat (Qround.Qceiling (toQ n))) [v] | _ => [v] end) l, e).
Proof. exact pflatten_l. Qed.
Theorem pdiff_differences : forall (rnd : oracle) k m q v l e, den rnd k Str q = (v :: l, e) ->
  (forall a b, In a (v :: l) -> In b (v :: l) -> binop BSub a b <> None) ->
  exists l', den rnd (S k) m (Pdiff q) = (l', e) /\ length l' = length l /\
             map Some l' = map (fun ab => binop BSub (snd ab) (fst ab)) (combine (v :: l) l).
Proof. exact pdiff_l. Qed.
Theorem pseries_arithmetic : forall (rnd : oracle) k m a c (n : nat), (n <= k)%nat ->
  den rnd (S (S k)) m (Pseries (I a) (PVal (VN (I c))) (Fin (Z.of_nat n))) =
  (map (fun i => VN (I (a + Z.of_nat i * c))) (seq 0 n), EStop).
Proof. exact pseries_l. Qed.
Theorem pgeom_geometric : forall (rnd : oracle) k m a c (n : nat), (n <= k)%nat ->
  den rnd (S (S k)) m (Pgeom (I a) (PVal (VN (I c))) (Fin (Z.of_nat n))) =
  (map (fun i => VN (I (a * c ^ Z.of_nat i))) (seq 0 n), EStop).
Proof. exact pgeom_l. Qed.
Theorem pcollect_maps : forall (rnd : oracle) k m f q l e, den rnd k Str q = (l, e) ->
  (forall v, In v l -> fn_apply f v <> None) ->
  exists l', den rnd (S k) m (Pfun KCollect f q) = (l', e) /\ map Some l' = map (fn_apply f) l.
Proof. exact pcollect_l. Qed.
Theorem pselect_filters : forall (rnd : oracle) k m f q l e, den rnd k Str q = (l, e) ->
  (forall v, In v l -> fn_apply f v <> None) ->
  den rnd (S k) m (Pfun KSelect f q) = (filter (fun v => is_true (fn_apply f v)) l, e).
Proof. exact pselect_l. Qed.
Theorem preject_filters : forall (rnd : oracle) k m f q l e, den rnd k Str q = (l, e) ->
  (forall v, In v l -> fn_apply f v <> None) ->
  den rnd (S k) m (Pfun KReject f q) = (filter (fun v => is_false (fn_apply f v)) l, e).
Proof. exact preject_l. Qed.
Theorem pif_chooses : forall (rnd : oracle) k m c x y lc ec, den rnd (S k) Str c = (lc, ec) -> (length lc <= k)%nat ->
  den rnd (S (S k)) m (Pif c (PVal x) (PVal y)) = (map (fun v => if truthy v then x else y) lc, ec).
Proof. exact pif_l. Qed.
Theorem pwrap_wraps_each : forall (rnd : oracle) k m q lo hi l e, den rnd (S k) Str q = (l, e) -> (length l < k)%nat ->
  (forall v, In v l -> narop NWrap v lo hi <> None) ->
  exists l', den rnd (S (S k)) m (Pwrap q (PVal lo) (PVal hi)) = (l', e) /\
             map Some l' = map (fun v => narop NWrap v lo hi) l.
Proof. exact pwrap_l. Qed.
(* Pwrap with at least one float bound: whatever the int/float type of each element, every output lies in
   [lo, hi) -- this pins the regenerated bi.wrap kernel for the type mixes (the all-float case is C15's) *)
Theorem pwrap_within_bounds : forall (rnd : oracle) k m q b c l e, den rnd (S k) Str q = (l, e) -> (length l < k)%nat ->
  Forall (fun v => exists a, v = VN a /\ is_ok a = true) l ->
  is_ok b = true -> is_ok c = true -> andb (is_int b) (is_int c) = false -> (toQ b < toQ c)%Q ->
  exists l', den rnd (S (S k)) m (Pwrap q (PVal (VN b)) (PVal (VN c))) = (l', e) /\ length l' = length l /\
             Forall (fun v => exists r, v = VN r /\ (toQ b <= toQ r)%Q /\ (toQ r < toQ c)%Q) l'.
Proof. exact pwrap_bounds_l. Qed.
(* the .wrap() / .fold() operators element by element, any non-all-int mix *)
Theorem wrap_operator_within_bounds : forall a b c, is_ok a = true -> is_ok b = true -> is_ok c = true ->
  andb (is_int a) (andb (is_int b) (is_int c)) = false -> (toQ b < toQ c)%Q ->
  exists r, narop NWrap (VN a) (VN b) (VN c) = Some (VN r) /\ (toQ b <= toQ r)%Q /\ (toQ r < toQ c)%Q.
Proof. exact narop_wrap_mixed. Qed.
Theorem fold_operator_within_bounds : forall a b c, is_ok a = true -> is_ok b = true -> is_ok c = true ->
  andb (is_int a) (andb (is_int b) (is_int c)) = false -> (toQ b < toQ c)%Q ->
  exists r, narop NFold (VN a) (VN b) (VN c) = Some (VN r) /\ (toQ b <= toQ r)%Q /\ (toQ r <= toQ c)%Q.
Proof. exact narop_fold_mixed. Qed.
Theorem punop_maps : forall (rnd : oracle) k m o q l e, den rnd k Str q = (l, e) ->
  (forall v, In v l -> unop o v <> None) ->
  exists l', den rnd (S k) m (Punop o q) = (l', e) /\ map Some l' = map (unop o) l.
Proof. exact punop_l. Qed.
Theorem narop_ends_with_shortest : forall (rnd : oracle) k m o a b c la ea lb eb lc ec,
  den rnd k Str a = (la, ea) -> den rnd k Str b = (lb, eb) -> den rnd k Str c = (lc, ec) ->
  (forall va vb vc, In va la -> In vb lb -> In vc lc -> narop o va vb vc <> None) ->
  exists l', den rnd (S k) m (Pnarop o a b c) = (l', end3 la lb lc ea eb ec) /\
             length l' = Nat.min (length la) (Nat.min (length lb) (length lc)) /\
             map Some l' = map (fun abc => narop o (fst abc) (fst (snd abc)) (snd (snd abc))) (combine la (combine lb lc)).
Proof. exact pnarop_l. Qed.
(* seeded random patterns.  Prand: r items, the i-th chosen by the generator's next draw (history =
   the earlier draws since the seed), each embedded in place *)
Theorem pseed_prand_draws : forall (rnd : oracle) k m sd l sv z (r : nat),
  den rnd k Str sd = ([sv], EStop) -> as_index sv = Some z -> l <> [] ->
  (forall q, In q l -> snd (den rnd k Emb q) = EStop) -> (r < k)%nat -> rand_ok rnd 0 (Z.of_nat (length l)) l z r [] ->
  den rnd (S k) m (PseedRand sd l (Fin (Z.of_nat r))) = (rand_out rnd (den rnd k Emb) 0 (Z.of_nat (length l)) l z r [], EStop).
Proof. exact pseed_prand_l. Qed.
(* Pwrand: the same with the weighted draw choices(range(nw), weights) (oracle key (-1, nw)) *)
Theorem pseed_pwrand_draws : forall (rnd : oracle) k m sd l nw sv z (r : nat),
  den rnd k Str sd = ([sv], EStop) -> as_index sv = Some z -> l <> [] ->
  (forall q, In q l -> snd (den rnd k Emb q) = EStop) -> (r < k)%nat -> rand_ok rnd (-1) (Z.of_nat nw) l z r [] ->
  den rnd (S k) m (PseedWrand sd l nw (Fin (Z.of_nat r))) = (rand_out rnd (den rnd k Emb) (-1) (Z.of_nat nw) l z r [], EStop).
Proof. exact pseed_pwrand_l. Qed.
(* Pxrand never yields the same item twice in a row (generator contract: 0 <= randrange(0, n) < n) *)
Theorem pxrand_never_repeats : forall (rnd : oracle) l z h index q index' h',
  (2 <= length l)%nat -> (0 <= index < Z.of_nat (length l))%Z ->
  (0 <= rnd z h 0 (Z.of_nat (length l) - 1) < Z.of_nat (length l) - 1)%Z ->
  xrand_step rnd l z h index = Some (q, index', h') ->
  index' <> index /\ (0 <= index' < Z.of_nat (length l))%Z /\ nth_error l (Z.to_nat index') = Some q.
Proof. exact xrand_never_repeats. Qed.
(* Pwhite (int bounds) stays within its bounds *)
Theorem pwhite_in_bounds : forall (rnd : oracle) lo hi z h v h' a b, lo = VN (I a) -> hi = VN (I b) ->
  ((a < b -> a <= rnd z h a b < b) /\ (b < a -> b < rnd z h a b <= a))%Z ->
  white_draw rnd lo hi z h = Some (v, h') ->
  exists x, v = VN (I x) /\ (Z.min a b <= x <= Z.max a b)%Z.
Proof. exact white_in_bounds. Qed.

(* --- immutability.  Two streams of one pattern under ANY interleaving of steps each do what a
   single stream does (seeded random patterns included: the oracle is a function of the seed and
   of the calls made on that stream's own generator) ... *)
Theorem streams_independent : forall (rnd : oracle) sched p,
  isteps rnd sched (init Str p) (init Str p) =
  (steps rnd (length (filter (fun b => b) sched)) (init Str p), steps rnd (length (filter negb sched)) (init Str p)).
Proof. exact streams_independent_l. Qed.
(* ... hence both yield the SAME sequence: whatever the schedule and the oracle, the output of
   one is a prefix of the output of the other *)
Theorem seeded_same_sequence : forall (rnd : oracle) sched p,
  let '(l1, l2) := run2 rnd sched p in (exists l', l2 = l1 ++ l') \/ (exists l', l1 = l2 ++ l').
Proof. exact run2_same_sequence. Qed.

(* --- non-vacuity: the hypotheses are met and the model computes *)
Definition i (z : Z) := PVal (VN (I z)).
Definition ex1 := Pbinop BAdd (Pseq [i 1; Pn (Pseq [i 2; i 3] (Fin 1) 0) (Fin 2); i 4] (Fin 2) 1)
                              (Pstutter (Pseries (I 10) (i 10) (Fin 6)) (i 2)).
Example ex1_den : den no_rnd 40 Str ex1 =
  (map (fun z => VN (I z)) [12; 13; 22; 23; 34; 31; 42; 43; 52; 53; 64; 61]%Z, EStop).
Proof. vm_compute. reflexivity. Qed.
Example ex1_run : run_pat no_rnd 2000 40 ex1 =
  (map (fun z => VN (I z)) [12; 13; 22; 23; 34; 31; 42; 43; 52; 53; 64; 61]%Z, RStop).
Proof. vm_compute. reflexivity. Qed.
Example ex1_finite : finp ex1 = true /\ nvb ex1 = true.
Proof. vm_compute. split; reflexivity. Qed.
Example ex_pconst : den no_rnd 20 Str (Pconst (Pseq [i 1; i 2; i 3; i 4] Inf 0) (I 7) (F (1 # 1024))) =
  (map (fun z => VN (I z)) [1; 2; 3; 1]%Z, EStop).
Proof. vm_compute. reflexivity. Qed.
Example ex_clump_err : den no_rnd 20 Str (Pbinop BSub (Pclump (Pseq [i 1; i 2; i 3] (Fin 1) 0) (i 2)) (i 1)) = ([], EErr).
Proof. vm_compute. reflexivity. Qed.
Example ex_slide_nowrap_stops : run_pat no_rnd 2000 40 (Pslide [i 1; i 2; i 3; i 4; i 5] (i 3) (i (-1)) 0 false (Fin 3)) =
  (map (fun z => VN (I z)) [1; 2; 3]%Z, RStop).
Proof. vm_compute. reflexivity. Qed.
Definition ex_three := Pseq [Pslide [i 1; i 2; i 3; i 4; i 5] (i 3) (i 1) 0 true (Fin 2);
                             Pswitch1 [Pseq [i 1; i 2; i 3] (Fin 1) 0; i 10] (Pseq [i 0; i 1; i 0] (Fin 1) 0);
                             Pfun KCollect FInc (Pflatten (Pclump (Pseq [i 1; i 2; i 3] (Fin 1) 0) (i 2)) (i 1))] (Fin 1) 0.
Example ex_three_den : finp ex_three = true /\ den no_rnd 30 Str ex_three =
  (map (fun z => VN (I z)) [1; 2; 3; 2; 3; 4; 1; 10; 2; 2; 3; 4]%Z, EStop).
Proof. vm_compute. split; reflexivity. Qed.
Example ex_tuple : den no_rnd 30 Str (Ptuple [Pseq [i 1; i 2; i 3] (Fin 1) 0; i 5] (Fin 2)) =
  ([VT [VN (I 1); VN (I 5)]; VT [VN (I 2); VN (I 5)]; VT [VN (I 3); VN (I 5)];
    VT [VN (I 1); VN (I 5)]; VT [VN (I 2); VN (I 5)]; VT [VN (I 3); VN (I 5)]], EStop).
Proof. vm_compute. reflexivity. Qed.
(* a seeded pattern under an oracle given by a table of draws (seed 7: calls randrange(0,3)) *)
Definition tbl7 : list (Z * hist * Z * Z * Z) :=
  [(7, [], 0, 3, 1); (7, [(0, 3)], 0, 3, 0); (7, [(0, 3); (0, 3)], 0, 3, 2)]%Z.
Example ex_seeded : den (mk_rnd tbl7) 30 Str (PseedRand (Pseq [i 7; i 7] (Fin 1) 0) [i 10; i 20; i 30] (Fin 3)) =
  (map (fun z => VN (I z)) [20; 10; 30; 20; 10; 30]%Z, EStop).
Proof. vm_compute. reflexivity. Qed.
Example ex_two_streams : run2 (mk_rnd tbl7) [true; false; false; true; true; true; false; true; true; false; false; false]
                              (PseedRand (i 7) [i 10; i 20; i 30] (Fin 2)) =
  (map (fun z => VN (I z)) [20; 10]%Z, map (fun z => VN (I z)) [20; 10]%Z).
Proof. vm_compute. reflexivity. Qed.
Example ex_emptied : run_pat no_rnd 100 10 (Pseq [i 1; Pseq [] (Fin 2) 3; Place [] (Fin 1) 0; i 2] (Fin 1) 0) =
  ([VN (I 1); VN (I 2)], RStop) /\ run_pat no_rnd 100 10 (Pseq [i 1; Pser [] (Fin 1) 0] (Fin 1) 0) = ([VN (I 1)], RErr).
Proof. vm_compute. split; reflexivity. Qed.

Example ex_place : den no_rnd 30 Str (Place [[i 1]; [i 2; i 3]; [i 4; i 5; i 6]] (Fin 3) 0) =
  (map (fun z => VN (I z)) [1; 2; 4; 1; 3; 5; 1; 2; 6]%Z, EStop).
Proof. vm_compute. reflexivity. Qed.
Example ex_select_diff_geom : den no_rnd 30 Str (Pfun KSelect FEven (Pdiff (Pgeom (I 1) (i 3) (Fin 5)))) =
  (map (fun z => VN (I z)) [2; 6; 18; 54]%Z, EStop).
Proof. vm_compute. reflexivity. Qed.
Example ex_zipn : zipn 5 [[VN (I 1); VN (I 2); VN (I 3)]; [VB true; VNone]] = [[VN (I 1); VB true]; [VN (I 2); VNone]].
Proof. vm_compute. reflexivity. Qed.
Definition tblx : list (Z * hist * Z * Z * Z) := [(7, [], 0, 3, 2); (7, [(0, 3)], 0, 2, 1); (7, [(0, 2); (0, 3)], 0, 2, 0)]%Z.
Example ex_xrand_step : xrand_step (mk_rnd tblx) [i 10; i 20; i 30] 7 [(0, 3)%Z] 2 = Some (i 20, 1%Z, [(0, 2); (0, 3)]%Z).
Proof. vm_compute. reflexivity. Qed.
Example ex_xrand : den (mk_rnd tblx) 30 Str (PseedXrand (Pseq [i 7] (Fin 1) 0) [i 10; i 20; i 30] (Fin 2)) =
  (map (fun z => VN (I z)) [20; 30]%Z, EStop).
Proof. vm_compute. reflexivity. Qed.

Definition tblw : list (Z * hist * Z * Z * Z) := [(7, [], -1, 3, 2); (7, [(-1, 3)], -1, 3, 0)]%Z.
Example ex_wrand : den (mk_rnd tblw) 30 Str (PseedWrand (Pseq [i 7] (Fin 1) 0) [i 10; i 20; i 30] 3 (Fin 2)) =
  (map (fun z => VN (I z)) [30; 10]%Z, EStop).
Proof. vm_compute. reflexivity. Qed.

Example ex_wrap_mix :
  map (fun v => match v with VN n => canon n | _ => (9, 9, 9)%Z end)
      (fst (den no_rnd 30 Str (Pwrap (Pseries (I (-4)) (i 1) (Fin 13)) (PVal (VN (F 0))) (PVal (VN (F (5 # 2))))))) =
  [(1, 1, 1); (1, 2, 1); (1, 1, 2); (1, 3, 2); (0, 0, 1); (0, 1, 1); (0, 2, 1); (1, 1, 2); (1, 3, 2); (1, 0, 1);
   (1, 1, 1); (1, 2, 1); (1, 1, 2)]%Z.
Proof. vm_compute. reflexivity. Qed.

Print Assumptions run_eq_den.
Print Assumptions pconst_sums_exactly.
Print Assumptions seeded_same_sequence.
Print Assumptions pxrand_never_repeats.
Print Assumptions ptuple_rows.
Print Assumptions pwrap_within_bounds.
