(* C09 -- Time-ordered collections are stable priority queues under any history.
   Model: SC3.model.TaskQ (sc3/base/_taskq.py line by line; heapq by specification).
   [reachable s] = s is the state after SOME finite history of
   add / re-add / remove / pop / peek / empty / clear / iter starting from TaskQueue(). *)
From Coq Require Import QArith ZArith List Bool Arith Permutation Sorting.
Import ListNotations.
Require Import SC3.model.TaskQ SC3.model.ClockSched SC3.model.Shutdown.
Require Import SC3.proofs.C09_order SC3.proofs.C09_refine SC3.proofs.C09_corollaries SC3.proofs.C09_sched SC3.proofs.C09_shutdown.
Local Open Scope nat_scope.

(* --- the representation invariant holds after every history ------------------------- *)
Theorem tq_inv_reachable : forall ops, inv (fst (run ops tq_init)).
Proof. exact R_inv. Qed.

(* --- refinement: each operation returns what the sorted-list specification returns
       and commutes with the abstraction [abs] = (live entries sorted by (prio, count), next count) *)
Theorem tq_refines_spec : forall o s s' r, inv s -> step o s = (s', r) ->
  inv s' /\ spec_step o (abs s) = (abs s', r).
Proof. exact step_refines. Qed.

Theorem tq_run_refines_spec : forall ops s rs, run ops tq_init = (s, rs) ->
  spec_run ops spec_init = (abs s, rs).
Proof. exact R_run_refines. Qed.

(* ... whatever the arrangement of the heap list: the list may be permuted arbitrarily
   (and the dict re-ordered) before every single operation *)
Theorem tq_refines_spec_any_arrangement : forall ops s rs, rrun tq_init ops s rs ->
  inv s /\ spec_run ops spec_init = (abs s, rs).
Proof. exact R_rrun_refines. Qed.

Theorem tq_outputs_independent_of_arrangement : forall s1 s2 ops, inv s1 -> tq_equiv s1 s2 ->
  snd (run ops s1) = snd (run ops s2).
Proof. exact run_perm_independent. Qed.

(* the loop of pop() terminates within len(_queue) iterations *)
Theorem pop_fuel_suffices : forall s, reachable s -> snd (tq_pop s) <> ROutOfFuel.
Proof. exact R_pop_fuel. Qed.

(* --- corollaries ------------------------------------------------------------------------ *)
(* After a pop at time p1, whatever happens next (removals, peeks, pops, clear, and adds
   at times >= p1 -- what a clock does), the next successful pop is not earlier. *)
Theorem pop_nondecreasing : forall s s1 p1 t1 ops s2 outs s3 p2 t2,
  reachable s ->
  tq_pop s = (s1, RItem p1 t1) ->
  Forall (add_at_least p1) ops ->
  run ops s1 = (s2, outs) ->
  tq_pop s2 = (s3, RItem p2 t2) ->
  (p1 <= p2)%Q.
Proof. exact R_pop_nondecreasing. Qed.

(* t1 is added, later t2 is added at an equal time; as long as the history in between and
   after does not re-add/remove t1, clear, or re-add t2: if a pop returns t2 then an earlier
   pop of the history has returned t1. *)
Theorem pop_fifo_on_ties : forall s p t1 ops1 s2 outs1 q t2 ops2 s4 outs2 s5 q',
  reachable s -> t1 <> t2 -> (p == q)%Q ->
  run ops1 (tq_add p t1 s) = (s2, outs1) -> Forall (keeps t1) ops1 ->
  run ops2 (tq_add q t2 s2) = (s4, outs2) -> Forall (keeps2 t1 t2) ops2 ->
  tq_pop s4 = (s5, RItem q' t2) ->
  popped t1 (ops1 ++ OAdd q t2 :: ops2) (outs1 ++ RNone :: outs2).
Proof. exact R_pop_fifo. Qed.

(* successive pops enumerate exactly the iteration order (which is sorted by (time, add order)) *)
Theorem pops_enumerate_iter : forall n s, reachable s -> n <= length (tq_iter s) ->
  snd (drain n s) = map (fun x : Q * task => RItem (fst x) (snd x)) (firstn n (tq_iter s)).
Proof. exact R_drain. Qed.

Theorem item_at_most_once : forall s, reachable s ->
  NoDup (map snd (tq_iter s)) /\
  forall s' p t, tq_pop s = (s', RItem p t) -> ~ In t (map snd (tq_iter s')).
Proof. exact R_item_once. Qed.

(* add(p, t) (t queued or not): every other item keeps its place; t sits at time p after
   all items with time <= p and before all later ones. *)
Theorem readd_moves_to_new_time_as_latest : forall s p t, reachable s ->
  let rest := filter (not_task t) (tq_iter s) in
  tq_iter (tq_add p t s) = filter (at_most p) rest ++ (p, t) :: filter (later_than p) rest.
Proof. exact R_readd. Qed.

Theorem remove_frames_others : forall s t, reachable s ->
  tq_iter (tq_remove t s) = filter (not_task t) (tq_iter s).
Proof. exact R_remove. Qed.

Theorem empty_iff_no_live : forall s, reachable s ->
  (tq_empty s = true <-> tq_iter s = []) /\
  (tq_empty s = true <-> forall t, fget t (finder s) = None) /\
  (tq_empty s = true <-> snd (tq_pop s) = RKeyError) /\
  (forall b, tq_empty s = true <-> tq_peek b s = RKeyError).
Proof. exact R_empty. Qed.

(* also with tombstones in the queue, and including the KeyError case *)
Theorem peek_small_is_next_pop : forall s, reachable s -> tq_peek true s = snd (tq_pop s).
Proof. exact R_peek_small. Qed.

Theorem peek_large_is_max_live : forall s, reachable s ->
  tq_peek false s = match last_opt (tq_iter s) with
                    | None => RKeyError
                    | Some x => RItem (fst x) (snd x)
                    end
  /\ forall p t, tq_peek false s = RItem p t ->
       In (p, t) (tq_iter s) /\ forall q u, In (q, u) (tq_iter s) -> (q <= p)%Q.
Proof. exact R_peek_large. Qed.

Theorem iter_is_sorted_contents : forall s, reachable s ->
  exists l, tq_iter s = map ipair l /\ sorted ikey l /\ Permutation l (live (heap s))
            /\ StronglySorted (fun a b : Q * task => (fst a <= fst b)%Q) (tq_iter s)
            /\ forall t, In t (map snd (tq_iter s)) <-> fget t (finder s) <> None.
Proof. exact R_iter. Qed.

(* --- the clock tasks: ClockScheduler (NRT scheduler of SystemClock / TempoClock / AppClock) ------------
   Model: SC3.model.ClockSched (add / one iteration of run / retime / reset, line by line, over the
   TaskQueue model).  [ck ct], [tk ct] = the clock and the task of the ClockTask object [ct] (any functions);
   [f ct] = what clock.beats2secs(ct.beats) returns during retime (any function);
   [sreachable] = after ANY history of add, run-iteration, retime, reset, iteration. *)
Theorem sched_inv_reachable : forall ck tk ops, sinv ck tk (fst (srun ck tk ops sched_init)).
Proof. exact S_inv. Qed.

(* one pending wake-up per (clock, task); _pending is exactly the queued ClockTasks by key *)
Theorem sched_one_pending_per_task : forall ck tk s, sreachable ck tk s ->
  NoDup (map (fun x : Q * task => keyof ck tk (snd x)) (qiter s))
  /\ forall k ct, pget k (spend s) = Some ct <-> (k = keyof ck tk ct /\ In ct (map snd (qiter s))).
Proof. exact S_one_pending. Qed.

(* scheduling a (clock, task) again replaces its pending wake-up; the new one is the most recent entry of its time *)
Theorem sched_resched_replaces_and_is_latest : forall ck tk s time ct, sreachable ck tk s ->
  let rest := filter (pkey_other ck tk ct) (qiter s) in
  qiter (sch_add ck tk time ct s) = filter (at_most time) rest ++ (time, ct) :: filter (later_than time) rest.
Proof. exact S_add. Qed.

(* run(): stops exactly when nothing is pending, otherwise wakes the first entry and only that one *)
Theorem sched_run_wakes_earliest : forall ck tk s s' r, sreachable ck tk s -> sch_step ck tk s = (s', r) ->
  match qiter s with
  | [] => r = RBool true /\ s' = s
  | x :: rest => r = RItem (fst x) (snd x) /\ qiter s' = rest
  end.
Proof. exact S_step. Qed.

(* retime(clock): the other clocks' entries keep times and order; the clock's entries move to their new
   times and keep their mutual order whenever the new times do not reverse it (beats2secs is monotone) *)
Theorem sched_retime_keeps_order : forall ck tk s c f, sreachable ck tk s ->
  filter (fun x => negb (on_clock ck c x)) (qiter (sch_retime ck c f s))
    = filter (fun x => negb (on_clock ck c x)) (qiter s)
  /\ (StronglySorted (fun a b : Q * task => (f (snd a) <= f (snd b))%Q) (filter (on_clock ck c) (qiter s)) ->
      filter (on_clock ck c) (qiter (sch_retime ck c f s))
        = map (fun x : Q * task => (f (snd x), snd x)) (filter (on_clock ck c) (qiter s))).
Proof. exact S_retime. Qed.

(* after a wake-up at p1, whatever is scheduled or re-timed at times >= p1, the next wake-up is not earlier *)
Theorem sched_wakeups_nondecreasing : forall ck tk s s1 p1 t1 ops s3 p2 t2,
  sreachable ck tk s ->
  sch_step ck tk s = (s1, RItem p1 t1) ->
  Forall (sop_at_least p1) ops ->
  sch_step ck tk (fst (srun ck tk ops s1)) = (s3, RItem p2 t2) ->
  (p1 <= p2)%Q.
Proof. exact S_nondecreasing. Qed.

(* --- the exit actions: Process._shutdown draining main._atexitq --------------------------------------------
   Model: SC3.model.Shutdown ([while not empty(): pop()[1]()]); [chunks] = what the 1st, 2nd, ... action that
   runs does to the queue while it runs (register, move, unregister, look): ANY lists of such operations. *)
(* the loop ends within the stated number of iterations and leaves the queue EMPTY *)
Theorem shutdown_drains_queue : forall chunks q q' log fin, reachable q -> chunks_ok chunks ->
  shutdown (shutdown_fuel chunks q) chunks q = (q', log, fin) ->
  fin = true /\ tq_iter q' = [] /\ tq_empty q' = true.
Proof. exact SD_drains. Qed.

(* every queued action that no later action unregisters runs *)
Theorem shutdown_runs_every_queued_action : forall fuel chunks q q' log t, reachable q -> chunks_ok chunks ->
  In t (map snd (tq_iter q)) ->
  (forall c, In c chunks -> ~ In (ORemove t) c) ->
  shutdown fuel chunks q = (q', log, true) ->
  In t (ran log).
Proof. exact SD_runs. Qed.

(* ... including an action that is registered, or moved to another priority, by an action that is running *)
Theorem shutdown_runs_actions_added_while_draining : forall chunks q q' log p t, reachable q -> chunks_ok chunks ->
  tq_iter q <> [] ->
  In (OAdd p t) (hd [] chunks) ->
  (forall c, In c chunks -> ~ In (ORemove t) c) ->
  shutdown (shutdown_fuel chunks q) chunks q = (q', log, true) ->
  In t (ran log).
Proof. exact SD_runs_added. Qed.

(* the action that runs is the earliest entry of the queue at that moment *)
Theorem shutdown_runs_earliest_first : forall f chunks q x rest, reachable q -> tq_iter q = x :: rest ->
  exists log', snd (fst (shutdown (S f) chunks q)) = RItem (fst x) (snd x) :: log'.
Proof. exact SD_first. Qed.

(* --- non-vacuity: the model computes and the hypotheses are met ---------------------------- *)
Definition ex_hist : list op :=
  [OAdd (1 # 1) 3; OAdd (1 # 2) 4; OAdd (2 # 2) 5; OAdd (1 # 1) 3; ORemove 4;
   OPeek true; OPeek false; OEmpty; OIter]%Z.
Definition ex_state : tq := fst (run ex_hist tq_init).

(* a state with two tombstones (re-add of 3, removal of 4) and two live entries tied in time *)
Example ex_state_has_tombstones :
  tombs (heap ex_state) = 2 /\ removed ex_state = 2%Z /\ length (heap ex_state) = 4
  /\ snd (run ex_hist tq_init) =
     [RNone; RNone; RNone; RNone; RNone; RItem (2 # 2) 5%Z; RItem (1 # 1) 3%Z; RBool false;
      RList [((2 # 2), 5%Z); ((1 # 1), 3%Z)]].
Proof. vm_compute. repeat split; reflexivity. Qed.

Example ex_reachable : reachable ex_state.
Proof. exists ex_hist. reflexivity. Qed.

(* pop_nondecreasing: pop (1, task 5), then remove 3, add 7 at 3/2, pop (3/2, task 7) *)
Example ex_pop_nondecreasing :
  exists s1 s2 outs s3,
    tq_pop ex_state = (s1, RItem (2 # 2) 5%Z)
    /\ Forall (add_at_least (2 # 2)) [ORemove 3%Z; OAdd (3 # 2) 7%Z; OPeek false]
    /\ run [ORemove 3%Z; OAdd (3 # 2) 7%Z; OPeek false] s1 = (s2, outs)
    /\ tq_pop s2 = (s3, RItem (3 # 2) 7%Z).
Proof.
  eexists. eexists. eexists. eexists. split; [vm_compute; reflexivity |].
  split; [repeat constructor; simpl; discriminate |].
  split; [vm_compute; reflexivity | vm_compute; reflexivity].
Qed.

(* pop_fifo_on_ties: from ex_state add 1 at 1 (written 3/3), peek, add 2 at 1.0 (written 4/4),
   pop 5, pop 3, pop 1; the next pop returns 2, and 1 was indeed popped before *)
Example ex_fifo :
  exists s2 outs1 s4 outs2 s5,
    run [OPeek true] (tq_add (3 # 3) 1%Z ex_state) = (s2, outs1)
    /\ Forall (keeps 1%Z) [OPeek true]
    /\ run [OPop; OPop; OPop] (tq_add (4 # 4) 2%Z s2) = (s4, outs2)
    /\ Forall (keeps2 1%Z 2%Z) [OPop; OPop; OPop]
    /\ tq_pop s4 = (s5, RItem (4 # 4) 2%Z)
    /\ outs2 = [RItem (2 # 2) 5%Z; RItem (1 # 1) 3%Z; RItem (3 # 3) 1%Z].
Proof.
  eexists. eexists. eexists. eexists. eexists.
  split; [vm_compute; reflexivity |].
  split; [repeat constructor |].
  split; [vm_compute; reflexivity |].
  split; [repeat constructor |].
  split; vm_compute; reflexivity.
Qed.

(* an arbitrary re-arrangement of the heap list is an equivalent state *)
Example ex_equiv : tq_equiv ex_state
  (mkTQ (rev (heap ex_state)) (finder ex_state) (counter ex_state) (removed ex_state))
  /\ rev (heap ex_state) <> heap ex_state.
Proof.
  split; [| vm_compute; discriminate].
  split; [apply Permutation_rev |]. split; [intro t; reflexivity | split; reflexivity].
Qed.

(* scheduler: ClockTasks 1..4; 1 and 3 share (clock 10, task 100); 4 is on clock 11 *)
Definition ex_ck := assoc_z [(1, 10); (2, 10); (3, 10); (4, 11)]%Z 0%Z.
Definition ex_tk := assoc_z [(1, 100); (2, 101); (3, 100); (4, 100)]%Z 0%Z.
Definition ex_sops : list sop := [SAdd (7 # 1) 1; SAdd (4 # 1) 2; SAdd (4 # 1) 3; SAdd (4 # 1) 4]%Z.
Definition ex_sched : sched := fst (srun ex_ck ex_tk ex_sops sched_init).

Example ex_sched_reachable : sreachable ex_ck ex_tk ex_sched.
Proof. exists ex_sops. reflexivity. Qed.

(* 3 replaced 1 (same clock and task); retime of clock 10 to second 2 meets its monotonicity hypothesis,
   keeps 2 before 3 and leaves 4 alone; then run wakes 2, 3, 4 and stops *)
Example ex_sched_retime :
  qiter ex_sched = [((4 # 1), 2%Z); ((4 # 1), 3%Z); ((4 # 1), 4%Z)]
  /\ StronglySorted (fun a b : Q * task => (assoc_q [(2, 2 # 1); (3, 2 # 1)]%Z (snd a) <= assoc_q [(2, 2 # 1); (3, 2 # 1)]%Z (snd b))%Q)
       (filter (on_clock ex_ck 10%Z) (qiter ex_sched))
  /\ snd (srun ex_ck ex_tk [SRetime 10%Z [(2, 2 # 1); (3, 2 # 1)]%Z; SIter; SStep; SStep; SStep; SStep] ex_sched)
     = [RNone; RList [((2 # 1), 2%Z); ((2 # 1), 3%Z); ((4 # 1), 4%Z)];
        RItem (2 # 1) 2%Z; RItem (2 # 1) 3%Z; RItem (4 # 1) 4%Z; RBool true].
Proof.
  split; [vm_compute; reflexivity |]. split; [| vm_compute; reflexivity].
  vm_compute. repeat constructor; discriminate.
Qed.

(* exit actions: close_net (1) at 900, stop_clocks (2) at 800, user_cleanup (3) at 0; while it runs, user_cleanup
   moves close_net to 1 and registers flush_files (4) at 700: they run as 3, 1, 4, 2 and the queue ends empty *)
Definition ex_exitq : tq := fst (run [OAdd (900 # 1) 1; OAdd (800 # 1) 2; OAdd (0 # 1) 3]%Z tq_init).
Definition ex_chunks : list (list op) := [[OAdd (1 # 1) 1; OAdd (700 # 1) 4]%Z].
Example ex_shutdown :
  chunks_ok ex_chunks /\ tq_iter ex_exitq <> []
  /\ (forall c, In c ex_chunks -> ~ In (ORemove 4%Z) c)
  /\ (let '(q', log, fin) := shutdown (shutdown_fuel ex_chunks ex_exitq) ex_chunks ex_exitq in
      (ran log, fin, tq_empty q')) = ([3; 1; 4; 2]%Z, true, true).
Proof.
  split; [repeat constructor |]. split; [vm_compute; discriminate |]. split; [| vm_compute; reflexivity].
  intros c [Hc | []] H. subst c. simpl in H. destruct H as [H | [H | []]]; discriminate.
Qed.

Print Assumptions tq_inv_reachable.
Print Assumptions tq_refines_spec_any_arrangement.
Print Assumptions pop_fifo_on_ties.
Print Assumptions readd_moves_to_new_time_as_latest.
Print Assumptions peek_large_is_max_live.
Print Assumptions sched_retime_keeps_order.
Print Assumptions sched_wakeups_nondecreasing.
Print Assumptions shutdown_runs_actions_added_while_draining.
Print Assumptions shutdown_drains_queue.
