(* C01 -- SynthDef compilation preserves the meaning of the graph function.
   Model: model/Graph.v (executable transcription of the constructors, the optimiser, the
   topological sort), model/GraphSem.v (denotational semantics over Qc), operator tables and the
   dead-code-elimination removal mode REGENERATED from the working tree (gen/Gen_opcodes.v).

   Proved here, for all inputs / all programs of the model's language: the constructor shortcuts
   (ctor_shortcuts_sound), the algebra of every optimiser rewrite (rewrite_sound_algebra) and its
   graph-level form (rewrite_sound), the operator numbering (opcode_table_matches_server), rate inference
   (op_rate_is_max_input_rate), dead code elimination (dce_leaves_effectful_and_referenced_units: the guards;
   dce_only_pure_unreferenced: what is missing from the emitted graph), the maintained-descendants
   invariant through construction and every step of the optimiser (desc_inv_preserved), the topological
   sort (topo_sort_correct), totality (every_wellformed_prog_compiles), that effectful units are emitted
   exactly once (effectful_exactly_once) and the composition

     compile_preserves_meaning : forall p, wellformed p -> exists g, compile ... p = Ok g /\
         forall I, Permutation (obs_graph I g) (obs_src T I p).

   The executable checkers (Graph.desc_inv_ok after every optimiser step, GraphSem.sem_test under two
   interpretations) stay in the correspondence: they tie the model to the library. *)
From Coq Require Import ZArith QArith Qcanon List String Bool Permutation.
Import ListNotations.
Require Import SC3.model.Graph SC3.model.GraphSem SC3.gen.Gen_opcodes.
Require Import SC3.proofs.C01_ctor SC3.proofs.C01_misc.
Require Import SC3.proofs.C01_inv SC3.proofs.C01_inv2 SC3.proofs.C01_inv3 SC3.proofs.C01_pass SC3.proofs.C01_built SC3.proofs.C01_init SC3.proofs.C01_opt SC3.proofs.C01_topo SC3.proofs.C01_topo2 SC3.proofs.C01_cov SC3.proofs.C01_compile SC3.proofs.C01_sem SC3.proofs.C01_sem2 SC3.proofs.C01_src SC3.proofs.C01_link SC3.proofs.C01_dce.
Open Scope string_scope.

(* Whatever BinaryOpUGen / MulAdd / Sum3 / Sum4 constructors return for arguments that exist in the
   store -- an argument, a constant, one new unit, a chain of new units -- denotes the operation on
   the arguments' denotations under EVERY interpretation; the store only grows (so everything
   created before keeps its denotation).  `spec I s s' v x` = store s' extends s, v exists in s',
   v denotes x. *)
Theorem ctor_shortcuts_sound : forall (I : interp) (s s' : st) (v a b c d : inp),
  wf_val s a -> wf_val s b -> wf_val s c -> wf_val s d ->
  let va := val_den (D I s) a in let vb := val_den (D I s) b in
  let vc := val_den (D I s) c in let vd := val_den (D I s) d in
  (forall py sc, ring_py py sc -> py_binop T s py a b = Ok (s', v) -> spec I s s' v (bin_sem I sc va vb)) /\
  (forall name idx, sc_spindex_opname T name = Some (idx, name) ->
      ctor_bin T s name a b = Ok (s', v) -> spec I s s' v (bin_sem I name va vb)) /\
  (vneg T s a = Ok (s', v) -> spec I s s' v (- va)%Qc) /\
  (ctor_muladd T s a b c = Ok (s', v) -> spec I s s' v (va * vb + vc)%Qc) /\
  (sum3_new1 T s a b c = Ok (s', v) -> spec I s s' v (va + vb + vc)%Qc) /\
  (sum4_new1 T s a b c d = Ok (s', v) -> spec I s s' v (va + vb + vc + vd)%Qc).
Proof.
  intros I s s' v a b c d Ha Hb Hc Hd. cbv zeta.
  split; [intros py sc Hr H; exact (py_binop_sound I s py sc a b s' v Ha Hb Hr H)|].
  split; [intros name idx Hn H; exact (ctor_bin_sound I s name idx a b s' v Ha Hb Hn H)|].
  split; [intro H; exact (vneg_sound I s a s' v Ha H)|].
  split; [intro H; exact (ctor_muladd_sound I s a b c s' v Ha Hb Hc H)|].
  split; [intro H; exact (sum3_new1_sound I s a b c s' v Ha Hb Hc H)|].
  intro H; exact (sum4_new1_sound I s a b c d s' v Ha Hb Hc Hd H).
Qed.

(* rewrite_sound, algebraic part: the unit each optimiser rewrite builds denotes the expression it
   replaces (Sum3 incl. the `a is b` case, Sum4, MulAdd in both operand orders, a+(-b), (-a)+b, a-(-b)).
   Full statement (open): each rewrite step preserves den of every live unit, given that the absorbed
   unit has exactly one user -- which is what `len(x._descendants) == 1` means under desc_inv. *)
Theorem rewrite_sound_algebra : forall p q b x y : Qc,
  ((p + q) + b = qsum [p; q; b] /\ (p + q) + (p + q) = qsum [p; p; q; q] /\ b + (p + q) = qsum [p; q; b]
   /\ qsum [p; q; x] + b = qsum [p; q; x; b] /\ b + qsum [p; q; x] = qsum [p; q; x; b]
   /\ (x * y) + b = x * y + b /\ (x * y) + b = y * x + b /\ b + (x * y) = x * y + b /\ b + (x * y) = y * x + b
   /\ x + (- y) = x - y /\ (- x) + y = y - x /\ x - (- y) = x + y)%Qc.
Proof. exact rewrite_algebra. Qed.

(* Every operator name of the library's (regenerated) tables, and every Python selector through which
   sc3 reaches it, carries the opcode number of that operator in SuperCollider's Opcodes.h; the tables
   have exactly 54 / 49 rows and contain no name outside the reference. *)
Theorem opcode_table_matches_server :
  forallb un_ok server_unary = true /\ forallb bin_ok server_binary = true /\
  List.length unops_list = 54%nat /\ List.length binops_list = 49%nat /\
  all_known unops_list server_unary = true /\ all_known binops_list server_binary = true.
Proof. exact opcode_tables_ok. Qed.

(* Arithmetic units run at the highest rate among their inputs (rate_num: scalar 0 < control 1 <
   audio 2 < demand 3).  BinaryOpUGen: for all four rates; MulAdd / Sum3 / Sum4 (rate = minimum of
   the rate strings): for audio/control/scalar inputs, the quantifier of the property (with a
   demand-rate input the string order puts 'demand' below 'control'). UnaryOpUGen takes its input's
   rate by definition (ctor_un). *)
Theorem op_rate_is_max_input_rate :
  (forall ra rb, rate_num (bin_rate ra rb) = Z.max (rate_num ra) (rate_num rb)) /\
  (forall s name a b s' u ch, new_bin_unit T s name a b = Ok (s', O u ch) ->
     exists U, get_unit s' u = Some U /\ urate U = bin_rate (vrate s a) (vrate s b) /\ ins U = [a; b]) /\
  (forall s a b c, vrate s a <> Demand -> vrate s b <> Demand -> vrate s c <> Demand ->
     rate_num (seq_rate s [a; b; c]) = Z.max (Z.max (rate_num (vrate s a)) (rate_num (vrate s b))) (rate_num (vrate s c))) /\
  (forall s a b c d, vrate s a <> Demand -> vrate s b <> Demand -> vrate s c <> Demand -> vrate s d <> Demand ->
     rate_num (seq_rate s [a; b; c; d]) =
     Z.max (Z.max (Z.max (rate_num (vrate s a)) (rate_num (vrate s b))) (rate_num (vrate s c))) (rate_num (vrate s d))).
Proof. repeat split; [apply bin_rate_max | apply new_bin_unit_rate | apply seq_rate3_max | apply seq_rate4_max]. Qed.

(* Dead code elimination, the guards (for ANY state and any setting of the three flags, i.e. also for the
   code before the repairs): an effectful unit's _optimize_graph is the identity, and so is that of a
   side-effect-free unit (other than the BinaryOpUGen rewrites) whose descendant set is not empty.  The
   property clause itself ("only side-effect-free units that nothing references may be dropped") is
   dce_only_pure_unreferenced below. *)
Theorem dce_leaves_effectful_and_referenced_units :
  (forall strict guard sg f s u U, get_unit s u = Some U -> pure U = false -> opt_unit T strict guard sg (S f) s u = Ok s) /\
  (forall strict guard sg f s u U d, get_unit s u = Some U -> pure U = true -> desc_of s U = Some d -> d <> [] ->
     ukind U <> KBin -> opt_unit T strict guard sg (S f) s u = Ok s).
Proof. split; [exact opt_unit_impure | exact opt_unit_referenced]. Qed.

(* The programs of defect F10 (a dead side-effect-free unit reads the same live value twice: x = SinOsc.ar();
   y = x * x; Out.ar(0, x), and two relatives) compile with the removal mode REGENERATED from the working tree;
   this fails to check on a tree whose _perform_dead_code_elimination uses set.remove.  (An instance of
   every_wellformed_prog_compiles below, kept as a computed example.) *)
Example f10_family_compiles :
  forallb (compiles dce_strict dce_guard sub_guard) [F10; F10_add; F10_lpf] = true.
Proof. exact f10_current_tree_compiles. Qed.

(* the faithful model of the code with set.remove refutes it (KeyError), with set.discard it holds *)
Example f10_refuted_with_remove :
  compile T true false false F10 = Err EKey /\ forallb (compiles false false false) [F10; F10_add; F10_lpf] = true.
Proof. split; [exact (proj1 f10_strict_raises) | exact f10_discard_compiles]. Qed.

(* ---------------------------------------------------------------------------------------------
   desc_inv.  The code in the working tree is the fixed one (regenerated flags): set.discard in dead code
   elimination, the liveness guard before re-optimising an input (F21), the `a is b` guard in
   _optimize_sub (F22).  On a tree where one of them is missing this lemma -- hence everything below --
   stops checking. *)
Lemma optimiser_is_the_fixed_code : dce_strict = false /\ dce_guard = true /\ sub_guard = true.
Proof. repeat split; reflexivity. Qed.

(* The invariant `Inv s D` (proofs/C01_inv.v) says, for the units that are not currently being eliminated
   (D): the maintained _descendants of every live single-output non-width-first UGen is EXACTLY the set of
   live units that read it (I_lower + I_upper; for multi-output and width-first units only "contains every
   live reader", I_lower), units being eliminated have an empty set and no surviving reader, plus the
   structure this needs (slots, reference sharing between a replaced unit and its replacement, ranks,
   arities, absence of short-cut constants).  The rewrites consult only sets of single-output arithmetic
   units (`len(x._descendants) == 1`), dead code elimination only emptiness; both are exact there.

   desc_inv_preserved: for EVERY program of the model's language whose graph function runs, _optimize_graph
   does not raise; the invariant holds after _init_topo_sort (construction: every _add_ugen), after every
   atomic step of the pass (mark / discard / remove of dead code elimination incl. its recursion, and each
   Sum3 / Sum4 / MulAdd / a+(-b) / (-a)+b / a-(-b) rewrite with _replace_ugen and _remove_ugen), and at
   the end, where the maintained sets are exactly the user sets. *)
Theorem desc_inv_preserved : forall p s, build_graph C01_built.T p = Ok s ->
  exists s' ok s0 ante s2,
    optimize C01_built.T dce_strict dce_guard sub_guard s = Ok (s', ok) /\
    init_topo s = Ok (s0, ante) /\
    Inv (with_rewriting s0 true) [] /\ desc_exact (with_rewriting s0 true) /\
    asteps (with_rewriting s0 true, []) (s2, []) /\
    (forall x, asteps (with_rewriting s0 true, []) x -> Inv (fst x) (snd x)) /\
    Inv s2 [] /\ desc_exact s2 /\ Reindexed s2 s'.
Proof.
  intros p s H. destruct optimiser_is_the_fixed_code as (-> & -> & ->).
  pose proof (build_graph_built p s H) as B.
  destruct (optimize_ok T_plus T_minus s B) as (s' & ok & s0 & ante & s2 & rho & E & E0 & HI1 & T2 & HI2 & HW & R & O).
  exists s', ok, s0, ante, s2. split; auto. split; auto. split; auto.
  split; [apply Inv_desc_exact; auto|]. split; auto.
  split; [intros x Hx; apply (asteps_inv _ _ Hx HI1)|]. split; auto. split; [apply Inv_desc_exact; auto | auto].
Qed.

(* Well-formed graph function = its constructor calls run without raising (build_graph = Ok) and
   _check_inputs accepts the optimised graph (no ValueError).  Everything else in SynthDef._build -- the
   whole optimiser with its recursion and all rewrites, constant collection, the topological sort, the
   re-indexing -- never raises: every well-formed graph function compiles.  (compile = Ok implies the two
   hypotheses, so this is an exact characterisation of the programs that compile.) *)
Definition wellformed (p : prog) : Prop :=
  exists s1, build_graph C01_built.T p = Ok s1 /\
    forall s2 ok, optimize C01_built.T dce_strict dce_guard sub_guard s1 = Ok (s2, ok) -> check_inputs s2 = true.

Theorem every_wellformed_prog_compiles : forall p, wellformed p ->
  exists g, compile C01_built.T dce_strict dce_guard sub_guard p = Ok g.
Proof.
  intros p (s1 & Hb & Hc). destruct optimiser_is_the_fixed_code as (E1 & E2 & E3). rewrite E1, E2, E3 in *.
  destruct (compile_total p s1 Hb Hc) as (g & ok & s2f & s3 & s2 & out & E & _).
  exists g. unfold compile. rewrite E. reflexivity.
Qed.

(* the hypothesis is satisfiable by a non-trivial program: the F21 program (a dead unit reading a rewritten
   unit) is well-formed, and so is a program with controls, a shared sum, a negation and two outputs *)
Example wellformed_examples :
  wellformed (mkP [] [] [IU "Saw" Audio [AC 1]; IU "Saw" Audio [AC 2]; IU "Saw" Audio [AC 3];
                         IBin "add" (AV 0 0) (AV 1 0); IBin "add" (AV 3 0) (AV 2 0); IBin "mul" (AV 3 0) (AV 4 0);
                         IBin "mul" (AV 5 0) (AV 4 0); IOut Audio (AC 0) [AV 4 0]]) /\
  wellformed (mkP [1%Q] [1#2] [IU "Saw" Audio [AP true 0]; IU "Saw" Audio [AP false 0]; IBin "add" (AV 0 0) (AV 1 0);
                             IBin "add" (AV 2 0) (AV 2 0); IUn "neg" (AV 3 0); IBin "sub" (AV 0 0) (AV 4 0);
                             IOut Audio (AC 0) [AV 5 0; AC 0]; IOut Control (AC 1) [AP true 0]]).
Proof.
  split.
  - eexists. split; [vm_compute; reflexivity|]. intros s2 ok H. vm_compute in H. injection H as <- _. vm_compute. reflexivity.
  - eexists. split; [vm_compute; reflexivity|]. intros s2 ok H. vm_compute in H. injection H as <- _. vm_compute. reflexivity.
Qed.

(* _topological_sort (also what C02 asks of the compiler): the children after the sort are a permutation
   of the units that survived the optimiser, and every unit comes after each of its sources -- the UGens
   it reads (through output proxies) and its width-first antecedents (every LocalBuf / FFT / RandSeed-like
   unit created before it). *)
Theorem topo_sort_correct : forall p s1, build_graph C01_built.T p = Ok s1 ->
  (forall s2 ok, optimize C01_built.T dce_strict dce_guard sub_guard s1 = Ok (s2, ok) -> check_inputs s2 = true) ->
  exists g ok s2f s3 out,
    compile_flag C01_built.T dce_strict dce_guard sub_guard p = Ok (g, ok) /\
    optimize C01_built.T dce_strict dce_guard sub_guard s1 = Ok (s2f, ok) /\ topological_sort s2f = Ok s3 /\
    children s3 = map Some out /\ Permutation out (live s2f) /\
    forall c C x, In c (live s2f) -> get_unit s2f c = Some C ->
      In x (input_sources s2f C ++ match wfa C with Some l => l | None => [] end) -> Before out x c.
Proof.
  intros p s1 Hb Hc. destruct optimiser_is_the_fixed_code as (E1 & E2 & E3). rewrite E1, E2, E3 in *.
  pose proof (build_graph_built p s1 Hb) as B.
  destruct (optimize_ok T_plus T_minus s1 B) as (s2f & ok & s0 & ante & s2 & rho & E & E0 & HI1 & T2 & HI2 & HW & R & O).
  destruct (topological_sort_ok s2f rho O) as (s3 & out & Es & C3 & P3 & B3 & _ & G3).
  exists (emit s3 (collect_constants s2f)), ok, s2f, s3, out. split.
  - unfold compile_flag. rewrite Hb. cbn [bind]. rewrite E. cbn [bind]. rewrite (Hc s2f ok E). cbn [negb].
    rewrite Es. cbn [bind]. reflexivity.
  - split; auto. split; auto. split; auto. split; auto.
    intros c C x Lc GC Hx. apply B3; auto. unfold SrcOf. rewrite GC. exact Hx.
Qed.

(* ---------------------------------------------------------------------------------------------
   Meaning.  A valuation f gives every object a row of values; `Valid I s D f` says that every live unit
   that is not being eliminated has the value its class computes from the values of its inputs (usem, under
   the interpretation I of the opaque classes / operators / controls).  `obs_state I s f` lists, in slot
   order, every effectful unit instance with the values it reads.

   rewrite_sound (graph level): every atomic step of the optimiser -- marking a dead unit, discarding it
   from a descendant set, removing it, and each of the seven rewrites (Sum3, Sum3 with `a is b`, Sum4,
   MulAdd in both operand orders, a+(-b), (-a)+b, a-(-b)) with _replace_ugen / _remove_ugen -- maps a valid
   valuation to a valid valuation that agrees with it on every object that existed before and leaves the
   observations unchanged, for every interpretation.  The side condition "the absorbed unit has exactly one
   reader" is not a hypothesis: astep carries `Inv s D` (desc_inv), from which it follows. *)
Theorem rewrite_sound : forall I x y, astep x y -> forall f, Valid I (fst x) (snd x) f ->
  exists f', Valid I (fst y) (snd y) f' /\ (forall u, (u < List.length (units (fst x)))%nat -> f' u = f u) /\
             obs_state I (fst y) f' = obs_state I (fst x) f.
Proof. exact astep_sem. Qed.

(* compile_preserves_meaning: for every well-formed graph function, SynthDef._build succeeds and, under
   EVERY interpretation (of the catalogue classes, of the operators outside + - * / neg, of the control
   values), the effectful unit instances of the emitted graph, each with the values it reads, are those of
   the source program (a permutation: the topological sort may reorder independent units). *)
Theorem compile_preserves_meaning : forall p, wellformed p ->
  exists g, compile C01_built.T dce_strict dce_guard sub_guard p = Ok g /\
    forall I, Permutation (obs_graph I g) (obs_src C01_built.T I p).
Proof.
  intros p (s1 & Hb & Hc). destruct optimiser_is_the_fixed_code as (E1 & E2 & E3). rewrite E1, E2, E3 in *.
  destruct (compile_preserves_meaning_all p s1 Hb Hc) as (g & ok & E & Hm).
  exists g. split; auto. unfold compile. rewrite E. reflexivity.
Qed.

(* effectful_exactly_once: the tags (instruction number + 1) of the effectful units of the emitted graph
   are, up to order, the tags of the effectful instructions of the source (non-pure catalogue units and
   Out), and these are pairwise different: each effectful instruction is emitted exactly once, nothing
   effectful is invented. *)
Theorem effectful_exactly_once : forall p, wellformed p ->
  exists g, compile C01_built.T dce_strict dce_guard sub_guard p = Ok g /\
    Permutation (eff_tags g) (src_eff 0 (p_ins p)) /\ NoDup (src_eff 0 (p_ins p)).
Proof.
  intros p (s1 & Hb & Hc). destruct optimiser_is_the_fixed_code as (E1 & E2 & E3). rewrite E1, E2, E3 in *.
  destruct (compile_total p s1 Hb Hc) as (g & ok & s2f & s3 & s2 & out & E & C).
  exists g. split; [unfold compile; rewrite E; reflexivity|]. eapply effectful_once; eauto.
Qed.

(* dce_only_pure_unreferenced: an object the graph function created that is missing from the emitted graph
   is side-effect free (dead code elimination) or a BinaryOpUGen / UnaryOpUGen / Sum3 that a rewrite merged
   into its replacement, and no emitted unit reads it. *)
Theorem dce_only_pure_unreferenced : forall p s1, build_graph C01_built.T p = Ok s1 ->
  (forall s2 ok, optimize C01_built.T dce_strict dce_guard sub_guard s1 = Ok (s2, ok) -> check_inputs s2 = true) ->
  exists g ok s2f s3 out,
    compile_flag C01_built.T dce_strict dce_guard sub_guard p = Ok (g, ok) /\
    optimize C01_built.T dce_strict dce_guard sub_guard s1 = Ok (s2f, ok) /\ topological_sort s2f = Ok s3 /\
    children s3 = map Some out /\
    forall u U, get_unit s1 u = Some U -> ~ In u out ->
      (pure U = true \/ ukind U = KBin \/ ukind U = KUn \/ ukind U = KSum3) /\
      forall c C ch, In c out -> get_unit s2f c = Some C -> ~ In (O u ch) (ins C).
Proof.
  intros p s1 Hb Hc. destruct optimiser_is_the_fixed_code as (E1 & E2 & E3). rewrite E1, E2, E3 in *.
  destruct (compile_total p s1 Hb Hc) as (g & ok & s2f & s3 & s2 & out & E & C).
  destruct (CP_optimize _ _ _ _ _ _ _ C) as [ok' Eo].
  assert (ok' = ok).
  { unfold compile_flag in E. rewrite Hb in E. cbn [bind] in E. rewrite Eo in E. cbn [bind] in E.
    destruct (negb (check_inputs s2f)); [discriminate|]. rewrite (CP_topo _ _ _ _ _ _ _ C) in E. cbn [bind] in E.
    injection E as _ E. exact E. }
  subst ok'. exists g, ok, s2f, s3, out. split; auto. split; auto. split; [exact (CP_topo _ _ _ _ _ _ _ C)|].
  split; [exact (proj1 (CP_sorted _ _ _ _ _ _ _ C))|].
  intros u U GU Nu. exact (missing_units p s1 s2f s3 s2 out g C u U GU Nu).
Qed.

(* non-vacuity: the constructors compute, hypotheses are satisfiable *)
Example shortcut_example :
  let s := match build_graph T (mkP [] [] [IU "Saw" Audio [AC 440]]) with Ok s => s | Err _ => st0 end in
  wf_val s (O 0 0) /\
  (exists s' , ctor_bin T s "*" (K (-1)) (O 0 0) = Ok (s', O 1 0)) /\
  ctor_muladd T s (O 0 0) (K 1) (K 0) = Ok (s, O 0 0).
Proof. vm_compute. split; [auto | split; [eexists; reflexivity | reflexivity]]. Qed.
Example sem_test_example : sem_test T false true true (mkP [] [1#2] [
  IU "Saw" Audio [AP true 0]; IU "Saw" Audio [AC 2]; IBin "add" (AV 0 0) (AV 1 0); IBin "add" (AV 2 0) (AV 2 0);
  IUn "neg" (AV 3 0); IBin "sub" (AV 0 0) (AV 4 0); IOut Audio (AC 0) [AV 5 0; AC 0]]) = true.
Proof. vm_compute. reflexivity. Qed.

Print Assumptions ctor_shortcuts_sound.
Print Assumptions rewrite_sound_algebra.
Print Assumptions opcode_table_matches_server.
Print Assumptions op_rate_is_max_input_rate.
Print Assumptions dce_leaves_effectful_and_referenced_units.
Print Assumptions desc_inv_preserved.
Print Assumptions every_wellformed_prog_compiles.
Print Assumptions topo_sort_correct.
Print Assumptions rewrite_sound.
Print Assumptions compile_preserves_meaning.
Print Assumptions effectful_exactly_once.
Print Assumptions dce_only_pure_unreferenced.
