(* C01 -- SynthDef compilation preserves the meaning of the graph function.
   Model: model/Graph.v (executable transcription of the constructors, the optimiser, the
   topological sort), model/GraphSem.v (denotational semantics over Qc), operator tables and the
   dead-code-elimination removal mode REGENERATED from the working tree (gen/Gen_opcodes.v).

   Proved here, for all inputs: the constructor shortcuts (ctor_shortcuts_sound), the algebra of
   every optimiser rewrite (rewrite_sound_algebra), the operator numbering
   (opcode_table_matches_server), rate inference (op_rate_is_max_input_rate), the guards of dead code
   elimination (dce_only_pure_unreferenced_partial), and that the F10 family compiles on the current
   tree (every_wellformed_prog_compiles_partial).
   NOT proved (fall-back of DESIGN.md section 5/C01): the maintained-descendants invariant desc_inv
   through the optimiser pass and the composition

     compile_preserves_meaning : forall p, wf p -> exists g, compile T dce_strict p = Ok g /\
         forall I, obs_match (obs_src T I p) (obs_graph I g) = true.

   Both are checked by execution on every correspondence program (Graph.desc_inv_ok after every
   optimiser step; GraphSem.sem_test under two interpretations) -- a test, not a theorem. *)
From Coq Require Import ZArith QArith Qcanon List String Bool.
Import ListNotations.
Require Import SC3.model.Graph SC3.model.GraphSem SC3.gen.Gen_opcodes.
Require Import SC3.proofs.C01_ctor SC3.proofs.C01_misc.
Open Scope string_scope.

(* Whatever BinaryOpUGen / MulAdd / Sum3 / Sum4 constructors return for arguments that exist in the
   store -- an argument, a constant, one new unit, a chain of new units -- denotes the operation on
   the arguments' denotations under EVERY interpretation; the store only grows (so everything
   created before keeps its denotation).  `spec I s s' v x` = store s' extends s, v exists in s',
   v denotes x. *)
Theorem ctor_shortcuts_sound : forall (I : interp) (s s' : st) (v a b c d : inp),
  wf_val s a -> wf_val s b -> wf_val s c -> wf_val s d ->
  let va := val_den (D I s) a in let vb := val_den (D I s) b in
  let vc := val_den (D I s) c in let vd := val_den (D I s) d in
  (forall py sc, ring_py py sc -> py_binop T s py a b = Ok (s', v) -> spec I s s' v (bin_sem I sc va vb)) /\
  (forall name idx, sc_spindex_opname T name = Some (idx, name) ->
      ctor_bin T s name a b = Ok (s', v) -> spec I s s' v (bin_sem I name va vb)) /\
  (vneg T s a = Ok (s', v) -> spec I s s' v (- va)%Qc) /\
  (ctor_muladd T s a b c = Ok (s', v) -> spec I s s' v (va * vb + vc)%Qc) /\
  (sum3_new1 T s a b c = Ok (s', v) -> spec I s s' v (va + vb + vc)%Qc) /\
  (sum4_new1 T s a b c d = Ok (s', v) -> spec I s s' v (va + vb + vc + vd)%Qc).
Proof.
  intros I s s' v a b c d Ha Hb Hc Hd. cbv zeta.
  split; [intros py sc Hr H; exact (py_binop_sound I s py sc a b s' v Ha Hb Hr H)|].
  split; [intros name idx Hn H; exact (ctor_bin_sound I s name idx a b s' v Ha Hb Hn H)|].
  split; [intro H; exact (vneg_sound I s a s' v Ha H)|].
  split; [intro H; exact (ctor_muladd_sound I s a b c s' v Ha Hb Hc H)|].
  split; [intro H; exact (sum3_new1_sound I s a b c s' v Ha Hb Hc H)|].
  intro H; exact (sum4_new1_sound I s a b c d s' v Ha Hb Hc Hd H).
Qed.

(* rewrite_sound, algebraic part: the unit each optimiser rewrite builds denotes the expression it
   replaces (Sum3 incl. the `a is b` case, Sum4, MulAdd in both operand orders, a+(-b), (-a)+b, a-(-b)).
   Full statement (open): each rewrite step preserves den of every live unit, given that the absorbed
   unit has exactly one user -- which is what `len(x._descendants) == 1` means under desc_inv. *)
Theorem rewrite_sound_algebra : forall p q b x y : Qc,
  ((p + q) + b = qsum [p; q; b] /\ (p + q) + (p + q) = qsum [p; p; q; q] /\ b + (p + q) = qsum [p; q; b]
   /\ qsum [p; q; x] + b = qsum [p; q; x; b] /\ b + qsum [p; q; x] = qsum [p; q; x; b]
   /\ (x * y) + b = x * y + b /\ (x * y) + b = y * x + b /\ b + (x * y) = x * y + b /\ b + (x * y) = y * x + b
   /\ x + (- y) = x - y /\ (- x) + y = y - x /\ x - (- y) = x + y)%Qc.
Proof. exact rewrite_algebra. Qed.

(* Every operator name of the library's (regenerated) tables, and every Python selector through which
   sc3 reaches it, carries the opcode number of that operator in SuperCollider's Opcodes.h; the tables
   have exactly 54 / 49 rows and contain no name outside the reference. *)
Theorem opcode_table_matches_server :
  forallb un_ok server_unary = true /\ forallb bin_ok server_binary = true /\
  List.length unops_list = 54%nat /\ List.length binops_list = 49%nat /\
  all_known unops_list server_unary = true /\ all_known binops_list server_binary = true.
Proof. exact opcode_tables_ok. Qed.

(* Arithmetic units run at the highest rate among their inputs (rate_num: scalar 0 < control 1 <
   audio 2 < demand 3).  BinaryOpUGen: for all four rates; MulAdd / Sum3 / Sum4 (rate = minimum of
   the rate strings): for audio/control/scalar inputs, the quantifier of the property (with a
   demand-rate input the string order puts 'demand' below 'control'). UnaryOpUGen takes its input's
   rate by definition (ctor_un). *)
Theorem op_rate_is_max_input_rate :
  (forall ra rb, rate_num (bin_rate ra rb) = Z.max (rate_num ra) (rate_num rb)) /\
  (forall s name a b s' u ch, new_bin_unit T s name a b = Ok (s', O u ch) ->
     exists U, get_unit s' u = Some U /\ urate U = bin_rate (vrate s a) (vrate s b) /\ ins U = [a; b]) /\
  (forall s a b c, vrate s a <> Demand -> vrate s b <> Demand -> vrate s c <> Demand ->
     rate_num (seq_rate s [a; b; c]) = Z.max (Z.max (rate_num (vrate s a)) (rate_num (vrate s b))) (rate_num (vrate s c))) /\
  (forall s a b c d, vrate s a <> Demand -> vrate s b <> Demand -> vrate s c <> Demand -> vrate s d <> Demand ->
     rate_num (seq_rate s [a; b; c; d]) =
     Z.max (Z.max (Z.max (rate_num (vrate s a)) (rate_num (vrate s b))) (rate_num (vrate s c))) (rate_num (vrate s d))).
Proof. repeat split; [apply bin_rate_max | apply new_bin_unit_rate | apply seq_rate3_max | apply seq_rate4_max]. Qed.

(* Dead code elimination: an effectful unit's _optimize_graph is the identity, and so is that of a
   side-effect-free unit (other than the BinaryOpUGen rewrites) whose descendant set is not empty.
   Full statement (open, needs desc_inv): a unit missing from the emitted graph is pure and no emitted
   unit reads it. *)
Theorem dce_only_pure_unreferenced_partial :
  (forall strict guard sg f s u U, get_unit s u = Some U -> pure U = false -> opt_unit T strict guard sg (S f) s u = Ok s) /\
  (forall strict guard sg f s u U d, get_unit s u = Some U -> pure U = true -> desc_of s U = Some d -> d <> [] ->
     ukind U <> KBin -> opt_unit T strict guard sg (S f) s u = Ok s).
Proof. split; [exact opt_unit_impure | exact opt_unit_referenced]. Qed.

(* every_wellformed_prog_compiles (full statement open; expected form: forall p, typechecks p ->
   exists g, compile T dce_strict p = Ok g).  Proved: the programs in which a dead side-effect-free
   unit reads the same live value twice (DESIGN.md section 6, F10: x = SinOsc.ar(); y = x * x;
   Out.ar(0, x), and two relatives) compile with the removal mode REGENERATED from the working tree.
   This fails to check on a tree whose _perform_dead_code_elimination uses set.remove. *)
Theorem every_wellformed_prog_compiles_partial :
  forallb (compiles dce_strict dce_guard sub_guard) [F10; F10_add; F10_lpf] = true.
Proof. exact f10_current_tree_compiles. Qed.

(* the faithful model of the code with set.remove refutes it (KeyError), with set.discard it holds *)
Example every_wellformed_prog_compiles_refuted_with_remove :
  compile T true false false F10 = Err EKey /\ forallb (compiles false false false) [F10; F10_add; F10_lpf] = true.
Proof. split; [exact (proj1 f10_strict_raises) | exact f10_discard_compiles]. Qed.

(* non-vacuity: the constructors compute, hypotheses are satisfiable *)
Example shortcut_example :
  let s := match build_graph T (mkP [] [] [IU "Saw" Audio [AC 440]]) with Ok s => s | Err _ => st0 end in
  wf_val s (O 0 0) /\
  (exists s' , ctor_bin T s "*" (K (-1)) (O 0 0) = Ok (s', O 1 0)) /\
  ctor_muladd T s (O 0 0) (K 1) (K 0) = Ok (s, O 0 0).
Proof. vm_compute. split; [auto | split; [eexists; reflexivity | reflexivity]]. Qed.
Example sem_test_example : sem_test T false true true (mkP [] [1#2] [
  IU "Saw" Audio [AP true 0]; IU "Saw" Audio [AC 2]; IBin "add" (AV 0 0) (AV 1 0); IBin "add" (AV 2 0) (AV 2 0);
  IUn "neg" (AV 3 0); IBin "sub" (AV 0 0) (AV 4 0); IOut Audio (AC 0) [AV 5 0; AC 0]]) = true.
Proof. vm_compute. reflexivity. Qed.

Print Assumptions ctor_shortcuts_sound.
Print Assumptions rewrite_sound_algebra.
Print Assumptions opcode_table_matches_server.
Print Assumptions op_rate_is_max_input_rate.
Print Assumptions dce_only_pure_unreferenced_partial.
Print Assumptions every_wellformed_prog_compiles_partial.
