(* C20 -- Definition builds are deterministic, isolated and leave no residue.
   Model: model/BuildCtx.v (main._current_synthdef / main._def_build_lock state machine),
   model/Graph.v (`compile` is a Gallina function of the program alone, so the model's
   determinism is definitional; what needs proof is that the one place where the
   implementation consults an unordered collection -- UGen._arrange over the descendant
   set -- cannot leak the enumeration order). *)
From Coq Require Import ZArith List Permutation Bool.
Import ListNotations.
Require Import SC3.model.Graph SC3.model.BuildCtx SC3.gen.Gen_opcodes.
Require Import SC3.proofs.C20_arrange SC3.proofs.C20_ctx.

(* UGen._arrange: `descendants = list(self._descendants); descendants.sort(key=_synth_index);
   for ugen in reversed(descendants): ...` releases the same units in the same order whatever
   order the set is enumerated in (hash seed, addresses), because synth indices are distinct. *)
Theorem arrange_independent_of_set_order : forall (index : nat -> Z) (ds ds' : list nat),
  Permutation ds ds' -> NoDup (map index ds) ->
  arrange_targets index ds = arrange_targets index ds' /\ Permutation (arrange_targets index ds) ds.
Proof. intros; split; [apply arrange_indep; assumption | apply arrange_perm]. Qed.

(* the reader of definitions (SynthDesc._read_synthdef2) resets the context in a `finally:` clause in the
   working tree (regenerated) *)
Lemma read_finally : desc_read_finally = true.
Proof. reflexivity. Qed.
(* SynthDef._build resets the context whatever the graph function raises -- also for a BaseException
   subclass that is not an Exception (regenerated; with `except Exception:` alone this does not check) *)
Lemma build_resets_on_every_exception : build_finally = true.
Proof. reflexivity. Qed.

(* After ANY sequence of builds -- succeeding, raising an Exception (graph function, input checks, the
   optimiser), raising a BaseException that is not an Exception (a user-defined one, SystemExit,
   KeyboardInterrupt) --, description reads (SynthDesc.new_from / read / SynthDef.add) that succeed or raise
   anything, and unit generators created outside builds: the context is None, the lock is free, no build or
   read was ever blocked and every outside unit generator belongs to no definition. *)
Theorem ctx_released_on_every_path : forall evs : list event,
  cur (fst (run build_finally desc_read_finally ctx0 evs)) = None /\
  locked (fst (run build_finally desc_read_finally ctx0 evs)) = false /\
  Forall (fun o => match o with OOutside _ b => b = None | OBlocked _ => False | _ => True end)
         (snd (run build_finally desc_read_finally ctx0 evs)).
Proof.
  intros evs. rewrite read_finally, build_resets_on_every_exception.
  destruct (run_released evs ctx0 eq_refl eq_refl) as (A & B & C).
  split; [exact A|]. split; [exact B|]. eapply Forall_impl; [|exact C]. intros o Ho. destruct o; simpl in *; auto.
Qed.

(* No residue: whatever happened before and after (failed builds with any kind of exception and failed reads
   included), a definition (or the dummy definition of a read) contains exactly the units its own graph
   function created -- i.e. what the same build yields from the initial state. *)
Theorem failed_build_no_residue : forall (evs : list event) e id toks,
  NoDup (build_ids evs) -> In e evs -> ev_toks e = Some (id, toks) ->
  content id (defs (fst (run build_finally desc_read_finally ctx0 evs))) = toks
  /\ content id (defs (fst (run build_finally desc_read_finally ctx0 [e]))) = toks.
Proof.
  intros evs e id toks Hnd Hin Het. rewrite read_finally, build_resets_on_every_exception. split.
  - apply (run_no_residue evs ctx0 eq_refl eq_refl Hnd e id toks Hin Het).
  - apply (run_no_residue [e] ctx0 eq_refl eq_refl) with (e := e).
    + rewrite (ev_toks_ids e id toks Het). constructor; [intros []|constructor].
    + left; reflexivity.
    + exact Het.
Qed.

(* non-vacuity / the model computes *)
Example arrange_example : arrange_targets (fun u => Z.of_nat u) [5; 2; 9] = [9; 5; 2]
                          /\ arrange_targets (fun u => Z.of_nat u) [9; 5; 2] = [9; 5; 2].
Proof. vm_compute. split; reflexivity. Qed.
Example ctx_example :
  run true true ctx0 [EBuild 1 [10; 11] RaisesException; EOutside 12; ERead 3 [15] RaisesBase; EOutside 16;
                 EBuild 2 [13] RaisesBase; EOutside 14]
  = (mkCtx None false [(1, [10; 11]); (3, [15]); (2, [13])],
     [OBuilt 1 RaisesException; OOutside 12 None; OReadDesc 3 RaisesBase; OOutside 16 None;
      OBuilt 2 RaisesBase; OOutside 14 None]).
Proof. vm_compute. reflexivity. Qed.
(* `except Exception:` alone (the code before the fix, bfin = false) is refuted: a BaseException that is not
   an Exception is not caught, the context stays set and later outside units are appended to the dead
   definition. *)
Example base_exception_leaves_residue :
  run false true ctx0 [EBuild 1 [10] RaisesBase; EOutside 12]
  = (mkCtx (Some 1) false [(1, [10; 12])], [OBuilt 1 RaisesBase; OOutside 12 (Some 1)]).
Proof. vm_compute. reflexivity. Qed.

Print Assumptions arrange_independent_of_set_order.
Print Assumptions ctx_released_on_every_path.
Print Assumptions failed_build_no_residue.

(* a reader that resets the context only at the end of the try body (not in `finally:`) leaks it *)
Example read_without_finally_leaves_residue :
  run true false ctx0 [ERead 1 [10] RaisesBase; EOutside 12]
  = (mkCtx (Some 1) false [(1, [10; 12])], [OReadDesc 1 RaisesBase; OOutside 12 (Some 1)]).
Proof. vm_compute. reflexivity. Qed.
