(* C08 -- Real-time clocks wake every task once, on time, in order, and survive errors.
   Models: SC3.model.RtClock
     system 1 = SystemClock / TempoClock  (_run, _sched_add, clear, _stop, tempo setter; one lock),
     system 2 = AppClock (_run / _tick / sched / _stop; two locks), variants VOrig (clock.py as it
                is) and VFlag (proposed repair build/proposed_fixes/C08_appclock_lost_notify.diff).
   An EXECUTION is any event list accepted from the initial state ([run (init k m) evs = Some s],
   [accepts k m evs = true]): the events carry every oracle (physical time reads, wake-up causes
   incl. spurious, task results incl. exceptions, the clients' choices and their interleaving),
   so the theorems quantify over all interleavings, all time oracles and all sets of raising tasks.

   PARTIAL (claimed): the theorems are about the library's lock/notify protocol.  Liveness under
   real OS scheduling (a notified or timed-out thread does run; timers fire on time) and the
   atomicity of threading.RLock/Condition are assumptions, not theorems. *)
From Coq Require Import QArith ZArith List Bool Arith.
Import ListNotations.
Require Import SC3.model.TaskQ SC3.model.RtClock.
Require Import SC3.proofs.C09_order SC3.proofs.C08_sys SC3.proofs.C08_facts SC3.proofs.C08_mon
  SC3.proofs.C08_app SC3.proofs.C08_progress SC3.proofs.C08_retime.
Local Open Scope Q_scope.

(* ========================= SystemClock / TempoClock ========================================= *)

(* every pop (= awake) happens at a time reading nb -- converted to beats by the tempo map in
   force at the reading -- with scheduled time <= nb; physical time is non-decreasing, so the
   task never runs before its time *)
Theorem never_early : forall k m evs,
  accepts k m evs = true -> mon_never_early m None evs = true.
Proof. exact never_early_accepts. Qed.

(* on the trace: a pop consumes a pending scheduling of that task at that time (a scheduling is
   pending from its add until a pop, a re-add of the same task, clear or stop), is followed by
   exactly one awake of that task before the next pop, and every awake follows its pop.
   "At least once" is liveness: see no_oversleep and the PARTIAL note. *)
Theorem exactly_once_per_scheduling : forall k m evs,
  accepts k m evs = true -> mon_once [] 0 None evs = true.
Proof. exact once_accepts. Qed.

(* a pop removes the head of the queue: ready (time <= the time reading of loop 2), minimal in
   time, and among equal times the one scheduled first (seq) *)
Theorem ready_popped_in_time_then_fifo_order : forall k m evs s t tk s',
  run (init k m) evs = Some s -> step s (EPop t tk) = Some s' ->
  exists h nb, c_q s = h :: c_q s' /\ itask h = tk /\ t == itime h /\
    c_pc s = PLoop3 nb /\ itime h <= nb /\
    forall x, In x (c_q s') -> ~ klt (ikey x) (ikey h).
Proof.
  intros k m evs s t tk s' HR HS. apply (pop_is_minimum s t tk s'); [| exact HS].
  apply (qinv_run evs (init k m) s); [apply qinv_init | exact HR].
Qed.

(* whenever no client is in the middle of an operation: a thread waiting without timeout has an
   empty queue or has been notified; a thread sleeping until d has not been notified only if
   d is exactly the head's time under the CURRENT tempo map.  Guard: scheduled times above the
   -1e10 sentinel of _sched_add (see sentinel_not_notified). *)
Theorem no_oversleep : forall k m evs s,
  Forall above_sentinel evs -> run (init k m) evs = Some s -> c_pend s = NoPend ->
  (c_pc s = PWaitEmpty -> c_q s <> [] -> c_notified s = true) /\
  (forall d, c_pc s = PSleeping d -> c_notified s = false ->
     exists h r, c_q s = h :: r /\ d == beats2secs (c_map s) (itime h)).
Proof. exact no_oversleep_prop. Qed.

(* the form of DESIGN.md *)
Theorem no_oversleep_head_not_before_deadline : forall k m evs s d h r,
  Forall above_sentinel evs -> run (init k m) evs = Some s -> c_pend s = NoPend ->
  c_pc s = PSleeping d -> c_q s = h :: r ->
  d <= beats2secs (c_map s) (itime h) \/ c_notified s = true.
Proof. exact no_oversleep_design. Qed.

(* without the guard the statement is false: a task scheduled at exactly -1e10 into an empty
   queue is not notified (prev_time = -1e10 compares equal) *)
Theorem sentinel_not_notified :
  exists s, run (init KSys tm_id) [EWaitBegin None; EAdd sentinel 1%Z] = Some s /\
    c_pc s = PWaitEmpty /\ c_q s <> [] /\ c_pend s = NoPend /\ c_notified s = false.
Proof. eexists. vm_compute. repeat split; try reflexivity. discriminate. Qed.

(* a numeric result d re-schedules at (scheduled time + d), whatever the physical time is *)
Theorem resched_relative_to_scheduled : forall k m evs,
  accepts k m evs = true -> mon_resched 0 evs = true.
Proof. exact resched_accepts. Qed.

Theorem resched_relative_to_scheduled_step : forall s k d s1 e s2,
  step s (EAwakeEnd k (RDelta d)) = Some s1 -> step s1 e = Some s2 ->
  exists nb t t', c_pc s = PAwake nb t k /\ e = EAdd t' k /\ t' == t + d /\
    c_q s2 = q_add t' k (c_q s) (c_n s).
Proof. exact resched_next_step. Qed.

(* clear() and stop leave nothing pending; after stop no task is ever popped again *)
Theorem clear_stop_cancel_all :
  (forall s s', step s (ENotify SClear) = Some s' -> c_q s' = []) /\
  (forall s s', step s EQClear = Some s' -> c_q s' = [] /\ c_run s' = false) /\
  (forall s e s', c_run s = false -> step s e = Some s' -> c_run s' = false) /\
  (forall k m evs s t tk, run (init k m) evs = Some s -> c_run s = false -> step s (EPop t tk) = None).
Proof.
  split; [exact clear_cancels |]. split; [exact stop_cancels |].
  split; [exact run_flag_stays | exact stopped_no_pop].
Qed.

(* an exception raised by a task: same state as a task returning a non-number; the thread is
   back at the test of loop 3 with the queue untouched *)
Theorem exception_isolated :
  (forall s k, step s (EAwakeEnd k RRaise) = step s (EAwakeEnd k ROther)) /\
  (forall s k evs, run s (EAwakeEnd k RRaise :: evs) = run s (EAwakeEnd k ROther :: evs)) /\
  (forall s k s', step s (EAwakeEnd k RRaise) = Some s' ->
     exists nb t, c_pc s = PAwake nb t k /\ c_pc s' = PLoop3 nb /\ c_q s' = c_q s /\ c_run s' = c_run s).
Proof.
  split; [exact raise_is_other |]. split; [exact raise_is_other_run | exact raise_continues].
Qed.

(* sched(d) issued by a thread that is not a clock thread is relative to the physical present
   (the logical now of the main time thread is the physical time read at the call): the add that
   follows is at secs2beats(base) + d.  In particular the time base cannot be a stale scheduled time
   left over from an earlier awake (e.g. of a task that raised). *)
Theorem sched_from_non_clock_thread_relative_to_physical_now :
  (forall k m evs, accepts k m evs = true -> mon_sched_base m evs = true) /\
  (forall s base d s1 e s2, step s (ESchedCall base d) = Some s1 -> step s1 e = Some s2 ->
     exists t k, e = EAdd t k /\ t == secs2beats (c_map s) base + d /\
       c_q s2 = q_add t k (c_q s) (c_n s) /\ main_time_frozen s = false).
Proof. split; [exact sched_base_accepts | exact sched_call_next_step]. Qed.

(* main._in_awake_call (which freezes the main thread's logical time) is set exactly while the clock
   thread is inside task.__awake__: it is reset on EVERY exit path -- plain return, numeric return,
   StopStream, any other exception -- so it is never set while the thread waits or tests a loop *)
Theorem main_time_frozen_only_inside_awake :
  (forall s k r s', step s (EAwakeEnd k r) = Some s' ->
     main_time_frozen s = true /\ main_time_frozen s' = false) /\
  (forall s, main_time_frozen s = true -> exists nb t k, c_pc s = PAwake nb t k).
Proof. split; [exact frozen_reset_on_every_exit | exact frozen_only_in_awake]. Qed.

(* every tempo / beat changing entry point of TempoClock (tempo setter, etempo, beats setter; [retime] is their
   code line by line) keeps the beat count continuous at its anchor -- the caller's logical time for tempo and
   beats, the physical present for etempo -- so a pending beat b lands at anchor + (b - beats at the anchor) / v:
   with v > 0 nothing that is still ahead at the anchor becomes due before the anchor.  (That the running clock
   uses exactly these maps is checked on every trace by mon_retime.) *)
Theorem tempo_changes_are_continuous_at_their_anchor :
  (forall m a v, ~ tm_tempo m == 0 ->
     secs2beats (retime RTempo m a v) a == secs2beats m a /\
     secs2beats (retime REtempo m a v) a == secs2beats m a /\
     secs2beats (retime RBeats m a v) a == v) /\
  (forall k m a v b, ~ tm_tempo m == 0 -> ~ v == 0 -> k <> RBeats ->
     beats2secs (retime k m a v) b == a + (b - secs2beats m a) / v) /\
  (forall k m a v b, ~ tm_tempo m == 0 -> 0 < v -> k <> RBeats ->
     secs2beats m a <= b -> a <= beats2secs (retime k m a v) b) /\
  (forall m a v b, ~ tm_tempo m == 0 -> beats2secs (retime RBeats m a v) b == a + (b - v) / tm_tempo m).
Proof.
  split; [exact retime_continuous |]. split; [exact retime_deadline |].
  split; [exact retime_not_before_anchor | exact retime_beats_deadline].
Qed.

(* ------------------------- progress ("every task ... is awakened") ------------------------------
   Liveness proper needs the OS: a notified or timed-out wait returns, the time read advances,
   tasks return.  Those are the oracle; under them the protocol itself makes progress: *)

(* (1) the clock thread is never stuck: in every reachable state in which no client is in the
   middle of an operation and the thread has not returned, the event [next_clock_event] (the
   thread is deterministic up to the oracle values t, c, r) is enabled, whatever the oracle says *)
Theorem clock_thread_never_stuck : forall k m evs s t c r,
  run (init k m) evs = Some s -> c_pend s = NoPend -> c_pc s <> PExited -> c_last s <= t ->
  exists e s', next_clock_event s t c r = Some e /\ step s e = Some s'.
Proof. exact clock_never_stuck. Qed.

(* (2) it goes to sleep only when nothing is due: a wait without timeout starts on an empty queue;
   a timed wait starts when the earliest pending task (the (time, seq) minimum) was not yet due
   at a time reading t0 of this very loop iteration *)
Theorem sleeps_only_when_nothing_is_due : forall k m evs s to s',
  run (init k m) evs = Some s -> step s (EWaitBegin to) = Some s' ->
  match to with
  | None => c_q s = []
  | Some _ => exists h r t0, c_q s = h :: r /\ t0 <= c_last s /\
                secs2beats (c_map s) t0 < itime h /\
                forall x, In x r -> ~ klt (ikey x) (ikey h)
  end.
Proof. exact sleep_only_when_nothing_due. Qed.

(* (3) bounded progress under the fair oracle: the thread sleeps, the clock runs; the wait returns
   (any cause), the time read t has reached every pending time, every task returns a non-number and
   no client interferes: then the run [drain_events] is the continuation -- 2 + 2 * |queue| + 1 events --
   it pops and awakens EVERY pending task exactly once, in queue ((time, seq)) order, and ends waiting
   on an empty queue.  Together with no_oversleep (the deadline slept on is the head's time, or a
   notify is on its way) this is "every finite-delay task is eventually awakened". *)
Theorem fair_run_awakens_every_pending_task : forall s c t,
  waiting (c_pc s) = true -> c_pend s = NoPend -> c_run s = true -> c_q s <> [] ->
  c_last s <= t -> Forall (fun x => itime x <= secs2beats (c_map s) t) (c_q s) ->
  (exists s', run s (drain_events c t (c_q s)) = Some s' /\
     c_q s' = [] /\ c_pc s' = PWaitEmpty /\ c_pend s' = NoPend /\ c_run s' = true /\ c_map s' = c_map s) /\
  filter (fun e => match e with EPop _ _ => true | _ => false end) (drain_events c t (c_q s))
    = map (fun x => EPop (itime x) (itask x)) (c_q s).
Proof.
  intros s c t H1 H2 H3 H4 H5 H6. split; [apply fair_run_drains; assumption | apply drain_pops_each_once].
Qed.

(* ========================= AppClock =========================================================== *)

(* F13: the faithful model oversleeps.  Tick on an empty queue; a complete sched() lands between
   the two with-blocks; the notify finds no waiter; the thread waits without timeout while the
   task is queued, nobody is about to notify, and the clock is running. *)
Theorem appclock_no_oversleep_refuted :
  exists s, arun (ainit VOrig) f13_witness = Some s /\
    a_pc s = AWaiting None /\ a_q s = [((1 # 20), 0%nat, 7%Z)] /\
    a_notified s = false /\ a_owed s = 0%nat /\ a_run s = true /\
    a_oversleep_free s = false.
Proof. exact f13_refuted. Qed.

(* with the proposed repair the invariant holds on every execution: sleeping with a deadline later
   than the earliest task (or none) implies a delivered notify, a client between its two critical
   sections, or a stopped clock *)
Theorem appclock_fixed_no_oversleep : forall evs s,
  arun (ainit VFlag) evs = Some s -> a_oversleep_free s = true.
Proof. exact fixed_no_oversleep. Qed.

(* only items with time <= the tick's reading are popped (both variants) *)
Theorem appclock_never_early : forall s t k s', astep s (APop t k) = Some s' ->
  exists now acc h r, a_norm (a_q s) (a_pc s) = ACollect now acc /\ a_q s = h :: r /\ a_q s' = r /\
    itask h = k /\ t == itime h /\ itime h <= now /\ a_pc s' = ACollect now (acc ++ [h]).
Proof. exact app_pop_due. Qed.

(* AppClock drifts by design: a numeric result d re-schedules at (fresh physical time + d) *)
Theorem appclock_resched_relative_to_present :
  (forall s k d s1, astep s (AAwakeEnd k (RDelta d)) = Some s1 ->
     exists now todo, a_pc s1 = AReaddT now d k todo /\ a_q s1 = a_q s /\ a_n s1 = a_n s) /\
  (forall s now d k todo e s', a_pc s = AReaddT now d k todo -> astep s e = Some s' ->
     (tick_lock_event e /\ a_pc s' = a_pc s /\ a_q s' = a_q s /\ a_n s' = a_n s) \/
     (exists t', e = ATime t' /\ a_last s <= t' /\ a_pc s' = AReadd now (t' + d) k todo /\
                 a_q s' = a_q s /\ a_n s' = a_n s)) /\
  (forall s now tm k todo e s', a_pc s = AReadd now tm k todo -> astep s e = Some s' ->
     (tick_lock_event e /\ a_pc s' = a_pc s /\ a_q s' = a_q s /\ a_n s' = a_n s) \/
     (exists t'', e = AAdd t'' k /\ t'' == tm /\ a_q s' = q_add tm k (a_q s) (a_n s))).
Proof. split; [exact app_resched_1 |]. split; [exact app_resched_2 | exact app_resched_3]. Qed.

Theorem appclock_exception_isolated : forall s k,
  astep s (AAwakeEnd k RRaise) = astep s (AAwakeEnd k ROther).
Proof. exact app_raise_is_other. Qed.

(* AppClock order: a tick pops (time, seq)-minima that are due, collects them in pop order, wakes the
   first collected first and, after each wake-up, the next collected one (the queue is sorted in every
   reachable state of both variants) *)
Theorem appclock_tick_pops_and_wakes_in_order :
  (forall v evs s t k s', arun (ainit v) evs = Some s -> astep s (APop t k) = Some s' ->
     exists now acc h, a_q s = h :: a_q s' /\ itask h = k /\ t == itime h /\ itime h <= now /\
       a_pc s' = ACollect now (acc ++ [h]) /\ forall x, In x (a_q s') -> ~ klt (ikey x) (ikey h)) /\
  (forall s k r s', astep s (AAwakeEnd k r) = Some s' ->
     exists now x todo, a_norm (a_q s) (a_pc s) = AAwk now x todo /\ itask x = k /\
       match r with
       | RDelta d => a_pc s' = AReaddT now d k todo
       | _ => a_pc s' = match todo with [] => ATickDone now | y :: rest => AAwk now y rest end
       end).
Proof. split; [exact app_pop_minimum | exact app_wake_order]. Qed.

(* AppClock clear pops the head each time; stop sets the flag for good; a stopped clock never starts a
   wait again and leaves at its next pass through the second block *)
Theorem appclock_clear_stop :
  (forall s t k s', astep s (AClearPop t k) = Some s' ->
     exists h, a_q s = h :: a_q s' /\ itask h = k /\ t == itime h) /\
  (forall s s', astep s AStop = Some s' -> a_run s' = false) /\
  (forall s e s', a_run s = false -> astep s e = Some s' -> a_run s' = false) /\
  (forall s to, a_run s = false -> astep s (AWaitBegin to) = None) /\
  (forall s s', a_run s = false -> astep s ACondExit = Some s' -> a_pc s' = AExited \/ a_pc s' = APre).
Proof.
  split; [exact app_clear_pops_head |]. split; [exact app_stop_sets_flag |].
  split; [exact app_run_stays_false |]. split; [exact app_stopped_no_wait | exact app_stopped_exits].
Qed.

(* ========================= non-vacuity ========================================================= *)
(* SystemClock: A at 1/2, B at 1/4 scheduled while the thread sleeps until 1/2 (notify: the head
   changed), C at 1/4 (no notify: head time unchanged; FIFO after B); wake-up, time 1/4: B runs
   and returns 1/8 (re-added at 3/8 = 1/4 + 1/8 although nothing was read after 1/4), C raises,
   the thread sleeps until 3/8; clear. *)
Definition ex_trace : list event :=
  [EWaitBegin None; EAdd (1 # 2) 1%Z; ENotify SSched; EWaitEnd CNotified; ETime 0;
   EWaitBegin (Some (1 # 2));
   EAdd (1 # 4) 2%Z; ENotify SSched; EAdd (1 # 4) 3%Z;
   EWaitEnd CNotified; ETime (1 # 4);
   EPop (1 # 4) 2%Z; EAwakeEnd 2%Z (RDelta (1 # 8)); EAdd (3 # 8) 2%Z;
   EPop (1 # 4) 3%Z; EAwakeEnd 3%Z RRaise;
   ETime (1 # 4); EWaitBegin (Some (1 # 8));
   EClearPop (3 # 8) 2%Z; EClearPop (1 # 2) 1%Z; ENotify SClear].

Example ex_trace_accepted :
  accepts KSys tm_id ex_trace = true /\ accepts_quiescent KSys tm_id ex_trace = true /\
  Forall above_sentinel ex_trace /\
  mon_notify [] 0 ex_trace = true /\ mon_no_oversleep (init KSys tm_id) ex_trace = true.
Proof.
  split; [vm_compute; reflexivity |]. split; [vm_compute; reflexivity |].
  split; [| split; vm_compute; reflexivity].
  repeat constructor; unfold above_sentinel, sentinel; reflexivity.
Qed.

(* a notify that the code does not issue, a pop before the time, a missing re-add: rejected *)
Example ex_rejected :
  accepts KSys tm_id [EWaitBegin None; EAdd (1 # 2) 1%Z; EWaitEnd CTimeout] = false /\
  accepts KSys tm_id [EWaitBegin None; EAdd (1 # 2) 1%Z; ENotify SSched; EWaitEnd CNotified;
                      ETime (1 # 4); EPop (1 # 2) 1%Z] = false /\
  accepts KSys tm_id [EWaitBegin None; EAdd (1 # 2) 1%Z; ENotify SSched; EWaitEnd CNotified;
                      ETime (1 # 2); EPop (1 # 2) 1%Z; EAwakeEnd 1%Z (RDelta 1); ETime 1] = false.
Proof. repeat split; vm_compute; reflexivity. Qed.

(* TempoClock at tempo 2: task at beat 1 (= 1/2 s); while the thread sleeps until 1/2 s the
   tempo is set to 4 at beat 1/2 (1/4 s): notified, the new deadline is 3/8 s *)
Definition ex_tempo : list event :=
  [EWaitBegin None; EAdd 1 1%Z; ENotify SSched; EWaitEnd CNotified; ETime 0; ETime 0;
   EWaitBegin (Some (1 # 2));
   ETempo (mkTM 4 (1 # 4) (1 # 2)); ENotify STempo;
   EWaitEnd CNotified; ETime (1 # 4); ETime (1 # 4); EWaitBegin (Some (1 # 8));
   EWaitEnd CTimeout; ETime (3 # 8); EPop 1 1%Z; EAwakeEnd 1%Z ROther; EWaitBegin None].
Example ex_tempo_accepted :
  accepts_quiescent KTempo (mkTM 2 0 0) ex_tempo = true /\
  mon_never_early (mkTM 2 0 0) None ex_tempo = true /\
  mon_no_oversleep (init KTempo (mkTM 2 0 0)) ex_tempo = true.
Proof. repeat split; vm_compute; reflexivity. Qed.

(* a tempo change that is not followed by the notify of the clock's condition (whoever the caller
   is: the clock's own task, a task of another clock, any other thread) is not a behaviour *)
Example ex_tempo_without_notify_rejected :
  accepts KTempo (mkTM 2 0 0)
    [EWaitBegin None; EAdd 1 1%Z; ENotify SSched; EWaitEnd CNotified; ETime 0; ETime 0;
     EWaitBegin (Some (1 # 2)); ETempo (mkTM 4 (1 # 4) (1 # 2)); EWaitEnd CTimeout] = false /\
  mon_notify [] 0
    [EWaitBegin None; EAdd 1 1%Z; ENotify SSched; EWaitEnd CNotified; ETime 0; ETime 0;
     EWaitBegin (Some (1 # 2)); ETempo (mkTM 4 (1 # 4) (1 # 2)); EWaitEnd CTimeout] = false.
Proof. split; vm_compute; reflexivity. Qed.

(* task 1 raises at 1/8; quiet; at physical 1/2 the main thread calls sched(1/4, task 2): the add must
   be at 3/4 -- an add at 3/8 (= the raising task's scheduled time + 1/4: stale time base) is rejected *)
Definition ex_after_raise (t : Q) : list event :=
  [EWaitBegin None; ESchedCall 0 (1 # 8); EAdd (1 # 8) 1%Z; ENotify SSched; EWaitEnd CNotified; ETime 0;
   EWaitBegin (Some (1 # 8)); EWaitEnd CTimeout; ETime (1 # 8); EPop (1 # 8) 1%Z; EAwakeEnd 1%Z RRaise;
   EWaitBegin None; ESchedCall (1 # 2) (1 # 4); EAdd t 2%Z; ENotify SSched].
Example ex_after_raise_base :
  accepts_quiescent KSys tm_id (ex_after_raise (3 # 4)) = true /\
  mon_sched_base tm_id (ex_after_raise (3 # 4)) = true /\
  accepts KSys tm_id (ex_after_raise (3 # 8)) = false /\
  mon_sched_base tm_id (ex_after_raise (3 # 8)) = false.
Proof. repeat split; vm_compute; reflexivity. Qed.

(* progress: the state after the first 9 events of ex_trace (sleeping until 1/2, queue B C A, B and C at 1/4,
   A at 1/2) satisfies the hypotheses of the fair-run theorem for t = 1/2; the drain run has 9 events *)
Example ex_fair_run :
  exists s s', run (init KSys tm_id) (firstn 9 ex_trace) = Some s /\
    waiting (c_pc s) = true /\ c_pend s = NoPend /\ c_run s = true /\ length (c_q s) = 3%nat /\
    run s (drain_events CTimeout (1 # 2) (c_q s)) = Some s' /\ c_q s' = [] /\
    drain_events CTimeout (1 # 2) (c_q s) =
      [EWaitEnd CTimeout; ETime (1 # 2); EPop (1 # 4) 2%Z; EAwakeEnd 2%Z ROther; EPop (1 # 4) 3%Z; EAwakeEnd 3%Z ROther;
       EPop (1 # 2) 1%Z; EAwakeEnd 1%Z ROther; EWaitBegin None] /\
    next_clock_event s (1 # 2) CTimeout ROther = Some (EWaitEnd CTimeout).
Proof. eexists. eexists. vm_compute. repeat split; reflexivity. Qed.

(* tempo 1 since 0; at 1/2 s etempo(2): the map is (2, 1/2, 1/2), beat 1 lands at 3/4 s.  Converting the elapsed
   beats with the NEW tempo (base beat 1 instead of 1/2) is not what etempo computes: beat 1 would be due at once. *)
Example ex_retime :
  tmap_eqb (retime REtempo (mkTM 1 0 0) (1 # 2) 2) (mkTM 2 (1 # 2) (1 # 2)) = true /\
  Qeq_bool (beats2secs (retime REtempo (mkTM 1 0 0) (1 # 2) 2) 1) (3 # 4) = true /\
  tmap_eqb (mkTM 2 (1 # 2) 1) (retime REtempo (mkTM 1 0 0) (1 # 2) 2) = false /\
  mon_retime (mkTM 1 0 0) [(REtempo, (1 # 2), 2)] [ETempo (mkTM 2 (1 # 2) (1 # 2)); ENotify STempo] = true /\
  mon_retime (mkTM 1 0 0) [(REtempo, (1 # 2), 2)] [ETempo (mkTM 2 (1 # 2) 1); ENotify STempo] = false.
Proof. repeat split; vm_compute; reflexivity. Qed.

(* the hypotheses of ready_popped_in_time_then_fifo_order and of the resched step are met *)
Example ex_pop_step :
  exists s s', run (init KSys tm_id) (firstn 11 ex_trace) = Some s /\
    step s (EPop (1 # 4) 2%Z) = Some s' /\ length (c_q s) = 3%nat.
Proof. eexists. eexists. vm_compute. repeat split; reflexivity. Qed.

(* AppClock: both variants accept an ordinary run; the repaired one accepts the skipped wait *)
Definition ex_app : list aevent :=
  [ATickBegin; ATime 0; ATickEnd; ACondEnter; AWaitBegin None;
   ATime (1 # 8); AAdd (1 # 4) 5%Z; ANotify; AWaitEnd CNotified; ACondExit;
   ATickBegin; ATime (1 # 8); ATickEnd; ACondEnter; AWaitBegin (Some (1 # 8)); AWaitEnd CTimeout; ACondExit;
   ATickBegin; ATime (1 # 4); APop (1 # 4) 5%Z; AAwakeEnd 5%Z (RDelta (1 # 8)); ATime (5 # 16);
   AAdd (7 # 16) 5%Z; ATickEnd; ACondEnter; AWaitBegin (Some (3 # 16))].
Example ex_app_accepted :
  a_accepts_quiescent VOrig ex_app = true /\ a_accepts_quiescent VFlag ex_app = true /\
  a_mon_never_early None false ex_app = true /\ a_mon_resched None ex_app = true /\
  a_mon_once [] 0 [] ex_app = true /\ a_mon_no_oversleep (ainit VOrig) ex_app = true /\
  a_mon_no_oversleep (ainit VOrig) f13_witness = false /\
  a_accepts VFlag f13_witness = false /\ a_accepts_quiescent VFlag f13_fixed_path = true.
Proof. repeat split; vm_compute; reflexivity. Qed.

Print Assumptions never_early.
Print Assumptions exactly_once_per_scheduling.
Print Assumptions ready_popped_in_time_then_fifo_order.
Print Assumptions no_oversleep.
Print Assumptions resched_relative_to_scheduled.
Print Assumptions clear_stop_cancel_all.
Print Assumptions exception_isolated.
Print Assumptions appclock_no_oversleep_refuted.
Print Assumptions appclock_fixed_no_oversleep.
Print Assumptions sched_from_non_clock_thread_relative_to_physical_now.
Print Assumptions main_time_frozen_only_inside_awake.
Print Assumptions clock_thread_never_stuck.
Print Assumptions sleeps_only_when_nothing_is_due.
Print Assumptions fair_run_awakens_every_pending_task.
Print Assumptions appclock_tick_pops_and_wakes_in_order.
Print Assumptions appclock_clear_stop.
Print Assumptions tempo_changes_are_continuous_at_their_anchor.
