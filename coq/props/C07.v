(* C07 -- Bundles are stamped with logical time plus latency; scores are ordered.
   Property theorems only.  Models: model/KProg.v (stamping kernels), model/KNrt.v (NRT semantics
   and the score), model/KRt.v (RT transition system driven by an oracle).
   "repaired" = the behaviour after the proposed fixes (build/proposed_fixes/C07_F17_*.diff);
   "as_found" = the behaviour of the unpatched code, kept to state the refutation. *)
From Coq Require Import ZArith QArith Qround List Bool.
Require Import SC3.model.Osc SC3.proofs.C06_roundtrip.
Require Import SC3.model.KProg SC3.model.KNrt SC3.model.KRt SC3.model.KScore.
Require Import SC3.proofs.C05_frame SC3.proofs.C07_stamp SC3.proofs.C07_runs SC3.proofs.C07_props SC3.proofs.C07_raw SC3.proofs.C07_rawdom.
Import ListNotations.
Open Scope Q_scope.

(* NRT, every program, every prefix of the run (any fuel), as-found or repaired code: a bundle sent
   by routine rid during its k-th resumption is stamped from the logical time T the routine observed
   at that resumption: due time T + latency, timetag int((latency + T) * 2^32). *)
Theorem stamp_is_logical_plus_latency : forall qk p fuel rid k T lat es sb,
  let st := nrt_loop qk p fuel (nrt_main qk p) in
  In (EvSend (Some (rid, k)) T lat es (Some sb)) (n_log st) ->
  (exists c b, In (EvResume rid k c T b) (n_log st)) /\
  exists t ss, sb = SBundle false t (Qtrunc ((lat_val lat + T) * two32)) ss /\ t == T + lat_val lat.
Proof. exact nrt_stamp_inside. Qed.

(* RT, every program, EVERY oracle (interleaving and physical clock readings): the timetag is the
   routine's logical time plus the latency, converted by elapsed_time_to_osc -- the physical send
   instant does not occur in it. *)
Theorem stamp_is_logical_plus_latency_rt : forall off p sched rid k T l es sb, 0 <= l ->
  let st := rs (rt_run off p sched) in
  In (EvSend (Some (rid, k)) T (Some l) es (Some sb)) (n_log st) ->
  (exists c b, In (EvResume rid k c T b) (n_log st)) /\
  exists t ss, sb = SBundle false t (elapsed_to_osc off (l + T)) ss /\ t == T + l.
Proof. exact rt_stamp_inside. Qed.

(* RT, outside routines: the step that sends reads the physical clock (now) and stamps now + latency *)
Theorem stamp_outside_is_now_plus_latency : forall off p s t a rest T0 l es sb, 0 <= l ->
  rs_tempos s = [] -> rs_main s = a :: rest ->
  In (EvSend None T0 (Some l) es (Some sb)) (n_log (rs (rt_step off p s (ChTop t)))) ->
  ~ In (EvSend None T0 (Some l) es (Some sb)) (n_log (rs s)) ->
  T0 = advance (rs_now s) t /\
  exists tt ss, sb = SBundle false tt (elapsed_to_osc off (l + advance (rs_now s) t)) ss /\ tt == advance (rs_now s) t + l.
Proof. exact rt_stamp_outside. Qed.

(* latency None or below zero: RT timetag IMMEDIATELY (1); NRT: no latency at all *)
Theorem none_or_negative_is_immediately : forall T lat es,
  lat_immediate lat = true ->
  (forall off sb, stamp_bundle (MRt off) T lat es = Some sb -> exists t ss, sb = SBundle true t 1 ss) /\
  (forall inside sb, stamp_bundle (MNrt inside) T lat es = Some sb ->
     exists t g ss, sb = SBundle false t g ss /\ t == (if inside then T else 0)).
Proof. exact immediate_stamp. Qed.

(* nested bundles (any depth) are stamped from their own latency and the SAME send instant, and
   none precedes its parent; a nested bundle that would precede its parent makes the send raise.
   Both modes. *)
Theorem nested_same_instant_not_before_parent : forall md T lat es,
  (forall sb, stamp_bundle md T lat es = Some sb -> stamped md T (EBundle lat es) sb /\ nest_ok sb) /\
  (forall l sub rest, es = EBundle l sub :: rest -> check_subtime lat l = false -> stamp_bundle md T lat es = None).
Proof. exact nested_stamp. Qed.

(* the score is ordered by time and, within equal times, by send order (insertion count) *)
Theorem score_sorted_stable : forall qk p fuel,
  ksorted s_time s_cnt (n_score (nrt_run qk p fuel)) /\
  (forall s, In s (n_score (nrt_run qk p fuel)) -> (s_cnt s < n_scnt (nrt_run qk p fuel))%nat).
Proof. exact nrt_score_sorted. Qed.

(* the score lists every bundle sent, at exactly logical time + latency inside routines and at the
   latency itself (absolute from zero) outside; and nothing else but the root-node bundle *)
Theorem score_times_exact : forall qk p fuel,
  let st := nrt_loop qk p fuel (nrt_main qk p) in
  (forall o T lat es sb, In (EvSend o T lat es (Some sb)) (n_log st) ->
     exists s, In s (n_score st) /\ s_b s = sb /\
               s_time s == (lat_val lat + match o with Some _ => T | None => 0 end)) /\
  (forall s, In s (n_score st) ->
     (s_cnt s = 0%nat /\ s_time s == 0 /\ s_b s = SBundle false 0 0 [SMsg gnew_msg]) \/
     exists o T lat es, In (EvSend o T lat es (Some (s_b s))) (n_log st) /\
                        s_time s == (lat_val lat + match o with Some _ => T | None => 0 end)).
Proof. exact nrt_score_exact. Qed.

(* repaired finish(): the score closes with the tail-time marker, no bundle is later *)
Theorem score_ends_with_tail_marker : forall p fuel,
  let st0 := nrt_loop repaired p fuel (nrt_main repaired p) in
  exists t g, n_score (nrt_run repaired p fuel) =
              n_score st0 ++ [mkS t (n_scnt st0) (SBundle false t g [SMsg cset_msg])]
    /\ t == Qmaxq (p_tail p + n_mtime st0) (score_last_time (n_score st0))
    /\ (forall s, In s (n_score st0) -> s_time s <= t)
    /\ g = Qtrunc (t * two32).
Proof. exact nrt_tail_marker. Qed.

(* the code as found does not have this property (F17): a routine sends a bundle with latency 1/2
   at time 0 and one with latency 0 at 1/4; the marker lands at 1/4, before the 1/2 bundle *)
Theorem score_ends_with_tail_marker_as_found_refuted :
  nrt_completed as_found f17_prog 10 = true /\
  exists init s, n_score (nrt_run as_found f17_prog 10) = init ++ [s] /\ s_b s <> SBundle false (s_time s) (Qtrunc (s_time s * two32)) [SMsg cset_msg]
                 /\ exists m, In m init /\ s_b m = SBundle false (1#4) 1073741824 [SMsg cset_msg] /\ s_time m < s_time s.
Proof. exact f17_refuted. Qed.

(* the raw form for ANY encoder enc (opaque here): concatenation, in score order, of the length-prefixed
   encodings, and its length law.  This is the model's definition unfolded (it was the stand-in named
   *_partial); the property clause itself -- with the PROVED OSC encoder of C06, unique decodability and
   decoding back to the list view -- is raw_is_concat_of_prefixed_encodings below. *)
Theorem raw_concat_any_encoder : forall (enc : selem -> list Z) qk p fuel,
  score_raw enc (n_score (nrt_run qk p fuel)) =
    concat (map (fun s => be32 (length (enc (s_b s))) ++ enc (s_b s)) (n_score (nrt_run qk p fuel))) /\
  length (score_raw enc (n_score (nrt_run qk p fuel))) =
    fold_right (fun s n => (4 + length (enc (s_b s)) + n)%nat) 0%nat (n_score (nrt_run qk p fuel)).
Proof. exact raw_concat. Qed.

(* incoming timetags: osc_to_elapsed_time (elapsed_time_to_osc t) is t truncated to a timetag unit *)
Theorem incoming_time_conversion_inverse : forall off t, 0 <= t ->
  osc_to_elapsed off (elapsed_to_osc off t) <= t /\ t < osc_to_elapsed off (elapsed_to_osc off t) + 1 / two32.
Proof. exact osc_roundtrip. Qed.
Theorem incoming_time_conversion_inverse_on_grid : forall off z, (0 <= z)%Z ->
  osc_to_elapsed off (elapsed_to_osc off (inject_Z z / two32)) == inject_Z z / two32.
Proof. exact osc_roundtrip_exact. Qed.

(* non-vacuity: a nested program runs to completion and its score is the expected one *)
Example c07_example :
  let p := mkProg [] [[SendBundle (Some (1#2)) [EMsg 3; EBundle (Some (3#4)) [EMsg 4]]; Yield (1#4); Send None 5]]
                  [Play 0 CSystem; Send (Some (3#4)) 9] 0 in
  nrt_completed repaired p 10 = true /\
  map (fun s => (Qred (s_time s), s_cnt s)) (n_score (nrt_run repaired p 10)) =
    [(0, 0%nat); (1#4, 3%nat); (1#2, 2%nat); (3#4, 1%nat); (3#4, 4%nat)].
Proof. vm_compute. split; reflexivity. Qed.

Print Assumptions stamp_is_logical_plus_latency_rt.
Print Assumptions score_ends_with_tail_marker.

(* ---- the binary form over the PROVED encoder of C06 (model/Osc.v, model/KScore.v) -------------
   FULL STRENGTH.  [score_raw_osc nc sc] is OscScore.raw: for every entry of the score, in (time,
   count) order, int32 big-endian length ++ build_pkt (the _build_bundle model of C06) of the
   stamped bundle; it is an error value when the real code would raise (a timetag or an int outside
   its width, a datagram above 2^32 - 1 bytes).  Whenever the binary form exists:
   (a) it is that concatenation, and it is the model's raw form of KNrt instantiated with C06's encoder;
   (b) UNIQUE DECODABILITY: the independent length-prefix reader [split_raw_top] (no OSC knowledge)
       returns exactly the list of bundle encodings, one per entry of the list view, in the same order;
   (c) each chunk is the encoding of the corresponding list-view entry and parses back
       (C06's bundle_roundtrip, parse_bundle_top) to the bundle of the list view: the same timetag,
       and, recursively, the same elements ([expect]); that timetag is int(seconds * 2^32).
   So the list view and the binary form are the same score. *)
Theorem raw_is_concat_of_prefixed_encodings : forall nc qk p fuel raw,
  let sc := n_score (nrt_run qk p fuel) in
  score_raw_osc nc sc = Ok raw ->
  exists ds,
    score_encs nc sc = Ok ds /\
    raw = concat (map prefixed ds) /\
    raw = score_raw (osc_enc nc) sc /\
    split_raw_top raw = Some ds /\
    Forall2 (fun s d => build_pkt nc (to_arg (s_b s)) = Ok d /\
               exists cs, parse_bundle_top d = Ok (PBundle (top_tag (s_b s)) cs) /\
                          expect nc (to_arg (s_b s)) (PBundle (top_tag (s_b s)) cs) /\
                          top_tag (s_b s) = Qtrunc (s_time s * two32)) sc ds.
Proof. exact raw_full. Qed.

(* the splitter inverts the concatenation for ANY list of chunks below 2^32 bytes (no score involved) *)
Theorem raw_split_inverse : forall ds, Forall (fun d => (zlen d < 4294967296)%Z) ds ->
  split_raw_top (concat (map prefixed ds)) = Some ds.
Proof. exact split_top. Qed.

(* order, on the TIMETAGS (Z) the encoded bundles carry (= what parse_bundle_top reads, by the
   theorem above): non-decreasing along the file, and entries due at equal seconds are in send order *)
Theorem score_sorted_stable_timetags : forall qk p fuel,
  Sorted.StronglySorted (fun a b => (top_tag (s_b a) <= top_tag (s_b b))%Z /\
                                    (s_time a == s_time b -> (s_cnt a < s_cnt b)%nat))
                        (n_score (nrt_run qk p fuel)).
Proof. exact tags_sorted. Qed.

(* times, on the timetags: every bundle sent is in the finished score with timetag
   int((latency + logical time) * 2^32) (latency alone outside routines), and the finished score
   holds nothing else but the root-node bundle (timetag 0) and the tail marker *)
Theorem score_times_exact_timetags : forall qk p fuel,
  let st := nrt_loop qk p fuel (nrt_main qk p) in
  (forall o T lat es sb, In (EvSend o T lat es (Some sb)) (n_log st) ->
     exists s, In s (n_score (nrt_run qk p fuel)) /\ s_b s = sb /\
               top_tag sb = Qtrunc ((lat_val lat + match o with Some _ => T | None => 0 end) * two32)) /\
  (forall s, In s (n_score (nrt_run qk p fuel)) ->
     (top_tag (s_b s) = 0%Z /\ s_cnt s = 0%nat /\ s_b s = SBundle false 0 0 [SMsg gnew_msg]) \/
     (exists t, s_b s = SBundle false t (Qtrunc (s_time s * two32)) [SMsg cset_msg] /\ s_cnt s = n_scnt st) \/
     exists o T lat es, In (EvSend o T lat es (Some (s_b s))) (n_log st) /\
        top_tag (s_b s) = Qtrunc ((lat_val lat + match o with Some _ => T | None => 0 end) * two32)).
Proof. exact tags_exact. Qed.

(* non-vacuity: the binary form of the example score exists (240 bytes), the splitter cuts it into
   the five encodings (48, 32, 68, 32, 40 bytes -- the sizes the real library produces) and the
   timetags in file order are 0, 1/4, 1/2, 3/4, 3/4 seconds *)
Example c07_raw_example :
  let p := mkProg [] [[SendBundle (Some (1#2)) [EMsg 3; EBundle (Some (3#4)) [EMsg 4]]; Yield (1#4); Send None 5]]
                  [Play 0 CSystem; Send (Some (3#4)) 9] 0 in
  match score_raw_osc true (n_score (nrt_run repaired p 10)) with
  | Ok raw => (length raw, option_map (map (@length Z)) (split_raw_top raw), score_tags (n_score (nrt_run repaired p 10)))
  | Err _ => (0%nat, None, [])
  end = (240%nat, Some [48; 32; 68; 32; 40]%nat, [0; 1073741824; 2147483648; 3221225472; 3221225472]%Z).
Proof. vm_compute. reflexivity. Qed.

(* ---- bundles nested in a MESSAGE (completion messages: ['/cmd', ..., [latency, elems...]]) ----------
   _build_msg(send_time, args) hands the message's OWN send instant to _build_bundle for a list argument
   headed by a number/None, and there is no enclosing bundle to compare with; so what the blob carries is
   stamp_bundle md T lat es.  For every mode, instant T, latency and element tree that the builder accepts:
   the nested bundle and everything inside it is stamped from its own latency and the SAME instant T, no
   inner bundle precedes its parent; in RT a None/negative latency gives IMMEDIATELY and a latency l >= 0 the
   timetag elapsed_to_osc(l + T); in NRT int((latency + T) * 2^32) inside routines, latency alone outside.
   That T is the sending thread's LOGICAL time for send_msg / send_bundle from a (late) routine on every clock
   is not expressible in the script language (no message-with-list-argument action; the act type is shared
   with C10) and is tied by the msgnest correspondence: bytes read back versus this kernel. *)
Theorem message_nested_bundle_stamp : forall md T lat es sb, stamp_bundle md T lat es = Some sb ->
  stamped md T (EBundle lat es) sb /\ nest_ok sb /\
  (exists ss, sb = SBundle (stamp_imm md lat) (stamp_time md T lat) (stamp_tag md T lat) ss) /\
  (forall off, md = MRt off ->
     (lat_immediate lat = true -> stamp_tag md T lat = 1%Z /\ stamp_imm md lat = true) /\
     (forall l, lat = Some l -> 0 <= l ->
        stamp_tag md T lat = elapsed_to_osc off (l + T) /\ stamp_imm md lat = false)) /\
  (forall inside, md = MNrt inside ->
     stamp_tag md T lat = Qtrunc ((lat_val lat + (if inside then T else 0)) * two32) /\ stamp_imm md lat = false).
Proof. exact msg_nested_stamp. Qed.
Example message_nested_example :
  stamp_bundle (MRt 1000) (5#2) (Some (1#4)) [EMsg 1; EBundle None [EMsg 2]] = None /\
  stamp_bundle (MRt 1000) (5#2) None [EMsg 1; EBundle (Some (1#4)) [EMsg 2]] =
    Some (SBundle true (5#2) 1 [SMsg 1; SBundle false (11#4) 11811161064 [SMsg 2]]).
Proof. vm_compute. split; reflexivity. Qed.

(* ---- the score closed from INSIDE a routine ----------------------------------------------------------
   OscScore.finish documents that it uses the logical time of its call when called from a routine
   (score.finish(tail) or main.process(tail) in a routine body).  Model: KScore.nrt_finish_inside (tailtime
   stays relative to the routine's time T; the repaired code compares it with last - T).  For every program
   and fuel, when the routine of the LAST wake-up closes the score at its logical time T = elapsed time: the
   score is the score so far followed by the marker, whose time is max(T + tail, last bundle, T) (T itself
   when the tail is negative and nothing reaches later), no entry is later, timetag = int(time * 2^32). *)
Theorem score_ends_with_tail_marker_closed_inside : forall p fuel tail,
  let st0 := nrt_loop repaired p fuel (nrt_main repaired p) in
  exists t g, n_score (nrt_run_closed_inside repaired p fuel tail) =
              n_score st0 ++ [mkS t (n_scnt st0) (SBundle false t g [SMsg cset_msg])]
    /\ t == Qmaxq (Qmaxq (n_mtime st0 + tail) (score_last_time (n_score st0))) (n_mtime st0)
    /\ (forall s, In s (n_score st0) -> s_time s <= t)
    /\ g = Qtrunc (t * two32).
Proof. exact nrt_tail_marker_inside. Qed.
(* for any state and any closing instant T (not only the last wake-up) *)
Theorem finish_inside_marker_is_last : forall tail T st, score_ok st ->
  exists t g, n_score (nrt_finish_inside repaired tail T st) =
              n_score st ++ [mkS t (n_scnt st) (SBundle false t g [SMsg cset_msg])]
    /\ t == Qmaxq (Qmaxq (T + tail) (score_last_time (n_score st))) T
    /\ (forall s, In s (n_score st) -> s_time s <= t)
    /\ g = Qtrunc (t * two32).
Proof. exact finish_inside_marker_last. Qed.
Example closed_inside_example :
  let p := mkProg [] [[Send (Some (1#10)) 0; Yield 2; Send (Some 0) 1]] [Play 0 CSystem] 0 in
  map (fun s => Qred (s_time s)) (n_score (nrt_run_closed_inside repaired p 10 (1#2))) = [0; 1#10; 2; 5#2] /\
  map (fun s => Qred (s_time s)) (n_score (nrt_run_closed_inside repaired p 10 4)) = [0; 1#10; 2; 6].
Proof. vm_compute. split; reflexivity. Qed.

(* ---- the binary form EXISTS ----------------------------------------------------------------------------
   raw_is_concat_of_prefixed_encodings has the hypothesis "the encoder accepted every entry".  With C06's
   acceptance theorem (every tree of the documented domain is encoded; its size is the predicted one) that
   hypothesis is discharged for every score inside the documented domain, a DECIDABLE predicate on the model's
   score: timetags in 64 bits, message arguments int32, addresses beginning with '/', nested bundles not before
   their parents, every nested list below 2^31 bytes. *)
Theorem raw_form_exists_in_domain : forall nc sc, score_in_domain sc = true ->
  exists raw, score_raw_osc nc sc = Ok raw.
Proof. exact raw_exists. Qed.
Example c07_domain_example :
  let p := mkProg [] [[SendBundle (Some (1#2)) [EMsg 3; EBundle (Some (3#4)) [EMsg 4]]; Yield (1#4); Send None 5]]
                  [Play 0 CSystem; Send (Some (3#4)) 9] 0 in
  score_in_domain (n_score (nrt_run repaired p 10)) = true.
Proof. vm_compute. reflexivity. Qed.

Print Assumptions raw_is_concat_of_prefixed_encodings.
Print Assumptions raw_form_exists_in_domain.
Print Assumptions score_times_exact_timetags.
Print Assumptions message_nested_bundle_stamp.
Print Assumptions score_ends_with_tail_marker_closed_inside.
