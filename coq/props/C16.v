(* C16 -- Bus, buffer and node-id allocation is safe and complete.  Property theorems only.

   Model: model/Alloc.v (ContiguousBlockAllocator, written from sc3/synth/_engine.py line by line) and
   model/NodeId.v (NodeIDAllocator).  [at_ s a] is the cell of _array for the ABSOLUTE address a,
   [is_live s a n]  = that cell holds a used block (a, n)  (= an allocation that was not freed, see
   used_blocks_are_live_allocations), [free_addr s x] = index x lies in a free block,
   [AInv] = the invariant (proofs/C16_inv.v): blocks tile [pos, addr_offset + size) without gap or
   overlap, top is the start of the last block, _freed holds only free blocks of the array and every
   free block below top, and no two adjacent blocks are both free.
   [run true] / [free true] = the allocator with the test "i - addr_offset < size" at the end of
   _find_next (build/proposed_fixes/C16_find_next_offset.diff); [false] = the test "i < size". *)
From Coq Require Import ZArith List.
Import ListNotations.
Require Import SC3.model.Alloc SC3.model.AllocServer SC3.model.AllocReserve SC3.model.ServerAlloc SC3.model.NodeId SC3.model.NodeIdGen SC3.lib.PyNum SC3.gen.Gen_builtins.
Require Import SC3.proofs.C16_base SC3.proofs.C16_inv SC3.proofs.C16_alloc SC3.proofs.C16_free
               SC3.proofs.C16_main SC3.proofs.C16_thms SC3.proofs.C16_nodeid SC3.proofs.C16_server SC3.proofs.C16_reserve SC3.proofs.C16_srvopts.
Open Scope Z_scope.

(* For every partition size, reserved offset, client offset, every history of alloc(n), n >= 0, and
   free(a) of ANY integer a -- live, already freed, never allocated, outside the partition (ignored by the
   guard at the top of free) -- and every tie-break oracle: no operation raises, the invariant holds
   afterwards, and the used blocks are exactly the allocations of n >= 1 handed out and not freed since
   ([wf_op _ _ (OAlloc n c)] is [0 <= n], [wf_op _ _ (OFree a)] is [True]). *)
Theorem AInv_reachable : forall sz p o ops, 0 <= p < sz -> Forall (wf_op o sz) ops ->
  exists s outs, (s0 <- init sz p o ;; run true s0 ops) = Ok (s, outs) /\ AInv s /\
    pos s = p + o /\ off s = o /\ size s = sz /\
    (forall a n, In (a, n) (ghost ops outs []) <-> is_live s a n).
Proof. exact AInv_reachable_proof. Qed.

(* the range handed out overlaps no live range; afterwards it is live and nothing else changed *)
Theorem alloc_disjoint_from_live : forall s n c s' a, AInv s -> 1 <= n -> alloc s n c = Ok (s', Some a) ->
  (forall a' n', is_live s a' n' -> a + n <= a' \/ a' + n' <= a) /\
  is_live s' a n /\
  (forall a' n', is_live s' a' n' <-> is_live s a' n' \/ (a' = a /\ n' = n)).
Proof. exact alloc_disjoint_from_live_proof. Qed.

(* ... and lies inside the client's partition, after the reserved indices *)
Theorem alloc_inside_partition : forall s n c s' a, AInv s -> 1 <= n -> alloc s n c = Ok (s', Some a) ->
  pos s <= a /\ a + n <= off s + size s.
Proof. exact alloc_inside_partition_proof. Qed.

(* completeness: "no space" is reported only when no run of n free indices exists (and nothing changes) *)
Theorem alloc_none_only_if_no_free_run : forall s n c s', AInv s -> 1 <= n -> alloc s n c = Ok (s', None) ->
  s' = s /\ ~ exists a, forall x, a <= x < a + n -> free_addr s x.
Proof. exact alloc_complete. Qed.

(* freeing a live range makes its indices free (merged with free neighbours: AInv has no two adjacent
   free blocks), removes exactly that allocation, and a request of the same size then succeeds *)
Theorem free_then_available_again : forall s a n, AInv s -> is_live s a n ->
  exists s', free true s a = Ok s' /\ AInv s' /\
    (forall x, a <= x < a + n -> free_addr s' x) /\
    (forall a' n', is_live s' a' n' <-> is_live s a' n' /\ a' <> a) /\
    forall c, exists s'' a', alloc s' n c = Ok (s'', Some a').
Proof. exact free_then_available_again_proof. Qed.

Theorem double_free_is_noop : forall s a n s', AInv s -> is_live s a n -> free true s a = Ok s' ->
  free true s' a = Ok s'.
Proof. exact double_free_is_noop_proof. Qed.

Theorem free_of_non_live_address_is_noop : forall s a, AInv s ->
  (forall n, ~ is_live s a n) -> free true s a = Ok s.
Proof. exact free_not_live_noop. Qed.

(* an address outside the client's partition (a hardware bus, another client's bus) is ignored: the state is
   unchanged, for every state and both variants of _find_next *)
Theorem free_outside_partition_is_ignored : forall rel s a, ~ (off s <= a < off s + size s) -> free rel s a = Ok s.
Proof. exact free_outside. Qed.

(* alloc(0) returns None or the start of some free block; cells, top and the live allocations do not change *)
Theorem alloc_zero_changes_nothing_live : forall s c, AInv s ->
  exists s' r, alloc s 0 c = Ok (s', r) /\ AInv s' /\ (forall a, at_ s' a = at_ s a) /\
    pos s' = pos s /\ off s' = off s /\ size s' = size s /\
    match r with Some a => exists b, at_ s a = Some b /\ bused b = false | None => s' = s end.
Proof. exact alloc_zero_spec. Qed.

(* alloc(n) with n < 0 is outside the alphabet for a reason: the code does not refuse it and it breaks safety *)
Theorem alloc_negative_size_breaks_safety :
  exists s outs, (s0 <- init 8 0 0 ;; run true s0 [OAlloc 2 0; OAlloc (-1) 0; OAlloc 7 1]) = Ok (s, outs) /\
    outs = [Some 0; Some 2; Some 1] /\ is_live s 0 2 /\ is_live s 1 7.
Proof. exact alloc_negative_size_breaks_safety_proof. Qed.

(* server level: for the allocators Server builds for the client ids 0 .. max_logins-1 (total indices of which
   the first io are hardware channels, reserved per client) and ANY interleaved history of the clients'
   allocs and frees: nothing raises, and all live ranges of all clients are pairwise disjoint and inside
   [io, total) *)
Theorem server_live_ranges_disjoint : forall total io logins reserved h,
  0 < logins -> io <= total -> 0 <= reserved < (total - io) / logins ->
  Forall (wf_mop logins) h ->
  exists cs outs, (cs0 <- mk_clients total io logins reserved ;; run_multi true cs0 h) = Ok (cs, outs) /\
    length cs = Z.to_nat logins /\
    forall i j si sj a n a' n', nth_error cs i = Some si -> nth_error cs j = Some sj ->
      is_live si a n -> is_live sj a' n' ->
      io <= a /\ a + n <= total /\ ((i = j /\ a = a' /\ n = n') \/ a + n <= a' \/ a' + n' <= a).
Proof. intros total io logins reserved h Hl Hio Hres Hwf. exact (server_live_ranges_disjoint_proof total io logins reserved Hl Hio Hres h Hwf). Qed.

(* ---- the allocators a Server builds from its OPTIONS and from the server's LOGIN REPLY (model/ServerAlloc.v:
   first_private_bus, _set_client_id, _new_allocators, _new_bus_allocators, _new_buffer_allocators, _next_node_id,
   ServerStatusWatcher.max_logins and _handle_login_done) ---------------------------------------------------------
   [wf_opts o]: 0 < max_logins <= 32, hardware channels fit, every kind's reserved count is below its per-client share,
   0 <= initial_node_id <= 0x03FFFFFF  (the options under which the constructors do not raise).
   The per-client shares are computed with the status watcher's login count ([eff_logins]: the count of the last login
   reply, else options.max_logins).  [set_client_id false] / [srun false] = _set_client_id whose guard uses that same count
   (build/proposed_fixes/C16_client_id_guard.diff); [true] = the guard on options.max_logins.
   For every well-formed o, every client id c < max_logins and every server-level history of alloc(n>=0) / free(any address)
   on the three allocators, node-id allocations, _set_client_id(ANY integer), assignments of new options and LOGIN REPLIES
   (any id, any reported count or none) such that the options the constructors see stay well-formed ([wf_hist]): nothing
   raises and SrvInv holds: the options as the constructors would see them now are well-formed, the three allocators
   satisfy AInv and are exactly those built for the current client id from some well-formed options (those in force at the
   last accepted id), the node allocator is regular with user = client id. *)
Theorem server_allocators_from_options : forall o c h, wf_opts o -> 0 <= c < max_logins o ->
  exists s0, new_allocators o None false c = SOk s0 /\
    (wf_hist false s0 h -> exists s outs, srun false s0 h = SOk (s, outs) /\ SrvInv s).
Proof. exact srv_reachable_proof. Qed.

(* whatever is live on a server lies in the client's own share of the RIGHT index space, after the RIGHT reserved count:
   audio: [io + per*c + reserved_audio_buses, io + per*(c+1)) inside [first_private_bus, audio_buses), control and buffers
   likewise with their own options -- no hardware channel, no reserved index, no index of another client *)
Theorem server_live_range_in_own_share : forall s, SrvInv s ->
  exists o0, wf_opts o0 /\ 0 <= cid s < max_logins o0 /\ built o0 (cid s) s /\
    forall k a n, is_live (get_alloc s k) a n ->
      fst (space o0 k) <= per_client o0 k * cid s + fst (space o0 k) /\
      per_client o0 k * cid s + fst (space o0 k) + reserved_of o0 k <= a /\
      a + n <= per_client o0 k * cid s + fst (space o0 k) + per_client o0 k /\
      per_client o0 k * cid s + fst (space o0 k) + per_client o0 k <= snd (space o0 k) /\ 0 < n.
Proof. exact srv_live_in_own_share_proof. Qed.

(* two servers (clients) whose allocators were built from the same options for different client ids never hold a common index *)
Theorem server_clients_of_same_options_disjoint : forall o0 s1 s2 k a1 n1 a2 n2, wf_opts o0 ->
  0 <= cid s1 < max_logins o0 -> 0 <= cid s2 < max_logins o0 -> cid s1 <> cid s2 ->
  built o0 (cid s1) s1 -> built o0 (cid s2) s2 ->
  is_live (get_alloc s1 k) a1 n1 -> is_live (get_alloc s2 k) a2 n2 ->
  a1 + n1 <= a2 \/ a2 + n2 <= a1.
Proof. exact built_clients_disjoint. Qed.

(* _set_client_id: an id outside 0 .. N-1 (N = the count the shares are computed with) changes nothing; an id inside rebuilds
   all allocators, empty, for the current options and count *)
Theorem set_client_id_refuses_foreign_ids : forall s v, v < 0 \/ eff_logins s <= v -> set_client_id false s v = SOk s.
Proof. exact set_client_id_refuses_proof. Qed.

Theorem set_client_id_rebuilds_from_current_options : forall s v, wf_opts (eff_opts s) -> 0 <= v < eff_logins s ->
  exists s', set_client_id false s v = SOk s' /\ so s' = so s /\ sw_max s' = sw_max s /\ built (eff_opts s) v s' /\
    forall k x n, ~ is_live (get_alloc s' k) x n.
Proof. exact set_client_id_rebuilds_proof. Qed.

(* the server's reply "you are client id of m" (m may differ from options.max_logins): afterwards the client id is the granted
   one and every allocator is the one for client id of an m-WAY split -- the reported count is in force BEFORE the allocators
   are rebuilt *)
Theorem login_reply_installs_granted_share : forall s id m, inproc s = false -> m <> 0 ->
  wf_opts (with_logins (so s) m) -> 0 <= id < m ->
  exists s', login_done false s id (Some m) = SOk s' /\ cid s' = id /\ sw_max s' = Some m /\ so s' = so s /\
    built (with_logins (so s) m) id s' /\ forall k x n, ~ is_live (get_alloc s' k) x n.
Proof. exact login_reply_installs_granted_share_proof. Qed.

(* the OSC reply path: the message ['/done', '/notify', id, m, ...] reaching the 'done' responder while the watcher is booting
   or registering IS the login "client id of m" (so login_reply_installs_granted_share applies to it); with an id only
   (supernova) the count is kept; a reply without id, a reply in any other state, and '/fail' change nothing *)
Theorem notify_done_reply_is_login : forall gl s id m rest,
  sstep gl s (SNotifyDone true (id :: m :: rest)) = sstep gl s (SLogin id (Some m)).
Proof. exact notify_reply_is_login. Qed.

Theorem notify_done_reply_without_count : forall gl s id, sstep gl s (SNotifyDone true [id]) = sstep gl s (SLogin id None).
Proof. exact notify_reply_without_count. Qed.

Theorem notify_reply_that_is_not_a_login_changes_nothing : forall gl s reply,
  sstep gl s (SNotifyDone false reply) = SOk (s, None) /\ sstep gl s (SNotifyDone true []) = SOk (s, None) /\
  sstep gl s SNotifyFail = SOk (s, None).
Proof. exact notify_reply_not_a_login. Qed.

(* before any reply the two guards are the same test, so everything above holds for the snapshot's _set_client_id offline ... *)
Theorem guards_agree_offline : forall s v, sw_max s = None -> set_client_id true s v = set_client_id false s v.
Proof. exact guards_agree_offline. Qed.

(* ... and is refuted after a reply (D7): options.max_logins = 4, the server answers "client 5 of 8": the id is refused, the
   client keeps the allocators of client 0 of 4 and hands out control bus 0, which is not in the share of client 5 of 8 *)
Theorem login_refused_by_local_max_logins :
  exists s0 s outs, wf_opts d7_opts /\ wf_opts (with_logins d7_opts 8) /\
    new_allocators d7_opts None false 0 = SOk s0 /\
    srun true s0 [SLogin 5 (Some 8); SAlloc KControl 3 0] = SOk (s, outs) /\
    cid s = 0 /\ sw_max s = Some 8 /\ outs = [None; Some 0] /\
    ~ (per_client (with_logins d7_opts 8) KControl * 5 <= 0).
Proof. exact login_refused_by_local_max_logins_proof. Qed.

(* public reserve() (not called anywhere in sc3): on a reachable state it can raise after having released a LIVE
   block, which the next alloc hands out again; and it cannot reserve a free address of a fresh allocator *)
Theorem reserve_releases_live_predecessor :
  exists ops s outs s' s'', Forall (wf_op 0 8) ops /\
    (s0 <- init 8 0 0 ;; run true s0 ops) = Ok (s, outs) /\
    is_live s 0 2 /\ is_live s 2 2 /\
    reserve true s 2 1 = (s', Raise AttributeError) /\
    alloc s' 2 0 = Ok (s'', Some 0).
Proof. exact reserve_releases_live_predecessor_proof. Qed.

Theorem reserve_fresh_raises :
  exists s0, init 8 0 0 = Ok s0 /\ reserve true s0 5 1 = (s0, Raise AttributeError).
Proof. exact reserve_fresh_raises_proof. Qed.

(* allocators built by Server for two client ids (server.py _new_bus_allocators/_new_buffer_allocators)
   never hand out a common index, and stay inside [io, total) *)
Theorem partitions_disjoint : forall total io logins reserved c1 c2 s1 s2 n1 n2 k1 k2 s1' s2' a1 a2,
  0 < logins -> io <= total -> 0 <= c1 < c2 -> c2 < logins -> 0 <= reserved ->
  AInv s1 -> AInv s2 ->
  (size s1, pos s1 - off s1, off s1) = partition total io logins reserved c1 ->
  (size s2, pos s2 - off s2, off s2) = partition total io logins reserved c2 ->
  1 <= n1 -> 1 <= n2 ->
  alloc s1 n1 k1 = Ok (s1', Some a1) -> alloc s2 n2 k2 = Ok (s2', Some a2) ->
  io <= a1 /\ a1 + n1 <= a2 /\ a2 + n2 <= total.
Proof. exact partitions_disjoint_proof. Qed.

(* the code of the snapshot ("i < self.size") is the same function when addr_offset = 0, so all of the
   above holds for it there ... *)
Theorem snapshot_test_agrees_when_offset_zero : forall ops s, off s = 0 -> AInv s ->
  Forall (wf_op (off s) (size s)) ops -> run false s ops = run true s ops.
Proof. exact run_rel_irrelevant. Qed.

(* ... and is refuted with a client offset (F1): after alloc 3, free, everything is free again, nothing
   is live, yet alloc 4 of a partition of 4 reports no space *)
Theorem absolute_test_breaks_completeness :
  exists sz p o ops s outs, 0 <= p < sz /\ Forall (wf_op o sz) ops /\
    (s0 <- init sz p o ;; run false s0 ops) = Ok (s, outs) /\
    last outs (Some 0) = None /\ ghost ops outs [] = [] /\
    (forall x, o + p <= x < o + sz -> free_addr s x).
Proof. exact absolute_test_breaks_completeness_proof. Qed.

(* node ids: from any regular allocator state (after __init__/reset and any number of allocations: nwf is
   preserved), any allocations less than a window (0x03FFFFFF - init_temp + 1) apart are distinct,
   also across the wrap-around *)
Theorem nodeid_window_distinct : forall s k s' ids i j, nwf s -> nalloc_many s k = (s', ids) ->
  (i < j < k)%nat -> Z.of_nat j - Z.of_nat i < temp_max - init_temp s + 1 ->
  nth i ids 0 <> nth j ids 0.
Proof. exact nodeid_window_distinct_proof. Qed.

(* every id lies in the client's range user<<26 .. (user+1)<<26, "|" with the mask is "+", the counter part
   never drops below init_temp (the permanent ids), and the state stays regular *)
Theorem nodeid_in_client_range : forall s k s' ids i, nwf s -> nalloc_many s k = (s', ids) -> (i < k)%nat ->
  Z.shiftl (user s) 26 <= nth i ids 0 < Z.shiftl (user s + 1) 26 /\
  nth i ids 0 = Z.land (nth i ids 0) temp_max + Z.shiftl (user s) 26 /\
  init_temp s <= nth i ids 0 - Z.shiftl (user s) 26 <= temp_max /\
  nwf s'.
Proof. exact nodeid_in_client_range_proof. Qed.

(* the same two statements for the allocator whose wrap is the REGENERATED sc3.base.builtins.wrap
   (model/NodeIdGen.v), for all arguments: bi.wrap on ints is wrap_int ... *)
Theorem builtins_wrap_on_ints : forall x lo hi, lo <= hi -> py_wrap (I x) (I lo) (I hi) = I (wrap_int x lo hi).
Proof. exact py_wrap_int. Qed.

(* ... so k allocations always succeed with the ids of the Z model ... *)
Theorem nodeid_regenerated_total : forall s k, nwf s ->
  nalloc_py_many s k = Some (nalloc_many s k) /\
  exists s' ids, nalloc_py_many s k = Some (s', ids) /\ length ids = k /\ nwf s'.
Proof. intros s k H. split; [apply nalloc_py_many_eq; exact H|apply nodeid_py_total; exact H]. Qed.

Theorem nodeid_window_distinct_regenerated : forall s k s' ids i j, nwf s -> nalloc_py_many s k = Some (s', ids) ->
  (i < j < k)%nat -> Z.of_nat j - Z.of_nat i < temp_max - init_temp s + 1 ->
  nth i ids 0 <> nth j ids 0.
Proof. exact nodeid_py_window_distinct. Qed.

Theorem nodeid_in_client_range_regenerated : forall s k s' ids i, nwf s -> nalloc_py_many s k = Some (s', ids) -> (i < k)%nat ->
  Z.shiftl (user s) 26 <= nth i ids 0 < Z.shiftl (user s + 1) 26 /\
  nth i ids 0 = Z.land (nth i ids 0) temp_max + Z.shiftl (user s) 26 /\
  init_temp s <= nth i ids 0 - Z.shiftl (user s) 26 <= temp_max /\
  nwf s'.
Proof. exact nodeid_py_in_client_range. Qed.

Theorem nodeid_init_regular : forall u it s, 0 <= u -> 0 <= it <= temp_max -> ninit u it = Some s ->
  nwf s /\ user s = u /\ init_temp s = it /\ temp s = it.
Proof. exact ninit_nwf. Qed.

(* non-vacuity: the model computes; hypotheses are met by concrete states *)
Example history_example :
  match (s0 <- init 10 1 20 ;; run true s0 [OAlloc 3 0; OAlloc 4 0; OFree 21; OAlloc 2 21; OFree 24; OFree 21; OAlloc 9 0; OAlloc 1 7]) with
  | Ok (s, outs) => (outs, top s, freed s)
  | Raise _ => ([], 0, [])
  end = ([Some 21; Some 24; None; Some 21; None; None; Some 21; None], 21, []).
Proof. vm_compute. reflexivity. Qed.

Example wf_example : Forall (wf_op 20 10) [OAlloc 3 0; OAlloc 4 0; OFree 21; OAlloc 2 21; OFree 24; OFree 21; OAlloc 9 0; OAlloc 1 7].
Proof. repeat constructor; simpl; auto with zarith. Qed.

Example server_example :
  match (cs0 <- mk_clients 64 4 4 1 ;; run_multi true cs0 [(2%nat, OAlloc 3 0); (0%nat, OAlloc 14 0); (2%nat, OFree 35); (1%nat, OFree 35); (3%nat, OAlloc 15 0); (2%nat, OAlloc 14 0)]) with
  | Ok (_, outs) => outs | Raise _ => [] end = [Some 35; Some 5; None; None; None; Some 35].
Proof. vm_compute. reflexivity. Qed.

Definition example_opts := mkO 68 40 32 2 2 1 0 2 4 1000.
Example server_options_example :
  alloc_args example_opts KAudio 2 = (16, 1, 36) /\ alloc_args example_opts KControl 3 = (10, 0, 30) /\
  alloc_args example_opts KBuffer 1 = (8, 2, 8) /\
  match new_allocators example_opts None false 2 with
  | SOk s0 => match srun false s0 [SAlloc KAudio 3 0; SAlloc KBuffer 1 0; SNode; SSetClient 7; SFree KAudio 37; SSetClient 1; SAlloc KAudio 3 0;
                                  SNotifyDone true [5; 8]; SAlloc KControl 2 0; SAlloc KAudio 1 0; SNotifyFail; SNotifyDone false [1; 2]; SNotifyDone true []] with
              | SOk (s, outs) => (outs, cid s, sw_max s)
              | SRaise _ => ([], -1, None) end
  | SRaise _ => ([], -2, None) end = ([Some 37; Some 18; Some 134218728; None; None; None; Some 21; None; Some 25; Some 45; None; None; None], 5, Some 8).
Proof. vm_compute. repeat split; reflexivity. Qed.

Example wf_example_opts : wf_opts example_opts.
Proof.
  assert (H : forall k, 0 <= reserved_of example_opts k < per_client example_opts k)
    by (intros k; destruct k; vm_compute; split; easy).
  unfold wf_opts. split; [vm_compute; split; easy|]. split; [vm_compute; split; easy|].
  split; [vm_compute; easy|]. split; [vm_compute; easy|]. split; [exact H|]. vm_compute; split; easy.
Qed.

Example nodeid_regenerated_wrap_example :
  match ninit 3 1000 with
  | Some s => option_map snd (nalloc_py_many (mkN (user s) (init_temp s) (temp_max - 1) (mask s)) 4)
  | None => None
  end = Some [268435454; 268435455; 201327592; 201327593].
Proof. vm_compute. reflexivity. Qed.

Example nodeid_wrap_example :
  match ninit 3 1000 with
  | Some s => snd (nalloc_many (mkN (user s) (init_temp s) (temp_max - 1) (mask s)) 4)
  | None => []
  end = [268435454; 268435455; 201327592; 201327593].
Proof. vm_compute. reflexivity. Qed.

(* NodeId.wrap_int is what the REGENERATED builtins.wrap computes on the arguments NodeIDAllocator.alloc passes,
   checked at the wrap boundary (a test by computation, not a general lemma) *)
Example builtins_wrap_agrees_at_the_boundary :
  py_wrap (I (temp_max + 1)) (I 1000) (I temp_max) = I (wrap_int (temp_max + 1) 1000 temp_max) /\
  py_wrap (I temp_max) (I 1000) (I temp_max) = I (wrap_int temp_max 1000 temp_max) /\
  py_wrap (I 1001) (I 1000) (I temp_max) = I (wrap_int 1001 1000 temp_max) /\
  py_wrap (I (temp_max + 1)) (I 1) (I temp_max) = I 1.
Proof. vm_compute. repeat split; reflexivity. Qed.

Example partition_example : partition 64 4 4 1 2 = (15, 1, 34).
Proof. vm_compute. reflexivity. Qed.

Print Assumptions AInv_reachable.
Print Assumptions alloc_none_only_if_no_free_run.
Print Assumptions free_then_available_again.
Print Assumptions nodeid_window_distinct.
Print Assumptions nodeid_window_distinct_regenerated.
Print Assumptions server_live_ranges_disjoint.
Print Assumptions server_allocators_from_options.
Print Assumptions server_live_range_in_own_share.
