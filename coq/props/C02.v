(* C02 -- emitted definitions are well-formed, topologically ordered SCgf v2: FORMAT side.
   Model: coq/model/Scgf.v (writer following SynthDef._write_def / UGen._write_def line by line, an SCgf-2
   parser written from the format description, the checker wf_def, the mirror read_desc of
   SynthDesc._read_synthdef2).  The topological order of the COMPILER's output for all graphs is
   C01/C20's theorem; here wf_def is evaluated on every real emitted definition (correspondence). *)
From Coq Require Import ZArith List Bool String.
Import ListNotations.
Require Import SC3.model.Scgf.
Require Import SC3.proofs.C02_scgf SC3.proofs.C02_wf SC3.proofs.C02_total SC3.proofs.C02_reader SC3.proofs.C02_variants.
Open Scope Z_scope.

(* Whatever structure d the writer accepts (names <= 255 ASCII bytes, 32-bit words, counts and
   fields in the ranges of their int8/int16/int32 slots, one value per control slot in each
   variant -- this is write_def d = Some bs), the bytes parse back to exactly d, with the whole
   input consumed (parse_def fails with Trailing otherwise). *)
Theorem scgf_roundtrip : forall d bs, write_def d = Some bs -> parse_def bs = Ok d.
Proof. exact scgf_roundtrip_l. Qed.

(* the writer accepts exactly the structures inside the stated ranges (it raises otherwise) *)
Theorem write_def_defined_iff : forall d, (exists bs, write_def d = Some bs) <-> def_ok d = true.
Proof. exact write_def_some_iff. Qed.

(* two different structures never share their bytes *)
Theorem write_def_injective : forall d1 d2 bs, write_def d1 = Some bs -> write_def d2 = Some bs -> d1 = d2.
Proof. exact write_def_injective_l. Qed.

(* wf_def d = true means: every unit has a class name and a rate in 0..3, every output rate is in
   0..3, every input is an existing constant or an existing output of a unit placed STRICTLY earlier,
   control units cover existing control slots, every parameter name is non-empty and points inside
   the control array, every variant has one value per control slot, and the writer accepts d. *)
Theorem wf_def_sound : forall d, wf_def d = true -> WF d.
Proof. exact wf_def_sound_l. Qed.

Theorem wf_inputs_refer_strictly_earlier : forall d, wf_def d = true ->
  forall pos u j c, nth_error (d_units d) pos = Some u -> In (IOut j c) (u_ins u) ->
    (Z.to_nat j < pos)%nat /\ exists v, nth_error (d_units d) (Z.to_nat j) = Some v /\ 0 <= c < zlen (u_outs v).
Proof. exact wf_inputs_earlier. Qed.

(* the emitted-order check used on real definitions: if it passes, no unit emitted before a
   width-first unit was created after it *)
Theorem wfirst_ok_means : forall order, wfirst_ok order = true ->
  forall p q cp wp cq, nth_error order p = Some (cp, wp) -> nth_error order q = Some (cq, true) ->
    (p < q)%nat -> cp <= cq.
Proof. exact wfirst_ok_sound. Qed.

(* the library's description reader, applied to written bytes, sees exactly the written structure
   (it stops after the variant count) ... *)
Theorem reader_recovers : forall d bs, write_def d = Some bs -> read_desc bs = desc_of_def d.
Proof. exact reader_recovers_l. Qed.

(* ... and whenever it accepts, it returns the definition name, the control names in name-table
   order, the variants flag, the gate flag (true iff a control is named 'gate'), one control entry
   per slot, no duplicated names ... *)
Theorem reader_fields : forall d ds, desc_of_def d = Some ds ->
  ds_name ds = d_name d
  /\ ds_cnames ds = map fst (d_names d)
  /\ ds_hasvar ds = (0 <? zlen (d_variants d))
  /\ (ds_gate ds = true <-> In gate_name (named (ds_ctls ds)))
  /\ List.length (ds_ctls ds) = List.length (d_ctl d)
  /\ has_dup (named (ds_ctls ds)) = false.
Proof. exact desc_fields. Qed.

(* ... the control entries being the slots in order, where each named slot carries its own default
   followed by the defaults of the unnamed slots after it (an array-valued parameter) *)
Theorem reader_controls_in_slot_order : forall d ds, desc_of_def d = Some ds ->
  exists cs, ds_ctls ds = merged cs
             /\ List.length cs = List.length (d_ctl d)
             /\ map c_name (ds_ctls ds) = map c_name cs
             /\ map c_rate (ds_ctls ds) = map c_rate cs.
Proof. exact desc_ctls_merged. Qed.

(* the parser is total: with fuel S (length of the remaining input) at every counted list it returns
   a definition or a format error on EVERY byte list, never the out-of-fuel value *)
Theorem parse_total : forall bs,
  (exists d, parse_def bs = Ok d) \/ (exists e, parse_def bs = Err e /\ e <> OutOfFuel).
Proof. exact parse_total_l. Qed.

(* the variants the (repaired) writer writes -- the valid prefix of the declared ones -- have one
   value per control slot and a name 'def.key' of at most 32 bytes, so they satisfy the round-trip
   hypothesis; nothing is dropped when every variant is valid *)
Theorem variants_shape : forall name ctl names src,
  (List.length (resolve_variants name ctl names src) <= List.length src)%nat
  /\ forall v, In v (resolve_variants name ctl names src) ->
       List.length (v_vals v) = List.length ctl /\ zlen (v_name v) <= 32
       /\ exists key, v_name v = name ++ 46 :: key.
Proof. exact resolve_variants_shape. Qed.

Theorem variants_all_written_when_valid : forall name ctl names src,
  forallb (fun kp => (zlen (name ++ 46 :: fst kp) <=? 32)
                     && match apply_pairs names ctl (snd kp) with Some _ => true | None => false end) src = true ->
  List.length (resolve_variants name ctl names src) = List.length src.
Proof. exact resolve_variants_all. Qed.

(* ---- non-vacuity: a concrete definition (SinOsc.ar(freq) -> Pan2 -> Out, one control 'gate'),
        accepted by the writer, well-formed, read back by both readers ---- *)
Definition ex_def : sdef :=
  mkSdef (bs_of_string "ex"%string) [0; 1065353216] [1138491392; 1065353216]
         [(bs_of_string "freq"%string, 0); (bs_of_string "gate"%string, 1)]
         [mkUgen (bs_of_string "Control"%string) 1 [] [1; 1] 0;
          mkUgen (bs_of_string "SinOsc"%string) 2 [IOut 0 0; IConst 0] [2] 0;
          mkUgen (bs_of_string "Pan2"%string) 2 [IOut 1 0; IConst 0; IOut 0 1] [2; 2] 0;
          mkUgen (bs_of_string "Out"%string) 2 [IConst 1; IOut 2 0; IOut 2 1] [] 0]
         [mkVariant (bs_of_string "ex.a"%string) [1130102784; 1065353216]].

Example ex_written : exists bs, write_def ex_def = Some bs /\ List.length bs = 215%nat.
Proof. eexists. split; vm_compute; reflexivity. Qed.
Example ex_wf : wf_def ex_def = true.
Proof. vm_compute. reflexivity. Qed.
Example ex_roundtrip : match write_def ex_def with Some bs => parse_def bs = Ok ex_def | None => False end.
Proof. vm_compute. reflexivity. Qed.
Example ex_reader : match desc_of_def ex_def with
                    | Some ds => ds_gate ds = true /\ ds_cnames ds = [bs_of_string "freq"%string; bs_of_string "gate"%string]
                                 /\ List.length (ds_outs ds) = 1%nat
                    | None => False end.
Proof. vm_compute. repeat split. Qed.
(* a forward reference is rejected by wf_def, truncated bytes by the parser *)
Example ex_forward_ref_rejected :
  wf_def (mkSdef (bs_of_string "f"%string) [] [] [] [mkUgen (bs_of_string "A"%string) 2 [IOut 1 0] [2] 0; mkUgen (bs_of_string "B"%string) 2 [] [2] 0] []) = false.
Proof. vm_compute. reflexivity. Qed.
Example ex_variant_count_without_variant :
  parse_def (enc_header ++ enc_pstr (bs_of_string "a"%string) ++ enc_i32 0 ++ enc_i32 0 ++ enc_i32 0 ++ enc_i32 0 ++ enc_i16 1) = Err Truncated.
Proof. vm_compute. reflexivity. Qed.
Example ex_invalid_variant_dropped :
  resolve_variants (bs_of_string "a"%string) [0] [(bs_of_string "freq"%string, 0, 1)] [(bs_of_string "v"%string, [(bs_of_string "nope"%string, [1])])] = [].
Proof. vm_compute. reflexivity. Qed.

Print Assumptions scgf_roundtrip.
Print Assumptions wf_def_sound.
Print Assumptions reader_recovers.
Print Assumptions parse_total.
