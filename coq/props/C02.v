(* C02 -- emitted definitions are well-formed, topologically ordered SCgf v2: FORMAT side.
   Model: coq/model/Scgf.v (writer following SynthDef._write_def / UGen._write_def line by line, an SCgf-2
   parser written from the format description, the checker wf_def, the mirror read_desc of
   SynthDesc._read_synthdef2).  The topological order of the COMPILER's output for all graphs is
   C01/C20's theorem; here wf_def is evaluated on every real emitted definition (correspondence). *)
From Coq Require Import ZArith List Bool String.
Import ListNotations.
Require SC3.model.Graph.
Require Import SC3.gen.Gen_scgftables SC3.gen.Gen_opcodes.
Require Import SC3.model.Scgf SC3.model.GraphScgf.
Require Import SC3.proofs.C02_scgf SC3.proofs.C02_wf SC3.proofs.C02_total SC3.proofs.C02_reader SC3.proofs.C02_variants
               SC3.proofs.C02_bridge SC3.proofs.C02_link.
Require SC3.proofs.C01_built SC3.proofs.C01_local.
Close Scope string_scope.
Close Scope nat_scope.
Open Scope Z_scope.
Open Scope Z_scope.

(* Whatever structure d the writer accepts (names <= 255 ASCII bytes, 32-bit words, counts and
   fields in the ranges of their int8/int16/int32 slots, one value per control slot in each
   variant -- this is write_def d = Some bs), the bytes parse back to exactly d, with the whole
   input consumed (parse_def fails with Trailing otherwise). *)
Theorem scgf_roundtrip : forall d bs, write_def d = Some bs -> parse_def bs = Ok d.
Proof. exact scgf_roundtrip_l. Qed.

(* the writer accepts exactly the structures inside the stated ranges (it raises otherwise) *)
Theorem write_def_defined_iff : forall d, (exists bs, write_def d = Some bs) <-> def_ok d = true.
Proof. exact write_def_some_iff. Qed.

(* two different structures never share their bytes *)
Theorem write_def_injective : forall d1 d2 bs, write_def d1 = Some bs -> write_def d2 = Some bs -> d1 = d2.
Proof. exact write_def_injective_l. Qed.

(* wf_def d = true means: every unit has a class name and a rate in 0..3, every output rate is in
   0..3, every input is an existing constant or an existing output of a unit placed STRICTLY earlier,
   control units cover existing control slots, every parameter name is non-empty and points inside
   the control array, every variant has one value per control slot, and the writer accepts d. *)
Theorem wf_def_sound : forall d, wf_def d = true -> WF d.
Proof. exact wf_def_sound_l. Qed.

Theorem wf_inputs_refer_strictly_earlier : forall d, wf_def d = true ->
  forall pos u j c, nth_error (d_units d) pos = Some u -> In (IOut j c) (u_ins u) ->
    (Z.to_nat j < pos)%nat /\ exists v, nth_error (d_units d) (Z.to_nat j) = Some v /\ 0 <= c < zlen (u_outs v).
Proof. exact wf_inputs_earlier. Qed.

(* the emitted-order check used on real definitions: if it passes, no unit emitted before a
   width-first unit was created after it *)
Theorem wfirst_ok_means : forall order, wfirst_ok order = true ->
  forall p q cp wp cq, nth_error order p = Some (cp, wp) -> nth_error order q = Some (cq, true) ->
    (p < q)%nat -> cp <= cq.
Proof. exact wfirst_ok_sound. Qed.

(* the library's description reader, applied to written bytes, sees exactly the written structure
   (it stops after the variant count) ... *)
Theorem reader_recovers : forall d bs, write_def d = Some bs -> read_desc bs = desc_of_def d.
Proof. exact reader_recovers_l. Qed.

(* ... and whenever it accepts, it returns the definition name, the control names in name-table
   order, the variants flag, the gate flag (true iff a control is named 'gate'), one control entry
   per slot, no duplicated names ... *)
Theorem reader_fields : forall d ds, desc_of_def d = Some ds ->
  ds_name ds = d_name d
  /\ ds_cnames ds = map fst (d_names d)
  /\ ds_hasvar ds = (0 <? zlen (d_variants d))
  /\ (ds_gate ds = true <-> In gate_name (named (ds_ctls ds)))
  /\ List.length (ds_ctls ds) = List.length (d_ctl d)
  /\ has_dup (named (ds_ctls ds)) = false.
Proof. exact desc_fields. Qed.

(* ... the control entries being the slots in order, where each named slot carries its own default
   followed by the defaults of the unnamed slots after it (an array-valued parameter) *)
Theorem reader_controls_in_slot_order : forall d ds, desc_of_def d = Some ds ->
  exists cs, ds_ctls ds = merged cs
             /\ List.length cs = List.length (d_ctl d)
             /\ map c_name (ds_ctls ds) = map c_name cs
             /\ map c_rate (ds_ctls ds) = map c_rate cs.
Proof. exact desc_ctls_merged. Qed.

(* the parser is total: with fuel S (length of the remaining input) at every counted list it returns
   a definition or a format error on EVERY byte list, never the out-of-fuel value *)
Theorem parse_total : forall bs,
  (exists d, parse_def bs = Ok d) \/ (exists e, parse_def bs = Err e /\ e <> OutOfFuel).
Proof. exact parse_total_l. Qed.

(* the variants the (repaired) writer writes -- the valid prefix of the declared ones -- have one
   value per control slot and a name 'def.key' of at most 32 bytes, so they satisfy the round-trip
   hypothesis; nothing is dropped when every variant is valid *)
Theorem variants_shape : forall name ctl names src,
  (List.length (resolve_variants name ctl names src) <= List.length src)%nat
  /\ forall v, In v (resolve_variants name ctl names src) ->
       List.length (v_vals v) = List.length ctl /\ zlen (v_name v) <= 32
       /\ exists key, v_name v = name ++ 46 :: key.
Proof. exact resolve_variants_shape. Qed.

Theorem variants_all_written_when_valid : forall name ctl names src,
  forallb (fun kp => (zlen (name ++ 46 :: fst kp) <=? 32)
                     && match apply_pairs names ctl (snd kp) with Some _ => true | None => false end) src = true ->
  List.length (resolve_variants name ctl names src) = List.length src.
Proof. exact resolve_variants_all. Qed.

(* ---- the _fmtrw primitives --------------------------------------------------------------- *)
(* read_pascal_str (length byte read UNSIGNED, short read tolerated, ASCII decoding) after
   write_pascal_str: identity for every name of every length 0..255 made of ASCII bytes *)
Theorem fmtrw_pascal_str_roundtrip : forall (s r : bytes),
  (List.length s <= 255)%nat -> Forall (fun b => 0 <= b < 128) s ->
  lib_rd_pstr (enc_pstr s ++ r) = Ok (s, r) /\ rd_pstr (enc_pstr s ++ r) = Ok (s, r).
Proof.
  intros s r Hl Ha.
  assert (Hok : pstr_ok s = true).
  { unfold pstr_ok. apply andb_true_iff. split.
    - apply Z.ltb_lt. unfold zlen. apply Nat2Z.inj_le in Hl. simpl in Hl.
      apply (Z.le_lt_trans _ 255); [exact Hl | reflexivity].
    - rewrite forallb_forall. rewrite Forall_forall in Ha. intros x Hx. specialize (Ha x Hx).
      unfold ascii_ok. apply andb_true_iff. split; [apply Z.leb_le | apply Z.ltb_lt]; tauto. }
  split; [apply lib_rd_pstr_rt | apply rd_pstr_rt]; exact Hok.
Qed.

(* read_i8 / read_i16 / read_i32 (signed, big-endian) and a float32 word after write_*: identity
   on the whole range of each field *)
Theorem fmtrw_int_roundtrip : forall v r,
  (i8_ok v = true -> rd_i8 (enc_i8 v ++ r) = Ok (v, r))
  /\ (i16_ok v = true -> rd_i16 (enc_i16 v ++ r) = Ok (v, r))
  /\ (i32_ok v = true -> rd_i32 (enc_i32 v ++ r) = Ok (v, r))
  /\ (w32_ok v = true -> rd_w32 (enc_w32 v ++ r) = Ok (v, r)).
Proof. intros v r. repeat split; intros H; [apply rd_i8_rt | apply rd_i16_rt | apply rd_i32_rt | apply rd_w32_rt]; exact H. Qed.

(* SynthDesc.def_name_from_bytes on written bytes returns the definition name *)
Theorem def_name_recovered : forall d bs, write_def d = Some bs -> def_name_of bs = Some (d_name d).
Proof.
  intros d bs H. unfold write_def in H. destruct (def_ok d) eqn:Hok; [|discriminate].
  inversion H; subst. apply def_name_of_enc; exact Hok.
Qed.

(* the regenerated rate tables: UGen._rate_number and SynthDesc._RATE_NAME are inverse *)
Theorem rate_tables_consistent :
  forallb (fun p => match nth_error gen_rate_names (Z.to_nat (snd p)) with
                    | Some n => String.eqb n (fst p) | None => false end) gen_rate_number = true
  /\ nth_error gen_rate_names (Z.to_nat gen_rate_default) = Some "scalar"%string
  /\ List.length gen_rate_names = S (List.length gen_rate_number).
Proof. exact rate_tables_consistent_l. Qed.

(* ---- In/Out bus units of the description ------------------------------------------------- *)
(* the input / output descriptors the reader returns are exactly io_ins / io_outs: a function of
   the units and of the slot names alone (slot i is named by the last name-table entry with
   index i), whatever control unit a slot belongs to *)
Theorem reader_io_units : forall d ds, desc_of_def d = Some ds ->
  ds_ins ds = io_ins (d_consts d) (slot_names d) [] (d_units d)
  /\ ds_outs ds = io_outs (d_consts d) (slot_names d) [] (d_units d).
Proof. exact reader_io_l. Qed.

(* a bus input that is output c of ANY control unit (Control / TrigControl / LagControl; the first
   one or a later one, special index sp = its first slot) is described by the name the table gives
   to slot sp + c *)
Theorem reader_bus_control_name : forall d u c src n before consts,
  nth_z before u = Some src ->
  existsb (bytes_eqb (u_cls src)) control_sub_classes = true ->
  NoDup (map snd (d_names d)) ->
  In (n, c + u_special src) (d_names d) ->
  0 <= c + u_special src < zlen (d_ctl d) ->
  start_of_n consts (slot_names d) before (IOut u c) = Some (SName n).
Proof. exact bus_control_name_l. Qed.

(* ---- operator units in the description reader -------------------------------------------- *)
(* UnaryOpUGen / BinaryOpUGen are rebuilt by looking the special index up in the (regenerated) unary /
   binary operator table: on the WHOLE range of each table the lookup is defined, so the reader never
   raises on an operator unit the writer can emit (every other class ignores the special index) *)
Theorem reader_operator_lookup_defined : forall u,
  (u_cls u = unop_cls -> 0 <= u_special u < zlen unops_list) ->
  (u_cls u = binop_cls -> 0 <= u_special u < zlen binops_list) ->
  exists o, unit_operator u = Some o.
Proof. exact unit_operator_defined. Qed.

(* ---- bridge to the compiler model (model/Graph.v) ---------------------------------------- *)
(* a compiled graph that passes graph_ok (inputs = collected constants / outputs of strictly earlier
   units, control units inside the control array, fields in range) becomes a well-formed
   definition whose bytes exist and parse back to it *)
Theorem compiled_graph_wf : forall f32 name pnames g,
  (forall q, w32_ok (f32 q) = true) ->
  names_ok name pnames (zlen (Graph.gr_controls g)) = true ->
  graph_ok g = true ->
  exists d, to_sdef f32 name pnames g = Some d /\ wf_def d = true.
Proof. exact to_sdef_wf_l. Qed.

Theorem compiled_graph_roundtrip : forall f32 name pnames g,
  (forall q, w32_ok (f32 q) = true) ->
  names_ok name pnames (zlen (Graph.gr_controls g)) = true ->
  graph_ok g = true ->
  exists d bs, to_sdef f32 name pnames g = Some d /\ wf_def d = true
               /\ write_def d = Some bs /\ parse_def bs = Ok d.
Proof. exact to_sdef_roundtrip_l. Qed.

(* graph_ok = structural part (the compiler's obligation, true of every output whatever the program)
   + size part (fails exactly when the graph does not fit the format's integer fields) *)
Theorem graph_ok_from_core_and_size : forall g, graph_core_ok g = true -> graph_small g = true -> graph_ok g = true.
Proof. exact graph_core_small_ok. Qed.

(* FULL (for every program, no hypothesis): whatever program the compiler model compiles (with the
   regenerated flags, i.e. the code of the tree), in the emitted graph every constant input is in the
   constant table and every unit input refers to a unit at a STRICTLY SMALLER position -- the
   "topologically ordered" clause of C02 for the compiler's output.  Proved in proofs/C02_link.v from
   build-C01's compile_total / Compiled (sorted children, Before, Covered) and a lemma about
   collect_constants. *)
Theorem compiled_programs_topologically_ordered : forall p g,
  Graph.compile C01_built.T dce_strict dce_guard sub_guard p = Graph.Ok g -> graph_order_ok g = true.
Proof. exact compile_order_l. Qed.

(* the structural part of graph_ok = the order part (just proved for all programs) + facts local to one
   unit (class name, output index inside the referenced unit's outputs, control units inside the
   control array) *)
Theorem graph_core_from_order_and_local : forall g,
  graph_order_ok g = true -> graph_local_ok g = true -> graph_core_ok g = true.
Proof. exact graph_order_local_core. Qed.

(* PARTIAL (narrowed in the 2nd deepening round): for EVERY program the compiler model compiles, if the
   emitted graph passes the two DECIDABLE checks graph_local_ok (class names, output-index range,
   control coverage) and graph_small (integer fields of the format), its definition exists, is
   well-formed, is written and parses back.  No universally quantified hypothesis about the compiler
   is left; the full statement is this one without the premise graph_local_ok (three invariants of
   Graph.compile that are not proved: see notes/C02.md "Partial theorems"). *)
Theorem compiled_programs_roundtrip_partial : forall f32 name pnames p g,
  (forall q, w32_ok (f32 q) = true) ->
  Graph.compile C01_built.T dce_strict dce_guard sub_guard p = Graph.Ok g ->
  graph_local_ok g = true ->
  graph_small g = true ->
  names_ok name pnames (zlen (Graph.gr_controls g)) = true ->
  exists d bs, to_sdef f32 name pnames g = Some d /\ wf_def d = true
               /\ write_def d = Some bs /\ parse_def bs = Ok d.
Proof. exact compile_roundtrip_l. Qed.

(* FULL (3rd round, proofs/C01_local.v by the builder of C01): graph_local_ok holds of every graph the compiler model
   emits -- the class name of every unit is one of finitely many ASCII literals, every stored input `O v ch` has
   ch < nouts (unit v), a Control unit covers a part of the control array: invariants carried from the constructor
   calls through every step of the optimiser, _topological_sort and _index_ugens.  Hence for EVERY program the
   compiler model compiles, inside the integer ranges of the format (graph_small) and with an acceptable name /
   parameter table (names_ok) -- outside them the real writer raises --, the definition exists, is well-formed,
   is written and parses back. *)
Theorem compiled_graph_local_ok : forall p g,
  Graph.compile C01_built.T dce_strict dce_guard sub_guard p = Graph.Ok g -> graph_local_ok g = true.
Proof. exact C01_local.compile_local_ok. Qed.

Theorem compiled_programs_roundtrip : forall f32 name pnames p g,
  (forall q, w32_ok (f32 q) = true) ->
  Graph.compile C01_built.T dce_strict dce_guard sub_guard p = Graph.Ok g ->
  graph_small g = true ->
  names_ok name pnames (zlen (Graph.gr_controls g)) = true ->
  exists d bs, to_sdef f32 name pnames g = Some d /\ wf_def d = true
               /\ write_def d = Some bs /\ parse_def bs = Ok d.
Proof. exact C01_local.compile_roundtrip_full_l. Qed.

(* ---- non-vacuity: a concrete definition (SinOsc.ar(freq) -> Pan2 -> Out, one control 'gate'),
        accepted by the writer, well-formed, read back by both readers ---- *)
Definition ex_def : sdef :=
  mkSdef (bs_of_string "ex"%string) [0; 1065353216] [1138491392; 1065353216]
         [(bs_of_string "freq"%string, 0); (bs_of_string "gate"%string, 1)]
         [mkUgen (bs_of_string "Control"%string) 1 [] [1; 1] 0;
          mkUgen (bs_of_string "SinOsc"%string) 2 [IOut 0 0; IConst 0] [2] 0;
          mkUgen (bs_of_string "Pan2"%string) 2 [IOut 1 0; IConst 0; IOut 0 1] [2; 2] 0;
          mkUgen (bs_of_string "Out"%string) 2 [IConst 1; IOut 2 0; IOut 2 1] [] 0]
         [mkVariant (bs_of_string "ex.a"%string) [1130102784; 1065353216]].

Example ex_written : exists bs, write_def ex_def = Some bs /\ List.length bs = 215%nat.
Proof. eexists. split; vm_compute; reflexivity. Qed.
Example ex_wf : wf_def ex_def = true.
Proof. vm_compute. reflexivity. Qed.
Example ex_roundtrip : match write_def ex_def with Some bs => parse_def bs = Ok ex_def | None => False end.
Proof. vm_compute. reflexivity. Qed.
Example ex_reader : match desc_of_def ex_def with
                    | Some ds => ds_gate ds = true /\ ds_cnames ds = [bs_of_string "freq"%string; bs_of_string "gate"%string]
                                 /\ List.length (ds_outs ds) = 1%nat
                    | None => False end.
Proof. vm_compute. repeat split. Qed.
(* a forward reference is rejected by wf_def, truncated bytes by the parser *)
Example ex_forward_ref_rejected :
  wf_def (mkSdef (bs_of_string "f"%string) [] [] [] [mkUgen (bs_of_string "A"%string) 2 [IOut 1 0] [2] 0; mkUgen (bs_of_string "B"%string) 2 [] [2] 0] []) = false.
Proof. vm_compute. reflexivity. Qed.
Example ex_variant_count_without_variant :
  parse_def (enc_header ++ enc_pstr (bs_of_string "a"%string) ++ enc_i32 0 ++ enc_i32 0 ++ enc_i32 0 ++ enc_i32 0 ++ enc_i16 1) = Err Truncated.
Proof. vm_compute. reflexivity. Qed.
Example ex_invalid_variant_dropped :
  resolve_variants (bs_of_string "a"%string) [0] [(bs_of_string "freq"%string, 0, 1)] [(bs_of_string "v"%string, [(bs_of_string "nope"%string, [1])])] = [].
Proof. vm_compute. reflexivity. Qed.

(* two control units (Control.ir covering slots 0-1, Control.kr covering slots 2-3): the Out unit's
   bus is output 1 of the SECOND control unit -> described by the name of slot 3 *)
Definition ex_two_ctl : sdef :=
  mkSdef (bs_of_string "m"%string) [0] [0; 0; 1138491392; 1090519040]
         [(bs_of_string "a"%string, 0); (bs_of_string "b"%string, 1); (bs_of_string "freq"%string, 2); (bs_of_string "out"%string, 3)]
         [mkUgen (bs_of_string "Control"%string) 0 [] [0; 0] 0;
          mkUgen (bs_of_string "Control"%string) 1 [] [1; 1] 2;
          mkUgen (bs_of_string "SinOsc"%string) 2 [IOut 1 0; IConst 0] [2] 0;
          mkUgen (bs_of_string "Out"%string) 2 [IOut 1 1; IOut 2 0] [] 0] [].
Example ex_two_ctl_bus : match desc_of_def ex_two_ctl with
                         | Some ds => map io_start (ds_outs ds) = [SName (bs_of_string "out"%string)]
                                      /\ map c_rate (ds_ctls ds) = [0; 0; 1; 1]
                         | None => False end.
Proof. vm_compute. split; reflexivity. Qed.

(* the compiler model on a concrete program: SinOsc.ar(freq) -> Out.ar(out, .) with two kr parameters;
   its output passes graph_ok (the hypothesis compile_wf is met here) and the bridge applies *)
Definition ex_T := Graph.mkT unops_list binops_list.
(* the compiler model with the regenerated flags (its number of flags has changed over time) *)
Definition ex_cmp : Graph.prog -> Graph.res Graph.graph :=
  ltac:(first [ exact (Graph.compile ex_T dce_strict dce_guard sub_guard)
              | exact (Graph.compile ex_T dce_strict dce_guard) ]).
Definition ex_prog : Graph.prog :=
  Graph.mkP [] [QArith_base.Qmake 440 1; QArith_base.Qmake 0 1]
    [Graph.IU "SinOsc"%string Graph.Audio [Graph.AP true 0; Graph.AC (QArith_base.Qmake 0 1)];
     Graph.IOut Graph.Audio (Graph.AP true 1) [Graph.AV 0 0]].
Example ex_compiled_bridge :
  match ex_cmp ex_prog with
  | Graph.Ok g =>
      graph_order_ok g = true /\ graph_local_ok g = true /\ graph_core_ok g = true /\ graph_small g = true /\ graph_ok g = true
      /\ match to_sdef (fun _ => 0) (bs_of_string "c"%string) [(bs_of_string "k0"%string, 0); (bs_of_string "k1"%string, 1)] g with
         | Some d => wf_def d = true /\ List.length (d_units d) = 3%nat
                     /\ match write_def d with Some bs => parse_def bs = Ok d | None => False end
         | None => False end
  | Graph.Err _ => False
  end.
Proof. vm_compute. repeat split. Qed.
Example ex_len255_name : lib_rd_pstr (enc_pstr (repeat 120 255) ++ [7]) = Ok (repeat 120 255, [7]).
Proof. vm_compute. reflexivity. Qed.

(* the last unary operator (index 53, 'scurve') is found in the unary table, not the binary one *)
Example ex_last_unary_operator :
  unit_operator (mkUgen unop_cls 2 [IOut 0 0] [2] (zlen unops_list - 1)) = Some (Some (bs_of_string "scurve"%string))
  /\ unit_operator (mkUgen binop_cls 2 [IOut 0 0; IOut 0 0] [2] (zlen unops_list - 1)) = None.
Proof. vm_compute. split; reflexivity. Qed.

Print Assumptions scgf_roundtrip.
Print Assumptions wf_def_sound.
Print Assumptions reader_recovers.
Print Assumptions parse_total.
Print Assumptions compiled_programs_roundtrip_partial.
Print Assumptions compiled_graph_local_ok.
Print Assumptions compiled_programs_roundtrip.
Print Assumptions compiled_programs_topologically_ordered.
Print Assumptions reader_io_units.
