(* C06 -- OSC encoding round-trips, conforms to OSC 1.0 and is sized correctly.
   Property theorems only.  Models: model/Osc.v (sc3/base/_osclib.py and
   _oscinterface.py:_build_msg/_build_bundle), model/OscSize.v (netaddr.py size
   predictions and _clump_bundle).

   Two switches select the code the statements are about:
     nc = true  : write_string refuses a str containing NUL (C06_nul_in_string.diff);
     nc = false : the snapshot's write_string;
     fx = true  : repaired _calc_msg_dgram_size / _calc_bndl_dgram_size / _clump_bundle
                  (C06_size_prediction.diff, C06_clump_bundle.diff, C06_size_accepts.diff);
     fx = false : the original snapshot's.
   The positive theorems hold for nc = true, fx = true (and, where stated, for nc = false
   under an explicit NUL-freeness guard); the `_snapshot_refuted` theorems exhibit the
   inputs on which the snapshot's computations fail (DESIGN.md F2, F16).
   The correspondence (harness/props/C06.py) compares the real library with
   nc = true, fx = true. *)
From Coq Require Import ZArith QArith List Bool.
Import ListNotations.
Require Import SC3.model.Osc SC3.model.OscSize.
Require Import SC3.proofs.C06_base SC3.proofs.C06_size SC3.proofs.C06_clump
               SC3.proofs.C06_readers SC3.proofs.C06_roundtrip SC3.proofs.C06_gen
               SC3.proofs.C06_osc10 SC3.proofs.C06_inject SC3.proofs.C06_domain.
Require Import SC3.lib.PyNum SC3.gen.Gen_size SC3.model.Osc10 SC3.model.OscDomain.
Open Scope Z_scope.

(* ---- alignment ---------------------------------------------------------- *)
(* every encoded message or bundle (at any nesting depth) has a length = 0 mod 4 *)
Theorem enc_aligned : forall nc a d,
  floats4 a = true -> build_pkt nc a = Ok d -> zlen d mod 4 = 0.
Proof. intros nc a d Hwf Hb. exact (proj1 (sized_all nc a Hwf d Hb)). Qed.

(* every field is a multiple of 4 bytes long, hence (a datagram being the concatenation of
   its fields) every string, type tag string, blob and number starts on a multiple of 4 *)
Theorem enc_fields_aligned :
  (forall nc s d, write_string nc s = Ok d -> zlen d mod 4 = 0 /\ zlen s < zlen d <= zlen s + 4) /\
  (forall b d, write_blob b = Ok d -> zlen d mod 4 = 0 /\ 4 + zlen b <= zlen d < 8 + zlen b) /\
  (forall z d, write_int z = Ok d -> zlen d = 4) /\
  (forall t d, write_timetag t = Ok d -> zlen d = 8).
Proof.
  split; [| split; [| split]].
  - intros nc s d H. rewrite (write_string_len _ _ _ H). split; [apply strpad4_aligned | apply strpad4_gt].
  - intros b d H. rewrite (write_blob_len _ _ H). split; [apply blob_aligned |].
    pose proof (Z.mod_pos_bound (- zlen b) 4 ltac:(Lia.lia)). Lia.lia.
  - exact write_int_len.
  - exact write_timetag_len.
Qed.

(* ---- the documented coercions ------------------------------------------- *)
Theorem coercions_documented : forall nc,
  coerce1 nc ANone = Ok (TInt 0) /\ coerce1 nc (ABool false) = Ok (TInt 0) /\
  coerce1 nc (AList []) = Ok (TInt 0) /\ coerce1 nc (ABool true) = Ok (TInt 1) /\
  (forall z, coerce1 nc (AInt z) = Ok (TInt z)) /\
  (forall w, coerce1 nc (AFloat w) = Ok (TFloat w)) /\
  (forall b, coerce1 nc (ABytes b) = Ok (TBlob b)) /\
  coerce1 nc (AStr [91]) = Ok TOpen /\ coerce1 nc (AStr [93]) = Ok TClose /\
  (forall addr args, coerce1 nc (AList (AStr addr :: args)) =
                     build_pkt nc (AList (AStr addr :: args)) >>= fun d => Ok (TBlob d)) /\
  (forall lat tag l es, coerce1 nc (AList (ATime lat tag :: AList l :: es)) =
                        build_pkt nc (AList (ATime lat tag :: AList l :: es)) >>= fun d => Ok (TBlob d)) /\
  coerce1 nc AOther = Err EValue.
Proof. intros nc. repeat split; reflexivity. Qed.

(* ---- messages: parse (build m) = Ok (coerce m) --------------------------- *)
(* For every message the builder accepts, the parser returns the address and exactly the
   coerced arguments, nested by the array markers.  With the NUL check (nc = true) no
   guard on strings is needed: what cannot be represented was refused. *)
Theorem msg_roundtrip : forall nc addr args d,
  forallb floats4 args = true ->
  (nc = true \/ (has_nul addr = false /\ forall s, In (AStr s) args -> has_nul s = false)) ->
  build_pkt nc (AList (AStr addr :: args)) = Ok d ->
  exists targs ps,
    coerce_args nc args = Ok targs /\
    nest (map tok_of targs) [[]] = Some ps /\
    parse_msg d = Ok (addr, ps).
Proof. exact msg_roundtrip_main. Qed.

(* refused, never altered: unbalanced array markers do not reach the wire ... *)
Theorem msg_unbalanced_markers_refused : forall nc addr args targs d0,
  forallb floats4 args = true ->
  (nc = true \/ (has_nul addr = false /\ forall s, In (AStr s) args -> has_nul s = false)) ->
  coerce_args nc args = Ok targs -> enc_msg nc addr targs = Ok d0 ->
  nest (map tok_of targs) [[]] = None ->
  build_pkt nc (AList (AStr addr :: args)) = Err EParse.
Proof. exact msg_unbalanced_refused. Qed.

(* ... nor do ints outside int32, empty blobs, strings with NUL, out-of-range timetags *)
Theorem writers_refuse :
  (forall z, ~ (-2147483648 <= z < 2147483648) -> write_int z = Err EBuild) /\
  write_blob [] = Err EBuild /\
  (forall s, has_nul s = true -> write_string true s = Err EBuild) /\
  (forall t, ~ (0 <= t < 18446744073709551616) -> write_timetag t = Err EBuild) /\
  (forall nc targs, enc_msg nc [] targs = Err EBuild).
Proof.
  split; [| split; [| split; [| split]]].
  - intros z H. unfold write_int.
    destruct ((-2147483648 <=? z) && (z <? 2147483648)) eqn:E; [| reflexivity].
    apply andb_prop in E as [E1 E2]. apply Z.leb_le in E1. apply Z.ltb_lt in E2. Lia.lia.
  - reflexivity.
  - intros s H. unfold write_string. rewrite H. reflexivity.
  - intros t H. unfold write_timetag.
    destruct ((0 <=? t) && (t <? 18446744073709551616)) eqn:E; [| reflexivity].
    apply andb_prop in E as [E1 E2]. apply Z.leb_le in E1. apply Z.ltb_lt in E2. Lia.lia.
  - reflexivity.
Qed.

(* F16 on the snapshot: a str with a NUL is accepted and comes back different *)
Theorem msg_roundtrip_snapshot_refuted : exists addr args d ps,
  build_pkt false (AList (AStr addr :: args)) = Ok d /\
  parse_msg d = Ok (addr, ps) /\
  args = [AStr [97; 0; 98]] /\ ps = [PStr [97; 98]].
Proof.
  exists [47; 120], [AStr [97; 0; 98]], [47; 120; 0; 0; 44; 115; 0; 0; 97; 0; 98; 0], [PStr [97; 98]].
  vm_compute. repeat split.
Qed.

(* ---- bundles, any nesting depth ------------------------------------------ *)
(* [expect nc a p]: p is what an OSC receiver must see for the Python list a
   (proofs/C06_roundtrip.v): a message with its coerced, nested arguments, or a bundle
   with its timetag and the expected packets of its elements, in order.
   Guards ([pkt_guard]): every message that is an element of a bundle has an address
   beginning with '/' (the parser drops other elements with a warning; sclang and scsynth
   accept command names without it, which is why sc3 does not refuse them), and for
   nc = false addresses and strings are NUL-free.  Fuel: length + 1 suffices. *)
Theorem bundle_roundtrip : forall nc lat tag elems d,
  forallb floats4 elems = true ->
  pkt_guard nc (AList (ATime lat tag :: elems)) = true ->
  build_pkt nc (AList (ATime lat tag :: elems)) = Ok d ->
  exists cs, parse_bundle_top d = Ok (PBundle tag cs) /\ Forall2 (expect nc) elems cs.
Proof.
  intros nc lat tag elems d Hwf Hg Hb.
  assert (Hwf' : floats4 (AList (ATime lat tag :: elems)) = true) by (rewrite floats4_list; exact Hwf).
  destruct (rt_all nc _ Hwf' Hg d Hb (S (length d)) (Nat.lt_succ_diag_r _)) as (p & Hp & Hex).
  inversion Hex as [| lat' tag' elems' cs Hcs]; subst.
  exists cs. split; [| exact Hcs].
  unfold parse_any in Hp. unfold parse_bundle_top.
  rewrite build_pkt_bundle in Hb. apply bind_ok in Hb as (ds & _ & Hb). apply bind_ok in Hb as (d0 & He & Hb).
  pose proof (check_bundle_ok _ _ Hb) as ->.
  unfold enc_bundle in He. apply bind_ok in He as (t & _ & He). apply bind_ok in He as (b & _ & He). inv_ok He.
  change (is_bundle (bundle_prefix ++ t ++ b)) with true in Hp. exact Hp.
Qed.

(* the same for any packet (message or bundle), with explicit fuel *)
Theorem packet_roundtrip : forall nc a d fuel,
  floats4 a = true -> pkt_guard nc a = true -> build_pkt nc a = Ok d -> (length d < fuel)%nat ->
  exists p, parse_any fuel d = Ok p /\ expect nc a p.
Proof. intros nc a d fuel Hwf Hg Hb Hf. exact (rt_all nc a Hwf Hg d Hb fuel Hf). Qed.

(* ---- the encoder accepts its whole documented domain, and nothing else ------- *)
(* [in_domain] (model/OscDomain.v) is the decidable description of what can be sent: addresses
   and strings without NUL, addresses not empty, int32 ints, blobs of 1 .. 2^31-1 bytes, None /
   bool / float words / [] anywhere, message- or bundle-shaped lists as blobs, balanced array
   markers, bundle elements that are messages or bundles not earlier than their bundle
   (_check_subtime), time tags below 2^64; with [strict = true] also: bundle elements that are
   messages have addresses beginning with '/', and every nested list is predicted (hence is)
   shorter than 2^31 bytes, the range of its int32 size field.
   Success: every tree of the strict domain is accepted -- at any nesting depth, including the
   builder's own re-parse of what it wrote.  (C07's raw-form theorem uses this as its
   hypothesis "the encoder does not raise".) *)
Theorem build_accepts : forall nc a,
  floats4 a = true -> in_domain true a = true -> exists d, build_pkt nc a = Ok d.
Proof. intros nc a Hwf Hd. exact (accepted_all nc a Hwf Hd). Qed.

(* Refusal at any depth: what the (NUL-checking) encoder accepts is representable; hence a tree
   with an int outside int32, an empty blob, a NUL in a string or address, an unsupported
   object, a badly shaped list, unbalanced markers, an earlier nested bundle or a time tag
   outside 64 bits ANYWHERE in it is refused -- never sent altered. *)
Theorem accepted_is_representable : forall a d,
  floats4 a = true -> build_pkt true a = Ok d -> in_domain false a = true.
Proof. intros a d Hwf Hb. exact (representable_all a Hwf d Hb). Qed.

Theorem unrepresentable_refused : forall a,
  floats4 a = true -> in_domain false a = false -> exists e, build_pkt true a = Err e.
Proof.
  intros a Hwf Hd. destruct (build_pkt true a) as [d | e] eqn:Hb; [| eauto].
  rewrite (accepted_is_representable a d Hwf Hb) in Hd. discriminate Hd.
Qed.

(* ---- conformance to an independent OSC 1.0 reader --------------------------- *)
(* model/Osc10.v is a strict decoder written from the OSC 1.0 specification; it shares no
   code with the library's parser (it consumes the bytes front to back, checks that padding
   is NUL, that sizes are multiples of 4 and that nothing is left over).  Every message or
   bundle the builder accepts, at any nesting depth, is read by it as the expected packet --
   the same packet the library's own parser returns ([o_of_packet] only renames the
   constructors into the decoder's vocabulary). *)
Theorem osc10_agrees : forall nc a d,
  floats4 a = true -> pkt_guard nc a = true -> build_pkt nc a = Ok d ->
  exists p, expect nc a p /\
            parse_any (S (length d)) d = Ok p /\
            Osc10.decode d = Some (o_of_packet p).
Proof.
  intros nc a d Hwf Hg Hb.
  destruct (conforms_all nc a Hwf Hg d Hb (S (length d)) (Nat.lt_succ_diag_r _)) as (p1 & E1 & D1).
  destruct (rt_all nc a Hwf Hg d Hb (S (length d)) (Nat.lt_succ_diag_r _)) as (p2 & P2 & E2).
  pose proof (expect_functional nc a p1 p2 E1 E2) as <-.
  exists p1. auto.
Qed.

(* ---- nothing is silently altered: the bytes determine the coerced arguments ---- *)
(* Two accepted messages with the same bytes have the same address and the same coerced
   typed arguments (the coercions themselves identify None/False/[]/0, True/1 and a
   message-shaped list with the blob of its encoding: that is the documented behaviour). *)
Theorem decode_unique : forall nc addr1 args1 addr2 args2 d,
  forallb floats4 args1 = true -> forallb floats4 args2 = true ->
  (nc = true \/ (has_nul addr1 = false /\ forall s, In (AStr s) args1 -> has_nul s = false)) ->
  (nc = true \/ (has_nul addr2 = false /\ forall s, In (AStr s) args2 -> has_nul s = false)) ->
  build_pkt nc (AList (AStr addr1 :: args1)) = Ok d ->
  build_pkt nc (AList (AStr addr2 :: args2)) = Ok d ->
  addr1 = addr2 /\
  exists targs, coerce_args nc args1 = Ok targs /\ coerce_args nc args2 = Ok targs.
Proof. exact msg_injective_main. Qed.

(* two accepted trees (messages or bundles, any depth) with the same bytes denote the same
   packet, and a tree denotes at most one packet *)
Theorem packet_unique : forall nc a1 a2 d,
  floats4 a1 = true -> floats4 a2 = true -> pkt_guard nc a1 = true -> pkt_guard nc a2 = true ->
  build_pkt nc a1 = Ok d -> build_pkt nc a2 = Ok d ->
  exists p, expect nc a1 p /\ expect nc a2 p /\ forall q, expect nc a1 q \/ expect nc a2 q -> q = p.
Proof.
  intros nc a1 a2 d W1 W2 G1 G2 B1 B2.
  destruct (packet_unique_main nc a1 a2 d W1 W2 G1 G2 B1 B2) as (p & E1 & E2).
  exists p. split; [exact E1 |]. split; [exact E2 |].
  intros q [Hq | Hq]; [exact (expect_functional nc a1 q p Hq E1) | exact (expect_functional nc a2 q p Hq E2)].
Qed.

(* ---- size prediction ------------------------------------------------------ *)
(* tie: the strpad4 of the size model is the REGENERATED NetAddr._strpad4 on ints *)
Theorem strpad4_regenerated : forall n : Z, py__strpad4 (I n) = I (strpad4 n).
Proof. exact strpad4_is_generated. Qed.

(* the repaired prediction is never below the encoded size *)
Theorem size_upper_bound : forall nc a d n,
  floats4 a = true -> build_pkt nc a = Ok d -> calc_pkt true a = Ok n -> zlen d <= n.
Proof. intros nc a d n Hwf Hb Hc. exact (proj2 (sized_all nc a Hwf d Hb) n Hc). Qed.

(* SynthDef._do_send: when '/d_recv' is chosen the datagram is within the UDP limit *)
Theorem send_path_choice : forall nc m d n,
  floats4 m = true -> build_pkt nc m = Ok d -> calc_pkt true m = Ok n ->
  use_d_recv n = true -> zlen d <= MAX_UDP.
Proof.
  intros nc m d n Hwf Hb Hc Hu. pose proof (size_upper_bound nc m d n Hwf Hb Hc).
  unfold use_d_recv in Hu. apply Z.leb_le in Hu. Lia.lia.
Qed.

(* the repaired prediction is defined for everything the builder accepts (a nested bundle
   whose time is None, a non-ASCII address): send_clumped_bundles / sync can always decide *)
Theorem size_defined : forall nc a d,
  build_pkt nc a = Ok d -> exists n, calc_pkt true a = Ok n.
Proof. intros nc a d Hb. exact (predicted_all nc a d Hb). Qed.

Theorem clump_defined : forall nc lat tag es d size,
  build_pkt nc (AList (ATime lat tag :: es)) = Ok d -> exists cs, clump_bundle true size es = Ok cs.
Proof.
  intros nc lat tag es d size Hb. rewrite build_pkt_bundle in Hb. apply bind_ok in Hb as (ds & Hds & _).
  exact (C06_size.clump_defined nc lat es ds size Hds).
Qed.

(* on the snapshot a bundle that is accepted for sending has no prediction *)
Theorem size_defined_snapshot_refuted : exists a d,
  a = AList [ATime None 1; AList [ATime None 1; AList [AStr [47; 121]]]] /\
  build_pkt false a = Ok d /\ calc_pkt false a = Err EValue.
Proof.
  exists (AList [ATime None 1; AList [ATime None 1; AList [AStr [47; 121]]]]).
  exists [35; 98; 117; 110; 100; 108; 101; 0; 0; 0; 0; 0; 0; 0; 0; 1; 0; 0; 0; 28;
          35; 98; 117; 110; 100; 108; 101; 0; 0; 0; 0; 0; 0; 0; 0; 1; 0; 0; 0; 8; 47; 121; 0; 0; 44; 0; 0; 0].
  vm_compute. repeat split.
Qed.

(* F2 on the snapshot: _calc_msg_dgram_size(['/x', b'a']) = 13 < 16 *)
Theorem size_upper_bound_snapshot_refuted : exists a d n,
  a = AList [AStr [47; 120]; ABytes [97]] /\
  build_pkt false a = Ok d /\ calc_pkt false a = Ok n /\ n < zlen d.
Proof.
  exists (AList [AStr [47; 120]; ABytes [97]]), [47; 120; 0; 0; 44; 98; 0; 0; 0; 0; 0; 1; 97; 0; 0; 0], 13.
  vm_compute. repeat split.
Qed.
(* ... and a non-ASCII str: len('éééé') = 4 characters, 8 bytes *)
Theorem size_upper_bound_snapshot_refuted_utf8 : exists a d n,
  a = AList [AStr [47; 120]; AStr [195; 169; 195; 169; 195; 169; 195; 169]] /\
  build_pkt false a = Ok d /\ calc_pkt false a = Ok n /\ n < zlen d.
Proof.
  exists (AList [AStr [47; 120]; AStr [195; 169; 195; 169; 195; 169; 195; 169]]),
         [47; 120; 0; 0; 44; 115; 0; 0; 195; 169; 195; 169; 195; 169; 195; 169; 0; 0; 0; 0], 16.
  vm_compute. repeat split.
Qed.

(* ---- clumps ---------------------------------------------------------------- *)
(* every element exactly once and in order (snapshot and repaired); no empty clump (repaired) *)
Theorem clump_partition : forall fx size es cs,
  clump_bundle fx size es = Ok cs ->
  concat cs = es /\ (fx = true -> Forall (fun c => c <> []) cs).
Proof.
  intros fx size es cs H. unfold clump_bundle in H. apply bind_ok in H as (sl & Hsl & H). inv_ok H.
  split.
  - rewrite clump_loop_concat. cbn [rev app].
    clear -Hsl. revert sl Hsl. induction es as [| e r IH]; intros sl Hsl; cbn [clump_sizes] in Hsl.
    + inv_ok Hsl. reflexivity.
    + apply bind_ok in Hsl as (s & _ & Hsl). apply bind_ok in Hsl as (t & Ht & Hsl). inv_ok Hsl.
      cbn [map snd]. rewrite (IH t Ht). reflexivity.
  - intros ->. apply clump_loop_nonempty.
Qed.

Theorem clump_partition_snapshot_refuted : exists size es cs,
  clump_bundle false size es = Ok cs /\ In [] cs.
Proof.
  exists 24, [AList [AStr [47; 120]; AInt 1]], [[]; [AList [AStr [47; 120]; AInt 1]]].
  split; [vm_compute; reflexivity | left; reflexivity].
Qed.

(* every clump, sent as a bundle together with any extra elements, stays below
   size + (the extra elements), provided each single element fits *)
Theorem clump_within_limit : forall nc size es cs,
  forallb floats4 es = true ->
  clump_bundle true size es = Ok cs ->
  (forall e s, In e es -> calc_elem true e = Ok s -> 16 + (s + 4) < size) ->
  forall c, In c cs -> forall lat tag extra d,
    forallb floats4 extra = true ->
    build_pkt nc (AList (ATime lat tag :: c ++ extra)) = Ok d ->
    exists dx, build_elems nc lat extra = Ok dx /\ zlen d < size + bundle_len' dx.
Proof. exact clump_within_size. Qed.

(* NetAddr.sync: clump size 65504 - 36, '/sync' appended: within the UDP limit *)
Theorem clump_sync_within_udp_limit : forall nc es cs,
  forallb floats4 es = true ->
  clump_bundle true (MAX_UDP - SYNC_SIZE) es = Ok cs ->
  (forall e s, In e es -> calc_elem true e = Ok s -> 16 + (s + 4) < MAX_UDP - SYNC_SIZE) ->
  forall c, In c cs -> forall lat tag id d,
    build_pkt nc (AList (ATime lat tag :: c ++ [sync_msg id])) = Ok d ->
    zlen d <= MAX_UDP.
Proof. exact clump_sync_within_udp. Qed.

(* SynthDef._do_send: the prediction is made for the very message that is sent -- address,
   definition bytes AND completion message ([comp] is None, a message- or bundle-shaped list):
   when '/d_recv' is chosen that message encodes within the UDP limit.  (That the real code
   predicts for the message it sends is what the use-site monitor of harness/props/C06.py
   checks on the datagrams actually sent.) *)
Definition d_recv_addr : bytes := [47; 100; 95; 114; 101; 99; 118].      (* '/d_recv' *)
Theorem do_send_within_udp : forall nc def comp d n,
  floats4 comp = true ->
  build_pkt nc (AList [AStr d_recv_addr; ABytes def; comp]) = Ok d ->
  calc_pkt true (AList [AStr d_recv_addr; ABytes def; comp]) = Ok n ->
  use_d_recv n = true -> zlen d <= MAX_UDP.
Proof.
  intros nc def comp d n Hwf Hb Hc Hu.
  apply (send_path_choice nc (AList [AStr d_recv_addr; ABytes def; comp]) d n); try assumption.
  rewrite floats4_list. cbn [forallb floats4]. rewrite Hwf. reflexivity.
Qed.

(* NetAddr.send_clumped_bundles (hence every BundleNetAddr context): the datagrams it sends
   carry every element once and in order and each is within the UDP limit, provided every
   single element is (an element above the clump size 8192 travels alone) *)
Theorem send_clumped_within_udp : forall nc es cs,
  forallb floats4 es = true ->
  send_clumped_plan true es = Ok cs ->
  (forall e s, In e es -> calc_elem true e = Ok s -> 16 + (s + 4) <= MAX_UDP) ->
  concat cs = es /\
  forall c, In c cs -> forall lat tag d,
    build_pkt nc (AList (ATime lat tag :: c)) = Ok d -> zlen d <= MAX_UDP.
Proof. exact send_clumped_within_udp_main. Qed.

(* NetAddr.sync(elements): the same with '/sync' appended to every datagram *)
Theorem sync_within_udp : forall nc es cs,
  forallb floats4 es = true ->
  sync_plan true es = Ok cs ->
  (forall e s, In e es -> calc_elem true e = Ok s -> 16 + (s + 4) + 20 <= MAX_UDP) ->
  concat cs = es /\
  forall c, In c cs -> forall lat tag id d,
    build_pkt nc (AList (ATime lat tag :: c ++ [sync_msg id])) = Ok d -> zlen d <= MAX_UDP.
Proof. exact sync_within_udp_main. Qed.

(* F2 on the snapshot: the element size prefixes are not counted, a clump reaches the size
   although every element alone is far below it *)
Theorem clump_within_limit_snapshot_refuted : exists size es cs c d,
  clump_bundle false size es = Ok cs /\ In c cs /\
  (forall e s, In e es -> calc_elem false e = Ok s -> 16 + (s + 4) < size) /\
  build_pkt false (AList (ATime None 1 :: c)) = Ok d /\ size <= zlen d.
Proof.
  pose (m := AList [AStr [47; 120]; AInt 1]).
  exists 64, [m; m; m; m; m], [[m; m; m]; [m; m]], [m; m; m].
  exists (bundle_prefix ++ [0; 0; 0; 0; 0; 0; 0; 1] ++
          [0; 0; 0; 12; 47; 120; 0; 0; 44; 105; 0; 0; 0; 0; 0; 1] ++
          [0; 0; 0; 12; 47; 120; 0; 0; 44; 105; 0; 0; 0; 0; 0; 1] ++
          [0; 0; 0; 12; 47; 120; 0; 0; 44; 105; 0; 0; 0; 0; 0; 1]).
  split; [vm_compute; reflexivity |]. split; [left; reflexivity |]. split.
  - intros e s He Hs.
    assert (e = m) as -> by (cbn [In] in He; intuition congruence).
    vm_compute in Hs. inv_ok Hs. reflexivity.
  - vm_compute. split; [reflexivity | discriminate].
Qed.

(* ---- non-vacuity: the hypotheses are met and the models compute ------------ *)
Example build_example :
  build_pkt true (AList [AStr [47; 120]; AInt 1; AStr [91]; AFloat [63; 192; 0; 0]; AStr [93]; ANone;
                         AList [AStr [47; 121]; ABytes [1; 2; 3]]])
  = Ok [47; 120; 0; 0; 44; 105; 91; 102; 93; 105; 98; 0; 0; 0; 0; 1; 63; 192; 0; 0; 0; 0; 0; 0;
        0; 0; 0; 16; 47; 121; 0; 0; 44; 98; 0; 0; 0; 0; 0; 3; 1; 2; 3; 0].
Proof. vm_compute. reflexivity. Qed.
Example parse_example :
  parse_msg [47; 120; 0; 0; 44; 105; 91; 102; 93; 0; 0; 0; 0; 0; 0; 1; 63; 192; 0; 0]
  = Ok ([47; 120], [PInt 1; PArr [PFloat [63; 192; 0; 0]]]).
Proof. vm_compute. reflexivity. Qed.
Example bundle_example : exists d cs,
  build_pkt true (AList [ATime (Some (1 # 2)) 2147483648; AList [AStr [47; 97]; AInt 1];
                         AList [ATime (Some (1 # 2)) 2147483648; AList [AStr [47; 98]]]]) = Ok d /\
  parse_bundle_top d = Ok (PBundle 2147483648 cs) /\ length cs = 2%nat /\
  pkt_guard true (AList [ATime (Some (1 # 2)) 2147483648; AList [AStr [47; 97]; AInt 1]]) = true.
Proof.
  exists [35; 98; 117; 110; 100; 108; 101; 0; 0; 0; 0; 0; 128; 0; 0; 0; 0; 0; 0; 12; 47; 97; 0; 0; 44; 105; 0; 0;
          0; 0; 0; 1; 0; 0; 0; 28; 35; 98; 117; 110; 100; 108; 101; 0; 0; 0; 0; 0; 128; 0; 0; 0; 0; 0; 0; 8;
          47; 98; 0; 0; 44; 0; 0; 0],
         [PMsg [47; 97] [PInt 1]; PBundle 2147483648 [PMsg [47; 98] []]].
  vm_compute. repeat split.
Qed.
Example refusal_example :
  build_pkt true (AList [AStr [47; 120]; AInt 2147483648]) = Err EBuild /\
  build_pkt true (AList [AStr [47; 120]; ABytes []]) = Err EBuild /\
  build_pkt true (AList [AStr [47; 120]; AStr [97; 0; 98]]) = Err EBuild /\
  build_pkt true (AList [AStr [47; 120]; AStr [93]]) = Err EParse /\
  build_pkt true (AList [AStr [47; 120]; AOther]) = Err EValue.
Proof. vm_compute. repeat split. Qed.
Example osc10_example :
  Osc10.decode [47; 120; 0; 0; 44; 105; 91; 102; 93; 0; 0; 0; 0; 0; 0; 1; 63; 192; 0; 0]
  = Some (Osc10.OMessage [47; 120] [Osc10.OInt 1; Osc10.OArr [Osc10.OFloat [63; 192; 0; 0]]]) /\
  Osc10.decode [47; 120; 0; 0; 44; 115; 0; 0; 97; 0; 98; 0] = None /\      (* padding not NUL *)
  Osc10.decode [47; 120; 0; 0; 44; 105; 0; 0; 0; 0; 0; 1; 0; 0; 0; 0] = None.   (* bytes left over *)
Proof. vm_compute. repeat split. Qed.
Example domain_example :
  in_domain true (AList [ATime (Some (1 # 2)) 2147483648;
                         AList [AStr [47; 97]; AInt (-2147483648); AStr [91]; ANone; AList []; AStr [93]; ABytes [0]];
                         AList [ATime (Some (1 # 2)) 18446744073709551615;
                                AList [AStr [47; 98]; AList [AStr [99]; AFloat [63; 192; 0; 0]]]]]) = true /\
  (* an int one above int32, three levels down: outside the domain, refused *)
  in_domain false (AList [ATime None 1; AList [AStr [47; 97]; AList [AStr [47; 98]; AList [AStr [47; 99]; AInt 2147483648]]]]) = false /\
  build_pkt true (AList [ATime None 1; AList [AStr [47; 97]; AList [AStr [47; 98]; AList [AStr [47; 99]; AInt 2147483648]]]]) = Err EBuild.
Proof. vm_compute. repeat split. Qed.
Example clump_example :
  clump_canon (clump_bundle true 64 (repeat (AList [AStr [47; 120]; AInt 1]) 5)) = (0, [2; 2; 1]) /\
  clump_canon (clump_bundle false 64 (repeat (AList [AStr [47; 120]; AInt 1]) 5)) = (0, [3; 2]).
Proof. vm_compute. split; reflexivity. Qed.

Print Assumptions enc_aligned.
Print Assumptions msg_roundtrip.
Print Assumptions bundle_roundtrip.
Print Assumptions size_upper_bound.
Print Assumptions clump_within_limit.
Print Assumptions clump_sync_within_udp_limit.
Print Assumptions osc10_agrees.
Print Assumptions decode_unique.
Print Assumptions size_defined.
Print Assumptions build_accepts.
Print Assumptions accepted_is_representable.
Print Assumptions send_clumped_within_udp.
Print Assumptions sync_within_udp.
