(* C15 -- property theorems only.  Kernels are the REGENERATED definitions of
   sc3/base/builtins.py (gen/Gen_builtins.v over num = int | ideal float,
   gen/Gen_builtinsR.v over R). *)
From Coq Require Import QArith Reals.
Require Import SC3.lib.PyNum SC3.gen.Gen_builtins SC3.gen.Gen_builtinsR.
Require Import SC3.proofs.C15_kernels SC3.proofs.C15_real SC3.proofs.C15_general SC3.proofs.C15_clip.
Require Import SC3.model.ListAlg SC3.model.Lift SC3.proofs.C15_lift.
Require Import SC3.gen.Gen_maps SC3.proofs.C15_lift_maps.   (* lifting half, round 6: linlin regenerated per clip mode *)
Require Import SC3.proofs.C15_lift_bigstep.   (* lifting half: big-step homomorphism for the lazy kinds *)

(* --- range laws, float arguments --------------------------------------- *)
Theorem mod_nonneg_float : forall a b : Q, (0 < b)%Q ->
  exists r, py_mod (F a) (F b) = F r /\ (0 <= r)%Q /\ (r < b)%Q.
Proof. exact mod_float_range. Qed.
Theorem wrap_in_bounds_float : forall x lo hi : Q, (lo < hi)%Q ->
  exists r, py_wrap (F x) (F lo) (F hi) = F r /\ (lo <= r)%Q /\ (r < hi)%Q.
Proof. exact wrap_float_range. Qed.
Theorem fold_in_bounds_float : forall x lo hi : Q, (lo < hi)%Q ->
  exists r, py_fold (F x) (F lo) (F hi) = F r /\ (lo <= r)%Q /\ (r <= hi)%Q.
Proof. exact fold_float_range. Qed.
Theorem clip_in_bounds_float : forall x lo hi : Q, (lo <= hi)%Q ->
  exists r, py_clip (F x) (F lo) (F hi) = F r /\ (lo <= r)%Q /\ (r <= hi)%Q.
Proof. exact clip_float_range. Qed.
Theorem clip_idempotent_float : forall x lo hi : Q, (lo <= hi)%Q ->
  py_clip (py_clip (F x) (F lo) (F hi)) (F lo) (F hi) = py_clip (F x) (F lo) (F hi).
Proof. exact clip_float_idem. Qed.
Theorem round_multiple_nearest_float : forall x q : Q, (0 < q)%Q ->
  exists r, py_round (F x) (F q) = F r /\ multiple_of r q /\ (2 * r - q <= 2 * x)%Q /\ (2 * x < 2 * r + q)%Q.
Proof. exact round_float. Qed.
Theorem roundup_multiple_ge_float : forall x q : Q, (0 < q)%Q ->
  exists r, py_roundup (F x) (F q) = F r /\ multiple_of r q /\ (x <= r)%Q /\ (r < x + q)%Q.
Proof. exact roundup_float. Qed.
Theorem trunc_multiple_le_float : forall x q : Q, (0 < q)%Q ->
  exists r, py_trunc (F x) (F q) = F r /\ multiple_of r q /\ (r <= x)%Q /\ (x < r + q)%Q.
Proof. exact trunc_float. Qed.

(* --- range laws for EVERY mix of int and float arguments (num = int | ideal float) ---- *)
Theorem mod_nonneg : forall a b : num, is_ok a = true -> is_ok b = true -> (0 < toQ b)%Q ->
  exists r, py_mod a b = r /\ is_ok r = true /\ (0 <= toQ r)%Q /\ (toQ r < toQ b)%Q.
Proof. exact mod_general. Qed.
Theorem wrap_in_bounds : forall x lo hi : num, is_ok x = true -> is_ok lo = true -> is_ok hi = true ->
  (toQ lo < toQ hi)%Q ->
  exists r, py_wrap x lo hi = r /\ is_ok r = true /\ (toQ lo <= toQ r)%Q /\ (toQ r <= toQ hi)%Q /\
            (is_int x && is_int lo && is_int hi = false -> (toQ r < toQ hi)%Q).
Proof. exact wrap_general. Qed.
Theorem fold_in_bounds : forall x lo hi : num, is_ok x = true -> is_ok lo = true -> is_ok hi = true ->
  (toQ lo < toQ hi)%Q ->
  exists r, py_fold x lo hi = r /\ is_ok r = true /\ (toQ lo <= toQ r)%Q /\ (toQ r <= toQ hi)%Q.
Proof. exact fold_general. Qed.
Theorem clip_idempotent : forall x lo hi : num, is_ok x = true -> is_ok lo = true -> is_ok hi = true ->
  py_clip (py_clip x lo hi) lo hi = py_clip x lo hi.
Proof. exact clip_idem_general. Qed.
Theorem round_multiple_nearest : forall x q : num, is_ok x = true -> is_ok q = true -> (0 < toQ q)%Q ->
  exists r, py_round x q = F r /\ multiple_of r (toQ q) /\
            (2 * r - toQ q <= 2 * toQ x)%Q /\ (2 * toQ x < 2 * r + toQ q)%Q.
Proof. exact round_general. Qed.
Theorem roundup_multiple_ge : forall x q : num, is_ok x = true -> is_ok q = true -> (0 < toQ q)%Q ->
  exists r, py_roundup x q = F r /\ multiple_of r (toQ q) /\ (toQ x <= r)%Q /\ (r < toQ x + toQ q)%Q.
Proof. exact roundup_general. Qed.
Theorem trunc_multiple_le : forall x q : num, is_ok x = true -> is_ok q = true -> (0 < toQ q)%Q ->
  exists r, py_trunc x q = F r /\ multiple_of r (toQ q) /\ (r <= toQ x)%Q /\ (toQ x < r + toQ q)%Q.
Proof. exact trunc_general. Qed.
(* the integer kernels compute floor division / modulo although the code goes through floats *)
Theorem int_mod_is_Zmod : forall a b : Z, (0 < b)%Z -> py_mod (I a) (I b) = I (a mod b)%Z.
Proof. exact SC3.proofs.C15_int.py_mod_int. Qed.
Theorem int_div_is_Zdiv : forall a b : Z, (0 < b)%Z -> py_div (I a) (I b) = I (a / b)%Z.
Proof. exact SC3.proofs.C15_int.py_div_pos. Qed.

(* mixed-type instances that the released code got wrong (now theorems of the regenerated code) *)
Example round_int_float_quantum : canon (py_round (I 5) (F (3 # 2))) = (1, 9, 2)%Z.
Proof. vm_compute. reflexivity. Qed.
Example wrap_int_float_bounds : canon (py_wrap (I 3) (F (1 # 2)) (F (5 # 2))) = (1, 1, 1)%Z.
Proof. vm_compute. reflexivity. Qed.

(* --- inverse laws over the reals --------------------------------------- *)
Theorem cpsmidi_midicps_inverse : forall n : R, pyR_cpsmidi (pyR_midicps n) = n.
Proof. exact cpsmidi_midicps. Qed.
Theorem midicps_cpsmidi_inverse : forall f : R, (0 < f)%R -> pyR_midicps (pyR_cpsmidi f) = f.
Proof. exact midicps_cpsmidi. Qed.
Theorem ratiomidi_midiratio_inverse : forall m : R, pyR_ratiomidi (pyR_midiratio m) = m.
Proof. exact ratiomidi_midiratio. Qed.
Theorem midiratio_ratiomidi_inverse : forall r : R, (0 < r)%R -> pyR_midiratio (pyR_ratiomidi r) = r.
Proof. exact midiratio_ratiomidi. Qed.
Theorem cpsoct_octcps_inverse : forall n : R, pyR_cpsoct (pyR_octcps n) = n.
Proof. exact cpsoct_octcps. Qed.
Theorem octcps_cpsoct_inverse : forall f : R, (0 < f)%R -> pyR_octcps (pyR_cpsoct f) = f.
Proof. exact octcps_cpsoct. Qed.
Theorem ampdb_dbamp_inverse : forall d : R, pyR_ampdb (pyR_dbamp d) = d.
Proof. exact ampdb_dbamp. Qed.
Theorem dbamp_ampdb_inverse : forall a : R, (0 < a)%R -> pyR_dbamp (pyR_ampdb a) = a.
Proof. exact dbamp_ampdb. Qed.

(* === operator lifting (hand-written executable model model/Lift.v, model/ListAlg.v) ======= *)
(* --- C15 lifting half: paste into coq/props/C15.v after adding
   (tested under the current header of props/C15.v, QArith + Reals imported; no list notations used).
   Indices are nat (%nat); every theorem is closed under the global context. --- *)

(* lists: utils.list_binop on two non-empty lists of numbers: length = max of the lengths,
   element i = op a[i mod |a|] b[i mod |b|] *)
Theorem list_binop_wrap_law :
  forall (g : num -> num -> num) (ka : ListAlg.kind) (la : list num) (kb : ListAlg.kind) (lb0 : list num) (t : ListAlg.kind),
  la <> nil -> lb0 <> nil ->
  exists r : list ListAlg.v,
    ListAlg.list_binop g (ListAlg.L ka (List.map ListAlg.N la)) (ListAlg.L kb (List.map ListAlg.N lb0)) t = ListAlg.L t r
    /\ length r = Nat.max (length la) (length lb0)
    /\ forall i : nat, (i < Nat.max (length la) (length lb0))%nat ->
         List.nth i r (ListAlg.N NErr)
         = ListAlg.N (g (List.nth (Nat.modulo i (length la)) la NErr) (List.nth (Nat.modulo i (length lb0)) lb0 NErr)).
Proof. exact C15_lift.list_binop_wrap_law. Qed.

(* the same law, recursively, for any nesting and any element type (values or objects):
   element i is list_binop again on a[i mod |a|], b[i mod |b|] *)
Theorem list_binop_wrap_law_recursive :
  forall (X : Type) (view : X -> option (ListAlg.kind * list X)) (mk : ListAlg.kind -> list X -> X)
         (mkerr : ListAlg.err -> X) (n : nat) (op : X -> X -> X) (a b : X) (t ka : ListAlg.kind)
         (la : list X) (kb : ListAlg.kind) (lb0 : list X) (d : X),
  view a = Some (ka, la) -> view b = Some (kb, lb0) -> la <> nil -> lb0 <> nil ->
  exists r : list X,
    ListAlg.list_binop_f view mk mkerr (S (S n)) op a b t = mk t r
    /\ length r = Nat.max (length la) (length lb0)
    /\ forall i : nat, (i < Nat.max (length la) (length lb0))%nat ->
         let x := List.nth (Nat.modulo i (length la)) la d in
         let y := List.nth (Nat.modulo i (length lb0)) lb0 d in
         List.nth i r d = ListAlg.list_binop_f view mk mkerr (S n) op x y (ListAlg.t2_of view x y).
Proof. exact C15_lift.list_binop_wrap_law_gen. Qed.

(* ChannelList op list/tuple/ChannelList through the dispatch of AbstractSequence, any selector *)
Theorem chan_binop_wrap_law :
  forall (g : Lift.op2) (k : ListAlg.kind) (la lb0 : list num), la <> nil -> lb0 <> nil ->
  exists r : list Lift.obj,
    Lift.apply_binop g (Lift.OSeq ListAlg.KChan (List.map Lift.ONum la)) (Lift.OSeq k (List.map Lift.ONum lb0))
      = Lift.OSeq ListAlg.KChan r
    /\ length r = Nat.max (length la) (length lb0)
    /\ forall i : nat, (i < Nat.max (length la) (length lb0))%nat ->
         List.nth i r (Lift.ONum NErr)
         = Lift.ONum (snd g (List.nth (Nat.modulo i (length la)) la NErr) (List.nth (Nat.modulo i (length lb0)) lb0 NErr)).
Proof. exact C15_lift.chan_binop_wrap_law. Qed.

(* functions: (a op b)(x) = a(x) op b(x) for all objects a, b built from numbers, primitive
   functions and any unary / binary compositions, at least one of them a function; the result is
   again such an object, so the law iterates.  PARTIAL: the full statement
     forall a b : obj, eval env (apply_binop op a b) = map2_wrap (interp op) (eval env a) (eval env b)
   over all mixed operand kinds is proved per kind only (this theorem, stream_binop_*,
   pattern_binop_numbers, chan_binop_wrap_law, operand_binop_hom, reflected_forms). *)
Theorem lift_binop_hom_partial :
  forall (env : nat -> num) (fx : bool) (g : Lift.op2) (a b : Lift.obj),
  C15_lift.nf a = true -> C15_lift.nf b = true -> (Lift.is_fn a || Lift.is_fn b)%bool = true ->
  Lift.callv env fx (Lift.apply_binop g a b) = Lift.ONum (snd g (C15_lift.fval env a) (C15_lift.fval env b))
  /\ C15_lift.nf (Lift.apply_binop g a b) = true
  /\ Lift.is_fn (Lift.apply_binop g a b) = true.
Proof. exact C15_lift.lift_binop_hom_fn. Qed.

(* one step, ANY right operand: the composed function evaluates both operands at the same argument
   and applies the selector to the two values *)
Theorem function_binop_call :
  forall (env : nat -> num) (fx : bool) (g : Lift.op2) (a b : Lift.obj),
  Lift.is_fn a = true -> Lift.is_err b = false ->
  Lift.call env fx (Lift.apply_binop g a b) = Lift.sel_apply2 g (Lift.callv env fx a) (Lift.callv env fx b).
Proof. exact C15_lift.fn_binop_call. Qed.

Theorem lift_unop_hom_partial :
  forall (env : nat -> num) (fx : bool) (g : Lift.op1) (a : Lift.obj),
  C15_lift.nf a = true -> Lift.is_fn a = true ->
  Lift.callv env fx (Lift.apply_unop g a) = Lift.ONum (snd g (C15_lift.fval env a))
  /\ C15_lift.nf (Lift.apply_unop g a) = true.
Proof. exact C15_lift.lift_unop_hom_fn. Qed.

(* n-ary operators, NaropFunction evaluating every callable argument (narop_fixed = true: the code
   after the fix of functions.py:129) *)
Theorem lift_narop_hom :
  forall (env : nat -> num) (g : Lift.op3) (a : Lift.obj) (args : list Lift.obj) (x : num) (ys : list num),
  Lift.is_fn a = true -> Lift.call env true a = Lift.ONum x ->
  List.Forall2 (fun (o : Lift.obj) (y : num) => Lift.callv env true o = Lift.ONum y /\ Lift.is_err o = false) args ys ->
  Lift.call env true (Lift.apply_narop g a args) = Lift.ONum (snd g x ys).
Proof. exact C15_lift.lift_narop_hom. Qed.

(* the code before the fix (narop_fixed = false) satisfies it only for numbers / Function instances *)
Theorem lift_narop_hom_unfixed_partial :
  forall (env : nat -> num) (g : Lift.op3) (a : Lift.obj) (args : list Lift.obj) (x : num) (ys : list num),
  Lift.is_fn a = true -> Lift.call env false a = Lift.ONum x ->
  List.Forall2 (fun (o : Lift.obj) (y : num) => o = Lift.ONum y \/ exists id : nat, o = Lift.OFn id /\ env id = y) args ys ->
  Lift.call env false (Lift.apply_narop g a args) = Lift.ONum (snd g x ys).
Proof. exact C15_lift.lift_narop_hom_partial. Qed.

(* ... and is refuted for composed functions: f.clip(g - 5, g + 5)(3), f = x + 1, g = 2 x *)
Theorem lift_narop_hom_refuted :
  exists (env : nat -> num) (g : Lift.op3) (a : Lift.obj) (args : list Lift.obj) (x : num) (ys : list num),
    Lift.is_fn a = true /\ Lift.call env false a = Lift.ONum x /\
    List.Forall2 (fun (o : Lift.obj) (y : num) => Lift.callv env false o = Lift.ONum y /\ Lift.is_err o = false) args ys /\
    snd g x ys = I 4 /\
    Lift.call env false (Lift.apply_narop g a args) = Lift.OErr ListAlg.EObjArg.
Proof. exact C15_lift.lift_narop_hom_refuted. Qed.

(* reflected forms: a plain number on the left stays the LEFT argument, for a function, every
   element of a stream / pattern / ChannelList, and an Operand *)
Theorem reflected_forms :
  forall (env : nat -> num) (fx : bool) (g : Lift.op2) (n : num),
  (forall b : Lift.obj, Lift.is_fn b = true ->
     Lift.call env fx (Lift.apply_binop g (Lift.ONum n) b) = Lift.sel_apply2 g (Lift.ONum n) (Lift.call env fx b))
  /\ (forall (s : Lift.obj) (l : list Lift.obj), Lift.class_of s = Lift.CStr -> Lift.pull s = Lift.SFin l ->
     Lift.pull (Lift.apply_binop g (Lift.ONum n) s) = Lift.SFin (List.map (fun e => Lift.sel_apply2 g (Lift.ONum n) e) l))
  /\ (forall (p : Lift.obj) (l : list Lift.obj), Lift.class_of p = Lift.CPat -> Lift.pull (Lift.to_stream p) = Lift.SFin l ->
     Lift.pull (Lift.to_stream (Lift.apply_binop g (Lift.ONum n) p))
       = Lift.SFin (List.map (fun e => Lift.sel_apply2 g (Lift.ONum n) e) l))
  /\ (forall ys : list num,
     Lift.apply_binop g (Lift.ONum n) (Lift.OSeq ListAlg.KChan (List.map Lift.ONum ys))
       = Lift.OSeq ListAlg.KChan (List.map (fun y => Lift.ONum (snd g n y)) ys))
  /\ (forall (r : bool) (y : num),
     Lift.apply_binop g (Lift.ONum n) (Lift.OOperand r (Lift.ONum y)) = Lift.OOperand r (Lift.ONum (snd g n y))).
Proof. exact C15_lift.reflected_forms. Qed.

(* streams: next(s op t) = next(s) op next(t) in lock step, ending with the shorter operand *)
Theorem stream_binop_ends_with_shortest :
  forall (g : Lift.op2) (s b : Lift.obj) (l m : list Lift.obj) (d : Lift.obj),
  Lift.class_of s = Lift.CStr -> Lift.is_err b = false ->
  Lift.pull s = Lift.SFin l -> Lift.pull (Lift.to_stream b) = Lift.SFin m ->
  exists r : list Lift.obj,
    Lift.pull (Lift.apply_binop g s b) = Lift.SFin r
    /\ length r = Nat.min (length l) (length m)
    /\ forall i : nat, (i < Nat.min (length l) (length m))%nat ->
         List.nth i r d = Lift.sel_apply2 g (List.nth i l d) (List.nth i m d).
Proof. exact C15_lift.stream_binop_ends_with_shortest. Qed.

Theorem stream_binop_numbers :
  forall (g : Lift.op2) (la lb0 : list num),
  Lift.pull (Lift.apply_binop g (Lift.OStr la) (Lift.OStr lb0))
  = Lift.SFin (List.map (fun p : num * num => Lift.ONum (snd g (fst p) (snd p))) (ListAlg.zip la lb0)).
Proof. exact C15_lift.stream_binop_numbers. Qed.

(* patterns: stream(p op q) = stream(p) op stream(q) *)
Theorem pattern_binop_numbers :
  forall (g : Lift.op2) (la lb0 : list num),
  Lift.pull (Lift.to_stream (Lift.apply_binop g (Lift.OPat la) (Lift.OPat lb0)))
  = Lift.SFin (List.map (fun p : num * num => Lift.ONum (snd g (fst p) (snd p))) (ListAlg.zip la lb0)).
Proof. exact C15_lift.pattern_binop_numbers. Qed.

(* operands: Operand/Rest op Operand/Rest, op number, number op (reflected) *)
Theorem operand_binop_hom :
  forall (g : Lift.op2) (r r' : bool) (x y : num),
  Lift.apply_binop g (Lift.OOperand r (Lift.ONum x)) (Lift.OOperand r' (Lift.ONum y)) = Lift.OOperand r (Lift.ONum (snd g x y))
  /\ Lift.apply_binop g (Lift.OOperand r (Lift.ONum x)) (Lift.ONum y) = Lift.OOperand r (Lift.ONum (snd g x y))
  /\ Lift.apply_binop g (Lift.ONum x) (Lift.OOperand r (Lift.ONum y)) = Lift.OOperand r (Lift.ONum (snd g x y)).
Proof. exact C15_lift.operand_binop_hom. Qed.

(* --- non-vacuity: the hypotheses are met and the model computes --- *)
(* ChannelList([1, 2, 3]) - (10, 20)  =  ChannelList([-9, -18, -7])   (wrap-around, tuple on the right) *)
Example chan_wrap_example :
  Lift.apply_binop (Lift.SPy, nsub)
    (Lift.OSeq ListAlg.KChan (List.map Lift.ONum (I 1 :: I 2 :: I 3 :: nil)))
    (Lift.OSeq ListAlg.KTuple (List.map Lift.ONum (I 10 :: I 20 :: nil)))
  = Lift.OSeq ListAlg.KChan (Lift.ONum (I (-9)) :: Lift.ONum (I (-18)) :: Lift.ONum (I (-7)) :: nil).
Proof. vm_compute. reflexivity. Qed.
(* f.clip(g - 5, g + 5)(3) with f(3) = 4, g(3) = 6: the repaired NaropFunction gives clip 4 1 11 = 4,
   the unrepaired one hands the kernel two unevaluated BinopFunction objects *)
Example narop_witness_example :
  let env := fun id : nat => match id with O => I 4 | _ => I 6 end in
  let e := Lift.apply_narop (Lift.SDec, C15_lift.clip_demo) (Lift.OFn 0)
             (Lift.OBinFn (Lift.SPy, nsub) (Lift.OFn 1) (Lift.ONum (I 5))
              :: Lift.OBinFn (Lift.SPy, nadd) (Lift.OFn 1) (Lift.ONum (I 5)) :: nil) in
  Lift.call env true e = Lift.ONum (I 4) /\ Lift.call env false e = Lift.OErr ListAlg.EObjArg.
Proof. vm_compute. split; reflexivity. Qed.

Print Assumptions list_binop_wrap_law.
Print Assumptions lift_binop_hom_partial.
Print Assumptions lift_narop_hom_refuted.
Print Assumptions reflected_forms.

(* --- operator patterns EMBEDDED in enclosing patterns (Punop/Pnarop.__embed__, Pattern.__embed__) --- *)
(* the __embed__ path of Punop / Pbinop / Pnarop yields what the __stream__ path yields *)
Theorem embed_eq_stream :
  forall (g1 : Lift.op1) (g2 : Lift.op2) (g3 : Lift.op3) (a b : Lift.obj) (args : list Lift.obj),
  Lift.xpull Lift.MEmbed (Lift.OUnPat g1 a) = Lift.xpull Lift.MStream (Lift.OUnPat g1 a)
  /\ Lift.xpull Lift.MEmbed (Lift.OBinPat g2 a b) = Lift.xpull Lift.MStream (Lift.OBinPat g2 a b)
  /\ Lift.xpull Lift.MEmbed (Lift.ONarPat g3 a args) = Lift.xpull Lift.MStream (Lift.ONarPat g3 a args).
Proof. exact C15_lift.embed_eq_stream. Qed.

(* Pseq([p.op(args...)]) streamed or embedded again: element i = op applied to the i-th values of
   stream(p), stream(arg_1), ...: EVERY operand stream (pattern, Routine, pattern stream, or the
   constant stream of a number / Function) is advanced once per element *)
Theorem embedded_narop :
  forall (g : Lift.op3) (a : Lift.obj) (args : list Lift.obj) (m : Lift.pmode), m <> Lift.MPull ->
  Lift.xpull m (Lift.OPseq (cons (Lift.ONarPat g a args) nil) 1)
  = Lift.szip (Lift.sel_apply3 g) (Lift.xpull Lift.MStream a) (Lift.sseq (List.map (Lift.xpull Lift.MStream) args)).
Proof. exact C15_lift.embedded_narop. Qed.
Theorem embedded_binop :
  forall (g : Lift.op2) (a b : Lift.obj) (m : Lift.pmode), m <> Lift.MPull ->
  Lift.xpull m (Lift.OPseq (cons (Lift.OBinPat g a b) nil) 1)
  = Lift.szip (Lift.sel_apply2 g) (Lift.xpull Lift.MStream a) (Lift.xpull Lift.MStream b).
Proof. exact C15_lift.embedded_binop. Qed.
Theorem embedded_unop :
  forall (g : Lift.op1) (a : Lift.obj) (m : Lift.pmode), m <> Lift.MPull ->
  Lift.xpull m (Lift.OPseq (cons (Lift.OUnPat g a) nil) 1) = Lift.smap (Lift.sel_apply1 g) (Lift.xpull Lift.MStream a).
Proof. exact C15_lift.embedded_unop. Qed.

(* closed form: p.op(lo, hi) inside a Pseq, p a pattern, lo a Routine yielding varying values, hi a pattern *)
Theorem embedded_narop_numbers :
  forall (g : Lift.op3) (la lo hi : list num),
  Lift.xpull Lift.MStream (Lift.OPseq (cons (Lift.ONarPat g (Lift.OPat la) (cons (Lift.OStr lo) (cons (Lift.OPat hi) nil))) nil) 1)
  = Lift.SFin (List.map (fun t : num * (num * num) => Lift.ONum (snd g (fst t) (cons (fst (snd t)) (cons (snd (snd t)) nil))))
                        (ListAlg.zip la (ListAlg.zip lo hi))).
Proof. exact C15_lift.embedded_narop_numbers. Qed.

(* stream(o) pulled = the stream denotation of o, for every object *)
Theorem stream_of_object :
  forall o : Lift.obj, Lift.xpull Lift.MPull (Lift.to_stream o) = Lift.xpull Lift.MStream o.
Proof. exact C15_lift.xpull_to_stream. Qed.

(* Pseq([Pseq([1,5,4,7,8,1]).clip(routine [0,6,3,9,9,0], Pseq([9,5,4,7,8,1]))]): the coordinator's example *)
Example embedded_narop_example :
  Lift.xpull Lift.MStream
    (Lift.OPseq (cons (Lift.ONarPat (Lift.SDec, C15_lift.clip_demo) (Lift.OPat (I 1 :: I 5 :: I 4 :: nil)%list)
                   (Lift.OStr (I 0 :: I 6 :: I 3 :: nil)%list :: Lift.OPat (I 9 :: I 9 :: I 3 :: nil)%list :: nil)%list) nil) 1)
  = Lift.SFin (Lift.ONum (I 1) :: Lift.ONum (I 6) :: Lift.ONum (I 3) :: nil)%list.
Proof. vm_compute. reflexivity. Qed.

(* --- keyword calls: Function.__call__ filtering; one argument record for every operand function --- *)
(* Function.__call__ hands the wrapped function args[:nargs] and only the keywords it declares *)
Theorem function_call_filters :
  forall (p : Lift.prim) (pos : list num) (kw : list (nat * num)),
  Lift.prim_call p (pos, kw)
  = Lift.prim_call p (List.firstn (length (Lift.p_params p)) pos,
                      List.filter (fun e : nat * num => Lift.declares (Lift.p_params p) (fst e)) kw).
Proof. exact C15_lift.prim_call_filters. Qed.
Theorem function_call_ignores_undeclared_keyword :
  forall (p : Lift.prim) (pos : list num) (kw : list (nat * num)) (n : nat) (v : num),
  Lift.declares (Lift.p_params p) n = false ->
  Lift.prim_call p (pos, cons (n, v) kw) = Lift.prim_call p (pos, kw).
Proof. exact C15_lift.prim_call_ignores_undeclared. Qed.
Theorem function_call_ignores_surplus_positional :
  forall (p : Lift.prim) (pos extra : list num) (kw : list (nat * num)),
  (length (Lift.p_params p) <= length pos)%nat ->
  Lift.prim_call p (app pos extra, kw) = Lift.prim_call p (pos, kw).
Proof. exact C15_lift.prim_call_ignores_surplus. Qed.

(* (a op b)(args, kw) = op (a(args, kw)) (b(args, kw)) for composed function objects a, b: every leaf
   primitive is called with the same argument record c (and filters it for itself) *)
Theorem keyword_call_binop :
  forall (prims : list Lift.prim) (c : Lift.callargs) (fx : bool) (g : Lift.op2) (a b : Lift.obj),
  C15_lift.nf a = true -> C15_lift.nf b = true -> (Lift.is_fn a || Lift.is_fn b)%bool = true ->
  Lift.callv (Lift.env_of prims c) fx (Lift.apply_binop g a b)
  = Lift.ONum (snd g (C15_lift.fval (Lift.env_of prims c) a) (C15_lift.fval (Lift.env_of prims c) b))
  /\ (forall id : nat, C15_lift.fval (Lift.env_of prims c) (Lift.OFn id)
        = match List.nth_error prims id with Some p => Lift.prim_call p c | None => NErr end).
Proof. exact C15_lift.keyword_call_binop. Qed.
Theorem keyword_call_unop :
  forall (prims : list Lift.prim) (c : Lift.callargs) (fx : bool) (g : Lift.op1) (a : Lift.obj),
  C15_lift.nf a = true -> Lift.is_fn a = true ->
  Lift.callv (Lift.env_of prims c) fx (Lift.apply_unop g a) = Lift.ONum (snd g (C15_lift.fval (Lift.env_of prims c) a)).
Proof. exact C15_lift.keyword_call_unop. Qed.
(* n-ary: the receiver AND every extra operand function see the same argument record *)
Theorem keyword_call_narop :
  forall (prims : list Lift.prim) (c : Lift.callargs) (g : Lift.op3) (a : Lift.obj) (args : list Lift.obj)
         (x : num) (ys : list num),
  Lift.is_fn a = true -> Lift.call (Lift.env_of prims c) true a = Lift.ONum x ->
  List.Forall2 (fun (o : Lift.obj) (y : num) => Lift.callv (Lift.env_of prims c) true o = Lift.ONum y /\ Lift.is_err o = false) args ys ->
  Lift.call (Lift.env_of prims c) true (Lift.apply_narop g a args) = Lift.ONum (snd g x ys).
Proof. exact C15_lift.keyword_call_narop. Qed.

(* sig = lambda x, depth=1: 0 + 1*x + 1*depth ; lo = lambda depth=1: 0 + (-1)*depth ; hi = lambda depth=1: 0 + 1*depth
   sig.clip(lo, hi)(x=-5, depth=2): sig -> -3, lo -> -2, hi -> 2, clip -> -2 (lo and hi must see depth=2;
   with their defaults they would give -1) *)
Example keyword_call_example :
  let sig := {| Lift.p_params := cons (0%nat, None) (cons (1%nat, Some (I 1)) nil);
                Lift.p_coef := cons (I 1) (cons (I 1) nil); Lift.p_const := I 0 |} in
  let lo := {| Lift.p_params := cons (1%nat, Some (I 1)) nil; Lift.p_coef := cons (I (-1)) nil; Lift.p_const := I 0 |} in
  let hi := {| Lift.p_params := cons (1%nat, Some (I 1)) nil; Lift.p_coef := cons (I 1) nil; Lift.p_const := I 0 |} in
  let c : Lift.callargs := (nil, cons (0%nat, I (-5)) (cons (1%nat, I 2) (cons (2%nat, I 7) nil))) in
  Lift.call (Lift.env_of (cons sig (cons lo (cons hi nil))) c) true
    (Lift.apply_narop (Lift.SDec, C15_lift.clip_demo) (Lift.OFn 0) (cons (Lift.OFn 1) (cons (Lift.OFn 2) nil)))
  = Lift.ONum (I (-2)).
Proof. vm_compute. reflexivity. Qed.

(* --- the homomorphism for ALL operand kinds (deepening round 2) --- *)
(* One evaluation step, exhaustive over the kinds of BOTH operands (number, Function, Stream, Pattern,
   list/tuple, ChannelList, Operand/Rest and every composite): whichever operand composes, calling /
   pulling / streaming the object `a op b`, or its items, or its value, is the selector applied to the same
   evaluation step of the operands, a on the LEFT (a non-lazy operand stands for itself resp. the constant
   stream).  Every selector, every environment.  Together with list_binop_wrap_law_recursive this is the
   lifting law for the whole mixed-kind matrix at the level of one step; the big-step statement
   `eval (a op b) = map2_wrap op (eval a) (eval b)` is its iteration (proved for function objects:
   lift_hom_functions_nary; see notes/C15_lift.md "Partial theorems" for what is left). *)
Theorem lift_binop_hom_step :
  forall (env : nat -> num) (fx : bool) (g : Lift.op2) (a b : Lift.obj),
  Lift.is_err a = false -> Lift.is_err b = false ->
  let n := S (Lift.odepth a + Lift.odepth b) in
  match Lift.class_of a with
  | Lift.CFn => Lift.call env fx (Lift.apply_binop g a b) = Lift.sel_apply2 g (Lift.callv env fx a) (Lift.callv env fx b)
  | Lift.CStr => Lift.xpull Lift.MPull (Lift.apply_binop g a b)
                 = Lift.szip (Lift.sel_apply2 g) (Lift.xpull Lift.MPull a) (Lift.xpull Lift.MStream b)
  | Lift.CPat => Lift.xpull Lift.MStream (Lift.apply_binop g a b)
                 = Lift.szip (Lift.sel_apply2 g) (Lift.xpull Lift.MStream a) (Lift.xpull Lift.MStream b)
  | Lift.CSeq ListAlg.KChan =>
      Lift.apply_binop g a b = ListAlg.list_binop_f Lift.oview Lift.OSeq Lift.OErr n (C15_lift.sel2_f n g) a b ListAlg.KChan
  | Lift.COperand r =>
      Lift.apply_binop g a b = Lift.mk_operand r (C15_lift.sel2_f n g (Lift.operand_value a) (Lift.operand_value b))
  | _ =>
    match Lift.class_of b with
    | Lift.CFn => Lift.call env fx (Lift.apply_binop g a b) = Lift.sel_apply2 g a (Lift.call env fx b)
    | Lift.CStr => Lift.xpull Lift.MPull (Lift.apply_binop g a b)
                   = Lift.szip (Lift.sel_apply2 g) (Lift.SConst a) (Lift.xpull Lift.MPull b)
    | Lift.CPat => Lift.xpull Lift.MStream (Lift.apply_binop g a b)
                   = Lift.szip (Lift.sel_apply2 g) (Lift.SConst a) (Lift.xpull Lift.MStream b)
    | Lift.CSeq ListAlg.KChan =>
        Lift.apply_binop g a b = ListAlg.list_binop_f Lift.oview Lift.OSeq Lift.OErr n (C15_lift.sel2_f n g) a b ListAlg.KChan
    | Lift.COperand r => Lift.apply_binop g a b = Lift.mk_operand r (C15_lift.sel2_f n g a (Lift.operand_value b))
    | _ => match Lift.num_of a, Lift.num_of b with
           | Some x, Some y => Lift.apply_binop g a b = Lift.ONum (snd g x y)
           | _, _ => Lift.apply_binop g a b = Lift.OErr ListAlg.EType
           end
    end
  end.
Proof. exact C15_lift.lift_binop_hom_step. Qed.

Theorem lift_unop_hom_step :
  forall (env : nat -> num) (fx : bool) (g : Lift.op1) (a : Lift.obj), Lift.is_err a = false ->
  let n := S (Lift.odepth a) in
  match Lift.class_of a with
  | Lift.CFn => Lift.call env fx (Lift.apply_unop g a) = Lift.sel_apply1 g (Lift.call env fx a)
  | Lift.CStr => Lift.xpull Lift.MPull (Lift.apply_unop g a) = Lift.smap (Lift.sel_apply1 g) (Lift.xpull Lift.MPull a)
  | Lift.CPat => Lift.xpull Lift.MStream (Lift.apply_unop g a) = Lift.smap (Lift.sel_apply1 g) (Lift.xpull Lift.MStream a)
  | Lift.CSeq ListAlg.KChan =>
      Lift.apply_unop g a = ListAlg.list_unop_f Lift.oview Lift.OSeq Lift.OErr n (C15_lift.sel1_f n g) a ListAlg.KChan
  | Lift.COperand r => Lift.apply_unop g a = Lift.mk_operand r (C15_lift.sel1_f n g (Lift.operand_value a))
  | Lift.CNum => match Lift.num_of a with Some x => Lift.apply_unop g a = Lift.ONum (snd g x) | None => True end
  | _ => Lift.apply_unop g a = Lift.OErr ListAlg.EType
  end.
Proof. exact C15_lift.lift_unop_hom_step. Qed.

(* ChannelList op list/tuple/ChannelList whose items are ANY lazy objects (numbers, Functions, Streams,
   Patterns and their composites, mixed): length = max, item i = a[i mod |a|] op b[i mod |b|] by the
   dispatching operator *)
Theorem chan_binop_wrap_law_mixed :
  forall (g : Lift.op2) (k : ListAlg.kind) (la lb0 : list Lift.obj),
  la <> nil -> lb0 <> nil ->
  List.Forall (fun o : Lift.obj => Lift.odepth o = 0%nat) la -> List.Forall (fun o : Lift.obj => Lift.odepth o = 0%nat) lb0 ->
  exists r : list Lift.obj,
    Lift.apply_binop g (Lift.OSeq ListAlg.KChan la) (Lift.OSeq k lb0) = Lift.OSeq ListAlg.KChan r
    /\ length r = Nat.max (length la) (length lb0)
    /\ forall i : nat, (i < Nat.max (length la) (length lb0))%nat ->
         List.nth i r (Lift.ONum NErr)
         = Lift.sel_apply2 g (List.nth (Nat.modulo i (length la)) la (Lift.ONum NErr))
                             (List.nth (Nat.modulo i (length lb0)) lb0 (Lift.ONum NErr)).
Proof. exact C15_lift.chan_binop_wrap_law_mixed. Qed.

(* function objects built from numbers, primitive functions and ANY unary / binary / n-ary compositions,
   nested arbitrarily (NaropFunction evaluating every callable argument): the three homomorphisms by
   induction, each result again such an object *)
Theorem lift_hom_functions_nary :
  forall (env : nat -> num) (g1 : Lift.op1) (g2 : Lift.op2) (g3 : Lift.op3) (a b : Lift.obj) (args : list Lift.obj),
  C15_lift.nf3 a = true -> C15_lift.nf3 b = true -> List.forallb C15_lift.nf3 args = true ->
  (Lift.is_fn a = true ->
     Lift.callv env true (Lift.apply_unop g1 a) = Lift.ONum (snd g1 (C15_lift.fval3 env a))
     /\ C15_lift.nf3 (Lift.apply_unop g1 a) = true)
  /\ ((Lift.is_fn a || Lift.is_fn b)%bool = true ->
     Lift.callv env true (Lift.apply_binop g2 a b) = Lift.ONum (snd g2 (C15_lift.fval3 env a) (C15_lift.fval3 env b))
     /\ C15_lift.nf3 (Lift.apply_binop g2 a b) = true)
  /\ (Lift.is_fn a = true ->
     Lift.callv env true (Lift.apply_narop g3 a args)
       = Lift.ONum (snd g3 (C15_lift.fval3 env a) (List.map (C15_lift.fval3 env) args))
     /\ C15_lift.nf3 (Lift.apply_narop g3 a args) = true).
Proof. exact C15_lift.lift_hom_fn_nary. Qed.

(* mixed kinds, computed: routine [1, 2] - f is the stream of the composed functions 1 - f, 2 - f; called at the
   argument where f gives 10 they give -9, -8; ChannelList([f, 3]) * (routine [1, 2],) multiplies item-wise *)
Example mixed_kinds_example :
  let env := fun _ : nat => I 10 in
  let s := Lift.OStr (cons (I 1) (cons (I 2) nil)) in
  Lift.xpull Lift.MPull (Lift.apply_binop (Lift.SPy, nsub) s (Lift.OFn 0))
  = Lift.SFin (cons (Lift.OBinFn (Lift.SPy, nsub) (Lift.ONum (I 1)) (Lift.OFn 0))
              (cons (Lift.OBinFn (Lift.SPy, nsub) (Lift.ONum (I 2)) (Lift.OFn 0)) nil))
  /\ Lift.den_norm (Lift.eval_f env true 20 (Lift.apply_binop (Lift.SPy, nsub) s (Lift.OFn 0)))
     = Lift.DStr (cons (Lift.DCall (Lift.DNum (I (-9)))) (cons (Lift.DCall (Lift.DNum (I (-8)))) nil))
  /\ Lift.den_norm (Lift.eval_f env true 20
        (Lift.apply_binop (Lift.SPy, nmul) (Lift.OSeq ListAlg.KChan (cons (Lift.OFn 0) (cons (Lift.ONum (I 3)) nil)))
                                           (Lift.OSeq ListAlg.KTuple (cons s nil))))
     = Lift.DSeq ListAlg.KChan (cons (Lift.DCall (Lift.DStr (cons (Lift.DNum (I 10)) (cons (Lift.DNum (I 20)) nil))))
                               (cons (Lift.DStr (cons (Lift.DNum (I 3)) (cons (Lift.DNum (I 6)) nil))) nil)).
Proof. vm_compute. repeat split; reflexivity. Qed.
(* nested n-ary composition: (f.clip(g - 5, g + 5) + 1)(x) with f(x) = 4, g(x) = 6 is clip 4 1 11 + 1 = 5 *)
Example nary_induction_example :
  let env := fun id : nat => match id with O => I 4 | _ => I 6 end in
  let c := Lift.apply_narop (Lift.SDec, C15_lift.clip_demo) (Lift.OFn 0)
             (cons (Lift.apply_binop (Lift.SPy, nsub) (Lift.OFn 1) (Lift.ONum (I 5)))
                   (cons (Lift.apply_binop (Lift.SPy, nadd) (Lift.OFn 1) (Lift.ONum (I 5))) nil)) in
  C15_lift.nf3 (Lift.apply_binop (Lift.SPy, nadd) c (Lift.ONum (I 1))) = true
  /\ Lift.callv env true (Lift.apply_binop (Lift.SPy, nadd) c (Lift.ONum (I 1))) = Lift.ONum (I 5).
Proof. vm_compute. split; reflexivity. Qed.

Print Assumptions lift_binop_hom_step.
Print Assumptions chan_binop_wrap_law_mixed.
Print Assumptions lift_hom_functions_nary.

(* --- round 5: ChannelList METHOD forms (flop over channels and arguments); next(inval) threading --- *)
(* utils.flop on explicit columns: as many rows as the longest column, row i takes column c at i mod |c| *)
Theorem flop_rows_law :
  forall (A : Type) (e d : A) (cols : list (list A)) (i : nat),
  length (ListAlg.flop_rows e d cols) = List.fold_right (fun c m => Nat.max (length c) m) 0%nat cols
  /\ ((i < List.fold_right (fun c m => Nat.max (length c) m) 0%nat cols)%nat ->
      List.nth i (ListAlg.flop_rows e d cols) nil
      = List.map (fun c : list A => match c with nil => e | cons _ _ => List.nth (Nat.modulo i (length c)) c d end) cols).
Proof. intros A e d cols i. split; [apply C15_lift.flop_rows_length|apply C15_lift.flop_rows_nth]. Qed.

(* a.clip(lo, hi) / fold / wrap / blend as METHODS of a ChannelList of numbers (ChannelList overrides them with
   _multichannel_perform): arguments numbers or lists of numbers; the result has as many channels as the LONGEST of
   the receiver and the arguments, channel i = op a[i mod |a|] arg_1[i mod |arg_1|] ... *)
Theorem chan_method_narop_wrap_law :
  forall (g : Lift.op3) (xs : list num) (args : list Lift.obj) (cols : list (list num)),
  xs <> nil -> List.Forall (fun c : list num => c <> nil) cols ->
  Lift.first_err args = None -> List.map Lift.as_col args = List.map (List.map Lift.ONum) cols ->
  let len := List.fold_right (fun (c : list num) m => Nat.max (length c) m) 0%nat (cons xs cols) in
  exists r : list Lift.obj,
    Lift.chan_method_narop g (Lift.OSeq ListAlg.KChan (List.map Lift.ONum xs)) args = Lift.OSeq ListAlg.KChan r
    /\ length r = len
    /\ forall i : nat, (i < len)%nat ->
         List.nth i r (Lift.ONum NErr)
         = Lift.ONum (snd g (List.nth (Nat.modulo i (length xs)) xs NErr)
                            (List.map (fun c : list num => List.nth (Nat.modulo i (length c)) c NErr) cols)).
Proof. exact C15_lift.chan_method_narop_wrap_law. Qed.

(* next(op p, inval) = op (next(p, inval)), next(p op q, inval) = next(p, inval) op next(q, inval): the k-th value is
   computed from the k-th input in EVERY operand (Pfunc operands: value = ienv id k), from any starting offset *)
Theorem inval_unop :
  forall (ienv : nat -> nat -> num) (hor : nat) (g : Lift.op1) (id : nat) (m : Lift.pmode) (off : nat), m <> Lift.MPull ->
  Lift.ipull ienv hor m off (Lift.OUnPat g (Lift.OPfunc id))
  = Lift.SFin (List.map (fun k : nat => Lift.ONum (snd g (ienv id (off + k)%nat))) (List.seq 0 (hor - off))).
Proof. exact C15_lift.inval_unop. Qed.
Theorem inval_binop :
  forall (ienv : nat -> nat -> num) (hor : nat) (g : Lift.op2) (i j : nat) (m : Lift.pmode) (off : nat), m <> Lift.MPull ->
  Lift.ipull ienv hor m off (Lift.OBinPat g (Lift.OPfunc i) (Lift.OPfunc j))
  = Lift.SFin (List.map (fun k : nat => Lift.ONum (snd g (ienv i (off + k)%nat) (ienv j (off + k)%nat))) (List.seq 0 (hor - off))).
Proof. exact C15_lift.inval_binop. Qed.
(* embedded: the enclosing pattern threads the inputs; after |pad| values the operator pattern starts with input |pad| *)
Theorem inval_unop_embedded :
  forall (ienv : nat -> nat -> num) (hor : nat) (g : Lift.op1) (id : nat) (pad : list num) (m : Lift.pmode) (off : nat),
  m <> Lift.MPull ->
  Lift.ipull ienv hor m off (Lift.OPseq (cons (Lift.OPat pad) (cons (Lift.OUnPat g (Lift.OPfunc id)) nil)) 1)
  = Lift.SFin (app (List.map Lift.ONum pad)
                   (List.map (fun k : nat => Lift.ONum (snd g (ienv id (off + length pad + k)%nat)))
                             (List.seq 0 (hor - (off + length pad))))).
Proof. exact C15_lift.inval_unop_embedded. Qed.
Theorem inval_narop_embedded :
  forall (ienv : nat -> nat -> num) (hor : nat) (g : Lift.op3) (i j : nat) (lo : num) (m : Lift.pmode) (off : nat),
  m <> Lift.MPull ->
  Lift.ipull ienv hor m off
    (Lift.OPn (Lift.ONarPat g (Lift.OPfunc i) (cons (Lift.OPfunc j) (cons (Lift.ONum lo) nil))) 1)
  = Lift.SFin (List.map (fun k : nat => Lift.ONum (snd g (ienv i (off + k)%nat) (cons (ienv j (off + k)%nat) (cons lo nil))))
                        (List.seq 0 (hor - off))).
Proof. exact C15_lift.inval_narop_embedded. Qed.

(* ChannelList([5]).clip([0, 6, 2], 9) = [5, 6, 5]: three channels, the receiver wraps around *)
Example chan_method_example :
  Lift.chan_method_narop (Lift.SDec, C15_lift.clip_demo) (Lift.OSeq ListAlg.KChan (cons (Lift.ONum (I 5)) nil))
    (cons (Lift.OSeq ListAlg.KList (cons (Lift.ONum (I 0)) (cons (Lift.ONum (I 6)) (cons (Lift.ONum (I 2)) nil))))
          (cons (Lift.ONum (I 9)) nil))
  = Lift.OSeq ListAlg.KChan (cons (Lift.ONum (I 5)) (cons (Lift.ONum (I 6)) (cons (Lift.ONum (I 5)) nil))).
Proof. vm_compute. reflexivity. Qed.
(* Pseq([-Pfunc(lambda x: x)]) fed 60, 69, 81 yields -60, -69, -81 *)
Example inval_example :
  let ins := cons (I 60) (cons (I 69) (cons (I 81) nil)) in
  Lift.observe (fun (_ idx : nat) => List.nth idx ins NErr) 3
    (Lift.OPseq (cons (Lift.OUnPat (Lift.SPy, nneg) (Lift.OPfunc 0)) nil) 1)
  = Lift.SFin (cons (Lift.ONum (I (-60))) (cons (Lift.ONum (I (-69))) (cons (Lift.ONum (I (-81))) nil))).
Proof. vm_compute. reflexivity. Qed.

Print Assumptions chan_method_narop_wrap_law.
Print Assumptions inval_unop_embedded.

(* --- round 6: n-ary operators with an optional MODE argument (linlin(..., clip)), kernel regenerated per mode ---
   needs:  Require Import SC3.gen.Gen_maps SC3.proofs.C15_lift_maps.   (gen/Gen_maps.v: harness/translator/t_maps.py) *)
(* the regenerated linlin with clip = None is the affine map; every clip mode equals it except exactly where that
   mode clips ('minmax' at both ends, 'min' only below inmin, 'max' only above inmax) *)
Theorem linlin_none_affine :
  forall x a b c d : Q, Qeq_bool (b - a) 0 = false ->
  Gen_maps.py_linlin_none (F x) (F a) (F b) (F c) (F d) = F ((x - a) / (b - a) * (d - c) + c)%Q.
Proof. exact C15_lift_maps.linlin_none_affine. Qed.
Theorem linlin_clip_modes :
  forall x a b c d : Q,
  Gen_maps.py_linlin_minmax (F x) (F a) (F b) (F c) (F d)
    = (if Qle_bool x a then F c else if Qle_bool b x then F d else Gen_maps.py_linlin_none (F x) (F a) (F b) (F c) (F d))
  /\ Gen_maps.py_linlin_min (F x) (F a) (F b) (F c) (F d)
    = (if Qle_bool x a then F c else Gen_maps.py_linlin_none (F x) (F a) (F b) (F c) (F d))
  /\ Gen_maps.py_linlin_max (F x) (F a) (F b) (F c) (F d)
    = (if Qle_bool b x then F d else Gen_maps.py_linlin_none (F x) (F a) (F b) (F c) (F d)).
Proof. exact C15_lift_maps.linlin_clip_modes. Qed.
(* ChannelList([0, 3, 9]).linlin(1, 5, 10, 50, 'max') = [0.0, 30.0, 50]: the mode reaches every channel (0 is NOT clipped
   below with 'max'), through the method form (flop) with the regenerated kernel; by chan_method_narop_wrap_law this is
   the per-channel kernel call *)
Example optional_mode_example :
  Lift.chan_method_narop (Lift.SDec, C15_lift_maps.o5 Gen_maps.py_linlin_max)
    (Lift.OSeq ListAlg.KChan (cons (Lift.ONum (I 0)) (cons (Lift.ONum (I 3)) (cons (Lift.ONum (I 9)) nil))))
    (cons (Lift.ONum (I 1)) (cons (Lift.ONum (I 5)) (cons (Lift.ONum (I 10)) (cons (Lift.ONum (I 50)) nil))))
  = Lift.OSeq ListAlg.KChan (cons (Lift.ONum (F (0 # 4))) (cons (Lift.ONum (F (120 # 4))) (cons (Lift.ONum (I 50)) nil))).
Proof. vm_compute. reflexivity. Qed.

Print Assumptions linlin_clip_modes.

(* --- BIG-STEP homomorphism for the LAZY operand kinds (numbers, functions, streams, patterns), any mixing and nesting ---
   needs:  Require Import SC3.proofs.C15_lift_bigstep.
   ldenb d: the deep evaluation d consists of numbers, called functions (DCall) and exhausted streams / patterns (DStr) only,
   nested at will (functions returning streams, streams of functions, ...).  sem / sem1: op lifted over two / one such
   denotations (the left operand's outer layer wins; DCall unwraps both; two DStr zip to the shortest; a DStr against a
   non-stream maps).  Whenever the deep evaluations of the operands succeed, the deep evaluation of the composite, with any
   larger fuel, is op lifted over them.  Sequences (list / tuple / ChannelList) and Operand / Rest layers are NOT covered here:
   for them the law is proved per kind and per evaluation step (lift_binop_hom_step, wrap laws, operand_binop_hom). *)
Theorem lift_binop_hom_bigstep_lazy :
  forall (env : nat -> num) (fx : bool) (g : Lift.op2), fst g = Lift.SPy ->
  forall (a b : Lift.obj) (n m : nat),
  C15_lift_bigstep.ldenb (Lift.eval_f env fx n a) = true ->
  C15_lift_bigstep.ldenb (Lift.eval_f env fx m b) = true ->
  exists N : nat, forall k : nat, (N <= k)%nat ->
    Lift.eval_f env fx k (Lift.apply_binop g a b)
    = C15_lift_bigstep.sem g (Lift.eval_f env fx n a) (Lift.eval_f env fx m b).
Proof. exact C15_lift_bigstep.lift_binop_hom_bigstep. Qed.
Theorem lift_unop_hom_bigstep_lazy :
  forall (env : nat -> num) (fx : bool) (g1 : Lift.op1), fst g1 = Lift.SPy ->
  forall (a : Lift.obj) (n : nat),
  C15_lift_bigstep.ldenb (Lift.eval_f env fx n a) = true ->
  exists N : nat, forall k : nat, (N <= k)%nat ->
    Lift.eval_f env fx k (Lift.apply_unop g1 a) = C15_lift_bigstep.sem1 g1 (Lift.eval_f env fx n a).
Proof. exact C15_lift_bigstep.lift_unop_hom_bigstep. Qed.

(* routine [1, 2] minus (f + Pseq([5, 6, 7])) with f = 10: a stream against a function returning a stream;
   the hypotheses hold and the evaluation computes: a stream of functions returning [1 - 15, 1 - 16, 1 - 17] etc. *)
Example bigstep_lazy_example :
  let env := fun _ : nat => I 10 in
  let g : Lift.op2 := (Lift.SPy, nsub) in
  let a := Lift.OStr (cons (I 1) (cons (I 2) nil)) in
  let b := Lift.OBinFn (Lift.SPy, nadd) (Lift.OFn 0) (Lift.OPat (cons (I 5) (cons (I 6) (cons (I 7) nil)))) in
  C15_lift_bigstep.ldenb (Lift.eval_f env true 6 a) = true
  /\ C15_lift_bigstep.ldenb (Lift.eval_f env true 6 b) = true
  /\ Lift.eval_f env true 9 (Lift.apply_binop g a b)
     = C15_lift_bigstep.sem g (Lift.eval_f env true 6 a) (Lift.eval_f env true 6 b)
  /\ Lift.eval_f env true 9 (Lift.apply_binop g a b)
     = Lift.DStr (cons (Lift.DCall (Lift.DStr (cons (Lift.DNum (I (-14))) (cons (Lift.DNum (I (-15))) (cons (Lift.DNum (I (-16))) nil)))))
                 (cons (Lift.DCall (Lift.DStr (cons (Lift.DNum (I (-13))) (cons (Lift.DNum (I (-14))) (cons (Lift.DNum (I (-15))) nil))))) nil)).
Proof. vm_compute. repeat split; reflexivity. Qed.

Print Assumptions lift_binop_hom_bigstep_lazy.
Print Assumptions lift_unop_hom_bigstep_lazy.

(* non-vacuity: the hypotheses are met by concrete arguments and the kernels compute *)
Example wrap_example : canon (py_wrap (F (7 # 2)) (F (1 # 2)) (F (5 # 2))) = (1, 3, 2)%Z.
Proof. vm_compute. reflexivity. Qed.

Print Assumptions mod_nonneg_float.
Print Assumptions wrap_in_bounds.
Print Assumptions round_multiple_nearest.
Print Assumptions octcps_cpsoct_inverse.
