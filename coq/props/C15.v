(* C15 -- property theorems only.  Kernels are the REGENERATED definitions of
   sc3/base/builtins.py (gen/Gen_builtins.v over num = int | ideal float,
   gen/Gen_builtinsR.v over R). *)
From Coq Require Import QArith Reals.
Require Import SC3.lib.PyNum SC3.gen.Gen_builtins SC3.gen.Gen_builtinsR.
Require Import SC3.proofs.C15_kernels SC3.proofs.C15_real.

(* --- range laws, float arguments --------------------------------------- *)
Theorem mod_nonneg_float : forall a b : Q, (0 < b)%Q ->
  exists r, py_mod (F a) (F b) = F r /\ (0 <= r)%Q /\ (r < b)%Q.
Proof. exact mod_float_range. Qed.
Theorem wrap_in_bounds_float : forall x lo hi : Q, (lo < hi)%Q ->
  exists r, py_wrap (F x) (F lo) (F hi) = F r /\ (lo <= r)%Q /\ (r < hi)%Q.
Proof. exact wrap_float_range. Qed.
Theorem fold_in_bounds_float : forall x lo hi : Q, (lo < hi)%Q ->
  exists r, py_fold (F x) (F lo) (F hi) = F r /\ (lo <= r)%Q /\ (r <= hi)%Q.
Proof. exact fold_float_range. Qed.
Theorem clip_in_bounds_float : forall x lo hi : Q, (lo <= hi)%Q ->
  exists r, py_clip (F x) (F lo) (F hi) = F r /\ (lo <= r)%Q /\ (r <= hi)%Q.
Proof. exact clip_float_range. Qed.
Theorem clip_idempotent_float : forall x lo hi : Q, (lo <= hi)%Q ->
  py_clip (py_clip (F x) (F lo) (F hi)) (F lo) (F hi) = py_clip (F x) (F lo) (F hi).
Proof. exact clip_float_idem. Qed.
Theorem round_multiple_nearest_float : forall x q : Q, (0 < q)%Q ->
  exists r, py_round (F x) (F q) = F r /\ multiple_of r q /\ (2 * r - q <= 2 * x)%Q /\ (2 * x < 2 * r + q)%Q.
Proof. exact round_float. Qed.
Theorem roundup_multiple_ge_float : forall x q : Q, (0 < q)%Q ->
  exists r, py_roundup (F x) (F q) = F r /\ multiple_of r q /\ (x <= r)%Q /\ (r < x + q)%Q.
Proof. exact roundup_float. Qed.
Theorem trunc_multiple_le_float : forall x q : Q, (0 < q)%Q ->
  exists r, py_trunc (F x) (F q) = F r /\ multiple_of r q /\ (r <= x)%Q /\ (x < r + q)%Q.
Proof. exact trunc_float. Qed.

(* --- inverse laws over the reals --------------------------------------- *)
Theorem cpsmidi_midicps_inverse : forall n : R, pyR_cpsmidi (pyR_midicps n) = n.
Proof. exact cpsmidi_midicps. Qed.
Theorem midicps_cpsmidi_inverse : forall f : R, (0 < f)%R -> pyR_midicps (pyR_cpsmidi f) = f.
Proof. exact midicps_cpsmidi. Qed.
Theorem ratiomidi_midiratio_inverse : forall m : R, pyR_ratiomidi (pyR_midiratio m) = m.
Proof. exact ratiomidi_midiratio. Qed.
Theorem midiratio_ratiomidi_inverse : forall r : R, (0 < r)%R -> pyR_midiratio (pyR_ratiomidi r) = r.
Proof. exact midiratio_ratiomidi. Qed.
Theorem cpsoct_octcps_inverse : forall n : R, pyR_cpsoct (pyR_octcps n) = n.
Proof. exact cpsoct_octcps. Qed.
Theorem octcps_cpsoct_inverse : forall f : R, (0 < f)%R -> pyR_octcps (pyR_cpsoct f) = f.
Proof. exact octcps_cpsoct. Qed.
Theorem ampdb_dbamp_inverse : forall d : R, pyR_ampdb (pyR_dbamp d) = d.
Proof. exact ampdb_dbamp. Qed.
Theorem dbamp_ampdb_inverse : forall a : R, (0 < a)%R -> pyR_dbamp (pyR_ampdb a) = a.
Proof. exact dbamp_ampdb. Qed.

(* non-vacuity: the hypotheses are met by concrete arguments and the kernels compute *)
Example wrap_example : canon (py_wrap (F (7 # 2)) (F (1 # 2)) (F (5 # 2))) = (1, 3, 2)%Z.
Proof. vm_compute. reflexivity. Qed.

Print Assumptions mod_nonneg_float.
Print Assumptions octcps_cpsoct_inverse.
