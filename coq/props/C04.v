(* C04 -- function parameters become correctly laid-out, correctly wired controls.
   Property theorems only; the model is model/Controls.v (cfg [fixed] = the repaired code,
   [snapshot] = the code as found, see notes/C04.md), proofs are in proofs/C04_*.v.

   All theorems are about ONE graph function built from an ARBITRARY earlier state [st]
   whose control index equals the length of its control array (the invariant every build
   keeps, see wrap_appends_after): that covers the outermost function (st = empty) and every
   function wrapped with SynthDef.wrap (st = everything built before it).  The guard
   "build_one ... = Ok st'" is the condition under which the real code does not raise. *)
From Coq Require Import String List QArith Bool Arith PeanoNat Lia.
Import ListNotations.
Require Import SC3.model.Controls SC3.proofs.C04_layout SC3.proofs.C04_main.
Require Import SC3.proofs.C04_lags SC3.proofs.C04_total SC3.proofs.C04_bridge.
Require SC3.model.Scgf.
Open Scope nat_scope.

(* [entries specs st f] (proofs/C04_lags.v) = the control parameters of f, as name-table entries with a
   provisional index: mk_cnames over the parameters after `prepend` *)

(* slot_of base cns i c = base + (slots of all earlier rate groups ir < tr < ar < kr)
                               + (slots of the earlier parameters of c's own rate group) *)

Theorem ctl_layout : forall specs st f st',
  build_one fixed specs (Ok st) f = Ok st' -> st_cindex st = length (st_controls st) ->
  let cns := entries specs st f in
  exists final,
    st_all st' = st_all st ++ final /\ length final = length cns /\
    (* slots grouped ir, tr, ar, kr; declaration order inside a group; index = first slot *)
    (forall i c, nth_error cns i = Some c ->
       nth_error final i = Some (set_index c (slot_of (length (st_controls st)) cns i c))) /\
    (* the array grows by exactly the defaults, group after group: arrays contiguous, no gaps *)
    st_controls st' = st_controls st ++ gslots Rir cns ++ gslots Rtr cns ++ gslots Rar cns ++ gslots Rkr cns /\
    length (st_controls st') = length (st_controls st) + length (flat_map cn_default (of_rate Rir cns))
        + length (gslots Rtr cns) + length (gslots Rar cns) + length (gslots Rkr cns) /\
    st_cindex st' = length (st_controls st').
Proof.
  intros specs st f st' H Hi cns.
  destruct (build_one_spec _ _ _ _ H Hi) as (cns' & pl & -> & _ & A & _ & _ & C & I & _ & L & N).
  exists (map fst pl). repeat split; try assumption.
  - rewrite map_length. exact L.
  - intros i c Hn. destruct (N i c Hn) as (p & Hp & _). rewrite nth_error_map, Hp. reflexivity.
  - rewrite C. unfold cns, entries. rewrite !app_length. unfold gslots, group_vals. lia.
Qed.

Theorem ctl_defaults_in_array : forall specs st f st' i c,
  build_one fixed specs (Ok st) f = Ok st' -> st_cindex st = length (st_controls st) ->
  nth_error (entries specs st f) i = Some c ->
  firstn (length (cn_default c))
         (skipn (slot_of (length (st_controls st)) (entries specs st f) i c) (st_controls st')) = cn_default c.
Proof.
  intros specs st f st' i c H Hi Hn.
  destruct (build_one_spec _ _ _ _ H Hi) as (cns' & pl & -> & _ & _ & _ & _ & C & _).
  rewrite C. apply (defaults_segment (st_controls st)). exact Hn.
Qed.

(* what the body receives for its i-th control parameter: channel j is output o of the control
   unit u with special_index(u) + o = slot(p) + j, i.e. output slot(p)+j - special_index(u) *)
Theorem ctl_body_receives_own_slots : forall specs st f st' i c,
  build_one fixed specs (Ok st) f = Ok st' -> st_cindex st = length (st_controls st) ->
  nth_error (entries specs st f) i = Some c ->
  exists rs r, st_recv st' = st_recv st ++ [rs] /\ nth_error rs i = Some r /\
    r_name r = cn_name c /\ r_scalar r = cn_scalar c /\ length (r_chans r) = length (cn_default c) /\
    forall j, j < length (cn_default c) ->
      exists un, nth_error (st_units st') (fst (nth j (r_chans r) (0, 0))) = Some un /\
        u_special un + snd (nth j (r_chans r) (0, 0)) = slot_of (length (st_controls st)) (entries specs st f) i c + j /\
        snd (nth j (r_chans r) (0, 0)) < length (u_values un) /\
        match cn_rate c with
        | Rir => u_cls un = UControl | Rtr => u_cls un = UTrig | Rar => u_cls un = UAudio
        | Rkr => u_cls un = ULag \/ u_cls un = UControl
        end.
Proof.
  intros specs st f st' i c H Hi Hn.
  destruct (build_one_spec _ _ _ _ H Hi) as (cns' & pl & -> & _ & _ & R & _ & _ & _ & _ & L & N).
  destruct (N i c Hn) as (p & Hp & cls & gl & K & [Hlen Hch]).
  exists (map recv_of pl), (recv_of (set_index c (slot_of (length (st_controls st)) (entries specs st f) i c), p)).
  split; [exact R|]. split; [rewrite nth_error_map; unfold entries, placed in *; rewrite Hp; reflexivity|].
  cbn [recv_of r_name r_scalar r_chans fst snd set_index cn_name cn_scalar].
  repeat split; try assumption.
  intros j Hj. destruct (Hch j Hj) as (un & H1 & H2 & H3 & H4 & _).
  exists un. repeat split; try assumption.
  unfold cls_ok in K. destruct (cn_rate c); try congruence.
  destruct K as [(_ & -> & _)|(_ & ->)]; [left|right]; assumption.
Qed.

(* Lagged control-rate parameters carry their lag times (FULL statement; the former
   ctl_lags_partial, which spoke about the flattened lag list of the group, is subsumed and now a
   lemma, C04_lags.ctl_lags_flat).  For a kr parameter c of the function, l = its own lag list
   (= [lag] for a number, never empty; cn_lag c = lag_or_zero (rates[i]) by
   rates_arg_overrides_annotation):
   - the kr group of the function is made of LagControl units exactly when SOME kr parameter of
     the function has a non-zero lag on one of its slots (its lag list read cyclically);
   - if so, the unit bound to channel j of c is a LagControl and the lag input beside that output
     is nth (j mod length l) l;
   - if not, it is a plain Control and that element of l is zero. *)
Theorem ctl_lags : forall specs st f st' i c,
  build_one fixed specs (Ok st) f = Ok st' -> st_cindex st = length (st_controls st) ->
  nth_error (entries specs st f) i = Some c -> cn_rate c = Rkr ->
  let cns := entries specs st f in
  let l := lag_as_list (cn_lag c) in
  let lagged := existsb qnz (klags (of_rate Rkr cns)) in
  l <> [] /\
  (lagged = true <->
     exists i' c' j', nth_error cns i' = Some c' /\ cn_rate c' = Rkr /\ j' < length (cn_default c') /\
       qnz (nth (j' mod length (lag_as_list (cn_lag c'))) (lag_as_list (cn_lag c')) 0%Q) = true) /\
  exists rs r, st_recv st' = st_recv st ++ [rs] /\ nth_error rs i = Some r /\
    forall j, j < length (cn_default c) ->
      exists un, nth_error (st_units st') (fst (nth j (r_chans r) (0, 0))) = Some un /\
        if lagged
        then u_cls un = ULag /\
             nth_error (u_lags un) (snd (nth j (r_chans r) (0, 0))) = Some (nth (j mod length l) l 0%Q)
        else u_cls un = UControl /\ qnz (nth (j mod length l) l 0%Q) = false.
Proof. exact ctl_lags_full. Qed.

(* the name-table entry of the i-th control parameter: name, rate, defaults and lag *)
Theorem entries_are_parameters : forall specs st f i p,
  nth_error (f_params f) (f_prepend f + i) = Some p ->
  nth_error (entries specs st f) i = Some (entry_of specs (f_rates f) (length (st_controls st)) i p).
Proof.
  intros specs st f i p H. unfold entries.
  rewrite (mk_cnames_nth _ _ _ _ 0 i p); [reflexivity|].
  rewrite nth_error_skipn'. exact H.
Qed.

Theorem rates_arg_overrides_annotation : forall specs rs prov i p,
  let e := entry_of specs rs prov i p in
  (forall r, nth i rs RsNone = RsRate r -> cn_rate e = r /\ cn_lag e = LNum 0) /\
  ((forall r, nth i rs RsNone <> RsRate r) ->
     match p_annot p with
     | Some (ARate Rir) => cn_rate e = Rir /\ cn_lag e = LNum 0
     | Some (ARate Rtr) => cn_rate e = Rtr /\ cn_lag e = LNum 0
     | Some (ARate Rar) => cn_rate e = Rar /\ cn_lag e = LNum 0
     | _ => cn_rate e = Rkr /\ cn_lag e = lag_or_zero (rate_at rs i)
     end).
Proof.
  intros specs rs prov i p e. unfold e, entry_of, rate_at. cbn [cn_rate cn_lag]. split.
  - intros r Hr. rewrite Hr. destruct r; split; reflexivity.
  - intros Hn. destruct (nth i rs RsNone) as [|r| |] eqn:E; try (exfalso; apply (Hn r); reflexivity);
      destruct (p_annot p) as [[[]|]|]; split; reflexivity.
Qed.

(* prepend = k: no control for the first k parameters; the i-th entry, the i-th element of
   rates and the i-th argument the body receives belong to parameter k + i *)
Theorem prepend_skips : forall specs st f st',
  build_one fixed specs (Ok st) f = Ok st' -> st_cindex st = length (st_controls st) ->
  f_prepend f <= length (f_params f) /\
  length (entries specs st f) = length (f_params f) - f_prepend f /\
  exists final rs, st_all st' = st_all st ++ final /\ st_recv st' = st_recv st ++ [rs] /\
    map cn_name final = map p_name (skipn (f_prepend f) (f_params f)) /\
    map r_name rs = map p_name (skipn (f_prepend f) (f_params f)).
Proof.
  intros specs st f st' H Hi.
  destruct (build_one_spec _ _ _ _ H Hi) as (cns' & pl & E & PP & A & R & _ & _ & _ & _ & L & N).
  split; [assumption|]. split; [unfold entries; rewrite mk_cnames_length, skipn_length; reflexivity|].
  exists (map fst pl), (map recv_of pl). split; [assumption|]. split; [assumption|].
  assert (Hnames : map (fun x => cn_name (fst x)) pl = map p_name (skipn (f_prepend f) (f_params f))).
  { apply nth_error_ext'. intro i. rewrite !nth_error_map.
    destruct (nth_error (skipn (f_prepend f) (f_params f)) i) as [p|] eqn:Hp.
    - pose proof (mk_cnames_nth specs (f_rates f) (length (st_controls st)) _ 0 i p Hp) as Hc.
      rewrite <- E in Hc. destruct (N i _ Hc) as (px & Hpl & _). rewrite Hpl. reflexivity.
    - apply nth_error_None in Hp. rewrite <- (mk_cnames_length specs (f_rates f) (length (st_controls st)) _ 0), <- E, <- L in Hp.
      apply nth_error_None in Hp. rewrite Hp. reflexivity. }
  split; rewrite map_map; exact Hnames.
Qed.

Theorem spec_defaults : forall specs rs prov i p,
  let e := entry_of specs rs prov i p in
  match p_default p with
  | DScalar q => cn_default e = [q] /\ cn_scalar e = true
  | DTuple l => cn_default e = l /\ cn_scalar e = false
  | DNone | DInvalid => cn_scalar e = true /\
      cn_default e = [match lookup_spec specs (p_name p) with Some q => q | None => 0%Q end]
  | DNested => True
  end.
Proof.
  intros specs rs prov i p e. unfold e, entry_of, arg_value. cbn [cn_default cn_scalar].
  destruct (p_default p); try (destruct (lookup_spec specs (p_name p))); simpl; auto.
Qed.

(* metadata specs are OBJECTS (ControlSpec minval maxval warp step default); what the layout is given
   is specs_of: the declared default, or minval when none was declared -- never clamped or re-ordered,
   so an inverted range (minval > maxval), an empty range, a default outside the range and every
   warp/step leave it alone (cs_max, the warp and the step do not occur on the right-hand side) *)
Theorem spec_objects_give_declared_default : forall l rs prov i p kv,
  (p_default p = DNone \/ p_default p = DInvalid) ->
  find (fun kv => String.eqb (fst kv) (p_name p)) l = Some kv ->
  cn_default (entry_of (specs_of l) rs prov i p) =
    [match cs_default (snd kv) with Some d => d | None => cs_min (snd kv) end] /\
  cn_scalar (entry_of (specs_of l) rs prov i p) = true.
Proof. exact spec_object_default. Qed.

(* SynthDef.wrap: a definition is built by folding build_one over the functions in the order
   they are entered; each is laid out (all theorems above) from the state left by the ones
   before it, which it only extends *)
Theorem wrap_appends_after : forall specs fs f st1 st2,
  build_list fixed specs fs = Ok st1 -> build_list fixed specs (fs ++ [f]) = Ok st2 ->
  fs <> [] ->
  build_one fixed specs (Ok st1) f = Ok st2 /\
  st_cindex st1 = length (st_controls st1) /\
  (exists more, st_all st2 = st_all st1 ++ more) /\
  (exists more, st_controls st2 = st_controls st1 ++ more) /\
  (exists more, st_units st2 = st_units st1 ++ more).
Proof.
  intros specs fs f st1 st2 H1 H2 Hne. unfold build_list in *.
  rewrite fold_left_app in H2. cbn [fold_left] in H2.
  assert (Ho : outer_names (fs ++ [f]) = outer_names fs) by (destruct fs; [contradiction|reflexivity]).
  rewrite Ho, H1 in H2. split; [exact H2|].
  destruct (build_fold_inv _ _ _ _ H1 eq_refl) as (I1 & _).
  split; [exact I1|].
  assert (H3 : fold_left (build_one fixed specs) [f] (Ok st1) = Ok st2) by exact H2.
  destruct (build_fold_inv _ _ _ _ H3 I1) as (_ & _ & A & C & U). repeat split; assumption.
Qed.

(* ------------------------------------------------------------------ which signatures build.
   sig_err specs f (proofs/C04_total.v) is a decidable function of the signature alone; it names
   the exception, in the order in which the code raises:
     EKind      some parameter is not POSITIONAL_OR_KEYWORD                     (ValueError)
     ERank      a parameter after `prepend` has a tuple default holding a container (ValueError)
     EAnnot     a parameter after `prepend` has an annotation outside ir/tr/ar/kr   (ValueError)
     ENoOutputs some rate group has members but only empty tuple defaults   (Exception, 0 channels)
     EPrepend   prepend is longer than the parameter list                        (TypeError)
   and None otherwise.  The build of one function raises exactly that exception and succeeds
   exactly when there is none; a definition (outer function + wrapped ones, in the order they
   are entered) raises the exception of the first function that has one. *)
Theorem build_raises_exactly : forall specs st f,
  st_cindex st = length (st_controls st) ->
  match sig_err specs f with
  | Some e => build_one fixed specs (Ok st) f = Err e
  | None => exists st', build_one fixed specs (Ok st) f = Ok st'
  end.
Proof. exact build_one_total. Qed.

Theorem sig_ok_iff_builds : forall specs st f,
  st_cindex st = length (st_controls st) ->
  (sig_ok specs f = true <-> exists st', build_one fixed specs (Ok st) f = Ok st').
Proof. exact C04_total.sig_ok_iff_builds. Qed.

Theorem definition_builds_exactly : forall specs t,
  match first_err specs (preorder t) with
  | Some e => build_def fixed specs t = Err e
  | None => exists st, build_def fixed specs t = Ok st
  end.
Proof. intros specs t. unfold build_def. apply build_list_total. Qed.

(* the layout theorems with the guard "the build does not raise" replaced by sig_ok *)
Theorem layout_for_every_ok_signature : forall specs st f,
  sig_ok specs f = true -> st_cindex st = length (st_controls st) ->
  exists st', build_one fixed specs (Ok st) f = Ok st' /\
    let cns := entries specs st f in
    let slot := slot_of (length (st_controls st)) cns in
    (exists final, st_all st' = st_all st ++ final /\ length final = length cns /\
       forall i c, nth_error cns i = Some c -> nth_error final i = Some (set_index c (slot i c))) /\
    st_controls st' = st_controls st ++ gslots Rir cns ++ gslots Rtr cns ++ gslots Rar cns ++ gslots Rkr cns /\
    (forall i c, nth_error cns i = Some c ->
       firstn (length (cn_default c)) (skipn (slot i c) (st_controls st')) = cn_default c) /\
    exists rs, st_recv st' = st_recv st ++ [rs] /\
      forall i c, nth_error cns i = Some c ->
        exists r, nth_error rs i = Some r /\ r_name r = cn_name c /\
          length (r_chans r) = length (cn_default c) /\
          forall j, j < length (cn_default c) ->
            exists un, nth_error (st_units st') (fst (nth j (r_chans r) (0, 0))) = Some un /\
              u_special un + snd (nth j (r_chans r) (0, 0)) = slot i c + j.
Proof.
  intros specs st f Hok Hi.
  destruct (proj1 (C04_total.sig_ok_iff_builds specs st f Hi) Hok) as (st' & H).
  exists st'. split; [exact H|]. intros cns slot.
  destruct (ctl_layout specs st f st' H Hi) as (final & A & L & N & C & _).
  split; [exists final; repeat split; assumption|]. split; [exact C|].
  split; [intros i c Hn; apply (ctl_defaults_in_array specs st f st' i c H Hi Hn)|].
  destruct (build_one_spec _ _ _ _ H Hi) as (cns' & pl & -> & _ & _ & R & _).
  exists (map recv_of pl). split; [exact R|].
  intros i c Hn.
  destruct (ctl_body_receives_own_slots specs st f st' i c H Hi Hn) as (rs & r & R' & Nr & Hname & _ & Hlen & Hch).
  rewrite R in R'. apply app_inv_head in R'. injection R' as <-.
  exists r. repeat split; try assumption.
  intros j Hj. destruct (Hch j Hj) as (un & H1 & H2 & _). exists un. split; assumption.
Qed.

(* ------------------------------------------------------------------ the whole definition and
   the bytes (C02's format model, coq/model/Scgf.v) *)
Theorem table_points_at_defaults : forall specs t st,
  build_def fixed specs t = Ok st ->
  st_cindex st = length (st_controls st) /\
  forall c, In c (st_all st) ->
    firstn (length (cn_default c)) (skipn (cn_index c) (st_controls st)) = cn_default c /\
    (cn_default c <> [] -> cn_index c + length (cn_default c) <= length (st_controls st)).
Proof. exact C04_bridge.table_points_at_defaults. Qed.

(* w = the float32 word of a number (struct), any function.  handed_ctl / handed_names are the
   control words and the (name, index) table the writer is given. *)
Theorem bytes_carry_layout : forall (w : Q -> Z) specs t st d bs,
  build_def fixed specs t = Ok st ->
  Scgf.d_ctl d = handed_ctl w st -> Scgf.d_names d = handed_names st ->
  Scgf.write_def d = Some bs ->
  exists d', Scgf.parse_def bs = Scgf.Ok d' /\
    length (Scgf.d_ctl d') = length (st_controls st) /\
    length (Scgf.d_names d') = length (st_all st) /\
    forall k c, nth_error (st_all st) k = Some c ->
      nth_error (Scgf.d_names d') k = Some (Scgf.bs_of_string (cn_name c), Z.of_nat (cn_index c)) /\
      firstn (length (cn_default c)) (skipn (cn_index c) (Scgf.d_ctl d')) = map w (cn_default c) /\
      (cn_default c <> [] -> (0 <= Z.of_nat (cn_index c) < Scgf.zlen (Scgf.d_ctl d'))%Z).
Proof. exact C04_bridge.bytes_carry_layout. Qed.

(* variants: the announced count is the number of entries present (no truncated section);
   what is written is the longest prefix of valid variants (an invalid one -- unknown control,
   full name longer than 32, more values than the control has slots -- stops the writing, with
   a warning); a valid variant is the control array with the named parameter's first
   len(values) slots replaced *)
Theorem variants_layout : forall dn st vs,
  let r := Controls.variants_layout fixed dn st vs in
  v_count r = length (v_written r) /\ v_raised r = false /\
  Forall2 (fun v w => variant_one dn st v = Some w) (firstn (length (v_written r)) vs) (v_written r) /\
  ((forall v, In v vs -> variant_one dn st v <> None) -> v_count r = length vs) /\
  (length (v_written r) < length vs ->
     exists v, nth_error vs (length (v_written r)) = Some v /\ variant_one dn st v = None) /\
  (forall arr i vals, i + length vals <= length arr ->
     length (set_range arr i vals) = length arr /\
     firstn (length vals) (skipn i (set_range arr i vals)) = vals /\
     forall k d, k < i \/ i + length vals <= k -> nth k (set_range arr i vals) d = nth k arr d).
Proof.
  intros dn st vs r. destruct (variants_count_fixed dn st vs) as (H1 & H2 & ok & H3). fold r in H1, H2, H3.
  destruct (variants_loop_prefix _ _ _ _ _ H3) as (F & T & N).
  split; [assumption|]. split; [assumption|]. split; [assumption|]. split; [|split].
  - intro Hall. destruct ok.
    + rewrite H1. apply T. reflexivity.
    + destruct (N eq_refl) as (v & Hn & Hv). exfalso. apply (Hall v); [|assumption].
      eapply nth_error_In. eassumption.
  - intro Hlt. destruct ok; [rewrite (T eq_refl) in Hlt; lia|]. apply N. reflexivity.
  - intros arr i vals Hb. split; [apply set_range_length; assumption|].
    split; [apply set_range_inside; assumption|]. intros k d Hk. apply set_range_outside; assumption.
Qed.

(* __call__: the i-th positional argument is sent with the name of the i-th control parameter of
   the OUTERMOST function (prepended parameters and wrapped functions do not shift it);
   keyword arguments follow as given *)
Theorem call_maps_args : forall specs f fs st' args kwargs,
  build_list fixed specs (f :: fs) = Ok st' ->
  st_callable st' = map p_name (skipn (f_prepend f) (f_params f)) /\
  call_map (st_callable st') args kwargs = combine (st_callable st') args ++ kwargs /\
  forall i p a, nth_error (f_params f) (f_prepend f + i) = Some p -> nth_error args i = Some a ->
    nth_error (call_map (st_callable st') args kwargs) i = Some (p_name p, a).
Proof.
  intros specs f fs st' args kwargs H. unfold build_list in H.
  destruct (build_fold_inv _ _ _ _ H eq_refl) as (_ & C & _). cbn [st_callable fix_call fixed outer_names] in C.
  split; [exact C|]. split; [reflexivity|].
  intros i p a Hp Ha. unfold call_map. apply combine_nth_error; [|assumption].
  rewrite C, nth_error_map, nth_error_skipn', Hp. reflexivity.
Qed.

(* ------------------------------------------------------------------ the model computes; the
   hypotheses are satisfiable (a signature with all four groups, tuple defaults, a lag, prepend) *)
Open Scope string_scope.
Definition ex_sig : fsig :=
  {| f_params := [ {| p_name := "buf"; p_pok := true; p_annot := None; p_default := DNone |};
                   {| p_name := "a"; p_pok := true; p_annot := Some (ARate Rkr); p_default := DScalar 1%Q |};
                   {| p_name := "b"; p_pok := true; p_annot := Some (ARate Rar); p_default := DTuple [2; 3]%Q |};
                   {| p_name := "c"; p_pok := true; p_annot := Some (ARate Rtr); p_default := DScalar 4%Q |};
                   {| p_name := "d"; p_pok := true; p_annot := Some (ARate Rir); p_default := DTuple [5; 6; 7]%Q |};
                   {| p_name := "e"; p_pok := true; p_annot := None; p_default := DNone |} ];
     f_rates := [RsLag (1 # 2)]; f_prepend := 1 |}.
Example layout_example :
  match build_list fixed [("e", 9%Q)] [ex_sig] with
  | Ok st => (map (fun c => (cn_name c, cn_index c)) (st_all st), st_controls st, st_callable st,
              map (fun u => (u_special u, u_lags u)) (st_units st))
  | Err _ => ([], [], [], [])
  end = ([("a", 6); ("b", 4); ("c", 3); ("d", 0); ("e", 7)], [5; 6; 7; 4; 2; 3; 1; 9]%Q,
         ["a"; "b"; "c"; "d"; "e"]%string, [(0, []); (3, []); (4, []); (6, [1 # 2; 0]%Q)]).
Proof. vm_compute. reflexivity. Qed.

(* ------------------------------------------------------------------ the snapshot refutes them
   (F18, F19 of DESIGN.md section 6 and the lag-list defect found here); replayed on the real
   library by the battery of harness/props/C04.py *)
Definition P (n : string) (d : dflt) := {| p_name := n; p_pok := true; p_annot := None; p_default := d |}.
Example snapshot_call_prepend_refuted :
  match build_list snapshot [] [{| f_params := [P "a" DNone; P "b" DNone; P "freq" (DScalar 440%Q); P "amp" (DScalar (1#8)%Q)];
                                   f_rates := []; f_prepend := 2 |}] with
  | Ok st => call_map (st_callable st) [330; 1 # 2]%Q [] | Err _ => [] end
  = [("a", 330); ("b", 1 # 2)]%Q.
Proof. vm_compute. reflexivity. Qed.
Example snapshot_call_wrap_refuted :
  match build_def snapshot [] (FTree {| f_params := [P "freq" (DScalar 440%Q); P "amp" (DScalar (1#8)%Q)]; f_rates := []; f_prepend := 0 |}
                                [FTree {| f_params := [P "x" (DScalar 1%Q); P "y" (DScalar 2%Q)]; f_rates := []; f_prepend := 0 |} []]) with
  | Ok st => call_map (st_callable st) [330; 1 # 2]%Q [] | Err _ => [] end
  = [("x", 330); ("y", 1 # 2)]%Q.
Proof. vm_compute. reflexivity. Qed.
Example snapshot_variants_refuted :
  match build_list snapshot [] [{| f_params := [P "a" (DScalar 1%Q)]; f_rates := []; f_prepend := 0 |}] with
  | Ok st => let r := Controls.variants_layout snapshot "d" st [("v", [("nope", [1%Q])])] in (v_count r, length (v_written r), v_raised r)
  | Err _ => (0, 0, true) end = (1, 0, false).
Proof. vm_compute. reflexivity. Qed.
Example snapshot_laglist_refuted :
  match build_list snapshot [] [{| f_params := [P "a" (DScalar 1%Q); P "b" (DTuple [2; 3]%Q)];
                                   f_rates := [RsLags [1 # 8; 1 # 4]]; f_prepend := 0 |}] with
  | Ok st => (st_controls st, length (st_units st)) | Err _ => ([], 0) end = ([1; 2; 3; 1; 2; 3]%Q, 2).
Proof. vm_compute. reflexivity. Qed.

(* the hypotheses of ctl_lags are met: parameter "a" of the example is a kr parameter with lag 1/2 and
   the kr group is lagged; the second kr parameter "e" shares the LagControl with lag 0 *)
Example ctl_lags_example :
  exists st' c, build_one fixed [("e", 9%Q)] (Ok st0) ex_sig = Ok st' /\
    st_cindex st0 = length (st_controls st0) /\
    nth_error (entries [("e", 9%Q)] st0 ex_sig) 0 = Some c /\ cn_rate c = Rkr /\
    lag_as_list (cn_lag c) = [1 # 2]%Q /\
    existsb qnz (klags (of_rate Rkr (entries [("e", 9%Q)] st0 ex_sig))) = true /\
    map (fun u => (u_cls u, u_lags u)) (st_units st') =
      [(UControl, []); (UTrig, []); (UAudio, []); (ULag, [1 # 2; 0]%Q)].
Proof. vm_compute. eexists. eexists. repeat split; reflexivity. Qed.

Example spec_object_example :
  match build_list fixed (specs_of [("a", {| cs_min := 1; cs_max := 0; cs_default := Some (1 # 4) |});
                                    ("b", {| cs_min := 8; cs_max := (-8); cs_default := None |})]%Q)
                   [{| f_params := [P "a" DNone; P "b" DNone; P "c" DNone]; f_rates := []; f_prepend := 0 |}] with
  | Ok st => st_controls st | Err _ => [] end = [1 # 4; 8; 0]%Q.
Proof. vm_compute. reflexivity. Qed.

(* sig_err on concrete signatures: the example builds; each error kind is reachable *)
Example sig_ok_example : sig_err [("e", 9%Q)] ex_sig = None.
Proof. vm_compute. reflexivity. Qed.
Example sig_err_examples :
  (sig_err [] {| f_params := [{| p_name := "a"; p_pok := false; p_annot := Some ABad; p_default := DNested |}]; f_rates := []; f_prepend := 0 |},
   sig_err [] {| f_params := [{| p_name := "a"; p_pok := true; p_annot := Some ABad; p_default := DNested |}]; f_rates := []; f_prepend := 0 |},
   sig_err [] {| f_params := [{| p_name := "a"; p_pok := true; p_annot := Some ABad; p_default := DNone |}]; f_rates := []; f_prepend := 0 |},
   sig_err [] {| f_params := [{| p_name := "a"; p_pok := true; p_annot := Some ABad; p_default := DNested |}]; f_rates := []; f_prepend := 1 |},
   sig_err [] {| f_params := [P "a" (DTuple [])]; f_rates := []; f_prepend := 0 |},
   sig_err [] {| f_params := [P "a" (DTuple []); P "b" (DScalar 1%Q)]; f_rates := []; f_prepend := 0 |},
   sig_err [] {| f_params := [P "a" DNone]; f_rates := []; f_prepend := 2 |})
  = (Some EKind, Some ERank, Some EAnnot, None, Some ENoOutputs, None, Some EPrepend).
Proof. vm_compute. reflexivity. Qed.

(* the hypotheses of bytes_carry_layout are satisfiable: the example definition, handed to C02's
   writer with an arbitrary word function, is accepted *)
Example bytes_example :
  match build_def fixed [("e", 9%Q)] (FTree ex_sig []) with
  | Ok st => exists bs, Scgf.write_def
               (Scgf.mkSdef (Scgf.bs_of_string "ex") [] (handed_ctl (fun q => Qnum q) st) (handed_names st) [] []) = Some bs
  | Err _ => False
  end.
Proof. vm_compute. eexists. reflexivity. Qed.

Print Assumptions ctl_layout.
Print Assumptions ctl_body_receives_own_slots.
Print Assumptions call_maps_args.
Print Assumptions ctl_lags.
Print Assumptions build_raises_exactly.
Print Assumptions bytes_carry_layout.
