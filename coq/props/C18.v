(* C18 -- stub while the harness is brought up; replaced below *)
From Coq Require Import ZArith List Bool.
Import ListNotations.
Require Import SC3.model.OscMatch SC3.model.OscBundleParse SC3.model.Dispatch SC3.model.Registry.
Require Import SC3.proofs.C18_match.
Open Scope Z_scope.
Theorem deriv_match_correct : forall r s, rmatch r s = true <-> lang r s.
Proof. intros r s. apply rmatch_correct. Qed.
