(* C18 -- Incoming messages reach exactly the responders that should fire.

   Models (coq/model): OscMatch (rewrite of _oscmatch.py + the reachable part of sre_parse +
   Brzozowski derivatives; OSC 1.0 pattern language), OscBundleParse (_osclib.py receive side),
   Dispatch (responders.py + _oscinterface._handle_request), Registry (systemactions.py, model.py).
   The main definitions describe the tree with build/proposed_fixes/C18_*.diff applied; the
   definitions named *_orig / AsFound follow the tree as found and carry the ..._refuted theorems.
   Only statements here; the proofs are in coq/proofs/C18_*.v. *)
From Coq Require Import ZArith List Bool Arith.
Import ListNotations.
Require Import SC3.model.OscMatch SC3.model.OscBundleParse SC3.model.Dispatch SC3.model.DispatchExc SC3.model.Registry.
Require Import SC3.proofs.C18_match SC3.proofs.C18_render SC3.proofs.C18_text SC3.proofs.C18_illformed SC3.proofs.C18_parse
  SC3.proofs.C18_dispatch SC3.proofs.C18_compose SC3.proofs.C18_exc SC3.proofs.C18_registry.
Open Scope Z_scope.

(* ======================= (a) the matcher ======================================================== *)
(* the derivative matcher decides membership in the language of the regex, for ALL regexes and
   strings; `lang` is the inductive specification of `re` on this fragment *)
Theorem deriv_match_correct : forall r s, rmatch r s = true <-> lang r s.
Proof. intros r s. apply rmatch_correct. Qed.

(* re.match (the tree as found) is: some PREFIX of the path is in the language *)
Theorem prefix_match_characterised : forall r s,
  rprefix r s = true <-> exists s1 s2, s = s1 ++ s2 /\ lang r s1.
Proof. intros r s. apply rprefix_correct. Qed.

(* the OSC 1.0 pattern language (inductive, part-wise: wildcards never match '/') is the language
   of the regex a token sequence compiles to *)
Theorem osc10_language_compiled : forall ts a, lang (compile ts) a <-> osc_lang ts a.
Proof. exact compile_correct. Qed.

(* THE FULL STATEMENT, for the whole pattern alphabet.  `pat_text ts p` (model/OscMatch.v) says that
   p is a well-formed OSC 1.0 address pattern text -- literals, '?', '*', classes [abc] with ranges
   [a-c], negation [!..] and an optional meaningless '-' before the ']', alternatives {a,b} -- and
   that it denotes the tokens ts.  For every such text and every address: the matching function
   (rewrite table, regex parser, derivatives, whole address) says yes exactly on the OSC 1.0
   language of the text. *)
Theorem osc10_pattern_text_correct : forall ts p a, pat_text ts p ->
  (osc_rematch p a = MTrue <-> osc_lang ts a).
Proof. exact pat_text_correct. Qed.
(* pat_text covers exactly the token sequences that are well-formed token by token, and on a
   well-formed text the outcome is yes or no, never an error *)
Theorem osc10_pattern_text_covers :
  (forall ts, forallb tok_ok ts = true -> pat_text ts (render ts))
  /\ (forall ts p, pat_text ts p -> forallb tok_ok ts = true)
  /\ (forall ts p a, pat_text ts p -> osc_rematch p a = MTrue \/ osc_rematch p a = MFalse).
Proof. split; [exact render_pat_text | split; [exact pat_text_ok | exact pat_text_decides]]. Qed.
(* part by part: a matched address has exactly as many '/' as the pattern has literal '/' -- no
   wildcard, class or alternative ever matches across a part boundary *)
Theorem osc10_match_is_partwise : forall ts p a, pat_text ts p -> osc_rematch p a = MTrue ->
  count_slash a = count_slash_toks ts.
Proof.
  intros ts p a H Hm. apply osc_lang_same_parts; [eapply pat_text_ok; eassumption | apply (pat_text_correct ts p a H); assumption].
Qed.
Example flat_pattern_instance :     (* "/a*?" : literals, '*', '?' alone are an instance of the full theorem *)
  pat_text [OLit 47; OLit 97; OStar; OAny] [47; 97; 42; 63] /\ osc_rematch [47; 97; 42; 63] [47; 97; 98; 99] = MTrue.
Proof. split; [apply (render_pat_text [OLit 47; OLit 97; OStar; OAny]); reflexivity | vm_compute; reflexivity]. Qed.
Example pat_text_test_pattern :    (* "/m?t{ch,Ch}[a-z]n[!a-f]_*" of tests/test_oscfunc.py *)
  let ts := [OLit 47; OLit 109; OAny; OLit 116; OAlt [[99;104]; [67;104]]; OClass false [(97, 122)]; OLit 110;
             OClass true [(97, 102)]; OLit 95; OStar] in
  pat_text ts [47;109;63;116;123;99;104;44;67;104;125;91;97;45;122;93;110;91;33;97;45;102;93;95;42]
  /\ osc_lang ts [47;109;97;116;67;104;105;110;103;95;109;115;103].
Proof.
  intro ts. assert (H : pat_text ts (render ts)) by (apply render_pat_text; vm_compute; reflexivity).
  split; [exact H|]. apply (pat_text_correct ts _ _ H). vm_compute. reflexivity.
Qed.
Example pat_text_dash_rule :       (* "/[a-]" : the '-' before ']' means nothing *)
  pat_text [OLit 47; OClass false [(97, 97)]] [47; 91; 97; 45; 93]
  /\ osc_rematch [47; 91; 97; 45; 93] [47; 97] = MTrue /\ osc_rematch [47; 91; 97; 45; 93] [47; 45] = MFalse.
Proof.
  split; [|split; vm_compute; reflexivity].
  apply PT_lit; [reflexivity|]. apply (PT_class false true [(97, 97)] [] []); [reflexivity | constructor].
Qed.

(* ill-formed texts.  The regex parser never runs out of fuel, so the outcome of the matching
   function is always yes / no / re.error; a well-formed text followed by a '}' without '{', by a
   '{' that is never closed, or by a '[' that is never closed is an re.error (what re.compile
   raises); an re.error address fires no matching responder and leaves the state alone. *)
Theorem pattern_outcome_total : forall p a, osc_rematch p a <> MOutOfFuel /\ osc_rematch_orig p a <> MOutOfFuel.
Proof. intros p a. split; apply rematch_never_out_of_fuel. Qed.
Theorem illformed_pattern_is_re_error :
  (forall ts p w a, pat_text ts p -> osc_rematch (p ++ ch_rbrace :: w) a = MReError)
  /\ (forall ts p ts' q a, pat_text ts p -> pat_text ts' q -> osc_rematch (p ++ ch_lbrace :: q) a = MReError)
  /\ (forall ts p w a, pat_text ts p -> forallb cplain w = true -> osc_rematch (p ++ ch_lbrk :: w) a = MReError).
Proof. split; [exact unbalanced_close_brace | split; [exact unclosed_brace | exact unclosed_bracket]]. Qed.
Theorem illformed_address_dispatches_nothing : forall st m t src port k,
  osc_rematch (m_addr m) k = MReError -> dispatch_match_d st m t src port = (st, []).
Proof. exact illformed_address_fires_nothing. Qed.
Example illformed_examples :
  osc_rematch [47; 97; 125] [47; 97] = MReError /\ osc_rematch [47; 123; 97] [47; 97] = MReError
  /\ osc_rematch [47; 91; 97] [47; 97] = MReError /\ osc_rematch [47; 97; 93] [47; 97; 93] = MTrue.
Proof. repeat split; vm_compute; reflexivity. Qed.

(* whole-length matching: a literal pattern matches only itself (in particular never a path that
   merely starts with it), and whenever the matcher says yes the WHOLE path is in the language of
   the parsed pattern -- no suffix of the key is left unmatched *)
Theorem match_whole_length :
  (forall p a, forallb plain p = true -> (osc_rematch p a = MTrue <-> a = p))
  /\ (forall p x s, forallb plain p = true -> osc_rematch p (p ++ x :: s) = MFalse)
  /\ (forall p a, osc_rematch p a = MTrue -> exists r, re_parse (rewrite Repaired p) = OscMatch.POk r [] /\ lang r a).
Proof.
  split; [|split].
  - intros p a H. apply (literal_matches_only_itself Repaired p a H).
  - exact literal_no_suffix.
  - intros p a H. apply (whole_match_in_language Repaired p a H).
Qed.

(* F3, the tree as found (re.match): the message address "/a" fires the matching responder "/ab" *)
Theorem match_whole_length_as_found_refuted :
  exists p a, forallb plain p = true /\ a <> p /\ osc_rematch_orig p a = MTrue.
Proof. exists [47; 97], [47; 97; 98]. split; [vm_compute; reflexivity | split; [discriminate | vm_compute; reflexivity]]. Qed.

(* the tree as found, even with fullmatch: "*" crosses the part boundary, "/*" matches "/a/b",
   which is not in the OSC 1.0 language of that pattern *)
Theorem wildcard_stays_in_part_as_found_refuted :
  osc_rematch_full_only [47; 42] [47; 97; 47; 98] = MTrue
  /\ ~ osc_lang [OLit 47; OStar] [47; 97; 47; 98]
  /\ render [OLit 47; OStar] = [47; 42].
Proof.
  split; [vm_compute; reflexivity | split; [|reflexivity]].
  intro H. apply compile_correct, rmatch_correct in H. vm_compute in H. discriminate.
Qed.
Example wildcard_repaired : osc_rematch [47; 42] [47; 97; 47; 98] = MFalse /\ osc_rematch [47; 42; 47; 42] [47; 97; 47; 98] = MTrue.
Proof. split; vm_compute; reflexivity. Qed.
(* "/m?t{ch,Ch}[a-z]n[!a-f]_*" against "/matChing_msg" (tests/test_oscfunc.py) *)
Example matcher_computes :
  osc_rematch [47;109;63;116;123;99;104;44;67;104;125;91;97;45;122;93;110;91;33;97;45;102;93;95;42]
              [47;109;97;116;67;104;105;110;103;95;109;115;103] = MTrue.
Proof. vm_compute. reflexivity. Qed.

(* ======================= (c) the parser =========================================================== *)
(* with fuel = number of bytes + 1 the (repaired) packet parser never runs out of fuel, for EVERY
   byte string: the result is a list of messages or a parse error *)
Theorem parse_total : forall d, parse_packet d <> POutOfFuel.
Proof. exact parse_packet_total. Qed.

(* F4, the tree as found: on "#bundle\0" <timetag> <int32 -4> the loop of _parse_contents comes back
   to the same index; no amount of fuel is enough (the receive thread never returns) *)
Theorem parse_total_as_found_refuted : forall fuel, parse_packet_orig fuel hostile_dgram = POutOfFuel.
Proof. exact hostile_never_returns. Qed.
(* ... and an element size reaching past the end of the datagram is silently truncated and its
   message delivered: "#bundle\0" tt=1, size 416, "/m\0\0,i\0\0" 7 *)
Example oversized_as_found_dispatches :
  let d := bundle_prefix ++ [0;0;0;0;0;0;0;1] ++ [0;0;1;160] ++ [47;109;0;0;44;105;0;0;0;0;0;7] in
  parse_packet_orig 100 d = POk [(TNow, {| m_addr := [47;109]; m_args := [VInt 7] |})] /\ parse_packet d = PError.
Proof. split; vm_compute; reflexivity. Qed.
Example parse_computes :
  parse_packet (bundle_prefix ++ [0;0;1;0;0;0;0;0] ++ [0;0;0;12] ++ [47;109;0;0;44;105;0;0;0;0;0;7])
  = POk [(TTag 1099511627776, {| m_addr := [47;109]; m_args := [VInt 7] |})].
Proof. vm_compute. reflexivity. Qed.

(* ======================= (b) dispatch ================================================================ *)
(* `cmdp st` lists the enabled responders in the order of their current registration (the order of
   their latest enable(); it is also the key order of CmdPeriod's registry).  For EVERY history h of
   create / enable / disable / one_shot / free / function replacement / CmdPeriod / incoming
   messages and datagrams, in the state reached: *)
Theorem dispatch_exact : forall h m t src port,
  let st := final h in
  (* the exact dispatcher invokes exactly the enabled exact responders whose path equals the message
     address and whose source, port and argument template accept, in registration order ... *)
  map i_id (snd (dispatch_exact_d st m t src port)) = filter (fires st false (m_addr m) m src port) (cmdp st)
  (* ... each once: the registration list has no duplicates and holds exactly the enabled responders *)
  /\ NoDup (cmdp st) /\ (forall id, In id (cmdp st) <-> enabled st id = true)
  (* and every invocation carries the message, its time, the sender and the port unchanged *)
  /\ (forall i, In i (snd (incoming st m t src port)) ->
        enabled st (i_id i) = true /\ i_msg i = m /\ i_time i = t /\ i_src i = src /\ i_port i = port).
Proof.
  intros h m t src port st. pose proof (Inv_final h) as HI. fold st in HI.
  split; [apply exact_ids; assumption|]. split; [apply (inv_nodup st HI)|]. split; [apply (inv_enabled st HI)|].
  apply incoming_spec. assumption.
Qed.

(* matching dispatcher (repaired, C18_matching_order.diff): exactly the enabled matching responders
   whose path is matched over its whole length by the message address read as an OSC 1.0 pattern and
   whose filters accept, in ONE registration order whatever their paths -- the FULL statement *)
Theorem dispatch_matching : forall h m t src port,
  let st := final h in
  map i_id (snd (dispatch_match_d st m t src port)) = filter (fires_m st m src port) (cmdp st).
Proof. intros h m t src port st. apply match_ids, Inv_final. Qed.

(* ... hence each once, and exactly those *)
Theorem dispatch_matching_exactly_once : forall h m t src port,
  let st := final h in
  NoDup (map i_id (snd (dispatch_match_d st m t src port)))
  /\ forall id, In id (map i_id (snd (dispatch_match_d st m t src port))) <-> fires_m st m src port id = true.
Proof. intros h m t src port st. apply match_exactly_once, Inv_final. Qed.

(* function replacement: whatever the history (set_func, one_shot, disable/enable around them), the
   function an invocation runs is the responder's CURRENT function (under its one-shot wrappers) *)
Theorem invoked_function_is_current : forall h m t src port i,
  let st := final h in
  In i (snd (incoming st m t src port)) ->
  exists r, nth_error (resps st) (i_id i) = Some r /\ i_tag i = user_tag (r_func r).
Proof. intros h m t src port i st Hi. apply (invoked_current st m t src port (Inv2_final h) i Hi). Qed.

(* (a)+(b) COMPOSED.  For every history and every incoming message whose address is a well-formed
   pattern text denoting ts: responder id is invoked  <=>  it exists, is enabled, its source / port /
   argument template accept the message, and -- matching responder -- its path is in the OSC 1.0
   language of the address, or -- exact responder -- its path equals the address; each once; with
   the message, time, sender and port unchanged and running its current function.
   "Enabled" is exactly: created or enable()d since the last disable() / free() / CmdPeriod and, for a
   one-shot function, not fired since (responder_life_cycle below). *)
Theorem incoming_message_fires_exactly : forall h ts m t src port,
  pat_text ts (m_addr m) ->
  let st := final h in
  NoDup (map i_id (snd (incoming st m t src port)))
  /\ (forall id, In id (map i_id (snd (incoming st m t src port))) <->
        exists r, nth_error (resps st) id = Some r /\ r_enabled r = true /\ accepts r m src port = true /\
                  (if r_matching r then osc_lang ts (r_path r) else r_path r = m_addr m))
  /\ (forall i, In i (snd (incoming st m t src port)) ->
        i_msg i = m /\ i_time i = t /\ i_src i = src /\ i_port i = port
        /\ exists r, nth_error (resps st) (i_id i) = Some r /\ i_tag i = user_tag (r_func r)).
Proof. intros h ts m t src port Hp st. apply (incoming_fires_exactly st ts m t src port (Inv2_final h) Hp). Qed.

Theorem responder_life_cycle : forall h,
  let st := final h in
  (forall id, (id < length (resps st))%nat -> enabled (enable st id) id = true)
  /\ (forall id, enabled (disable st id) id = false) /\ (forall id, enabled (free st id) id = false)
  /\ (forall j id, id <> j -> enabled (disable st j) id = enabled st id)
  /\ (forall id, enabled (cmd_period st) id = false)
  /\ (forall m t src port id, enabled (fst (incoming st m t src port)) id = true -> enabled st id = true)
  /\ (forall m t src port i, In i (snd (incoming st m t src port)) ->
        (exists r g, nth_error (resps st) (i_id i) = Some r /\ r_func r = FOneShot g) ->
        enabled (fst (incoming st m t src port)) (i_id i) = false).
Proof.
  intros h st. pose proof (Inv2_final h) as HI2. fold st in HI2. destruct HI2 as [HI HF].
  split; [apply enabled_enable_self|]. split; [apply enabled_disable_self|]. split; [intro; apply enabled_disable_self|].
  split; [apply enabled_disable_other|]. split; [intro id; apply cmd_period_disables_all; assumption|].
  split; [intros m t src port; apply (proj2 (incoming_spec st m t src port HI))|].
  intros m t src port i Hi Hos. apply (oneshot_fired_off st m t src port i (conj HI HF) Hi Hos).
Qed.
Example composed_example :   (* "/[ab]*" fires matching responders /a1 and /b, not /c, /a/b; one-shot /b fires once *)
  let m := {| m_addr := [47;91;97;98;93;42]; m_args := [] |} in
  let h := [OpCreate [47;97;49] true None None None 0%nat; OpCreate [47;99] true None None None 1%nat;
            OpCreate [47;98] true None None None 2%nat; OpOneShot 2%nat; OpCreate [47;97;47;98] true None None None 3%nat;
            OpIncoming m TNow (1, 2) 3; OpIncoming m TNow (1, 2) 3] in
  map (map inv_key) (snd (run init_state h)) = [[]; []; []; []; []; [(0, 0); (2, 2)]; [(0, 0)]]%nat
  /\ pat_text [OLit 47; OClass false [(97, 97); (98, 98)]; OStar] (m_addr m).
Proof.
  split; [vm_compute; reflexivity|].
  apply (render_pat_text [OLit 47; OClass false [(97, 97); (98, 98)]; OStar]). vm_compute. reflexivity.
Qed.

(* registration order, as the code keeps it: enable() of a responder that is not enabled registers it
   LAST (so disable + enable moves it to the end); enable() of an enabled one changes nothing;
   disable()/free() take it out and leave the others in order; replacing the function (func setter,
   one_shot) keeps its place in the dispatcher's table and in the registration order *)
Theorem registration_order_rules :
  (forall st id r, nth_error (resps st) id = Some r -> r_enabled r = false -> cmdp (enable st id) = cmdp st ++ [id])
  /\ (forall st id r, nth_error (resps st) id = Some r -> r_enabled r = true -> enable st id = st)
  /\ (forall st id r, nth_error (resps st) id = Some r -> r_enabled r = true ->
        cmdp (disable st id) = filter (fun j => negb (Nat.eqb j id)) (cmdp st))
  /\ (forall st id f, cmdp (set_func st id f) = cmdp st
        /\ forall kind key, ids_at (tbl (set_func st id f) kind) key = ids_at (tbl st kind) key).
Proof.
  split; [exact enable_goes_last | split; [exact enable_enabled_noop | split; [exact disable_keeps_others | exact set_func_keeps_place]]].
Qed.
Example reenable_goes_last :
  cmdp (final [OpCreate [47;97] false None None None 0%nat; OpCreate [47;97] false None None None 1%nat;
               OpDisable 0%nat; OpEnable 0%nat; OpSetFunc 1%nat 7%nat; OpOneShot 1%nat]) = [1; 0]%nat.
Proof. vm_compute. reflexivity. Qed.

(* callbacks that raise (model/DispatchExc.v: the exception ends the clock task of THAT message, the
   rest of its responders are not invoked, state changes made before the raise stay, the next
   message is handled normally).  The property requires nothing of the responders skipped by a
   raising callback; it requires that later messages are still delivered.  With no raising callback
   that model takes exactly the steps of model/Dispatch.v: *)
Theorem raising_model_agrees : forall st o, calm st -> step_x (fun _ => false) st o = step st o.
Proof. exact step_x_calm. Qed.
Example raising_example :   (* responders 0, 1 (one-shot, raises), 2 on "/a": 0 and 1 run, 2 is skipped; next message: 0 and 2 *)
  let m := {| m_addr := [47;97]; m_args := [] |} in
  let h := [OpCreate [47;97] false None None None 0%nat; OpCreate [47;97] false None None None 1%nat; OpOneShot 1%nat;
            OpCreate [47;97] false None None None 2%nat] in
  let st := final h in
  let r1 := step_x (fun tag => Nat.eqb tag 1) st (OpIncoming m TNow (1, 2) 3) in
  map inv_key (snd r1) = [(0, 0); (1, 1)]%nat
  /\ map inv_key (snd (step_x (fun tag => Nat.eqb tag 1) (fst r1) (OpIncoming m TNow (1, 2) 3))) = [(0, 0); (2, 2)]%nat.
Proof. split; vm_compute; reflexivity. Qed.

(* the tree as found walked the dispatcher's table path by path: responders 0 ("/a"), 1 ("/b"), 2 ("/a"),
   all matching; the message "/?" invoked 0, 2, 1 (replayed on the library: signature
   C18:matching_order_grouped_by_path); the repaired walk gives 0, 1, 2 *)
Theorem matching_global_order_refuted :
  let h := [OpCreate [47;97] true None None None 0%nat; OpCreate [47;98] true None None None 1%nat;
            OpCreate [47;97] true None None None 2%nat] in
  let m := {| m_addr := [47;63]; m_args := [] |} in
  map i_id (snd (dispatch_match_orig (final h) m TNow (1, 2) 3)) = [0; 2; 1]%nat
  /\ cmdp (final h) = [0; 1; 2]%nat
  /\ map i_id (snd (dispatch_match_d (final h) m TNow (1, 2) 3)) = [0; 1; 2]%nat.
Proof. repeat split; vm_compute; reflexivity. Qed.

(* disabled, freed and already-fired one-shot responders are never invoked *)
Theorem disabled_freed_oneshot_never : forall h,
  let st := final h in
  (* a responder that is not enabled is not invoked by any message, and an incoming message enables nothing *)
  (forall m t src port i, In i (snd (incoming st m t src port)) -> enabled st (i_id i) = true)
  /\ (forall m t src port id, enabled (fst (incoming st m t src port)) id = true -> enabled st id = true)
  (* disable() and free() leave the responder not enabled *)
  /\ (forall id, enabled (disable st id) id = false) /\ (forall id, enabled (free st id) id = false)
  (* a one-shot function that fires leaves its responder not enabled *)
  /\ (forall w m t src port g, w_func w = FOneShot g -> snd (call_wrapped st w m t src port) <> [] ->
        enabled (fst (call_wrapped st w m t src port)) (w_id w) = false).
Proof.
  intros h st. pose proof (Inv_final h) as HI. fold st in HI.
  split; [intros m t src port i Hi; apply (proj1 (incoming_spec st m t src port HI) i Hi)|].
  split; [intros m t src port; apply (proj2 (incoming_spec st m t src port HI))|].
  split; [apply enabled_disable_self|]. split; [intro id; apply enabled_disable_self|].
  intros. eapply oneshot_disables; eassumption.
Qed.

Example dispatch_history :
  let a1 := {| m_addr := [47;97]; m_args := [VInt 1] |} in
  let h := [OpCreate [47;97] false None None None 0%nat; OpOneShot 0%nat;
            OpCreate [97] false None None (Some [TEq (VInt 1); TEq (VInt 2)]) 1%nat;
            OpCreate [47;97] false (Some (7, None)) None None 2%nat;
            OpCreate [47;97] false None None None 3%nat; OpSetFunc 3%nat 9%nat;
            OpIncoming a1 TNow (7, 8) 9; OpIncoming a1 TNow (6, 8) 9; OpCmdPeriod; OpIncoming a1 TNow (7, 8) 9] in
  map (map inv_key) (snd (run init_state h))
  = [[]; []; []; []; []; []; [(0, 0); (2, 2); (3, 9)]; [(3, 9)]; []; []]%nat.
Proof. vm_compute. reflexivity. Qed.

(* the tree as found: `for func in self.active[key]` over the live list -- after the one-shot
   responder 0 removed itself, responder 1 is skipped *)
Theorem dispatch_exact_as_found_refuted_oneshot :
  let h := [OpCreate [47;97] false None None None 0%nat; OpOneShot 0%nat;
            OpCreate [47;97] false None None None 1%nat; OpCreate [47;97] false None None None 2%nat] in
  let m := {| m_addr := [47;97]; m_args := [] |} in
  map i_id (snd (dispatch_exact_orig (final h) m TNow (1, 2) 3)) = [0; 2]%nat
  /\ filter (fires (final h) false (m_addr m) m (1, 2) 3) (cmdp (final h)) = [0; 1; 2]%nat.
Proof. split; vm_compute; reflexivity. Qed.
(* the tree as found: a template longer than the message raises IndexError, responder 1 never runs *)
Theorem dispatch_exact_as_found_refuted_template :
  let h := [OpCreate [47;97] false None None (Some [TEq (VInt 1); TEq (VInt 2)]) 0%nat;
            OpCreate [47;97] false None None None 1%nat] in
  let m := {| m_addr := [47;97]; m_args := [VInt 1] |} in
  map i_id (snd (dispatch_exact_orig (final h) m TNow (1, 2) 3)) = []
  /\ filter (fires (final h) false (m_addr m) m (1, 2) 3) (cmdp (final h)) = [1]%nat.
Proof. split; vm_compute; reflexivity. Qed.

(* ======================= the receive path ================================================================ *)
(* a datagram that does not parse (every byte string either parses or is an error, parse_total)
   invokes nothing and leaves the responder state as it was ... *)
Theorem malformed_dispatches_nothing : forall st d src port,
  (forall ms, parse_packet d <> POk ms) -> handle_request st d src port = (st, []).
Proof. exact malformed_nothing. Qed.
(* ... so the next datagram is processed exactly as if the malformed one had never arrived *)
Theorem receiver_survives : forall st bad src port d src' port',
  (forall ms, parse_packet bad <> POk ms) ->
  parse_packet bad = PError
  /\ handle_request (fst (handle_request st bad src port)) d src' port' = handle_request st d src' port'.
Proof.
  intros st bad src port d src' port' H. split.
  - destruct (parse_ok_or_error bad) as [[ms E] | E]; [exfalso; apply (H ms E) | exact E].
  - rewrite (malformed_nothing st bad src port H). reflexivity.
Qed.
Example malformed_then_valid :
  let h := [OpCreate [47;109] false None None None 0%nat;
            OpDatagram hostile_dgram (1, 2) 3;
            OpDatagram [47;109;0;0;44;105;0;0;0;0;0;7] (1, 2) 3] in
  map (map inv_key) (snd (run init_state h)) = [[]; []; [(0, 0)]]%nat.
Proof. vm_compute. reflexivity. Qed.

(* ======================= (d) registries ==================================================================== *)
Theorem registry_runs_current_in_order :
  (* SystemAction (CmdPeriod, StartUp, ShutDown): run calls every registered action once, in
     registration order, with the arguments currently registered *)
  (forall r, NoDup (reg_keys r) -> sa_run (fun _ => []) r = (r, r))
  (* when actions unregister others while it runs: what is called was registered, in registration
     order, never twice *)
  /\ (forall removes r, NoDup (reg_keys r) ->
        sublist (map fst (snd (sa_run removes r))) (reg_keys r)
        /\ forall a x, In (a, x) (snd (sa_run removes r)) -> reg_get a r = Some x)
  (* add: an action registered again keeps its place and gets the new arguments, a new one goes last;
     remove: the others keep their order; keys stay distinct over every history *)
  /\ (forall k v r, reg_keys (sa_add k v r) = (if reg_mem k r then reg_keys r else reg_keys r ++ [k])
                    /\ reg_get k (sa_add k v r) = Some v)
  /\ (forall k r, NoDup (reg_keys r) -> reg_keys (sa_remove k r) = filter (fun j => negb (Nat.eqb j k)) (reg_keys r))
  /\ (forall removes st o, NoDup (reg_keys (st_sa st)) -> NoDup (reg_keys (st_sa (fst (rstep removes st o)))))
  (* ServerAction (ServerBoot, ServerQuit, ServerTree): a removed action is gone for that server and
     only for it, and run(server) does not call it *)
  /\ (forall s a t, sv_get s (sv_remove s a t) = option_map (reg_del a) (sv_get s t)
                    /\ forall s', s' <> s -> sv_get s' (sv_remove s a t) = sv_get s' t)
  /\ (forall s a t n d, s = KServer n \/ s = KAll \/ (s = KDefault /\ d = true) ->
        (forall s' r, sv_get s' t = Some r -> NoDup (reg_keys r)) ->
        (forall s', s' <> s -> forall r, sv_get s' t = Some r -> ~ In a (reg_keys r)) ->
        ~ In a (map fst (sv_run n d (sv_remove s a t))))
  (* NotificationCenter: notify calls the listeners registered for (object, message), in registration order *)
  /\ (forall o m l a t, nc_notify o m (nc_register o m l a t) = reg_set l a (odflt [] (nc_get o m t))).
Proof.
  split; [exact sa_run_all|].
  split; [intros removes r H; destruct (sa_run_from_sound removes (reg_keys r) r H) as (H1 & H2 & _); split; assumption|].
  split; [intros k v r; split; [apply reg_keys_set | apply reg_get_set_same]|].
  split; [intros k r H; apply reg_keys_del; assumption|].
  split; [exact rstep_nodup|].
  split; [exact sv_remove_spec|].
  split; [exact sv_removed_not_run|].
  exact nc_notify_register.
Qed.

(* F5, the tree as found: ServerAction.remove looks the action up and discards the result *)
Theorem registry_serveraction_as_found_refuted :
  exists t s a n, In a (map fst (sv_run n false (sv_remove_orig s a t))).
Proof. exists (sv_add (KServer 1) 5 0 []), (KServer 1), 5%nat, 1%nat. vm_compute. left. reflexivity. Qed.
Example registry_history :
  rrun (fun a => if Nat.eqb a 1 then [2%nat] else []) rinit
       [SaAdd 1 1; SaAdd 2 2; SaAdd 3 3; SaAdd 1 9; SaRun; SvAdd (KServer 1) 1 5; SvAdd KAll 2 6; SvRemove (KServer 1) 1; SvRun 1 false]%nat
  = [[]; []; []; []; [(1, 9); (3, 3)]; []; []; []; [(2, 6)]]%nat.
Proof. vm_compute. reflexivity. Qed.

Print Assumptions deriv_match_correct.
Print Assumptions match_whole_length.
Print Assumptions osc10_pattern_text_correct.
Print Assumptions illformed_pattern_is_re_error.
Print Assumptions incoming_message_fires_exactly.
Print Assumptions responder_life_cycle.
Print Assumptions registration_order_rules.
Print Assumptions raising_model_agrees.
Print Assumptions parse_total.
Print Assumptions dispatch_exact.
Print Assumptions dispatch_matching.
Print Assumptions dispatch_matching_exactly_once.
Print Assumptions invoked_function_is_current.
Print Assumptions registry_runs_current_in_order.
