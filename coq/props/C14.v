(* C14 -- events resolve their keys and play as correctly timed server commands.
   Property theorems only.  Model: coq/model/Event.v (event.py, scale.py, eventstream.py, Pbind/Pmono/Pchain/
   Ppar/Pdelta/Pdur); [patched] = the code with build/proposed_fixes/C14_*.diff, [unpatched] = as released.
   `val n q` = n is a Python number (no exception) of exact value q, whatever its int/float kind. *)
From Coq Require Import String List Morphisms.
Require Import SC3.proofs.NumTac SC3.gen.Gen_builtins SC3.proofs.C12_num SC3.model.TaskQ SC3.model.Event.
Require Import SC3.proofs.C14_keys SC3.proofs.C14_play.
Import ListNotations.
Open Scope Q_scope.

(* any explicitly given key is returned as given: by e(key), and by the inner self('degree'), self('midinote'),
   self('freq') calls of the chains *)
Theorem explicit_key_precedence : forall K e k v, get k e = Some v ->
  ev_call K e k = v /\ plain K e k = v /\
  (k = "degree"%string -> c_degree K e = vnum v) /\
  (k = "midinote"%string -> c_midinote K e = vnum v) /\
  (k = "freq"%string -> c_freq K e = vnum v).
Proof.
  intros K e k v H. split; [exact (explicit_l K e k v H)|]. split; [exact (plain_explicit K e k v H)|].
  destruct (inner_explicit K e v) as [A [B C]].
  repeat split; intros E; subst k; auto.
Qed.

(* degree (+ mtranspose) -> scale step (octave part: floor; index: int() as in the code) -> note
   -> (+ gtranspose + root) / steps-per-octave + octave - 5, times 12 log2(octave ratio), + 60 = midinote
   -> midicps -> * harmonic + detune.  All values rational, any int/float mix.
   NOTE (as the code is): on the degree path ctranspose is not applied; on the note and midinote paths it is. *)
Theorem pitch_chain : forall K e s gt root oct ct har det,
  Proper (Qeq ==> Qeq) (k_midicps K) -> pscale K e = s -> ~ sc_spo s == 0 ->
  val (pnum K e "gtranspose") gt -> val (pnum K e "root") root -> val (pnum K e "octave") oct ->
  val (pnum K e "ctranspose") ct -> val (pnum K e "harmonic") har -> val (pnum K e "detune") det ->
  (forall vd d mt, get "degree" e = Some vd -> get "note" e = None -> get "midinote" e = None -> get "freq" e = None ->
     (0 < List.length (sc_degrees s))%nat -> ok (nadd (vnum vd) (pnum K e "mtranspose")) ->
     d = nadd (vnum vd) (pnum K e "mtranspose") -> mt = note_spec s d ->
     val (r_note K e) mt /\ val (r_midinote K e) (midi_spec s gt root oct mt) /\
     val (r_freq K e) (k_midicps K (midi_spec s gt root oct mt)) /\
     val (detuned_freq K e) (k_midicps K (midi_spec s gt root oct mt) * har + det)) /\
  (forall vn n, get "note" e = Some vn -> get "midinote" e = None -> get "freq" e = None -> val (vnum vn) n ->
     val (r_midinote K e) (midi_spec s gt root oct n) /\
     val (r_freq K e) (k_midicps K (midi_spec s gt root oct n + ct)) /\
     val (detuned_freq K e) (k_midicps K (midi_spec s gt root oct n + ct) * har + det)) /\
  (forall vm m, get "midinote" e = Some vm -> get "freq" e = None -> val (vnum vm) m ->
     val (r_freq K e) (k_midicps K (m + ct)) /\ val (detuned_freq K e) (k_midicps K (m + ct) * har + det)) /\
  (forall vf f, get "freq" e = Some vf -> val (vnum vf) f -> val (detuned_freq K e) (f * har + det)).
Proof.
  intros K e s gt root oct ct har det HP Hs Hspo Hgt Hroot Hoct Hct Hhar Hdet.
  split; [|split; [|split]].
  - intros. eapply chain_from_degree; eauto.
  - intros. eapply chain_from_note; eauto.
  - intros. eapply chain_from_midinote; eauto.
  - intros. eapply chain_from_freq; eauto.
Qed.

(* db -> amp through dbamp; otherwise velocity / 127; otherwise the default *)
Theorem amp_chain : forall K e,
  (forall vd d, get "db" e = Some vd -> val (vnum vd) d -> Proper (Qeq ==> Qeq) (k_dbamp K) ->
     val (r_amp K e) (k_dbamp K d)) /\
  (forall vv v, get "db" e = None -> get "velocity" e = Some vv -> val (vnum vv) v -> val (r_amp K e) (v / 127)) /\
  (get "db" e = None -> get "velocity" e = None -> r_amp K e = F amp_default).
Proof. exact amp_chain_l. Qed.

(* delta = dur * stretch, sustain = dur * legato * stretch (each of dur/stretch/legato explicit or default) *)
Theorem dur_chain : forall K e d st lg dq sq lq,
  plain K e "dur" = VNum d -> plain K e "stretch" = VNum st -> plain K e "legato" = VNum lg ->
  val d dq -> val st sq -> val lg lq ->
  (get "delta" e = None -> exists n, ev_call K e "delta" = VNum n /\ val n (dq * sq)) /\
  (get "sustain" e = None -> exists n, ev_call K e "sustain" = VNum n /\ val n (dq * lq * sq)).
Proof. exact dur_chain_l. Qed.

(* NoteEvent.play with an instrument of the library: exactly one /s_new (name, the fresh id, add action, group,
   and for every control of the instrument -- gate excepted -- that the event defines, its value; freq is always
   defined and is the detuned frequency) stamped logical time + latency; exactly one gate-off, later by sustain,
   iff the instrument has a gate; nothing else *)
Theorem note_play_commands : forall K lib lat now node e d,
  lib_at (sym_of (ev_call K (put "freq" (VNum (detuned_freq K e)) e) "instrument")) lib = Some d ->
  get "send_gate" e = None ->
  let ps := sent_params K d e in
  let e2 := played K d ps e in
  let snew := (stamp now lat, MNew (sym_of (ev_call K e2 "instrument")) node (action_number (ev_call K e2 "add_action"))
                                   (vnum (ev_call K e2 "group")) ps) in
  play_note K lib lat now node e =
    (if d_has_gate d
     then [snew; (stamp now (lat + toQ (vnum (ev_call K e2 "sustain"))), MSet node [("gate"%string, I 0)])]
     else [snew]) /\
  (forall a x, In (a, x) ps <-> In a (sent_names d) /\
       has a (put "has_gate" (VBool (d_has_gate d)) (put "freq" (VNum (detuned_freq K e)) e)) = true /\
       x = vnum (ev_call K (put "has_gate" (VBool (d_has_gate d)) (put "freq" (VNum (detuned_freq K e)) e)) a)) /\
  (forall t, 0 <= t -> stamp now t == now + t).
Proof.
  intros K lib lat now node e d Hlib Hsg ps e2 snew. split; [exact (note_play_l K lib lat now node e d Hlib Hsg)|].
  split; [|intros t Ht; exact (stamp_nonneg now t Ht)].
  intros a x. split.
  - apply sent_params_sound.
  - intros [H1 [H2 H3]]. subst x. apply sent_params_complete; assumption.
Qed.

(* an event with a Rest in any key is a rest; a rest pulled by a player sends nothing; the filling events of
   Pdelta and Ppar are rests *)
Theorem rest_sends_nothing :
  (forall k n (e : event), get k e = Some (VRest n) -> is_rest e = true) /\
  (forall K lib lat k t e log, is_rest e = true ->
     sends_from K lib lat k (LEv t e :: log) = sends_from K lib lat (S k) log) /\
  (forall d inev, is_rest (silent d inev) = true).
Proof. exact (conj rest_value_is_rest (conj rest_sends_nothing_l silent_is_rest)). Qed.

(* the k-th event pulled by a player is played at start + the sum of the deltas of the events before it
   (any stream, any cfg, any fuel: induction over the player loop) *)
Theorem player_times : forall c K lib fuel depth s proto mc now k t e,
  nth_error (evs (player c K lib fuel depth s proto mc now)) k = Some (t, e) ->
  t == now + qsum (map (fun x => delta_q K (snd x)) (firstn k (evs (player c K lib fuel depth s proto mc now)))).
Proof. exact player_times_l. Qed.

(* ... and (repaired code) a rest delays what follows exactly like a note *)
Theorem player_continues_after_rest : forall c K lib f depth s proto mc now e0 s' offs mc' n,
  fix_rest_delta c = true -> snext c K lib depth s proto mc = (RYield e0 s' offs, mc') ->
  ev_call K (as_event e0) "delta" = VRest n -> ok n ->
  player c K lib (S f) depth s proto mc now =
    map (LOff now) offs ++ LEv now (as_event e0) :: player c K lib f depth s' proto mc' (now + toQ n).
Proof. exact player_continues_after_rest. Qed.

(* Pdur: when the stream ends by the cut, the deltas of its events sum to dur exactly (elapsed = 0 at the start);
   the cut is taken by the first event that ends at or after dur and by no event that ends more than the
   tolerance before it.
   FULL statement (pdur_total_duration): for every child stream whose deltas sum to at least dur, the deltas of
   Pdur(dur, child) sum to dur.  PROVED: the three parts below; their composition by induction over the
   child's run is not written out. *)
Theorem pdur_total_duration_partial : forall c K lib, fix_pdur_int c = true ->
  (forall fuel dep elapsed d s inev mc x dq, val elapsed x -> val d dq ->
     Forall (fun e => ok (vnum (ev_call K e "delta"))) (fst (dur_run c K lib fuel dep elapsed d s inev mc)) ->
     snd (dur_run c K lib fuel dep elapsed d s inev mc) = true ->
     qsum (map (delta_q K) (fst (dur_run c K lib fuel dep elapsed d s inev mc))) == dq - x) /\
  (forall elapsed delta d x y dq, val elapsed x -> val delta y -> val d dq -> dq <= x + y ->
     nge (py_roundup (nadd elapsed (pfloat delta)) tolerance) d = true) /\
  (forall elapsed delta d x y dq, val elapsed x -> val delta y -> val d dq -> x + y + toQ tolerance <= dq ->
     nge (py_roundup (nadd elapsed (pfloat delta)) tolerance) d = false).
Proof.
  intros c K lib H. split; [exact (pdur_sum_l c K lib H)|]. split; [exact pdur_cut_when_reached|exact pdur_pass_when_short].
Qed.

(* Ppar.
   FULL statement (ppar_preserves_child_timelines): the subsequence of Ppar's output that comes from child c,
   with absolute times, is c's own timeline, and the output is the merge of the children ordered by absolute time,
   ties by queueing order.  PROVED: one step of the merge -- the pulled child is re-queued at exactly
   now + its own delta in a queue that is the stable priority queue of C09 (TaskQ.spec; tq_refines_spec,
   pop_nondecreasing, pop_fifo_on_ties), the output delta is the distance to the head of that queue, a finished
   child is replaced by a rest of that length -- and a computed two-voice example.  The induction over the run,
   relating the queue contents to the children's own timelines, is not done. *)
Theorem ppar_preserves_child_timelines_partial :
  (forall c K lib dep q now cs inev mc t p q1 ci e0 ci' o mc' p' t',
     spec_step OPop q = (q1, RItem p t) -> nth_error cs (Z.to_nat t) = Some ci ->
     snext c K lib dep ci inev mc = (RYield e0 ci' o, mc') ->
     let tnext := nadd now (pfloat (vnum (ev_call K (as_event e0) "delta"))) in
     let q2 := fst (spec_step (OAdd (toQ tnext) t) q1) in
     snd (spec_step (OPeek true) q2) = RItem p' t' ->
     snext c K lib (S dep) (SPar true q now cs) inev mc =
       (RYield (put "delta" (VNum (nsub (F p') now)) (as_event e0))
               (SPar true q2 (F p') (set_nth (Z.to_nat t) ci' cs)) o, mc')) /\
  (forall c K lib dep q now cs inev mc t p q1 ci o mc' p' t',
     spec_step OPop q = (q1, RItem p t) -> nth_error cs (Z.to_nat t) = Some ci ->
     snext c K lib dep ci inev mc = (RStop o, mc') -> snd (spec_step (OPeek true) q1) = RItem p' t' ->
     snext c K lib (S dep) (SPar true q now cs) inev mc =
       (RYield (silent (VNum (nsub (F p') now)) inev) (SPar true q1 (F p') (set_nth (Z.to_nat t) SDone cs)) o, mc')).
Proof. exact (conj ppar_step_l ppar_child_end_l). Qed.

(* ---- the defects of the code as released (each is replayed on the library by harness/props/C14.py) ------------ *)
(* Pbind(dur = [Rest(1), 1]): nothing is ever played (the player yields a Rest object and is not re-scheduled) *)
Theorem rest_stops_player_refuted_unpatched :
  sends unpatched K0 the_lib 0 10 6 rest_witness legato_half 0 = [] /\
  map (fun b => Qred (fst b)) (sends patched K0 the_lib 0 10 6 rest_witness legato_half 0) = [1; 3 # 2].
Proof. exact rest_stops_player_refuted_unpatched_l. Qed.
(* Pdur(3/2, Pbind(dur = 1)) played with the default (dict) proto event: TypeError, nothing is played *)
Theorem pdur_plain_dict_refuted_unpatched :
  sends unpatched K0 the_lib 0 10 6 pdur_witness legato_half 0 = [] /\
  map (fun b => Qred (fst b)) (sends patched K0 the_lib 0 10 6 pdur_witness legato_half 0) = [0; 1 # 2; 1; 3 # 2].
Proof. exact pdur_plain_dict_refuted_unpatched_l. Qed.
(* Pdur(3/2, Pmono(delta = 1, 1)): int(0.5) = 0, the pattern lasts 1 instead of 3/2 (last time = release of the node) *)
Theorem pdur_int_delta_refuted_unpatched :
  map (fun b => Qred (fst b)) (sends unpatched K0 the_lib 0 10 6 int_delta_witness [] 0) = [0; 1; 1] /\
  map (fun b => Qred (fst b)) (sends patched K0 the_lib 0 10 6 int_delta_witness [] 0) = [0; 1; 3 # 2].
Proof. exact pdur_int_delta_refuted_unpatched_l. Qed.
(* an explicit scale key: every pitch computation raises (the Scale became an arrayed_param) *)
Theorem explicit_scale_key_refuted_unpatched :
  ev_call K0 [("degree"%string, VNum (I 2)); ("scale"%string, scale_key unpatched (scale_new unpatched minor_degrees (et_steps 12) 1))]
          "note" = VNum NErr /\
  ev_call K0 [("degree"%string, VNum (I 2)); ("scale"%string, scale_key patched (scale_new patched minor_degrees (et_steps 12) 1))]
          "note" = VNum (F (3 # 1)).
Proof. exact scale_key_refuted_unpatched_l. Qed.
(* Scale(degrees, Tuning(steps, 4.0)) forgets the octave ratio: 3 steps per octave instead of 6 *)
Theorem scale_tuning_refuted_unpatched :
  Qred (sc_spo (scale_new unpatched [0; 1; 2]%Z [0; 4; 8] 2)) = 3 /\ Qred (sc_spo (scale_new patched [0; 1; 2]%Z [0; 4; 8] 2)) = 6.
Proof. exact scale_tuning_refuted_unpatched_l. Qed.

(* ---- non-vacuity ------------------------------------------------------------------------------------------------ *)
Example chain_computes :
  ev_call K0 ex_event "note" = VNum (F (14 # 1)) /\ Qred (toQ (vnum (ev_call K0 ex_event "midinote"))) = 62 /\
  Qred (toQ (vnum (ev_call K0 ex_event "freq"))) = 62.
Proof. exact ex_event_chain. Qed.

Example pitch_chain_hypotheses_met :
  Proper (Qeq ==> Qeq) (k_midicps K0) /\ pscale K0 ex_event = major /\ ~ sc_spo major == 0 /\
  val (pnum K0 ex_event "octave") 4 /\ val (pnum K0 ex_event "gtranspose") 0 /\
  get "degree" ex_event = Some (VNum (I 9)) /\ get "note" ex_event = None /\
  ok (nadd (vnum (VNum (I 9))) (pnum K0 ex_event "mtranspose")).
Proof.
  split; [intros x y H; exact H|]. split; [reflexivity|]. split; [vm_compute; discriminate|].
  repeat split; reflexivity.
Qed.

Example ppar_two_voices :
  map (fun b => (Qred (fst b), voice b))
      (filter (fun b => match snd b with MNew _ _ _ _ _ => true | _ => false end)
              (sends patched K0 the_lib 0 20 6 two_voices [("legato"%string, VNum (F 1))] 0))
  = [(0, 0%Z); (0, 1%Z); (1 # 2, 1%Z); (1, 0%Z); (1, 1%Z); (2, 0%Z)].
Proof. exact ppar_example_l. Qed.

Print Assumptions pitch_chain.
Print Assumptions note_play_commands.
Print Assumptions player_times.
Print Assumptions pdur_total_duration_partial.
