(* C14 -- events resolve their keys and play as correctly timed server commands.
   Property theorems only.  Model: coq/model/Event.v (event.py, scale.py, eventstream.py, Pbind/Pmono/Pchain/
   Ppar/Pdelta/Pdur); [patched] = the code with build/proposed_fixes/C14_*.diff, [unpatched] = as released.
   `val n q` = n is a Python number (no exception) of exact value q, whatever its int/float kind. *)
From Coq Require Import String List Morphisms.
Require Import SC3.proofs.NumTac SC3.gen.Gen_builtins SC3.proofs.C12_num SC3.model.TaskQ SC3.model.Event.
Require Import SC3.proofs.C09_order SC3.proofs.C14_keys SC3.proofs.C14_play SC3.proofs.C14_stream SC3.proofs.C14_pdur.
Require Import SC3.proofs.C14_ppar SC3.proofs.C14_merge SC3.proofs.C14_mergethm SC3.proofs.C14_parfinal SC3.proofs.C14_ctl SC3.proofs.C14_embed SC3.proofs.C14_open SC3.proofs.C14_actions SC3.proofs.C14_pdurq SC3.proofs.C15_kernels.
Require Import SC3.gen.Gen_proto.
Open Scope list_scope.
From Coq Require Import Sorting.
Import ListNotations.
Open Scope Q_scope.

(* any explicitly given key is returned as given: by e(key), and by the inner self('degree'), self('midinote'),
   self('freq') calls of the chains *)
Theorem explicit_key_precedence : forall K e k v, get k e = Some v ->
  ev_call K e k = v /\ plain K e k = v /\
  (k = "degree"%string -> c_degree K e = vnum v) /\
  (k = "midinote"%string -> c_midinote K e = vnum v) /\
  (k = "freq"%string -> c_freq K e = vnum v).
Proof. exact explicit_key_precedence_l. Qed.

(* degree (+ mtranspose) -> scale step (octave part: floor; index: int() as in the code) -> note
   -> (+ gtranspose + root) / steps-per-octave + octave - 5, times 12 log2(octave ratio), + 60 = midinote
   -> midicps -> * harmonic + detune.  All values rational, any int/float mix.
   NOTE (as the code is): on the degree path ctranspose is not applied; on the note and midinote paths it is. *)
Theorem pitch_chain : forall K e s gt root oct ct har det,
  Proper (Qeq ==> Qeq) (k_midicps K) -> pscale K e = s -> ~ sc_spo s == 0 ->
  val (pnum K e "gtranspose") gt -> val (pnum K e "root") root -> val (pnum K e "octave") oct ->
  val (pnum K e "ctranspose") ct -> val (pnum K e "harmonic") har -> val (pnum K e "detune") det ->
  (forall vd d mt, get "degree" e = Some vd -> get "note" e = None -> get "midinote" e = None -> get "freq" e = None ->
     (0 < List.length (sc_degrees s))%nat -> ok (nadd (vnum vd) (pnum K e "mtranspose")) ->
     d = nadd (vnum vd) (pnum K e "mtranspose") -> mt = note_spec s d ->
     val (r_note K e) mt /\ val (r_midinote K e) (midi_spec s gt root oct mt) /\
     val (r_freq K e) (k_midicps K (midi_spec s gt root oct mt)) /\
     val (detuned_freq K e) (k_midicps K (midi_spec s gt root oct mt) * har + det)) /\
  (forall vn n, get "note" e = Some vn -> get "midinote" e = None -> get "freq" e = None -> val (vnum vn) n ->
     val (r_midinote K e) (midi_spec s gt root oct n) /\
     val (r_freq K e) (k_midicps K (midi_spec s gt root oct n + ct)) /\
     val (detuned_freq K e) (k_midicps K (midi_spec s gt root oct n + ct) * har + det)) /\
  (forall vm m, get "midinote" e = Some vm -> get "freq" e = None -> val (vnum vm) m ->
     val (r_freq K e) (k_midicps K (m + ct)) /\ val (detuned_freq K e) (k_midicps K (m + ct) * har + det)) /\
  (forall vf f, get "freq" e = Some vf -> val (vnum vf) f -> val (detuned_freq K e) (f * har + det)).
Proof. exact pitch_chain_l. Qed.

(* db -> amp through dbamp; otherwise velocity / 127; otherwise the default *)
Theorem amp_chain : forall K e,
  (forall vd d, get "db" e = Some vd -> val (vnum vd) d -> Proper (Qeq ==> Qeq) (k_dbamp K) ->
     val (r_amp K e) (k_dbamp K d)) /\
  (forall vv v, get "db" e = None -> get "velocity" e = Some vv -> val (vnum vv) v -> val (r_amp K e) (v / 127)) /\
  (get "db" e = None -> get "velocity" e = None -> r_amp K e = F amp_default).
Proof. exact amp_chain_l. Qed.

(* delta = dur * stretch, sustain = dur * legato * stretch (each of dur/stretch/legato explicit or default) *)
Theorem dur_chain : forall K e d st lg dq sq lq,
  plain K e "dur" = VNum d -> plain K e "stretch" = VNum st -> plain K e "legato" = VNum lg ->
  val d dq -> val st sq -> val lg lq ->
  (get "delta" e = None -> exists n, ev_call K e "delta" = VNum n /\ val n (dq * sq)) /\
  (get "sustain" e = None -> exists n, ev_call K e "sustain" = VNum n /\ val n (dq * lq * sq)).
Proof. exact dur_chain_l. Qed.

(* NoteEvent.play with an instrument of the library: exactly one /s_new (name, the fresh id, add action, group,
   and for every control of the instrument -- gate excepted -- that the event defines, its value; freq is always
   defined and is the detuned frequency) stamped logical time + latency; exactly one gate-off, later by sustain,
   iff the instrument has a gate; nothing else *)
Theorem note_play_commands : forall K lib lat now node e d,
  cached_params K (put "freq" (VNum (detuned_freq K e)) e) = None ->
  lib_at (sym_of (ev_call K (put "freq" (VNum (detuned_freq K e)) e) "instrument")) lib = Some d ->
  get "send_gate" e = None ->
  let ps := sent_params K d e in
  let e2 := played K d ps e in
  let snew := (stamp now lat, MNew (sym_of (ev_call K e2 "instrument")) node (action_number (ev_call K e2 "add_action"))
                                   (vnum (ev_call K e2 "group")) ps) in
  play_note K lib lat now node e =
    (if d_has_gate d
     then [snew; (stamp now (lat + toQ (vnum (ev_call K e2 "sustain"))), MSet node [("gate"%string, I 0)])]
     else [snew]) /\
  (forall a x, In (a, x) ps <-> In a (sent_names d) /\
       has a (put "has_gate" (VBool (d_has_gate d)) (put "freq" (VNum (detuned_freq K e)) e)) = true /\
       x = vnum (ev_call K (put "has_gate" (VBool (d_has_gate d)) (put "freq" (VNum (detuned_freq K e)) e)) a)) /\
  (forall t, 0 <= t -> stamp now t == now + t).
Proof. exact note_play_commands_l. Qed.

(* every accepted spelling of the add action: the table regenerated from sc3/synth/node.py (Node.add_actions: 15 names
   and letters, 5 numbers) gives, for every key, the number the model sends -- the Server Command Reference's 0 head,
   1 tail, 2 before, 3 after, 4 replace -- and the model accepts no name outside that table *)
Theorem add_actions_conform :
  Forall (fun p => action_number (VSym (fst p)) = snd p) add_actions_s /\
  Forall (fun p => action_number (VNum (I (fst p))) = snd p) add_actions_i /\
  List.length add_actions_s = 15%nat /\ List.length add_actions_i = 5%nat.
Proof. exact add_actions_conform_l. Qed.

Theorem add_actions_complete : forall s, action_number (VSym s) <> (-1)%Z -> In s (map fst add_actions_s).
Proof. exact add_actions_complete_l. Qed.

(* note_play_commands holds for EVERY play of an event object, not only the first: its guard cached_params = None (the
   control list is computed from the event's current keys) holds when no msg_params was given, and -- because play marks
   the object as playing -- for the played object itself, after any later change of any other key, and so for its copies.
   Only a non-empty msg_params given by the user on a never-played event is sent as given (note_play_cached). *)
Theorem replayed_event_recomputes : forall K lib node e k v, String.eqb "is_playing" k = false ->
  cached_params K (play_note_upd K lib node e) = None /\
  cached_params K (put k v (play_note_upd K lib node e)) = None.
Proof. exact replay_recomputes_l. Qed.

Theorem cached_only_before_first_play : forall K e,
  (truthy (plain K e "is_playing") = true -> cached_params K e = None) /\
  (get "msg_params" e = None -> cached_params K e = None).
Proof. exact cached_only_before_first_play. Qed.

Theorem note_play_cached : forall K lib lat now node e ps,
  cached_params K (put "freq" (VNum (detuned_freq K e)) e) = Some ps ->
  exists e2 gate, play_note K lib lat now node e =
    (stamp now lat, MNew (sym_of (ev_call K e2 "instrument")) node (action_number (ev_call K e2 "add_action"))
                         (vnum (ev_call K e2 "group")) ps) :: gate.
Proof. exact note_play_cached_l. Qed.

(* an event with a Rest in any key is a rest; a rest pulled by a player sends nothing; the filling events of
   Pdelta and Ppar are rests *)
Theorem rest_sends_nothing :
  (forall k n (e : event), get k e = Some (VRest n) -> is_rest e = true) /\
  (forall K lib lat k t e log, is_rest e = true ->
     sends_from K lib lat k (LEv t e :: log) = sends_from K lib lat (S k) log) /\
  (forall d inev, is_rest (silent d inev) = true).
Proof. exact (conj rest_value_is_rest (conj rest_sends_nothing_l silent_is_rest)). Qed.

(* the k-th event pulled by a player is played at start + the sum of the deltas of the events before it
   (any stream, any cfg, any fuel: induction over the player loop) *)
Theorem player_times : forall c K lib fuel depth s proto mc now k t e,
  nth_error (evs (player c K lib fuel depth s proto mc now)) k = Some (t, e) ->
  t == now + qsum (map (fun x => delta_q K (snd x)) (firstn k (evs (player c K lib fuel depth s proto mc now)))).
Proof. exact player_times_l. Qed.

(* ... and (repaired code) a rest delays what follows exactly like a note *)
Theorem player_continues_after_rest : forall c K lib f depth s proto mc now e0 s' offs mc' n,
  fix_rest_delta c = true -> snext c K lib depth s proto mc = (RYield e0 s' offs, mc') ->
  ev_call K (as_event e0) "delta" = VRest n -> ok n ->
  player c K lib (S f) depth s proto mc now =
    map (LOff now) offs ++ LEv now (as_event e0) :: player c K lib f depth s' proto mc' (now + toQ n).
Proof. exact player_continues_after_rest. Qed.

(* ---- streams as event lists ------------------------------------------------------------------------------------------
   stream_run c K lib fuel dep s inev mc = the events the stream state s yields when it is pulled with the input event
   inev until it ends (at most fuel events); timeline K start l = the events of l with the times start + the sum of the
   deltas of the events before; cdelta K e = the delta of e (as an EventType instance). *)

(* a player plays the timeline of the stream's run (every delta being a number, or a Rest with the repaired player) *)
Theorem player_plays_timeline : forall c K lib fuel depth s proto mc now,
  Forall (numeric_delta c K) (map as_event (stream_run c K lib fuel depth s proto mc)) ->
  evs (player c K lib fuel depth s proto mc now) = timeline K now (map as_event (stream_run c K lib fuel depth s proto mc)).
Proof. exact player_is_timeline. Qed.

(* Pdur, full strength (repaired code).  For EVERY child stream: if some event of the child ends at or after dur
   (reaches K 0 dq child), then the deltas of the events Pdur(dur, child) yields sum to dur EXACTLY, and its events are
   the child's events before the cut, unchanged, followed by the cut event with delta := dur - elapsed; no event before
   the cut ends at or after dur; the cut event ends at or after dur, or within the tolerance (0.001, through bi.roundup)
   before it.  Induction over the child's run (dur_list); the stream of Pdur IS dur_list of the child's run. *)
Theorem pdur_total_duration : forall c K lib, fix_pdur_event c = true -> fix_pdur_int c = true ->
  forall fuel dep d s inev mc dq,
  let child := stream_run c K lib fuel dep s inev mc in
  let out := stream_run c K lib fuel (S dep) (SDur (F 0) d s) inev mc in
  val d dq -> deltas_ok K child -> reaches K 0 dq child ->
  qsum (map (delta_q K) out) == dq /\
  exists pre e0 post elk,
    child = pre ++ e0 :: post /\
    out = map as_event pre ++ [dur_clip K elk d (as_event e0)] /\
    val elk (qsum (map (cdelta K) pre)) /\
    (forall i, (i < List.length pre)%nat -> qsum (firstn (S i) (map (cdelta K) child)) < dq) /\
    (dq <= qsum (map (cdelta K) pre) + cdelta K e0 \/
     (dq - toQ tolerance < qsum (map (cdelta K) pre) + cdelta K e0 /\ qsum (map (cdelta K) pre) + cdelta K e0 < dq)).
Proof. exact pdur_total_duration_l. Qed.

(* ... and a child that ends without coming within the tolerance of dur is passed through unchanged *)
Theorem pdur_short_child : forall c K lib, fix_pdur_event c = true -> fix_pdur_int c = true ->
  forall fuel dep d s inev mc dq,
  let child := stream_run c K lib fuel dep s inev mc in
  val d dq -> deltas_ok K child ->
  (forall j, (j < List.length child)%nat -> qsum (firstn (S j) (map (cdelta K) child)) + toQ tolerance <= dq) ->
  stream_run c K lib fuel (S dep) (SDur (F 0) d s) inev mc = map as_event child.
Proof. exact pdur_short_child_l. Qed.

(* Pdur's other constructor arguments.  With the defaults (tolerance 0.001, quant None) the general loop is the Pdur of
   the theorems above; with quant given and a child that ends early at elapsed x (repaired code) the stream is padded with
   exactly one rest up to the NEXT multiple of quant at or after x -- none when x is on the grid -- so the total duration
   lies on the quant grid and is never shortened *)
Theorem pdurq_default : forall c K lib fuel dep el d s inev mc,
  stream_run c K lib fuel (S dep) (SDurQ el d tolerance None s) inev mc
  = stream_run c K lib fuel (S dep) (SDur el d s) inev mc.
Proof. exact pdurq_default_l. Qed.

Theorem pdurq_pad : forall c K lib, fix_pdur_pad c = true ->
  forall dep elapsed d tol q s inev mc o rt mc' x qq,
  snext c K lib dep s inev mc = (RStop o rt, mc') -> val elapsed x -> val q qq -> 0 < qq ->
  exists r, multiple_of r qq /\ x <= r /\ r < x + qq /\
    (x < r -> exists e, snext c K lib (S dep) (SDurQ elapsed d tol (Some q) s) inev mc = (RYield e (SDurEnd SDone) o, mc') /\
                        delta_q K e == r - x /\ is_rest e = true) /\
    (r == x -> snext c K lib (S dep) (SDurQ elapsed d tol (Some q) s) inev mc = (RStop o inev, mc')).
Proof. exact pdurq_pad_l. Qed.

(* player o Pdur: event k of Pdur(d, child) is played at start + the sum of the CHILD's own k preceding deltas, and,
   unless it is the last (cut) one, it is the child's k-th event *)
Theorem player_pdur_times : forall c K lib, fix_pdur_event c = true -> fix_pdur_int c = true ->
  forall fuel dep d s proto mc now,
  let child := stream_run c K lib fuel dep s proto mc in
  let out := dur_list K (F 0) d child in
  Forall (numeric_delta c K) (map as_event out) ->
  evs (player c K lib fuel (S dep) (SDur (F 0) d s) proto mc now) = timeline K now (map as_event out) /\
  forall k t e, nth_error (evs (player c K lib fuel (S dep) (SDur (F 0) d s) proto mc now)) k = Some (t, e) ->
    t == now + qsum (firstn k (map (cdelta K) child)) /\
    ((S k < List.length out)%nat -> exists e0, nth_error child k = Some e0 /\ e = as_event e0).
Proof. exact player_pdur_times_l. Qed.

(* Ppar, full strength.  Children: any stream states cs whose streams denote fixed event lists ls (denotes: the events
   do not depend on the Pmono node counter -- e.g. Pbind, see two_voices_denote), with numeric deltas >= 0; any input event (repaired
   code: the filling rests are not stretched a second time); fuel covers one step
   per event plus one per child.  Then the stream of Ppar is the list of the po_ev of a tagged run outs in which
   - restricted to child ch (of_child), the outputs are ch's own events (up to the delta Ppar rewrites), each at ch's own
     time 0 + the sum of ch's own preceding deltas (ctimeline) -- all of them, in order;
   - that time (po_time) IS the time of the output in Ppar's own output timeline (sum of the output deltas before it),
     and is the time component of the queue key popped for it;
   - the popped queue keys (time, sequence number) increase strictly: outputs are ordered by absolute time, and among
     equal times by queueing order (sequence numbers are C09's insertion counter; initially the child index).
     "Ties in child order" holds for the first events only: see tie_order_example;
   - the output deltas sum to the largest of the children's total durations.
   Induction over the run with an invariant on C09's sorted-list specification (sorted, insert_by_sorted,
   insert_by_perm, sorted_head_le of proofs/C09_order.v). *)
Theorem ppar_preserves_child_timelines : forall c K lib dep inev cs ls fuel mc,
  fix_ppar_rest c = true -> (0 < dep)%nat -> lists_ok K ls -> Forall2 (denotes c K lib dep inev) cs ls ->
  (mupto (List.length ls) ls <= fuel)%nat ->
  let out := stream_run c K lib fuel (S dep) (SPar false spec_init (F 0) cs) inev mc in
  exists outs,
    out = map po_ev outs /\
    (forall ch, (ch < List.length ls)%nat -> Forall2 own (of_child ch outs) (ctimeline K 0 (nth ch ls []))) /\
    (forall k o, nth_error outs k = Some o ->
       toQ (po_time o) == qsum (firstn k (map (delta_q K) out)) /\ toQ (po_time o) = fst (po_key o)) /\
    StronglySorted key_lt outs /\
    (ls <> [] -> is_max (qsum (map (delta_q K) out)) (map (total K) ls)).
Proof. exact ppar_preserves_child_timelines_l. Qed.

(* player o Ppar: the entries of the player's log that come from child ch (sel) are ch's events, the m-th one played at
   start + the sum of ch's own m preceding deltas *)
Theorem player_ppar_times : forall c K lib dep inev cs ls fuel mc now,
  fix_ppar_rest c = true -> (0 < dep)%nat -> lists_ok K ls -> Forall2 (denotes c K lib dep inev) cs ls ->
  (mupto (List.length ls) ls <= fuel)%nat ->
  let outs := par_run K inev fuel (par_init (List.length ls)) (F 0) ls in
  let log := evs (player c K lib fuel (S dep) (SPar false spec_init (F 0) cs) inev mc now) in
  forall ch, (ch < List.length ls)%nat ->
  Forall2 (played_own now) (sel ch log outs) (ctimeline K 0 (nth ch ls [])).
Proof. exact player_ppar_times_l. Qed.

(* ... every entry of that log being the corresponding output of the merge, at start + its merge time *)
Theorem player_ppar_log : forall c K lib dep inev cs ls fuel mc now,
  fix_ppar_rest c = true -> (0 < dep)%nat -> lists_ok K ls -> Forall2 (denotes c K lib dep inev) cs ls ->
  let outs := par_run K inev fuel (par_init (List.length ls)) (F 0) ls in
  stream_run c K lib fuel (S dep) (SPar false spec_init (F 0) cs) inev mc = map po_ev outs /\
  Forall2 (logged now) (evs (player c K lib fuel (S dep) (SPar false spec_init (F 0) cs) inev mc now)) outs.
Proof. exact player_ppar_log. Qed.

(* ---- a player controlled from another routine (player_c: stop at t, or pause at t1 and resume at t2) ---------------------
   without a controller it is the player loop; a stopped player has played a PREFIX of what it would have played, all of
   it strictly before the stop time; every event that was played keeps all its bundles (no /s_new of a gated instrument
   without its gate-off, no gate-off without its /s_new), whatever happens afterwards *)
Theorem player_without_controller : forall c K lib fuel depth s proto mc now,
  player_c c K lib fuel depth CNone s proto mc now = player c K lib fuel depth s proto mc now.
Proof. exact player_c_none_l. Qed.

Theorem player_stop_prefix : forall c K lib fuel depth t s proto mc now,
  (exists rest, evs (player c K lib fuel depth s proto mc now)
                = evs (player_c c K lib fuel depth (CStop t) s proto mc now) ++ rest) /\
  Forall (fun te => fst te < t) (evs (player_c c K lib fuel depth (CStop t) s proto mc now)).
Proof. exact player_stop_prefix_l. Qed.

Theorem played_events_keep_their_bundles : forall K lib lat k t e log, is_rest e = false ->
  sends_from K lib lat k (LEv t e :: log) = play_event K lib lat t k e ++ sends_from K lib lat (S k) log.
Proof. exact sends_complete_l. Qed.

(* ---- the embed protocol (sequential composition: Pseq of event patterns, Pn) -----------------------------------------------
   whenever a stream ends, the value its __embed__ returns -- the input event of whatever Pseq / Pn embeds next, inside the
   same pull -- is the event it was sent in that pull: no pattern (Pbind, Pmono, Pchain, Ppar, Pdelta, Pdur incl. its cut,
   Pseq, Pn, at any nesting) hands on one of its own outputs (repaired code; ret_wf: no state of the released Pdelta) *)
Theorem embed_returns_input : forall c K lib, fix_pchain_return c = true ->
  forall dep s inev mc o ret mc', ret_wf s -> snext c K lib dep s inev mc = (RStop o ret, mc') -> ret = inev.
Proof. exact embed_returns_input_l. Qed.

(* Pdelta(t, p) as a list (repaired code): one rest -- of length t (times the input event's stretch, none here) -- when
   t > 0, then exactly p's own events *)
Theorem pdelta_stream : forall c K lib, fix_pdelta_input c = true ->
  forall fuel dep t s inev mc,
  stream_run c K lib (S fuel) (S dep) (SDelta true t s) inev mc
  = if ngt (vnum t) (F 0) then silent t inev :: stream_run c K lib fuel dep s inev mc
    else stream_run c K lib (S fuel) dep s inev mc.
Proof. exact pdelta_stream_l. Qed.

Theorem pdelta_rest_delta : forall K t inev tq, get "stretch" inev = None -> val (vnum t) tq ->
  (exists n, t = VNum n) -> delta_q K (silent t inev) == tq /\ is_rest (silent t inev) = true.
Proof. exact pdelta_rest_delta_l. Qed.

(* the released Ppar (and SuperCollider's Ppar + Event.silent) stretched its filling rests twice when its input event
   carries a 'stretch' key: voice 0's second event, at its own time 2, was played at 3; repaired: at 2.  The Ppar theorems
   above hold for ANY input event of the repaired code (fix_ppar_rest). *)
Theorem ppar_stretched_input_refuted :
  voices (sends released_ppar K0 the_lib 0 20 6 stretch_witness stretch_proto 0) = [(0, 0%Z); (0, 1%Z); (3, 0%Z)] /\
  voices (sends patched K0 the_lib 0 20 6 stretch_witness stretch_proto 0) = [(0, 0%Z); (0, 1%Z); (2, 0%Z)].
Proof. exact ppar_stretched_input_refuted_l. Qed.

(* ---- the defects of the code as released (each is replayed on the library by harness/props/C14.py) ------------ *)
(* Pbind(dur = [Rest(1), 1]): nothing is ever played (the player yields a Rest object and is not re-scheduled) *)
Theorem rest_stops_player_refuted_unpatched :
  sends unpatched K0 the_lib 0 10 6 rest_witness legato_half 0 = [] /\
  map (fun b => Qred (fst b)) (sends patched K0 the_lib 0 10 6 rest_witness legato_half 0) = [1; 3 # 2].
Proof. exact rest_stops_player_refuted_unpatched_l. Qed.
(* Pdur(3/2, Pbind(dur = 1)) played with the default (dict) proto event: TypeError, nothing is played *)
Theorem pdur_plain_dict_refuted_unpatched :
  sends unpatched K0 the_lib 0 10 6 pdur_witness legato_half 0 = [] /\
  map (fun b => Qred (fst b)) (sends patched K0 the_lib 0 10 6 pdur_witness legato_half 0) = [0; 1 # 2; 1; 3 # 2].
Proof. exact pdur_plain_dict_refuted_unpatched_l. Qed.
(* Pdur(3/2, Pmono(delta = 1, 1)): int(0.5) = 0, the pattern lasts 1 instead of 3/2 (last time = release of the node) *)
Theorem pdur_int_delta_refuted_unpatched :
  map (fun b => Qred (fst b)) (sends unpatched K0 the_lib 0 10 6 int_delta_witness [] 0) = [0; 1; 1] /\
  map (fun b => Qred (fst b)) (sends patched K0 the_lib 0 10 6 int_delta_witness [] 0) = [0; 1; 3 # 2].
Proof. exact pdur_int_delta_refuted_unpatched_l. Qed.
(* an explicit scale key: every pitch computation raises (the Scale became an arrayed_param) *)
Theorem explicit_scale_key_refuted_unpatched :
  ev_call K0 [("degree"%string, VNum (I 2)); ("scale"%string, scale_key unpatched (scale_new unpatched minor_degrees (et_steps 12) 1))]
          "note" = VNum NErr /\
  ev_call K0 [("degree"%string, VNum (I 2)); ("scale"%string, scale_key patched (scale_new patched minor_degrees (et_steps 12) 1))]
          "note" = VNum (F (3 # 1)).
Proof. exact scale_key_refuted_unpatched_l. Qed.
(* Pchain(Pdelta(1/2, Pbind(dur = 1 ...)), Pbind(pan = 1, 2, 3, 4)): after its rest Pdelta embeds its pattern with the
   FIRST input event again: pan 1 is used twice and pan 2 is lost *)
Theorem pdelta_stale_input_refuted_unpatched :
  pans (sends unpatched K0 the_lib 0 10 6 pdelta_witness legato_half 0) = [1; 3; 4]%Z /\
  pans (sends patched K0 the_lib 0 10 6 pdelta_witness legato_half 0) = [2; 3; 4]%Z.
Proof. exact pdelta_stale_input_refuted_unpatched_l. Qed.
(* Pseq([Pchain(A, B), C]) with A shorter than B: when A ends Pchain returns B's last output, C's first event inherits
   its keys (2 control pairs instead of 1) *)
Theorem pchain_return_refuted_unpatched :
  npar (sends unpatched Ke the_lib 0 10 6 pchain_witness [("legato"%string, VNum (F (1 # 2)))] 0) = [2; 2; 1]%nat /\
  npar (sends patched Ke the_lib 0 10 6 pchain_witness [("legato"%string, VNum (F (1 # 2)))] 0) = [2; 1; 1]%nat.
Proof. exact pchain_return_refuted_unpatched_l. Qed.
(* Scale(degrees, Tuning(steps, 4.0)) forgets the octave ratio: 3 steps per octave instead of 6 *)
Theorem scale_tuning_refuted_unpatched :
  Qred (sc_spo (scale_new unpatched [0; 1; 2]%Z [0; 4; 8] 2)) = 3 /\ Qred (sc_spo (scale_new patched [0; 1; 2]%Z [0; 4; 8] 2)) = 6.
Proof. exact scale_tuning_refuted_unpatched_l. Qed.

(* ---- non-vacuity ------------------------------------------------------------------------------------------------ *)
Example chain_computes :
  ev_call K0 ex_event "note" = VNum (F (14 # 1)) /\ Qred (toQ (vnum (ev_call K0 ex_event "midinote"))) = 62 /\
  Qred (toQ (vnum (ev_call K0 ex_event "freq"))) = 62.
Proof. exact ex_event_chain. Qed.

Example pitch_chain_hypotheses_met :
  Proper (Qeq ==> Qeq) (k_midicps K0k) /\ pscale K0k ex_event_k = major /\ ~ sc_spo major == 0 /\
  val (pnum K0k ex_event_k "octave") 4 /\ val (pnum K0k ex_event_k "gtranspose") 0 /\
  get "degree" ex_event_k = Some (VNum (I 9)) /\ get "note" ex_event_k = None /\
  ok (nadd (vnum (VNum (I 9))) (pnum K0k ex_event_k "mtranspose")).
Proof. exact pitch_chain_hypotheses_met_l. Qed.

(* an endless Pbind of one-beat events under Pdur(3/2): the hypotheses hold, the deltas are 1 and 1/2 *)
Example pdur_hypotheses_met :
  let child := stream_run patched K1 [] 5 3 endless [] 0 in
  val (F (3 # 2)) (3 # 2) /\ deltas_ok K1 child /\ reaches K1 0 (3 # 2) child /\
  map (fun e => Qred (delta_q K1 e)) (stream_run patched K1 [] 5 4 (SDur (F 0) (F (3 # 2)) endless) [] 0) = [1; 1 # 2].
Proof. exact pdur_hypotheses_met_l. Qed.

Example ppar_two_voices :
  map (fun b => (Qred (fst b), voice b))
      (filter (fun b => match snd b with MNew _ _ _ _ _ => true | _ => false end)
              (sends patched K0 the_lib 0 20 6 two_voices [("legato"%string, VNum (F 1))] 0))
  = [(0, 0%Z); (0, 1%Z); (1 # 2, 1%Z); (1, 0%Z); (1, 1%Z); (2, 0%Z)].
Proof. exact ppar_example_l. Qed.

(* the hypotheses of the Ppar theorems are met by two Pbind voices; ties go to the entry queued first *)
Example ppar_hypotheses_met :
  Forall2 (denotes patched K0 the_lib 3 []) [SBind voiceA; SBind voiceB] two_lists /\ lists_ok K0 two_lists /\
  (mupto (List.length two_lists) two_lists <= 9)%nat.
Proof. exact ppar_hypotheses_met_l. Qed.

Example tie_order :
  map (fun o => (Qred (toQ (po_time o)), po_src o)) (par_run K0 [] 9 (par_init 2) (F 0) two_lists)
  = [(0, Some 0%nat); (0, Some 1%nat); (1 # 2, Some 0%nat); (1, Some 1%nat); (1, Some 0%nat); (2, None)].
Proof. exact tie_order_example. Qed.

Print Assumptions pitch_chain.
Print Assumptions note_play_commands.
Print Assumptions player_times.
Print Assumptions pdur_total_duration.
Print Assumptions ppar_preserves_child_timelines.
Print Assumptions player_ppar_times.
