(* C11 -- routines, conditions and flow variables obey their state machine.
   Property theorems only.  Model: coq/model/Routine.v (stream.py Routine.next/reset/pause/
   resume/stop/play + thread stack + NRT wake-ups) and coq/model/Cond.v (Condition, FlowVar).
   [patched] = stream.py with build/proposed_fixes/C11_reentrant_next.diff and
   C11_reset_terminal.diff; [unpatched] = the code as released (the ..._refuted_unpatched
   theorems are the witnesses that are replayed on the real library).
   "good w" = the invariant of proofs/C11_stack.v (every routine that is not Running is off the
   thread stack, terminal values only in Done, what bodies logged is consistent); it holds in
   every state reachable from init_world (thread_stack_restored). *)
From Coq Require Import ZArith List Bool.
Require Import SC3.model.Cond SC3.model.Routine SC3.model.RtWake.
Require Import SC3.proofs.C11_stack SC3.proofs.C11_machine SC3.proofs.C11_cond SC3.proofs.C11_final SC3.proofs.C11_rt SC3.proofs.C11_whole SC3.proofs.C11_fuel.
Import ListNotations.

(* the documented table: every operation in every state (x = the record of routine r) *)
Theorem routine_transitions : forall defs fuel r v w x, good w -> getr w r = Some x ->
  (st x = Paused -> next_ patched defs (S fuel) r v w = (w, Exc EPausedStream)) /\
  (st x = Done -> next_ patched defs (S fuel) r v w
                  = (w, match term x with None => Exc EStopStream | Some t => Ret t end)) /\
  (st x = Running -> next_ patched defs (S fuel) r v w = (w, Exc ERoutine)) /\
  (st x = Init \/ st x = Suspended -> nth_error defs r <> None ->
     exists x', getr (fst (next_ patched defs (S fuel) r v w)) r = Some x' /\
                out_rel (snd (next_ patched defs (S fuel) r v w)) x') /\
  (st x = Running -> do_stop r w = (w, Exc ERoutine)) /\
  (st x <> Running -> do_stop r w = (set_rt r (with_st Done (with_lastv VNone (with_iter None x))) w, Ret VNone)) /\
  (st x = Running -> do_reset patched r w = (w, Exc ERoutine)) /\
  (st x <> Running -> do_reset patched r w
                      = (set_rt r (with_term None (with_st Init (with_iter None x))) w, Ret VNone)) /\
  (st x = Running -> do_pause r w = (w, Exc ERoutine)) /\
  (st x = Init \/ st x = Suspended -> do_pause r w = (set_rt r (with_st Paused x) w, Ret VNone)) /\
  (st x = Paused \/ st x = Done -> do_pause r w = (w, Ret VNone)) /\
  (st x = Paused -> do_resume r w = sched_all [r] (set_rt r (with_st Suspended x) w)) /\
  (st x <> Paused -> do_resume r w = (w, Ret VNone)) /\
  (st x = Init \/ st x = Paused -> do_play r w = sched_all [r] (set_rt r (with_st Suspended x) w)) /\
  (st x <> Init -> st x <> Paused -> do_play r w = (w, Ret VNone)).
Proof. exact routine_transitions_l. Qed.

(* next() runs the body to its next yield and returns the yielded value (body prefix without calls) *)
Theorem next_runs_to_next_yield : forall call_next pre self pc w v rest,
  Forall (fun a => exists u, a = ALog u) pre ->
  exists w', exec patched call_next self Gen (pre ++ AYield v :: rest) pc w = (w', BYield v (S (pc + length pre)))
             /\ rts w' = rts w /\ cur w' = cur w.
Proof. exact exec_logs_then_yield. Qed.

(* exhaustion, failure or stop(): every later next() raises StopStream / returns the terminal
   value, whatever is done from outside or inside, until reset() *)
Theorem done_is_absorbing_until_reset : forall defs r t fuel ops w,
  (forall i d, nth_error defs i = Some d -> acts_allowed (not_reset r) (d_script d)) ->
  forallb (op_allowed (not_reset r)) ops = true ->
  holds r (P_done t) w ->
  holds r (P_done t) (fst (run patched defs fuel ops w)) /\
  Forall (fun p => holds r (P_done t) (snd p)) (snd (run patched defs fuel ops w)) /\
  forall fuel' v, next_ patched defs (S fuel') r v (fst (run patched defs fuel ops w))
                  = (fst (run patched defs fuel ops w), match t with None => Exc EStopStream | Some u => Ret u end).
Proof. exact done_absorbing_l. Qed.

Theorem raised_next_then_stopstream : forall defs fuel fuel' r v v' w x e,
  good w -> getr w r = Some x -> st x <> Running -> nth_error defs r <> None ->
  snd (next_ patched defs (S fuel) r v w) = Exc e -> e <> EPausedStream ->
  snd (next_ patched defs (S fuel') r v' (fst (next_ patched defs (S fuel) r v w))) = Exc EStopStream.
Proof. exact raised_then_stopstream_l. Qed.

Theorem paused_until_resume : forall defs r fuel ops w,
  (forall i d, nth_error defs i = Some d -> acts_allowed (not_unpause r) (d_script d)) ->
  forallb (op_allowed (not_unpause r)) ops = true ->
  holds r P_paused w ->
  holds r P_paused (fst (run patched defs fuel ops w)) /\
  Forall (fun p => holds r P_paused (snd p)) (snd (run patched defs fuel ops w)) /\
  forall fuel' v, next_ patched defs (S fuel') r v (fst (run patched defs fuel ops w))
                  = (fst (run patched defs fuel ops w), Exc EPausedStream).
Proof. exact paused_until_resume_l. Qed.

(* from inside itself (or from a routine it called): refused, nothing changes *)
Theorem self_stop_pause_reset_refused : forall defs fuel r v w x, getr w r = Some x -> st x = Running ->
  do_stop r w = (w, Exc ERoutine) /\ do_pause r w = (w, Exc ERoutine) /\
  do_reset patched r w = (w, Exc ERoutine) /\ next_ patched defs (S fuel) r v w = (w, Exc ERoutine).
Proof. exact self_refused_l. Qed.

(* ... and a body IS Running and current whenever it executes: in every program and history, every
   log entry a body wrote shows current_tt is self, state Running, and a refusal for each own
   stop/pause/reset/next *)
Theorem bodies_always_running_and_refused : forall defs cs fuel ops,
  Forall logok (log (fst (run patched defs fuel ops (init_world defs cs)))).
Proof. exact bodies_see_refusal_l. Qed.

(* after ANY top-level operation of ANY history of ANY program: current_tt is main_tt, no routine
   is Running or still has a parent, (and the main logical time only moves with scheduler ticks) *)
Theorem thread_stack_restored : forall defs cs fuel ops,
  restored (fst (run patched defs fuel ops (init_world defs cs))) /\
  Forall (fun p => restored (snd p)) (snd (run patched defs fuel ops (init_world defs cs))).
Proof. exact thread_stack_restored_l. Qed.

Theorem thread_stack_restored_step : forall defs fuel op w, quiescent w ->
  quiescent (fst (top patched defs fuel op w)) /\
  (op <> OTick -> main_secs (fst (top patched defs fuel op w)) = main_secs w).
Proof. exact thread_stack_restored_step_l. Qed.

(* the same nested-call induction, for nested next() at any depth *)
Theorem nested_next_restores_caller : forall defs fuel, CN (next_ patched defs fuel).
Proof. exact next_ok. Qed.

(* nested next() terminates: with more fuel than routines (indeed: than routines that are not running) the
   result of next() - world and outcome - does not depend on the fuel, for every program, argument and state
   satisfying the invariant; so the model's stand-in for over-deep recursion (fuel exhaustion, ERecursion) is
   unreachable under that bound, and whole histories do not depend on the fuel either.  (Every nested call
   enters a routine that was not running and a running routine refuses re-entry, so the nesting depth is
   bounded by the number of routines.) *)
Theorem nested_next_terminates_fuel_independent :
  (forall defs f1 f2 r v w, good w -> (length (rts w) < f1)%nat -> (length (rts w) < f2)%nat ->
     next_ patched defs f1 r v w = next_ patched defs f2 r v w) /\
  (forall defs n f1 f2, (n <= f1)%nat -> (n <= f2)%nat -> agree n (next_ patched defs f1) (next_ patched defs f2)) /\
  (forall defs f1 f2 ops w, quiescent w -> (length (rts w) < f1)%nat -> (length (rts w) < f2)%nat ->
     run patched defs f1 ops w = run patched defs f2 ops w).
Proof. exact (conj next_fuel_independent_l (conj next_fuel_agree run_fuel_independent_l)). Qed.

(* the bound is sharp enough to matter: four routines nested (0 -> 1 -> 2 -> 3) run identically with fuel 5
   and fuel 50, while fuel 3 is too little (routine 2 gets the stand-in RecursionError for its nested call) *)
Example fuel_bound_example :
  let defs := [mkDef Gen false [ARelay 1 VNone]; mkDef Gen false [ARelay 2 VNone];
               mkDef Gen false [ARelay 3 VNone]; mkDef Gen false [AYield (VInt 7)]] in
  map fst (snd (run patched defs 5 [OCall (CNext 0 VNone)] (init_world defs []))) = [Ret (VInt 7)] /\
  run patched defs 5 [OCall (CNext 0 VNone)] (init_world defs []) = run patched defs 50 [OCall (CNext 0 VNone)] (init_world defs []) /\
  map fst (snd (run patched defs 3 [OCall (CNext 0 VNone)] (init_world defs []))) = [Exc ERecursion].
Proof. vm_compute. repeat split. Qed.

(* F12: on the code as released a routine calling its own next() leaves main.current_tt = None,
   and afterwards can stop itself from inside; a stale terminal value survives reset() *)
Theorem thread_stack_restored_refuted_unpatched :
  exists defs ops, cur (fst (run unpatched defs 10 ops (init_world defs []))) <> Some Main.
Proof. exact thread_stack_restored_refuted_unpatched_l. Qed.

Theorem self_stop_refused_refuted_unpatched :
  exists defs ops, In (0%nat, EvCall (CStop 0) (Ret VNone)) (log (fst (run unpatched defs 10 ops (init_world defs [])))).
Proof. exact self_refused_refuted_unpatched_l. Qed.

Theorem raised_next_then_stopstream_refuted_unpatched :
  map fst (snd (run unpatched stale_defs 10 stale_ops (init_world stale_defs [])))
  = [Ret (VInt 5); Ret VNone; Exc ERuntime; Ret (VInt 5)].
Proof. exact raised_then_stopstream_refuted_unpatched_l. Qed.

(* ---- Condition / FlowVar -------------------------------------------------------------------------
   Whole-run statements (every program, every history of operations applied from outside and from
   inside bodies, nested next at any depth, any fuel; proofs/C11_whole.v: one frame induction over
   fuel and scripts for predicates on cells and queue), followed by the statements about the cell
   machine of model/Cond.v for ALL sequences of cell operations (the interpreter delegates to it). *)

(* never before: while the test of cell c is false (a FlowVar: unbound) and nobody calls unhang / test= /
   value= on c - signal() may be called any number of times, everything else is allowed, from anywhere -
   the routines L waiting on c are still waiting on it, in order, after every operation: c hands none of
   them to the scheduler *)
Theorem cond_never_before : forall defs c L fuel ops w,
  (forall i d, nth_error defs i = Some d -> acts_allowed (no_release c) (d_script d)) ->
  forallb (op_allowed (no_release c)) ops = true ->
  cell_holds c (still_waiting L) w ->
  cell_holds c (still_waiting L) (fst (run patched defs fuel ops w)) /\
  Forall (fun p => cell_holds c (still_waiting L) (snd p)) (snd (run patched defs fuel ops w)).
Proof. exact never_before_whole_run_l. Qed.

(* exactly once, in invariant form: (1) in every reachable state the scheduler holds at most ONE pending
   wake-up per routine; (2) a signal whose test holds / an unhang empties the waiting list and leaves every
   waiter with exactly one pending wake-up (also if it already had one) and the others with what they had;
   (3) a scheduler tick removes the head wake-up and makes exactly one next() call, on its routine, and by (1)
   that was this routine's only pending wake-up.  (Not stated as a count over a trace; that a pending
   wake-up reaches the head needs enough ticks and is not part of the statement.) *)
Theorem cond_resume_exactly_once_after_signal :
  (forall defs cs fuel ops,
     one_pending (queue (fst (run patched defs fuel ops (init_world defs cs)))) /\
     Forall (fun p => one_pending (queue (snd p))) (snd (run patched defs fuel ops (init_world defs cs)))) /\
  (forall c w x t, nth_error (cells w) c = Some x -> cell_err x = None -> cell_test x = true -> cur_secs w = Some t ->
     snd (do_signal c w) = Ret VNone /\
     nth_error (cells (fst (do_signal c w))) c = Some (mkCell (ckind_of x) []) /\
     queue (fst (do_signal c w)) = enqueue_all t (waiting x) (queue w) /\
     (forall r, In r (waiting x) -> pend (queue (fst (do_signal c w))) r = 1%nat) /\
     (forall r, ~ In r (waiting x) -> pend (queue (fst (do_signal c w))) r = pend (queue w) r)) /\
  (forall c w x t, nth_error (cells w) c = Some x -> cur_secs w = Some t ->
     snd (do_unhang c w) = Ret VNone /\
     nth_error (cells (fst (do_unhang c w))) c = Some (mkCell (ckind_of x) []) /\
     queue (fst (do_unhang c w)) = enqueue_all t (waiting x) (queue w)) /\
  (forall defs fuel w t r q, queue w = (t, r) :: q ->
     top patched defs fuel OTick w =
       (let '(w2, o) := next_ patched defs fuel r VAwake (set_main_secs t (set_queue q w)) in
        match o with
        | Ret (VInt d) => (set_queue (enqueue (t + d) r (queue w2)) w2, o)
        | Ret (VFloat d) => (set_queue (enqueue (t + d) r (queue w2)) w2, o)
        | _ => (w2, o)
        end) /\
     (one_pending (queue w) -> pend q r = 0%nat)).
Proof. exact (conj queue_one_pending_run (conj signal_hands_over_l (conj unhang_hands_over_l tick_once_l))). Qed.

(* a FlowVar bound to v (any value: 0, None, False, '', [] included) stays bound to v after every operation
   of every history of every program, and every further assignment raises and changes nothing; an unbound one
   is bound by the assignment, which hands over all waiters *)
Theorem flowvar_single_assignment :
  (forall defs c v fuel ops w, cell_holds c (bound_to v) w ->
     cell_holds c (bound_to v) (fst (run patched defs fuel ops w)) /\
     Forall (fun p => cell_holds c (bound_to v) (snd p)) (snd (run patched defs fuel ops w)) /\
     forall v', do_flowset c v' (fst (run patched defs fuel ops w)) = (fst (run patched defs fuel ops w), Exc EException)) /\
  (forall c v w x t, nth_error (cells w) c = Some x -> ckind_of x = CFlow None -> cur_secs w = Some t ->
     snd (do_flowset c v w) = Ret VNone /\
     nth_error (cells (fst (do_flowset c v w))) c = Some (mkCell (CFlow (Some v)) []) /\
     queue (fst (do_flowset c v w)) = enqueue_all t (waiting x) (queue w)).
Proof. exact (conj flowvar_whole_run_l flowset_binds_l). Qed.

(* the hypotheses are met by real runs: routine 0 hangs on condition 0 (test false); signals, a second routine
   and ticks do not release it.  FlowVar 1 is bound to 0 (a falsy value) and stays bound. *)
Example whole_run_hypotheses_met :
  let defs := [mkDef Gen false [AWait 0; AYield (VStr 0)];
               mkDef Gen false [ACall (CSignal 0) true; ACall (CFlowSet 1 (VInt 5)) true; AYield (VInt 0)]] in
  let w := fst (run patched defs 10 [OCall (CFlowSet 1 (VInt 0)); OCall (CPlay 0); OTick] (init_world defs [CCond false; CFlow None])) in
  cell_holds 0 (still_waiting [0%nat]) w /\ cell_holds 1 (bound_to (VInt 0)) w /\
  forallb (op_allowed (no_release 0)) [OCall (CSignal 0); OCall (CPlay 1); OTick; OTick; OCall (CNext 1 VNone)] = true /\
  (forall i d, nth_error defs i = Some d -> acts_allowed (no_release 0) (d_script d)).
Proof.
  vm_compute. split; [eexists; split; [reflexivity | split; [reflexivity | split; [reflexivity | exists []; reflexivity]]] |].
  split; [eexists; split; reflexivity |]. split; [reflexivity |].
  intros [| [| i]] d E; simpl in E; inversion E; subst; intros k catch I; simpl in I;
    repeat (destruct I as [I | I]; [inversion I; subst; reflexivity |]); try contradiction.
  destruct i; discriminate.
Qed.

(* ---- the cell machine of model/Cond.v, all sequences of cell operations ------------------------ *)
Theorem cell_machine_wakeup_conservation :
  (forall (ops : list cop) (c : cell) (r : nat),
     (count_occ Nat.eq_dec (snd (crun ops c)) r + count_occ Nat.eq_dec (waiting (fst (crun ops c))) r
      = count_occ Nat.eq_dec (waiting c) r + hung_waits r ops c)%nat) /\
  (forall c : cell, cell_test c = true ->
     snd (cstep CoSignal c) = waiting c /\ waiting (fst (cstep CoSignal c)) = [] /\
     snd (cstep CoSignal (fst (cstep CoSignal c))) = []).
Proof. exact (conj crun_conservation signal_exactly_once). Qed.

Theorem cell_machine_never_before :
  (forall (o : cop) (c : cell) (r : nat), In r (snd (cstep o c)) ->
     In r (waiting c) /\
     (o = CoUnhang \/ (cell_test (fst (cstep o c)) = true /\ (o = CoSignal \/ exists v, o = CoFlowSet v)))) /\
  (forall (ops : list cop) (c : cell), cell_test c = false -> forallb quiet ops = true -> snd (crun ops c) = []).
Proof. exact (conj wake_only_when_holds never_before). Qed.

Theorem cell_machine_flowvar_single_assignment :
  (forall (ops : list cop) (c : cell) (v : val),
     ckind_of c = CFlow (Some v) -> ckind_of (fst (crun ops c)) = CFlow (Some v)) /\
  (forall (c : cell) (v v' : val),
     (ckind_of c = CFlow (Some v) -> cell_flowset v' c = None) /\
     (ckind_of c = CFlow None ->
        exists c' ws, cell_flowset v' c = Some (c', ws) /\ ckind_of c' = CFlow (Some v') /\
                      ws = waiting c /\ waiting c' = [])).
Proof. exact (conj flow_bound_run flow_single_assignment). Qed.

Theorem signal_hands_over_to_scheduler : forall c w x t, nth_error (cells w) c = Some x -> cell_err x = None -> cur_secs w = Some t ->
  (cell_test x = true ->
     fst (do_signal c w) = set_queue (enqueue_all t (waiting x) (queue w)) (set_cell c (mkCell (ckind_of x) []) w)
     \/ (waiting x = [] /\ fst (do_signal c w) = set_cell c (mkCell (ckind_of x) []) w)) /\
  (cell_test x = false -> fst (do_signal c w) = set_cell c x w /\ queue (fst (do_signal c w)) = queue w).
Proof. exact do_signal_spec. Qed.

(* the NRT scheduler keeps ONE pending wake-up per routine (clock.py ClockScheduler.add replaces the
   previous entry): after sched r has exactly one, the others keep theirs; every routine handed over
   by a signal / unhang / binding has exactly one pending wake-up afterwards, also when it already
   had one (pause(); resume(), play) - so it resumes once, not twice; pops keep the invariant *)
Theorem one_pending_wakeup_per_routine :
  (forall t r q r', pend (enqueue t r q) r' = if Nat.eqb r r' then 1%nat else pend q r') /\
  (forall t rs q r, In r rs -> pend (enqueue_all t rs q) r = 1%nat) /\
  (forall t rs q r, ~ In r rs -> pend (enqueue_all t rs q) r = pend q r) /\
  (forall t rs q, one_pending q -> one_pending (enqueue_all t rs q)) /\
  (forall p q, one_pending (p :: q) -> one_pending q).
Proof.
  exact (conj pend_enqueue (conj enqueue_all_woken (conj enqueue_all_keeps
          (conj one_pending_enqueue_all one_pending_pop)))).
Qed.

(* Condition.wait / FlowVar.value register current_tt.thread_player: the OUTERMOST routine on the parent
   chain of the waiting routine (p is t or an ancestor of t, and p's own parent is not a routine), i.e.
   the routine that plays on the clock however deeply the waiting routine is nested below it.
   (Not proved: that the walk never runs out of fuel S (length rts), i.e. parent chains are acyclic.) *)
Theorem wait_registers_thread_player : forall c w x t p,
  nth_error (cells w) c = Some x -> cur w = Some (R t) -> cell_err x = None -> cell_test x = false ->
  tplayer (S (length (rts w))) w t = Some p ->
  fst (fst (do_wait c w)) = set_cell c (mkCell (ckind_of x) (waiting x ++ [p])) w /\
  snd (fst (do_wait c w)) = Some VHang /\
  anc w p t /\ (forall y q, nth_error (rts w) p = Some y -> parent y <> Some (R q)).
Proof. exact wait_registers_thread_player_l. Qed.

(* played routine 0 -> relay 1 -> relay 2 -> waiting routine 3: routine 0 is registered and resumed once *)
Example nested_wait_registers_played_routine :
  let r := run patched chain_defs 10 [OCall (CPlay 0); OTick; OCall (CUnhang 0); OTick; OTick]
               (init_world chain_defs [CCond false]) in
  map (fun p => (fst p, map waiting (cells (snd p)), queue (snd p))) (snd r)
  = [(Ret VNone, [[]], [(0%Z, 0%nat)]); (Ret VHang, [[0%nat]], []); (Ret VNone, [[]], [(0%Z, 0%nat)]);
     (Ret (VStr 0), [[]], []); (Ret VNone, [[]], [])].
Proof. exact chain_example_l. Qed.

(* ---- real-time wake-ups (model/RtWake.v: the loop body of SystemClock._run / TempoClock._run /
   Scheduler._wakeup with main._in_awake_call).  Whatever the woken routine does - yields, ends,
   raises, YieldAndReset, AlwaysYield, nested routines, for every program, fuel and state - the flag
   is cleared, so the main thread's logical time read at physical time p is p again, and the thread
   stack is the caller's.  Tie: the clause that holds the clearing assignment in the three loops is
   read from the source (ast) by harness/props/C11.py; the behaviour is observed on the real clock
   threads by harness/impl/c11_rt.py. *)
Theorem awake_flag_cleared_on_every_exit : forall cfg defs fuel t r s,
  in_awake (fst (rt_wakeup Finally cfg defs fuel t r s)) = false.
Proof. exact flag_cleared_l. Qed.

Theorem main_logical_time_follows_after_wakeup : forall cfg defs fuel t r s p,
  snd (main_seconds_at p (fst (rt_wakeup Finally cfg defs fuel t r s))) = p.
Proof. exact main_time_follows_l. Qed.

Theorem rt_wakeup_restores_thread_stack : forall cl defs fuel t r s, quiescent (lib s) ->
  quiescent (lib (fst (rt_wakeup cl patched defs fuel t r s))).
Proof. exact rt_wakeup_quiescent_l. Qed.

(* the clearing assignment in an else clause: a routine that ends leaves the flag set and the main
   logical time frozen at the wake-up time 7 when read at physical time 100 *)
Theorem awake_flag_else_clause_refuted :
  let defs := [mkDef Gen false []] in
  let s := fst (rt_wakeup Else patched defs 5 7 0 (mkRtw false (init_world defs []))) in
  in_awake s = true /\ snd (main_seconds_at 100 s) = 7%Z /\
  snd (main_seconds_at 100 (fst (rt_wakeup Finally patched defs 5 7 0 (mkRtw false (init_world defs []))))) = 100%Z.
Proof. exact else_clause_refuted_l. Qed.

(* ---- non-vacuity: the hypotheses are met and the model computes --------------------------- *)
(* the two witness histories on the repaired model: stack restored, StopStream after the failure *)
Example witnesses_on_patched_model :
  cur (fst (run patched reentrant_def 10 [OCall (CNext 0 VNone)] (init_world reentrant_def []))) = Some Main /\
  map fst (snd (run patched stale_defs 10 stale_ops (init_world stale_defs [])))
  = [Ret (VInt 5); Ret VNone; Exc ERuntime; Exc EStopStream].
Proof. exact same_histories_patched_l. Qed.

(* a routine played on the clock waits on a condition, is signalled once the test holds, resumes once *)
Example cond_program_runs :
  let defs := [mkDef Gen false [AWait 0; ALog (VStr 1); AYield (VStr 2)]] in
  map fst (snd (run patched defs 10
     [OCall (CPlay 0); OTick; OCall (CSignal 0); OTick; OCall (CSetTest 0 (TBool true)); OCall (CSignal 0);
      OCall (CSignal 0); OTick; OTick]
     (init_world defs [CCond false])))
  = [Ret VNone; Ret VHang; Ret VNone; Ret VNone; Ret VNone; Ret VNone; Ret VNone; Ret (VStr 2); Ret VNone].
Proof. vm_compute. reflexivity. Qed.

(* pause(); resume() while the first wake-up is still queued: ONE pending wake-up, the routine
   resumes once per yield (times 0, 1, 2), not on two interleaved schedules *)
Example resume_replaces_pending_wakeup :
  let defs := [mkDef Gen false [AYield (VInt 1); AYield (VInt 1); AYield (VStr 0)]] in
  let r := run patched defs 10 [OCall (CPlay 0); OCall (CPause 0); OCall (CResume 0); OTick; OTick; OTick; OTick]
               (init_world defs []) in
  map (fun p => (fst p, main_secs (snd p), queue (snd p))) (snd r)
  = [(Ret VNone, 0%Z, [(0%Z, 0%nat)]); (Ret VNone, 0%Z, [(0%Z, 0%nat)]); (Ret VNone, 0%Z, [(0%Z, 0%nat)]);
     (Ret (VInt 1), 0%Z, [(1%Z, 0%nat)]); (Ret (VInt 1), 1%Z, [(2%Z, 0%nat)]); (Ret (VStr 0), 2%Z, []);
     (Ret VNone, 2%Z, [])].
Proof. vm_compute. reflexivity. Qed.

(* done_is_absorbing_until_reset / paused_until_resume: hypotheses satisfiable *)
Example absorbing_hypotheses_met :
  let defs := [mkDef Gen false [AYield (VInt 1)]; mkDef Gen false [ACall (CStop 0) true; ACall (CNext 0 VNone) true]] in
  let w := fst (run patched defs 10 [OCall (CNext 0 VNone); OCall (CNext 0 VNone)] (init_world defs [])) in
  holds 0 (P_done None) w /\
  forallb (op_allowed (not_reset 0)) [OCall (CNext 1 VNone); OCall (CPause 0); OCall (CPlay 0); OTick] = true.
Proof. vm_compute. split; [| reflexivity]. eexists. split; [reflexivity | split; reflexivity]. Qed.

Print Assumptions thread_stack_restored.
Print Assumptions done_is_absorbing_until_reset.
Print Assumptions cell_machine_wakeup_conservation.
Print Assumptions cond_resume_exactly_once_after_signal.
Print Assumptions cond_never_before.
Print Assumptions flowvar_single_assignment.
Print Assumptions nested_next_terminates_fuel_independent.
Print Assumptions one_pending_wakeup_per_routine.
Print Assumptions rt_wakeup_restores_thread_stack.
