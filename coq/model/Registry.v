(* C18 (d) -- the callback registries: sc3/base/systemactions.py (SystemAction and its
   subclasses CmdPeriod / StartUp / ShutDown; ServerAction and ServerBoot / ServerQuit /
   ServerTree) and sc3/base/model.py (NotificationCenter).

   All three keep Python dicts, i.e. insertion-ordered association lists: assigning to an
   existing key keeps its position and replaces the value, deleting forgets the position.
   Actions and listeners are opaque identities (nat); the arguments stored with an action
   are an opaque payload (nat).  Executable definitions only. *)
From Coq Require Import List Bool Arith.
Import ListNotations.

Definition reg := list (nat * nat).                       (* key -> payload, insertion-ordered *)

Fixpoint reg_mem (k : nat) (r : reg) : bool :=
  match r with [] => false | (k', _) :: t => Nat.eqb k k' || reg_mem k t end.
Fixpoint reg_get (k : nat) (r : reg) : option nat :=
  match r with [] => None | (k', v) :: t => if Nat.eqb k k' then Some v else reg_get k t end.
(* d[k] = v *)
Fixpoint reg_set (k v : nat) (r : reg) : reg :=
  match r with
  | [] => [(k, v)]
  | (k', v') :: t => if Nat.eqb k k' then (k, v) :: t else (k', v') :: reg_set k v t
  end.
(* del d[k] (no effect when absent) *)
Fixpoint reg_del (k : nat) (r : reg) : reg :=
  match r with [] => [] | (k', v') :: t => if Nat.eqb k k' then t else (k', v') :: reg_del k t end.
Definition reg_keys (r : reg) : list nat := map fst r.

(* ---- SystemAction ------------------------------------------------------------------------- *)
Definition sa_add (a args : nat) (r : reg) : reg := reg_set a args r.
Definition sa_remove (a : nat) (r : reg) : reg := reg_del a r.
Definition sa_remove_all (r : reg) : reg := [].
(* run: for action in cls._actions.copy(): cls._do_action(action), which calls the action only
   if it is still registered, with the arguments registered NOW.  `removes a` = the actions a
   unregisters when it is called (CmdPeriod.do_once removes itself; a responder's
   __on_cmd_period removes itself through free()). *)
Fixpoint sa_run_from (removes : nat -> list nat) (snapshot : list nat) (r : reg) : reg * list (nat * nat) :=
  match snapshot with
  | [] => (r, [])
  | a :: t =>
    match reg_get a r with
    | Some args =>
      let r' := fold_left (fun acc k => reg_del k acc) (removes a) r in
      let '(r'', log) := sa_run_from removes t r' in (r'', (a, args) :: log)
    | None => sa_run_from removes t r
    end
  end.
Definition sa_run (removes : nat -> list nat) (r : reg) : reg * list (nat * nat) :=
  sa_run_from removes (reg_keys r) r.

(* ---- ServerAction ------------------------------------------------------------------------------ *)
Inductive skey := KServer (n : nat) | KDefault | KAll.      (* a Server object, 'default', 'all' *)
Definition skey_eqb (a b : skey) : bool :=
  match a, b with
  | KServer x, KServer y => Nat.eqb x y | KDefault, KDefault => true | KAll, KAll => true | _, _ => false
  end.
Definition sreg := list (skey * reg).

Fixpoint sv_get (s : skey) (t : sreg) : option reg :=
  match t with [] => None | (s', r) :: u => if skey_eqb s s' then Some r else sv_get s u end.
Fixpoint sv_put (s : skey) (f : reg -> reg) (t : sreg) : sreg :=
  match t with
  | [] => [(s, f [])]
  | (s', r) :: u => if skey_eqb s s' then (s', f r) :: u else (s', r) :: sv_put s f u
  end.
Definition sv_add (s : skey) (a args : nat) (t : sreg) : sreg := sv_put s (reg_set a args) t.
(* repaired (C18_serveraction_remove.diff): pop the action *)
Definition sv_remove (s : skey) (a : nat) (t : sreg) : sreg :=
  match sv_get s t with Some _ => sv_put s (reg_del a) t | None => t end.
(* as found: `cls._servers[server].get(action, None)  # discard` -- looks the action up and
   throws the result away *)
Definition sv_remove_orig (s : skey) (a : nat) (t : sreg) : sreg := t.
Fixpoint sv_remove_server (s : skey) (t : sreg) : sreg :=
  match t with [] => [] | (s', r) :: u => if skey_eqb s s' then u else (s', r) :: sv_remove_server s u end.
(* run(server): the server's actions, then 'default' if it is the default server, then 'all' *)
Definition sv_run (server : nat) (is_default : bool) (t : sreg) : list (nat * nat) :=
  (match sv_get (KServer server) t with Some r => r | None => [] end) ++
  (if is_default then match sv_get KDefault t with Some r => r | None => [] end else []) ++
  (match sv_get KAll t with Some r => r | None => [] end).

(* ---- NotificationCenter --------------------------------------------------------------------------- *)
(* _registrations[obj][msg][listener] = action: three nested dicts.  Deleting the last listener of a
   message (or the last message of an object) leaves an empty dict behind, which matters for the
   KeyError of a later unregister. *)
Fixpoint al_get {V : Type} (k : nat) (t : list (nat * V)) : option V :=
  match t with [] => None | (k', v) :: u => if Nat.eqb k k' then Some v else al_get k u end.
Fixpoint al_put {V : Type} (k : nat) (f : option V -> V) (t : list (nat * V)) : list (nat * V) :=
  match t with
  | [] => [(k, f None)]
  | (k', v) :: u => if Nat.eqb k k' then (k', f (Some v)) :: u else (k', v) :: al_put k f u
  end.
Fixpoint al_del {V : Type} (k : nat) (t : list (nat * V)) : list (nat * V) :=
  match t with [] => [] | (k', v) :: u => if Nat.eqb k k' then u else (k', v) :: al_del k u end.
Definition odflt {V : Type} (d : V) (o : option V) : V := match o with Some v => v | None => d end.

Definition nreg := list (nat * list (nat * reg)).
Definition nc_get (obj msg : nat) (t : nreg) : option reg :=
  match al_get obj t with Some v => al_get msg v | None => None end.
Definition nc_register (obj msg listener action : nat) (t : nreg) : nreg :=
  al_put obj (fun ov => al_put msg (fun orr => reg_set listener action (odflt [] orr)) (odflt [] ov)) t.
(* unregister(obj, msg, listener) / unregister(obj, msg) / unregister(obj): None = KeyError *)
Definition nc_unregister (obj msg listener : nat) (t : nreg) : option nreg :=
  match al_get obj t with
  | None => None
  | Some v =>
    match al_get msg v with
    | None => None
    | Some r => if reg_mem listener r
                then Some (al_put obj (fun _ => al_put msg (fun _ => reg_del listener r) v) t)
                else None
    end
  end.
Definition nc_unregister_msg (obj msg : nat) (t : nreg) : option nreg :=
  match al_get obj t with
  | None => None
  | Some v => match al_get msg v with
              | None => None
              | Some _ => Some (al_put obj (fun _ => al_del msg v) t)
              end
  end.
Definition nc_unregister_obj (obj : nat) (t : nreg) : option nreg :=
  match al_get obj t with None => None | Some _ => Some (al_del obj t) end.
(* notify(obj, msg): every (listener, action) registered for (obj, msg), over a copy *)
Definition nc_notify (obj msg : nat) (t : nreg) : list (nat * nat) := odflt [] (nc_get obj msg t).

(* ---- histories (what the correspondence drives) ---------------------------------------------------------- *)
Inductive rop :=
| SaAdd (a args : nat) | SaRemove (a : nat) | SaRemoveAll | SaRun
| SvAdd (s : skey) (a args : nat) | SvRemove (s : skey) (a : nat) | SvRemoveServer (s : skey)
| SvRun (server : nat) (is_default : bool)
| NcRegister (obj msg listener action : nat) | NcUnregister (obj msg listener : nat) | NcNotify (obj msg : nat)
| NcUnregisterMsg (obj msg : nat) | NcUnregisterObj (obj : nat).

Record rstate := { st_sa : reg; st_sv : sreg; st_nc : nreg }.
Definition rinit : rstate := {| st_sa := []; st_sv := []; st_nc := [] |}.

(* output of one operation: the calls made, as (who, payload); [(0,0)] flags a KeyError *)
Definition rstep (removes : nat -> list nat) (st : rstate) (o : rop) : rstate * list (nat * nat) :=
  match o with
  | SaAdd a x => ({| st_sa := sa_add a x (st_sa st); st_sv := st_sv st; st_nc := st_nc st |}, [])
  | SaRemove a => ({| st_sa := sa_remove a (st_sa st); st_sv := st_sv st; st_nc := st_nc st |}, [])
  | SaRemoveAll => ({| st_sa := []; st_sv := st_sv st; st_nc := st_nc st |}, [])
  | SaRun => let '(r, log) := sa_run removes (st_sa st) in
             ({| st_sa := r; st_sv := st_sv st; st_nc := st_nc st |}, log)
  | SvAdd s a x => ({| st_sa := st_sa st; st_sv := sv_add s a x (st_sv st); st_nc := st_nc st |}, [])
  | SvRemove s a => ({| st_sa := st_sa st; st_sv := sv_remove s a (st_sv st); st_nc := st_nc st |}, [])
  | SvRemoveServer s => ({| st_sa := st_sa st; st_sv := sv_remove_server s (st_sv st); st_nc := st_nc st |}, [])
  | SvRun n d => (st, sv_run n d (st_sv st))
  | NcRegister o m l a => ({| st_sa := st_sa st; st_sv := st_sv st; st_nc := nc_register o m l a (st_nc st) |}, [])
  | NcUnregister o m l =>
    match nc_unregister o m l (st_nc st) with
    | Some t => ({| st_sa := st_sa st; st_sv := st_sv st; st_nc := t |}, [])
    | None => (st, [(0, 0)])
    end
  | NcNotify o m => (st, nc_notify o m (st_nc st))
  | NcUnregisterMsg o m =>
    match nc_unregister_msg o m (st_nc st) with
    | Some t => ({| st_sa := st_sa st; st_sv := st_sv st; st_nc := t |}, [])
    | None => (st, [(0, 0)])
    end
  | NcUnregisterObj o =>
    match nc_unregister_obj o (st_nc st) with
    | Some t => ({| st_sa := st_sa st; st_sv := st_sv st; st_nc := t |}, [])
    | None => (st, [(0, 0)])
    end
  end.

Fixpoint rrun (removes : nat -> list nat) (st : rstate) (h : list rop) : list (list (nat * nat)) :=
  match h with
  | [] => []
  | o :: t => let '(st', out) := rstep removes st o in out :: rrun removes st' t
  end.

Fixpoint pairs_eqb (a b : list (nat * nat)) : bool :=
  match a, b with
  | [], [] => true
  | (x, y) :: a', (u, v) :: b' => Nat.eqb x u && Nat.eqb y v && pairs_eqb a' b'
  | _, _ => false
  end.
Fixpoint logs_eqb (a b : list (list (nat * nat))) : bool :=
  match a, b with
  | [], [] => true
  | x :: a', y :: b' => pairs_eqb x y && logs_eqb a' b'
  | _, _ => false
  end.
