(* C16 -- the PUBLIC method ContiguousBlockAllocator.reserve(addr, size, warn) of sc3/synth/_engine.py
   (lines 221-243), line by line.  It is not called anywhere in sc3 (Bus/Buffer constructors with an explicit
   index only store the index).  Because reserve can raise AFTER it has mutated the allocator, the result
   carries the state at exit together with the outcome.  Definitions only.
   [_reserve] is re-stated here with the state at the moment of a raise ([Alloc.reserve_] drops it):
   _split raises ("new.used = used" on None) before it mutates anything. *)
From Coq Require Import ZArith List Bool.
Import ListNotations.
Require Import SC3.model.Alloc.
Open Scope Z_scope.

(* _reserve(addr, size, avail_block, prev_block) *)
Definition reserve_st (s : st) (addr n : Z) (avail prev : option block) : st * res block :=
  match (match avail, prev with None, None => find_previous s addr | _, _ => Ok prev end) with
  | Raise e => (s, Raise e)
  | Ok prev =>
    match (match avail with None => prev | Some _ => avail end) with
    | None => (s, Raise AttributeError)                       (* avail_block.start on None *)
    | Some av =>
      if bstart av <? addr then
        match split_ s av (addr - bstart av) false with
        | Raise e => (s, Raise e)
        | Ok (s1, (_, None)) => (s1, Raise AttributeError)    (* [1] is None: None.split *)
        | Ok (s1, (_, Some av2)) =>
            match split_ s1 av2 n true with
            | Raise e => (s1, Raise e)
            | Ok (s2, (new, _)) => (s2, Ok new)
            end
        end
      else
        match split_ s av n true with
        | Raise e => (s, Raise e)
        | Ok (s2, (new, _)) => (s2, Ok new)
        end
    end
  end.

Definition lift_block (r : st * res block) : st * res (option block) :=
  match r with (s, Ok b) => (s, Ok (Some b)) | (s, Raise e) => (s, Raise e) end.

(* the part of reserve() after the first if/elif *)
Definition reserve_tail (s : st) (addr n : Z) : st * res (option block) :=
  match find_previous s addr with
  | Raise e => (s, Raise e)
  | Ok prev =>
      if (match prev with Some p => bused p && (addr <? bstart p + bsize p) | None => false end)
      then (s, Ok None)                                        (* warning, return None *)
      else lift_block (reserve_st s addr n None prev)
  end.

(* reserve(addr, size):  note "self._array[addr]" -- the ABSOLUTE address as index *)
Definition reserve (rel : bool) (s : st) (addr n : Z) : st * res (option block) :=
  match aget (arr s) addr with
  | Raise e => (s, Raise e)
  | Ok c =>
    match (match c with None => find_next rel s addr | Some b => Ok (Some b) end) with
    | Raise e => (s, Raise e)
    | Ok blk =>
      if (match blk with Some b => bused b && (bstart b <? addr + n) | None => false end)
      then reserve_tail s addr n                               (* warning; execution continues below *)
      else match blk with
           | None => (s, Raise AttributeError)                 (* block.start on None *)
           | Some b => if bstart b =? addr then lift_block (reserve_st s addr n (Some b) None)
                       else reserve_tail s addr n
           end
    end
  end.

(* ---- histories with reserve, for the (informational) correspondence --------------------------- *)
Inductive opr := RA (n c : Z) | RF (a : Z) | RR (addr n : Z).

(* after every op: (code, value, observation); code 0 None / 1 address / 2 IndexError / 3 AttributeError.
   A raise ends the history; for reserve the observation is the state at the raise. *)
Fixpoint trace_r (rel : bool) (s : st) (ops : list opr) : list entry :=
  match ops with
  | [] => []
  | RA n c :: r =>
      match alloc s n c with
      | Ok (s1, Some a) => (1, a, obs s1) :: trace_r rel s1 r
      | Ok (s1, None) => (0, 0, obs s1) :: trace_r rel s1 r
      | Raise e => [(err_code e, 0, (0, [], []))]
      end
  | RF a :: r =>
      match free rel s a with
      | Ok s1 => (0, 0, obs s1) :: trace_r rel s1 r
      | Raise e => [(err_code e, 0, (0, [], []))]
      end
  | RR addr n :: r =>
      match reserve rel s addr n with
      | (s1, Ok (Some b)) => (1, bstart b, obs s1) :: trace_r rel s1 r
      | (s1, Ok None) => (0, 0, obs s1) :: trace_r rel s1 r
      | (s1, Raise e) => [(err_code e, 0, obs s1)]
      end
  end.

Definition check_case_r (rel : bool) (c : (Z * Z * Z) * list opr * list entry) : bool :=
  let '((sz, p, o), ops, expected) := c in
  match init sz p o with
  | Ok s0 => list_eqb entry_eqb (trace_r rel s0 ops) expected
  | Raise e => false
  end.
