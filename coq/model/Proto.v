(* C17 -- part (b): the client objects of sc3.synth (node.py, buffer.py, bus.py, server.py,
   _graphparam.py) and BundleNetAddr / Server.bind (netaddr.py) as an executable state machine.

   Written by hand from the code, line by line.  The two places where the code as it stands
   breaks the property are behind a [variant] so that the SAME definitions give the behaviour of
   the code as found ([as_found]) and of the code with the proposed one-token patches
   ([repaired]); props/C17.v proves the property for [repaired] and refutes it for [as_found].

   Allocators are abstract: the address returned by every alloc is an oracle carried by the op
   (recorded from the real run by the harness); the model only keeps the set of used blocks
   (start, size), which is all that free / free_all / blocks() need.  The contiguous-block
   allocator itself is property C16's business.

   No proofs in this file. *)
From Coq Require Import ZArith QArith Qround List String Bool Ascii.
Import ListNotations.
Require Import SC3.model.ProtoGrammar SC3.gen.Gen_proto.
Open Scope string_scope.
Open Scope Z_scope.
Open Scope list_scope.

(* ------------------------------------------------------------------------------------ *)
(* Python values that reach the client objects                                           *)

Inductive pval : Type :=
| PNone
| PBool (b : bool)
| PInt (z : Z)
| PFlt (q : Q)
| PStr (s : string)
| PBytes (n : Z)
| PList (l : list pval)
| PTuple (l : list pval)
| PDict (l : list (pval * pval))
| PBus (i : nat)          (* references to client objects, by creation index *)
| PBuf (i : nat)
| PNode (i : nat)
| PMap (i : nat).         (* bus.as_map() evaluated by the caller *)

Definition pmsg : Type := list pval.          (* ['/cmd', arg, ...] *)

Record variant := mkVariant {
  v_free_all_skips_last : bool;    (* F14: range(addr, addr + size - 1) in Server._free_all_buffers *)
  v_double_free_sends : bool;      (* F15: Buffer.free goes on after the 'already freed' warning *)
  v_cue_swapped : bool;            (* D1 : Buffer.cue sends start, 0, True, frames *)
  v_dict_brackets : bool           (* D2 : NodeDictionary._embed_as_osc_arg wraps the key/value pairs in '[' ']' *)
}.
Definition as_found := mkVariant true true true true.
Definition repaired := mkVariant false false false false.

(* ------------------------------------------------------------------------------------ *)
(* client state                                                                          *)

Inductive nkind := NSynth | NGroup.
Record nodeobj := mkNode { n_id : pval; n_kind : nkind }.
Record bufobj := mkBuf { b_num : pval; b_frames : pval; b_chans : pval }.
Record busobj := mkBus { u_audio : bool; u_index : pval; u_chans : pval }.

Definition blocks := list (Z * Z).            (* used blocks (start, size), sorted by start *)

Record st := mkSt {
  nodes : list (option nodeobj);
  bufs : list (option bufobj);
  buses : list (option busobj);
  bblocks : blocks;
  cblocks : blocks;
  ablocks : blocks;
  stack : list (list pmsg);                   (* open bind() collectors, innermost first *)
  dgroup : Z;                                 (* this client's default group: num_ids * client_id + 1 *)
  dgroups : list Z                            (* the default groups of all logins (Server._default_groups) *)
}.
(* the state after login: client id 0 of one login has default group 1 *)
Definition st_init (dg : Z) (dgs : list Z) := mkSt [] [] [] [] [] [] [] dg dgs.
Definition st0 := st_init 1 [1].

Definition latency : pval := PInt 0.          (* Server.latency as read by the harness in NRT; only a bundle time *)

Fixpoint blk_insert (b : Z * Z) (l : blocks) : blocks :=
  match l with
  | [] => [b]
  | x :: t => if fst b <? fst x then b :: l else x :: blk_insert b t
  end.
Fixpoint blk_remove (a : Z) (l : blocks) : blocks :=
  match l with
  | [] => []
  | x :: t => if fst x =? a then t else x :: blk_remove a t
  end.

(* ------------------------------------------------------------------------------------ *)
(* errors                                                                                *)

Inductive err := EAlreadyFreed | EValue | EOther.
Definition err_code (e : option err) : Z :=
  match e with None => 0 | Some EAlreadyFreed => 1 | Some EValue => 2 | Some EOther => 3 end.

(* ------------------------------------------------------------------------------------ *)
(* _graphparam.py                                                                        *)

Definition digit_char (d : Z) : ascii := ascii_of_nat (48 + Z.to_nat d).
Fixpoint dec_digits (fuel : nat) (n : Z) (acc : string) : string :=
  match fuel with
  | O => acc
  | S f => let acc' := String (digit_char (n mod 10)) acc in
           if n <? 10 then acc' else dec_digits f (n / 10) acc'
  end.
Definition dec_string (n : Z) : string := dec_digits 20 n "".

Definition node_id_of (s : st) (i : nat) : pval :=
  match nth_error (nodes s) i with Some (Some n) => n_id n | _ => PNone end.
Definition bufnum_of (s : st) (i : nat) : pval :=
  match nth_error (bufs s) i with Some (Some b) => b_num b | _ => PNone end.
Definition busindex_of (s : st) (i : nat) : pval :=
  match nth_error (buses s) i with Some (Some u) => u_index u | _ => PNone end.
Definition buschans_of (s : st) (i : nat) : pval :=
  match nth_error (buses s) i with Some (Some u) => u_chans u | _ => PNone end.
Definition busaudio_of (s : st) (i : nat) : bool :=
  match nth_error (buses s) i with Some (Some u) => u_audio u | _ => false end.

(* NodeParameter._as_control_input *)
Fixpoint aci (s : st) (v : pval) : pval :=
  match v with
  | PList l => PList ((fix go (l : list pval) := match l with [] => [] | x :: t => aci s x :: go t end) l)
  | PTuple l => PTuple ((fix go (l : list pval) := match l with [] => [] | x :: t => aci s x :: go t end) l)
  | PDict l => PList ((fix go (l : list (pval * pval)) :=
                         match l with [] => [] | (k, x) :: t => aci s k :: aci s x :: go t end) l)
  | PBus i => busindex_of s i
  | PBuf i => bufnum_of s i
  | PNode i => node_id_of s i
  | PMap i => match busindex_of s i with
              | PInt z => PStr (String (if busaudio_of s i then "a"%char else "c"%char) (dec_string z))
              | _ => PNone
              end
  | _ => v
  end.

(* NodeParameter._embed_as_osc_arg; db = the dict case adds array brackets (code as found) *)
Fixpoint embed (db : bool) (s : st) (v : pval) : list pval :=
  match v with
  | PList l => PStr "[" :: (fix go (l : list pval) := match l with [] => [PStr "]"] | x :: t => embed db s x ++ go t end) l
  | PTuple l => PStr "[" :: (fix go (l : list pval) := match l with [] => [PStr "]"] | x :: t => embed db s x ++ go t end) l
  | PDict l => (if db then [PStr "["] else []) ++
               (fix go (l : list (pval * pval)) :=
                  match l with
                  | [] => if db then [PStr "]"] else []
                  | (k, x) :: t => embed db s k ++ embed db s x ++ go t
                  end) l
  | _ => [aci s v]
  end.

(* NodeParameter._as_osc_arg_list *)
Definition oal (db : bool) (s : st) (v : pval) : list pval :=
  match v with
  | PList l => flat_map (embed db s) l
  | PTuple l => flat_map (embed db s) l
  | PDict _ => match aci s v with PList r => r | _ => [] end
  | _ => [aci s v]
  end.

(* `args or []` of the Synth constructors *)
Definition args_or_empty (a : pval) : pval :=
  match a with
  | PNone => PList []
  | PList [] => PList []
  | PTuple [] => PList []
  | PDict [] => PList []
  | PInt 0 => PList []
  | PBool false => PList []
  | _ => a
  end.

(* utl.gen_cclumps(l, 2) *)
Fixpoint clumps2 (l : list pval) : list (pval * pval) :=
  match l with a :: b :: t => (a, b) :: clumps2 t | _ => [] end.
Fixpoint clumps3 (l : list pval) : list (pval * pval * pval) :=
  match l with a :: b :: c :: t => (a, b, c) :: clumps3 t | _ => [] end.

Definition plen (l : list pval) : pval := PInt (Z.of_nat (List.length l)).

(* the loop shared by Node.setn and Buffer.setn *)
Definition setn_items (l : list pval) : list pval :=
  flat_map (fun cv => match snd cv with
                      | PList vs => fst cv :: plen vs :: vs
                      | v => [fst cv; PInt 1; v]
                      end) (clumps2 l).

(* utl.flat: nested lists flattened *)
Fixpoint flat (v : pval) : list pval :=
  match v with
  | PList l => (fix go (l : list pval) := match l with [] => [] | x :: t => flat x ++ go t end) l
  | _ => [v]
  end.

(* int(x) for bool / int / float *)
Definition py_int (v : pval) : option pval :=
  match v with
  | PBool b => Some (PInt (if b then 1 else 0))
  | PInt z => Some (PInt z)
  | PFlt q => Some (PInt (if Qle_bool 0 q then Qfloor q else Qceiling q))
  | _ => None
  end.
Definition py_bool (v : pval) : pval :=
  match v with
  | PBool b => PBool b
  | PInt z => PBool (negb (z =? 0))
  | PNone => PBool false
  | _ => PBool true
  end.

(* index + k  for an int index *)
Definition padd (v : pval) (k : Z) : option pval :=
  match v with PInt z => Some (PInt (z + k)) | PBool b => Some (PInt ((if b then 1 else 0) + k)) | _ => None end.

(* ------------------------------------------------------------------------------------ *)
(* OscInterface._build_msg: Python message -> wire message (None = ValueError)           *)

Fixpoint wire_arg (v : pval) : option (list arg) :=
  match v with
  | PNone => Some [AInt 0]
  | PBool b => Some [AInt (if b then 1 else 0)]
  | PInt z => Some [AInt z]
  | PFlt q => Some [AFlt q]
  | PStr s => if String.eqb s "[" then Some [AOpen] else if String.eqb s "]" then Some [AClose] else Some [AStr s]
  | PBytes n => Some [ABytes n]
  | PList [] => Some [AInt 0]
  | PList (PStr a :: r) =>
    match (fix go (l : list pval) : option (list arg) :=
             match l with
             | [] => Some []
             | x :: t => match wire_arg x, go t with Some a', Some b' => Some (a' ++ b') | _, _ => None end
             end) r with
    | Some args => Some [AMsg a args]
    | None => None
    end
  | _ => None
  end.

Definition wire_msg (m : pmsg) : option msg :=
  match wire_arg (PList m) with
  | Some [AMsg a args] => Some (a, args)
  | _ => None
  end.

Fixpoint wire_msgs (l : list pmsg) : option (list msg) :=
  match l with
  | [] => Some []
  | m :: t => match wire_msg m, wire_msgs t with Some a, Some b => Some (a :: b) | _, _ => None end
  end.

(* what reaches the OSC interface *)
Inductive wev :=
| WMsg (m : msg)
| WBundle (time : pval) (ms : list msg).

(* what a client object hands to server.addr *)
Inductive send :=
| SMsg (m : pmsg)
| SBundle (time : pval) (ms : list pmsg).

Definition send_msgs (x : send) : list pmsg :=
  match x with SMsg m => [m] | SBundle _ ms => ms end.

(* server.addr.send_msg / send_bundle: BundleNetAddr collects while a bind() is open,
   NetAddr encodes and sends otherwise (first unencodable message raises ValueError) *)
Fixpoint route (stk : list (list pmsg)) (sends : list send) : list (list pmsg) * list wev * option err :=
  match sends with
  | [] => (stk, [], None)
  | x :: t =>
    match stk with
    | top :: rest => route ((top ++ send_msgs x) :: rest) t
    | [] =>
      match x with
      | SMsg m =>
        match wire_msg m with
        | Some w => let '(stk', evs, e) := route stk t in (stk', WMsg w :: evs, e)
        | None => (stk, [], Some EValue)
        end
      | SBundle tm ms =>
        match wire_msgs ms with
        | Some ws => let '(stk', evs, e) := route stk t in (stk', WBundle tm ws :: evs, e)
        | None => (stk, [], Some EValue)
        end
      end
    end
  end.

(* ------------------------------------------------------------------------------------ *)
(* ops                                                                                   *)

Inductive target := TgNone | TgServer | TgRoot | TgNode (i : nat) | TgInt (z : Z).
Inductive action := ActS (s : string) | ActI (z : Z).
Inductive compl := CNone | CMsg (addr : string) (args : list pval) | CFn (addr : string) (args : list pval).
Inductive sctor := SInit | SPaused | SGrain | SReplace (same_id : bool).

Inductive op :=
(* nodes; nid = the id NodeIDAllocator.alloc returned in the real run *)
| OSynth (c : sctor) (nid : Z) (def : string) (args : pval) (tg : target) (act : action)
| OGroup (par : bool) (nid : Z) (tg : target) (act : action)
| OBasicNew (id : Z)
| ONodeSet (n : nat) (args : list pval)
| ONodeSetn (n : nat) (args : list pval)
| ONodeMap (audio : bool) (n : nat) (args : list pval)
| ONodeMapn (audio : bool) (n : nat) (args : list pval)
| ONodeFill (n : nat) (args : list pval)
| ONodeRelease (n : nat) (time : pval)
| ONodeRun (n : nat) (flag : pval)
| ONodeFree (n : nat) (sendflag : bool)
| ONodeTrace (n : nat)
| ONodeQuery (n : nat)
| ONodeMoveBefore (n t : nat)
| ONodeMoveAfter (n t : nat)
| ONodeMoveToHead (n : nat) (t : option nat)
| ONodeMoveToTail (n : nat) (t : option nat)
| OGroupFreeAll (n : nat)
| OGroupDeepFree (n : nat)
| OGroupDumpTree (n : nat) (controls : bool)
| OReorder (ns : list nat) (tg : target) (act : action)
| OFreeDefaultGroup (all : bool)
| OSendDefaultGroups
| ODumpOsc (code : Z)
| ODefSend (nbytes : Z) (c : compl)
| ODefLoad (cmd : string) (path : string) (c : compl)
(* play(func / buffer, target, outbus, fade, add_action, args): a temporary definition (def = its generated name) is sent
   with the creation command of the new Synth object as completion message *)
| OPlay (nid : Z) (def : string) (nbytes : Z) (outbus : pval) (args : pval) (tg : target) (act : action)
(* buffers; addr = what the buffer allocator returned (None: it returned None) *)
| OBufNew (addr : option Z) (frames chans : pval) (bufnum : option Z) (c : compl) (alloc : bool)
| OBufConsecutive (addr : option Z) (n : nat) (frames chans : pval) (bufnum : option Z) (c : compl)
| OBufNewRead (addr : option Z) (path : string) (start frames : Z) (chans : option (list Z)) (bufnum : option Z)
| OBufNewCue (addr : option Z) (path : string) (start size : Z) (chans : pval) (bufnum : option Z) (c : compl)
| OBufAlloc (b : nat) (c : compl)
| OBufAllocRead (b : nat) (path : string) (start frames : Z) (chans : option (list Z)) (c : compl)
| OBufRead (b : nat) (path : string) (fstart frames bstart : Z) (leave_open : bool) (chans : option (list Z))
| OBufCue (b : nat) (path : string) (start : Z) (c : compl)
| OBufWrite (b : nat) (path header sample : string) (frames start : Z) (leave_open : bool) (c : compl)
| OBufSimple (cmd : string) (b : nat) (c : compl)        (* zero, close *)
| OBufFree (b : nat) (c : compl)
| OBufFreeAll
| OBufFill (b : nat) (start frames : pval) (values : list pval)
| OBufSet (b : nat) (args : list pval)
| OBufSetn (b : nat) (args : list pval)
| OBufQuery (b : nat) (checked : bool)                   (* query / update_info *)
| OBufGet (b : nat) (index : Z)
| OBufGetn (b : nat) (index count : Z)
| OBufGen (b : nat) (cmd : string) (args : list pval) (normalize wavetable clear : bool)
| OBufNormalize (b : nat) (newmax : pval) (wavetable : bool)
| OBufCopyData (b dst : nat) (dst_start start n : Z)
(* streaming: the routine that sends / requests the packets is run to its end (wait >= 0: no sync between packets) *)
| OBufSendList (b : nat) (vals : list pval) (start_frame : Z)
| OBufNewSendList (addr : option Z) (vals : list pval) (chans : Z)
| OBufGetToList (b : nat) (index : Z) (count : option Z)
(* buses *)
| OBusNew (audio : bool) (addr : option Z) (chans : Z) (index : option Z)
| OBusFree (u : nat)
| OBusSub (u : nat) (offset chans : Z)                    (* bus.sub_bus(offset, channels) = type(bus).new_from(bus, ...) *)
| OBusSet (u : nat) (offset : Z) (values : list pval)    (* set = set_at 0 *)
| OBusSetn (u : nat) (offset : Z) (values : list pval)
| OBusSetPairs (u : nat) (pairs : list pval)
| OBusFill (u : nat) (value : pval) (chans : pval)
| OBusClear (u : nat)
| OBusGet (u : nat)
| OBusGetn (u : nat) (count : option Z)
(* raw use of server.addr, and bind() *)
| ORaw (m : pmsg)
| OBindEnter
| OBindExit
| OBindRaise (k : nat)      (* an exception leaves the k innermost blocks *)
| OSync (id : Z).           (* yield from server.sync() (real-time mode); id = the uid of the '/sync' *)

Fixpoint lookupZ (k : Z) (l : list (Z * Z)) : option Z :=
  match l with [] => None | (a, b) :: t => if a =? k then Some b else lookupZ k t end.
Definition action_number (a : action) : option Z :=
  match a with
  | ActS s => lookup s add_actions_s
  | ActI z => lookupZ z add_actions_i
  end.

Definition target_id (s : st) (t : target) : pval :=
  match t with
  | TgNone => PInt (dgroup s)
  | TgServer => PInt (dgroup s)
  | TgRoot => PInt 0
  | TgNode i => node_id_of s i
  | TgInt z => PInt z
  end.
Definition target_ok (s : st) (t : target) : bool :=
  match t with
  | TgNode i => match nth_error (nodes s) i with Some (Some _) => true | _ => false end
  | _ => true
  end.

Definition compl_val (c : compl) (bufnum : pval) : pval :=
  match c with
  | CNone => PNone
  | CMsg a args => PList (PStr a :: args)
  | CFn a args => PList (PStr a :: bufnum :: args)
  end.

Definition add_node (s : st) (n : option nodeobj) : st :=
  mkSt (nodes s ++ [n]) (bufs s) (buses s) (bblocks s) (cblocks s) (ablocks s) (stack s) (dgroup s) (dgroups s).
Definition add_buf (s : st) (b : option bufobj) : st :=
  mkSt (nodes s) (bufs s ++ [b]) (buses s) (bblocks s) (cblocks s) (ablocks s) (stack s) (dgroup s) (dgroups s).
Definition add_bus (s : st) (u : option busobj) : st :=
  mkSt (nodes s) (bufs s) (buses s ++ [u]) (bblocks s) (cblocks s) (ablocks s) (stack s) (dgroup s) (dgroups s).
Definition set_bblocks (s : st) (b : blocks) : st :=
  mkSt (nodes s) (bufs s) (buses s) b (cblocks s) (ablocks s) (stack s) (dgroup s) (dgroups s).
Definition set_cblocks (s : st) (b : blocks) : st :=
  mkSt (nodes s) (bufs s) (buses s) (bblocks s) b (ablocks s) (stack s) (dgroup s) (dgroups s).
Definition set_ablocks (s : st) (b : blocks) : st :=
  mkSt (nodes s) (bufs s) (buses s) (bblocks s) (cblocks s) b (stack s) (dgroup s) (dgroups s).
Definition set_stack (s : st) (k : list (list pmsg)) : st :=
  mkSt (nodes s) (bufs s) (buses s) (bblocks s) (cblocks s) (ablocks s) k (dgroup s) (dgroups s).

Fixpoint set_nth {A} (l : list A) (i : nat) (x : A) : list A :=
  match l, i with
  | [], _ => []
  | _ :: t, O => x :: t
  | y :: t, S j => y :: set_nth t j x
  end.
Definition set_buf (s : st) (i : nat) (b : bufobj) : st :=
  mkSt (nodes s) (set_nth (bufs s) i (Some b)) (buses s) (bblocks s) (cblocks s) (ablocks s) (stack s) (dgroup s) (dgroups s).
Definition set_bus (s : st) (i : nat) (u : busobj) : st :=
  mkSt (nodes s) (bufs s) (set_nth (buses s) i (Some u)) (bblocks s) (cblocks s) (ablocks s) (stack s) (dgroup s) (dgroups s).

Definition get_node (s : st) (i : nat) : option nodeobj :=
  match nth_error (nodes s) i with Some (Some n) => Some n | _ => None end.
Definition get_buf (s : st) (i : nat) : option bufobj :=
  match nth_error (bufs s) i with Some (Some b) => Some b | _ => None end.
Definition get_bus (s : st) (i : nat) : option busobj :=
  match nth_error (buses s) i with Some (Some u) => Some u | _ => None end.

Definition is_none (v : pval) : bool := match v with PNone => true | _ => false end.

(* result of the object-level part of an op: new state, what was handed to server.addr, error *)
Definition res : Type := (st * list send * option err)%type.
Definition ok (s : st) (l : list send) : res := (s, l, None).
Definition fail (s : st) (e : err) : res := (s, [], Some e).

Definition zs (l : list Z) : list pval := map PInt l.
Definition opt_chans (c : option (list Z)) : option (list pval) :=
  match c with Some l => Some (zs l) | None => None end.

(* range(a, a + n) *)
Fixpoint zrange (a : Z) (n : nat) : list Z :=
  match n with O => [] | S k => a :: zrange (a + 1) k end.

(* utl.lace(lists, size): zip, flatten, cycle up to size (None = StopIteration on an empty cycle) *)
Fixpoint zip_flat (ls : list (list pval)) (fuel : nat) : list pval :=
  match fuel with
  | O => []
  | S f =>
    if forallb (fun l => nonempty l) ls && nonempty ls
    then map (fun l => hd PNone l) ls ++ zip_flat (map (fun l => tl l) ls) f
    else []
  end.
Fixpoint cycle_take (base cur : list pval) (n : nat) : list pval :=
  match n with
  | O => []
  | S k => match cur with
           | x :: t => x :: cycle_take base t k
           | [] => match base with x :: t => x :: cycle_take base t k | [] => [] end
           end
  end.
Definition lace (ls : list (list pval)) (size : nat) : option (list pval) :=
  let z := zip_flat ls (match ls with l :: _ => List.length l | [] => O end) in
  match z, size with
  | [], S _ => None
  | _, _ => Some (cycle_take z z size)
  end.

Definition oflags (n w c : bool) : Z := (if n then 1 else 0) + (if w then 2 else 0) + (if c then 4 else 0).

(* bus pairs [[index + i, v] ...] flattened, i counted from offset *)
Fixpoint bus_pairs (idx : Z) (k : Z) (vs : list pval) : list pval :=
  match vs with [] => [] | v :: t => PInt (idx + k) :: flat v ++ bus_pairs idx (k + 1) t end.

(* Buffer._stream_list: '/b_setn' packets of at most 1626 values; every packet announces the number of values it carries,
   packet k starts at start + k * 1626 *)
Definition setn_chunk : nat := 1626.
Fixpoint stream_msgs (fuel : nat) (num : pval) (pos : Z) (l : list pval) : list pmsg :=
  match fuel with
  | O => []
  | S f =>
    match l with
    | [] => []
    | _ => let c := firstn setn_chunk l in
           (PStr "/b_setn" :: num :: PInt pos :: plen c :: c) :: stream_msgs f num (pos + Z.of_nat setn_chunk) (skipn setn_chunk l)
    end
  end.
(* Buffer.get_to_list: '/b_getn' requests of at most 1633 values from pos up to (not including) stop *)
Definition getn_chunk : Z := 1633.
Fixpoint getn_msgs (fuel : nat) (num : pval) (pos stop : Z) : list pmsg :=
  match fuel with
  | O => []
  | S f =>
    if pos <? stop then
      let n := Z.min getn_chunk (stop - pos) in
      [PStr "/b_getn"; num; PInt pos; PInt n] :: getn_msgs f num (pos + n) stop
    else []
  end.
(* bi.ceil(len / channels) for channels >= 1 *)
Definition ceil_div (a b : Z) : Z := (a + b - 1) / b.

(* bufnum given by the caller, or Server._next_buffer_number(n) (None: the allocator is exhausted) *)
Definition alloc_bufnum (s : st) (bufnum addr : option Z) (n : Z) : option (Z * st) :=
  match bufnum with
  | Some b => Some (b, s)
  | None => match addr with
            | Some a => Some (a, set_bblocks s (blk_insert (a, n) (bblocks s)))
            | None => None
            end
  end.

(* Node._process_mn_args: (control, bus) -> control, index, channels *)
Definition mapn_item (s : st) (cb : pval * pval) : option (list pval) :=
  match snd cb with
  | PInt z => Some [aci s (fst cb); PInt z; PInt 1]
  | PBool b => Some [aci s (fst cb); PBool b; PInt 1]
  | PBus i => match get_bus s i with
              | Some u => Some [aci s (fst cb); u_index u; u_chans u]
              | None => None
              end
  | _ => None                                  (* AttributeError: no .index *)
  end.
Fixpoint mapn_data (s : st) (l : list (pval * pval)) : option (list pval) :=
  match l with
  | [] => Some []
  | cb :: t => match mapn_item s cb, mapn_data s t with Some a, Some b => Some (a ++ b) | _, _ => None end
  end.

(* [x.node_id for x in node_list] *)
Fixpoint node_ids_of (s : st) (l : list nat) : option (list pval) :=
  match l with
  | [] => Some []
  | i :: t => match get_node s i, node_ids_of s t with Some x, Some r => Some (n_id x :: r) | _, _ => None end
  end.

(* ControlBus.set_pairs: [[index + pair[0], pair[1]] ...] flattened *)
Fixpoint pairs_data (a : Z) (l : list (pval * pval)) : option (list pval) :=
  match l with
  | [] => Some []
  | (i, v) :: t => match padd i a, pairs_data a t with Some i', Some r => Some (i' :: flat v ++ r) | _, _ => None end
  end.

Definition s_new_msg (db : bool) (s : st) (def : string) (id : pval) (actn : Z) (tg : pval) (args : pval) : pmsg :=
  PStr "/s_new" :: PStr def :: id :: PInt actn :: tg :: oal db s (args_or_empty args).

(* play: [*node_param(args)._as_control_input()] -- a list / tuple gives its converted items, a dict its
   key, value, key, value ...; anything else cannot be spliced *)
Definition play_elems (s : st) (args : pval) : option (list pval) :=
  match aci s args with PList r => Some r | PTuple r => Some r | _ => None end.
Definition play_args (outbus : pval) (r : list pval) : pval :=
  PList (PStr "_iout" :: outbus :: PStr "out" :: outbus :: r).

(* accessors evaluated by the caller: every as_map() among the arguments is of a bus that still has its index *)
Fixpoint pv_maps_ok (s : st) (v : pval) : bool :=
  match v with
  | PMap i => match busindex_of s i with PInt _ => true | _ => false end
  | PList l => (fix go (l : list pval) := match l with [] => true | x :: t => pv_maps_ok s x && go t end) l
  | PTuple l => (fix go (l : list pval) := match l with [] => true | x :: t => pv_maps_ok s x && go t end) l
  | PDict l => (fix go (l : list (pval * pval)) := match l with [] => true | (k, x) :: t => pv_maps_ok s k && pv_maps_ok s x && go t end) l
  | _ => true
  end.
Definition op_args (o : op) : list pval :=
  match o with
  | OSynth _ _ _ args _ _ => [args]
  | OPlay _ _ _ ob args _ _ => [ob; args]
  | ONodeSet _ a => a
  | ONodeSetn _ a => a
  | ONodeMap _ _ a => a
  | ONodeMapn _ _ a => a
  | ONodeFill _ a => a
  | _ => []
  end.
Definition maps_ok (s : st) (o : op) : bool := forallb (pv_maps_ok s) (op_args o).

Section Step.
Variable V : variant.

(* the object-level semantics of one op (everything except the routing of the sends), once its arguments exist *)
Definition obj_step_core (s : st) (o : op) : res :=
  match o with
  | OSynth c nid def args tg act =>
    match c with
    | SInit =>
      if negb (target_ok s tg) then fail (add_node s None) EOther else
      match action_number act with
      | None => fail (add_node s None) EOther               (* KeyError after the id was drawn *)
      | Some a =>
        ok (add_node s (Some (mkNode (PInt nid) NSynth)))
           [SMsg (s_new_msg (v_dict_brackets V) s def (PInt nid) a (target_id s tg) args)]
      end
    | SPaused =>
      if negb (target_ok s tg) then fail (add_node s None) EOther else
      match action_number act with
      | None => fail (add_node s None) EOther
      | Some a =>
        ok (add_node s (Some (mkNode (PInt nid) NSynth)))
           [SBundle PNone [s_new_msg (v_dict_brackets V) s def (PInt nid) a (target_id s tg) args;
                           [PStr "/n_run"; PInt nid; PInt 0]]]
      end
    | SGrain =>
      if negb (target_ok s tg) then fail s EOther else
      match action_number act with
      | None => fail s EOther
      | Some a => ok s [SMsg (s_new_msg (v_dict_brackets V) s def (PInt (-1)) a (target_id s tg) args)]
      end
    | SReplace same =>
      match tg with
      | TgNode i =>
        match get_node s i with
        | Some t =>
          let id := if same then n_id t else PInt nid in
          ok (add_node s (Some (mkNode id NSynth))) [SMsg (s_new_msg (v_dict_brackets V) s def id 4 (n_id t) args)]
        | None => fail (add_node s None) EOther
        end
      | _ => fail (add_node s None) EOther
      end
    end
  | OGroup par nid tg act =>
    if negb (target_ok s tg) then fail (add_node s None) EOther else
    match action_number act with
    | None => fail (add_node s None) EOther
    | Some a =>
      ok (add_node s (Some (mkNode (PInt nid) NGroup)))
         [SMsg [PStr (if par then pargroup_creation_cmd else group_creation_cmd); PInt nid; PInt a; target_id s tg]]
    end
  | OBasicNew id => ok (add_node s (Some (mkNode (PInt id) NGroup))) []
  | ONodeSet n args =>
    match get_node s n with
    | Some x => ok s [SMsg (PStr "/n_set" :: n_id x :: oal (v_dict_brackets V) s (PTuple args))]
    | None => fail s EOther
    end
  | ONodeSetn n args =>
    match get_node s n with
    | Some x =>
      match aci s (PTuple args) with
      | PTuple l => ok s [SMsg (PStr "/n_setn" :: n_id x :: setn_items l)]
      | _ => fail s EOther
      end
    | None => fail s EOther
    end
  | ONodeMap audio n args =>
    match get_node s n with
    | Some x =>
      match aci s (PTuple args) with
      | PTuple l => ok s [SMsg (PStr (if audio then "/n_mapa" else "/n_map") :: n_id x :: l)]
      | _ => fail s EOther
      end
    | None => fail s EOther
    end
  | ONodeMapn audio n args =>
    match get_node s n with
    | Some x =>
      match mapn_data s (clumps2 args) with
      | Some data => ok s [SMsg (PStr (if audio then "/n_mapan" else "/n_mapn") :: n_id x :: data)]
      | None => fail s EOther
      end
    | None => fail s EOther
    end
  | ONodeFill n args =>
    match get_node s n, args with
    | Some x, c :: k :: v :: more =>
      match aci s (PTuple more) with
      | PTuple l => ok s [SMsg (PStr "/n_fill" :: n_id x :: c :: k :: v :: l)]
      | _ => fail s EOther
      end
    | _, _ => fail s EOther
    end
  | ONodeRelease n time =>
    match get_node s n with
    | Some x =>
      let t : option pval :=
          match time with
          | PNone => Some (PInt 0)
          | PInt z => Some (if z <=? 0 then PInt (-1) else PInt (- (z + 1)))
          | PBool b => Some (if b then PInt (-2) else PInt (-1))
          | PFlt q => Some (if Qle_bool q 0 then PInt (-1) else PFlt (Qred (- (q + 1))))
          | _ => None
          end in
      match t with
      | Some t' => ok s [SBundle latency [[PStr "/n_set"; n_id x; PStr "gate"; t']]]
      | None => fail s EOther
      end
    | None => fail s EOther
    end
  | ONodeRun n flag =>
    match get_node s n, py_int flag with
    | Some x, Some f => ok s [SMsg [PStr "/n_run"; n_id x; f]]
    | _, _ => fail s EOther
    end
  | ONodeFree n sendflag =>
    match get_node s n with
    | Some x => ok s (if sendflag then [SMsg [PStr "/n_free"; n_id x]] else [])
    | None => fail s EOther
    end
  | ONodeTrace n =>
    match get_node s n with Some x => ok s [SMsg [PStr "/n_trace"; n_id x]] | None => fail s EOther end
  | ONodeQuery n =>
    match get_node s n with Some x => ok s [SMsg [PStr "/n_query"; n_id x]] | None => fail s EOther end
  | ONodeMoveBefore n t =>
    match get_node s n, get_node s t with
    | Some x, Some y => ok s [SMsg [PStr "/n_before"; n_id x; n_id y]]
    | _, _ => fail s EOther
    end
  | ONodeMoveAfter n t =>
    match get_node s n, get_node s t with
    | Some x, Some y => ok s [SMsg [PStr "/n_after"; n_id x; n_id y]]
    | _, _ => fail s EOther
    end
  | ONodeMoveToHead n t =>
    match get_node s n, t with
    | Some x, None => ok s [SMsg [PStr "/g_head"; PInt (dgroup s); n_id x]]
    | Some x, Some g =>
      match get_node s g with
      | Some (mkNode gid NGroup) => ok s [SMsg [PStr "/g_head"; gid; n_id x]]
      | _ => fail s EOther
      end
    | None, _ => fail s EOther
    end
  | ONodeMoveToTail n t =>
    match get_node s n, t with
    | Some x, None => ok s [SMsg [PStr "/g_tail"; PInt (dgroup s); n_id x]]
    | Some x, Some g =>
      match get_node s g with
      | Some (mkNode gid NGroup) => ok s [SMsg [PStr "/g_tail"; gid; n_id x]]
      | _ => fail s EOther
      end
    | None, _ => fail s EOther
    end
  | OGroupFreeAll n =>
    match get_node s n with
    | Some (mkNode gid NGroup) => ok s [SMsg [PStr "/g_freeAll"; gid]]
    | _ => fail s EOther
    end
  | OGroupDeepFree n =>
    match get_node s n with
    | Some (mkNode gid NGroup) => ok s [SMsg [PStr "/g_deepFree"; gid]]
    | _ => fail s EOther
    end
  | OGroupDumpTree n c =>
    match get_node s n with
    | Some (mkNode gid NGroup) => ok s [SMsg [PStr "/g_dumpTree"; gid; PInt (if c then 1 else 0)]]
    | _ => fail s EOther
    end
  | OReorder ns tg act =>
    if negb (target_ok s tg) then fail s EOther else
    match node_ids_of s ns, action_number act with
    | Some ids, Some a => ok s [SMsg (PStr "/n_order" :: PInt a :: target_id s tg :: ids)]
    | _, _ => fail s EOther
    end
  | OFreeDefaultGroup all =>
    ok s (map (fun g => SMsg [PStr "/g_freeAll"; PInt g]) (if all then dgroups s else [dgroup s]))
  | OSendDefaultGroups => ok s (map (fun g => SMsg [PStr "/g_new"; PInt g; PInt 0; PInt 0]) (dgroups s))
  | ODumpOsc code => ok s [SMsg [PStr "/dumpOSC"; PInt code]]
  | ODefSend nbytes c => ok s [SMsg [PStr "/d_recv"; PBytes nbytes; compl_val c PNone]]
  | ODefLoad cmd path c => ok s [SMsg [PStr cmd; PStr path; compl_val c PNone]]
  | OPlay nid def nbytes outbus args tg act =>
    if negb (target_ok s tg) then fail (add_node s None) EOther else
    match play_elems s args with
    | None => fail (add_node s None) EOther
    | Some r =>
      match action_number act with
      | None => fail (add_node s None) EOther
      | Some a =>
        ok (add_node s (Some (mkNode (PInt nid) NSynth)))
           [SMsg [PStr "/d_recv"; PBytes nbytes;
                  PList (s_new_msg (v_dict_brackets V) s def (PInt nid) a (target_id s tg) (play_args outbus r))]]
      end
    end

  (* ---- buffers ---- *)
  | OBufNew addr frames chans bufnum c alloc =>
    match alloc_bufnum s bufnum addr 1 with
    | None => fail (add_buf s None) EOther                  (* 'No more buffer numbers' *)
    | Some (num, s1) =>
      if alloc then
        if is_none frames then fail (add_buf s1 None) EValue        (* ValueError('cannot allocate buffer, frames is None') *)
        else ok (add_buf s1 (Some (mkBuf (PInt num) frames chans)))
                [SMsg [PStr "/b_alloc"; PInt num; frames; chans; compl_val c (PInt num)]]
      else ok (add_buf s1 (Some (mkBuf (PInt num) frames chans))) []
    end
  | OBufConsecutive addr n frames chans bufnum c =>
    match alloc_bufnum s bufnum addr (Z.of_nat n) with
    | None => fail s EOther
    | Some (base, s1) =>
      let ids := zrange base n in
      ok (fold_left (fun acc i => add_buf acc (Some (mkBuf (PInt i) frames chans))) ids s1)
         (map (fun i => SMsg [PStr "/b_alloc"; PInt i; frames; chans; compl_val c (PInt i)]) ids)
    end
  | OBufNewRead addr path start frames chans bufnum =>
    match alloc_bufnum s bufnum addr 1 with
    | None => fail (add_buf s None) EOther
    | Some (num, s1) =>
      let s2 := add_buf s1 (Some (mkBuf (PInt num) PNone PNone)) in
      let q := PList [PStr "/b_query"; PInt num] in
      match chans with
      | None => ok s2 [SMsg [PStr "/b_allocRead"; PInt num; PStr path; PInt start; PInt frames; q]]
      | Some ch => ok s2 [SMsg ([PStr "/b_allocReadChannel"; PInt num; PStr path; PInt start; PInt frames] ++ zs ch ++ [q])]
      end
    end
  | OBufNewCue addr path start size chans bufnum c =>
    match alloc_bufnum s bufnum addr 1 with
    | None => fail (add_buf s None) EOther
    | Some (num, s1) =>
      ok (add_buf s1 (Some (mkBuf (PInt num) (PInt size) chans)))
         [SMsg [PStr "/b_alloc"; PInt num; PInt size; chans;
                PList [PStr "/b_read"; PInt num; PStr path; PInt start; PInt size; PInt 0; PBool true;
                       compl_val c (PInt num)]]]
    end
  | OBufAlloc b c =>
    match get_buf s b with
    | Some x => ok s [SMsg [PStr "/b_alloc"; b_num x; b_frames x; b_chans x; compl_val c (b_num x)]]
    | None => fail s EOther
    end
  | OBufAllocRead b path start frames chans c =>
    match get_buf s b with
    | Some x =>
      match chans with
      | None => ok s [SMsg [PStr "/b_allocRead"; b_num x; PStr path; PInt start; PInt frames; compl_val c (b_num x)]]
      | Some ch => ok s [SMsg ([PStr "/b_allocReadChannel"; b_num x; PStr path; PInt start; PInt frames] ++ zs ch
                               ++ [compl_val c (b_num x)])]
      end
    | None => fail s EOther
    end
  | OBufRead b path fstart frames bstart lo chans =>
    match get_buf s b with
    | Some x =>
      let q := PList [PStr "/b_query"; b_num x] in
      match chans with
      | None => ok s [SMsg [PStr "/b_read"; b_num x; PStr path; PInt fstart; PInt frames; PInt bstart; PBool lo; q]]
      | Some ch => ok s [SMsg ([PStr "/b_readChannel"; b_num x; PStr path; PInt fstart; PInt frames; PInt bstart; PBool lo]
                               ++ zs ch ++ [q])]
      end
    | None => fail s EOther
    end
  | OBufCue b path start c =>
    match get_buf s b with
    | Some x =>
      if v_cue_swapped V
      then ok s [SMsg [PStr "/b_read"; b_num x; PStr path; PInt start; PInt 0; PBool true; b_frames x; compl_val c (b_num x)]]
      else ok s [SMsg [PStr "/b_read"; b_num x; PStr path; PInt start; b_frames x; PInt 0; PBool true; compl_val c (b_num x)]]
    | None => fail s EOther
    end
  | OBufWrite b path header sample frames start lo c =>
    match get_buf s b with
    | Some x =>
      if is_none (b_num x) then fail s EAlreadyFreed else
      ok s [SMsg [PStr "/b_write"; b_num x; PStr path; PStr header; PStr sample; PInt frames; PInt start; PBool lo;
                  compl_val c (b_num x)]]
    | None => fail s EOther
    end
  | OBufSimple cmd b c =>
    match get_buf s b with
    | Some x =>
      if is_none (b_num x) then fail s EAlreadyFreed else ok s [SMsg [PStr cmd; b_num x; compl_val c (b_num x)]]
    | None => fail s EOther
    end
  | OBufFree b c =>
    match get_buf s b with
    | Some x =>
      if is_none (b_num x) && negb (v_double_free_sends V) then ok s []     (* warning, return *)
      else
        let s1 := match b_num x with PInt a => set_bblocks s (blk_remove a (bblocks s)) | _ => s end in
        ok (set_buf s1 b (mkBuf PNone PNone PNone)) [SMsg [PStr "/b_free"; b_num x; compl_val c (b_num x)]]
    | None => fail s EOther
    end
  | OBufFreeAll =>
    let per_block (blk : Z * Z) : list pmsg :=
        map (fun i => [PStr "/b_free"; PInt i])
            (zrange (fst blk) (Z.to_nat (if v_free_all_skips_last V then snd blk - 1 else snd blk))) in
    ok (set_bblocks s []) [SBundle PNone (flat_map per_block (bblocks s))]
  | OBufFill b start frames values =>
    match get_buf s b with
    | Some x =>
      if is_none (b_num x) then fail s EAlreadyFreed else
      match py_int frames with
      | Some f => ok s [SMsg (PStr "/b_fill" :: b_num x :: start :: f :: values)]
      | None => fail s EOther
      end
    | None => fail s EOther
    end
  | OBufSet b args =>
    match get_buf s b with
    | Some x =>
      if is_none (b_num x) then fail s EAlreadyFreed else
      match args with
      | _ :: _ :: _ => ok s [SMsg (PStr "/b_set" :: b_num x :: args)]
      | _ => fail s EOther                                  (* TypeError: missing positional arguments *)
      end
    | None => fail s EOther
    end
  | OBufSetn b args =>
    match get_buf s b with
    | Some x =>
      if is_none (b_num x) then fail s EAlreadyFreed else ok s [SMsg (PStr "/b_setn" :: b_num x :: setn_items args)]
    | None => fail s EOther
    end
  | OBufQuery b checked =>
    match get_buf s b with
    | Some x =>
      if checked && is_none (b_num x) then fail s EAlreadyFreed else ok s [SMsg [PStr "/b_query"; b_num x]]
    | None => fail s EOther
    end
  | OBufGet b i =>
    match get_buf s b with
    | Some x => if is_none (b_num x) then fail s EAlreadyFreed else ok s [SMsg [PStr "/b_get"; b_num x; PInt i]]
    | None => fail s EOther
    end
  | OBufGetn b i n =>
    match get_buf s b with
    | Some x => if is_none (b_num x) then fail s EAlreadyFreed else ok s [SMsg [PStr "/b_getn"; b_num x; PInt i; PInt n]]
    | None => fail s EOther
    end
  | OBufGen b cmd args nz wt cl =>
    match get_buf s b with
    | Some x =>
      if is_none (b_num x) then fail s EAlreadyFreed else
      ok s [SMsg (PStr "/b_gen" :: b_num x :: PStr cmd :: PInt (oflags nz wt cl) :: args)]
    | None => fail s EOther
    end
  | OBufNormalize b newmax wt =>
    match get_buf s b with
    | Some x =>
      if is_none (b_num x) then fail s EAlreadyFreed else
      ok s [SMsg [PStr "/b_gen"; b_num x; PStr (if wt then "wnormalize" else "normalize"); newmax]]
    | None => fail s EOther
    end
  | OBufCopyData b dst ds st_ n =>
    match get_buf s b, get_buf s dst with
    | Some x, Some d =>
      if is_none (b_num x) then fail s EAlreadyFreed else
      ok s [SMsg [PStr "/b_gen"; b_num d; PStr "copy"; PInt ds; b_num x; PInt st_; PInt n]]
    | _, _ => fail s EOther
    end

  | OBufSendList b vals start =>
    match get_buf s b with
    | Some x =>
      match b_frames x, b_chans x with
      | PInt fr, PInt ch =>                         (* (self._frames - start_frame) * self._channels needs numbers *)
        ok s (map SMsg (stream_msgs (List.length vals) (b_num x) (start * ch) vals))
      | _, _ => fail s EOther
      end
    | None => fail s EOther
    end
  | OBufNewSendList addr vals chans =>
    if chans <=? 0 then fail s EOther else
    match alloc_bufnum s None addr 1 with
    | None => fail (add_buf s None) EOther
    | Some (num, s1) =>
      let fr := ceil_div (Z.of_nat (List.length vals)) chans in
      ok (add_buf s1 (Some (mkBuf (PInt num) (PInt fr) (PInt chans))))
         (SMsg [PStr "/b_alloc"; PInt num; PInt fr; PInt chans; PNone]
          :: map SMsg (stream_msgs (List.length vals) (PInt num) 0 vals))
    end
  | OBufGetToList b index count =>
    match get_buf s b with
    | Some x =>
      let total : option Z :=
          match count with
          | Some c => Some c
          | None => match b_frames x, b_chans x with PInt fr, PInt ch => Some (fr * ch) | _, _ => None end
          end in
      match total with
      | Some c => ok s (map SMsg (getn_msgs (Z.to_nat (Z.max 0 c) + 1) (b_num x) index (c + index)))
      | None => fail s EOther
      end
    | None => fail s EOther
    end

  (* ---- buses ---- *)
  | OBusNew audio addr chans index =>
    match index with
    | Some i => ok (add_bus s (Some (mkBus audio (PInt i) (PInt chans)))) []
    | None =>
      match addr with
      | Some a =>
        let s1 := if audio then set_ablocks s (blk_insert (a, chans) (ablocks s))
                  else set_cblocks s (blk_insert (a, chans) (cblocks s)) in
        ok (add_bus s1 (Some (mkBus audio (PInt a) (PInt chans)))) []
      | None => fail (add_bus s None) EOther                (* BusException *)
      end
    end
  | OBusSub u off ch =>
    match get_bus s u with
    | Some x =>
      match u_chans x, u_index x with
      | PInt c, PInt a =>
        (* if offset > bus._channels or channels + offset > bus._channels: raise BusException *)
        if (off >? c) || (ch + off >? c) then fail (add_bus s None) EOther
        else ok (add_bus s (Some (mkBus (u_audio x) (PInt (a + off)) (PInt ch)))) []
      | _, _ => fail (add_bus s None) EOther          (* freed parent: None in the comparison / sum, TypeError *)
      end
    | None => fail (add_bus s None) EOther
    end
  | OBusFree u =>
    match get_bus s u with
    | Some x =>
      match u_index x with
      | PInt a =>
        let s1 := if u_audio x then set_ablocks s (blk_remove a (ablocks s)) else set_cblocks s (blk_remove a (cblocks s)) in
        ok (set_bus s1 u (mkBus (u_audio x) PNone PNone)) []
      | _ => ok s []                                        (* warning, return *)
      end
    | None => fail s EOther
    end
  | OBusSet u off values =>
    match get_bus s u with
    | Some x =>
      match u_index x with
      | PInt a => ok s [SMsg (PStr "/c_set" :: bus_pairs a off values)]
      | _ => fail s EAlreadyFreed
      end
    | None => fail s EOther
    end
  | OBusSetn u off values =>
    match get_bus s u with
    | Some x =>
      match u_index x with
      | PInt a => ok s [SMsg (PStr "/c_setn" :: PInt (a + off) :: plen values :: values)]
      | _ => fail s EAlreadyFreed
      end
    | None => fail s EOther
    end
  | OBusSetPairs u pairs =>
    match get_bus s u with
    | Some x =>
      match u_index x with
      | PInt a =>
        match pairs_data a (clumps2 pairs) with
        | Some l => ok s [SMsg (PStr "/c_set" :: l)]
        | None => fail s EOther
        end
      | _ => fail s EAlreadyFreed
      end
    | None => fail s EOther
    end
  | OBusFill u value chans =>
    match get_bus s u with
    | Some x =>
      match u_index x with
      | PInt a => ok s [SMsg [PStr "/c_fill"; PInt a; chans; value]]
      | _ => fail s EAlreadyFreed
      end
    | None => fail s EOther
    end
  | OBusClear u =>
    match get_bus s u with
    | Some x =>
      match u_index x with
      | PInt a => ok s [SMsg [PStr "/c_fill"; PInt a; u_chans x; PInt 0]]
      | _ => fail s EAlreadyFreed
      end
    | None => fail s EOther
    end
  | OBusGet u =>
    match get_bus s u with
    | Some x =>
      match u_index x with
      | PInt a =>
        match u_chans x with
        | PInt 1 => ok s [SMsg [PStr "/c_get"; PInt a]]
        | c => ok s [SMsg [PStr "/c_getn"; PInt a; c]]
        end
      | _ => fail s EAlreadyFreed
      end
    | None => fail s EOther
    end
  | OBusGetn u count =>
    match get_bus s u with
    | Some x =>
      match u_index x with
      | PInt a => ok s [SMsg [PStr "/c_getn"; PInt a; match count with Some c => PInt c | None => u_chans x end]]
      | _ => fail s EAlreadyFreed
      end
    | None => fail s EOther
    end
  | ORaw m => ok s [SMsg m]
  | OBindEnter | OBindExit | OBindRaise _ | OSync _ => ok s []
  end.

(* The caller evaluates the arguments first.  bus.as_map() of a bus that was freed raises BusException (free() resets
   the cached map symbol): then the call does not happen at all. *)
Definition obj_step (s : st) (o : op) : res :=
  if maps_ok s o then obj_step_core s o else fail s EOther.

(* BundleNetAddr.__exit__ on normal exit: _send_last_bundle -> save_addr.send_clumped_bundles *)
Definition flush (collected : list pmsg) : list send :=
  match collected with [] => [] | _ => [SBundle latency collected] end.

Fixpoint drop_n {A} (n : nat) (l : list A) : list A :=
  match n, l with O, _ => l | S k, _ :: t => drop_n k t | S _, [] => [] end.

(* server.sync(): outside bind() a '/sync' bundle; inside, BundleNetAddr.sync first sends what the
   block collected since the last sync to the enclosing address (_send_last_bundle), then the enclosing
   address syncs (an enclosing block flushes too), then the marker is set: the block stays open with
   an empty "since the last sync" part *)
Fixpoint sync_fuel (fuel : nat) (stk : list (list pmsg)) (id : Z) : list (list pmsg) * list wev * option err :=
  match stk with
  | [] => ([], [WBundle PNone [("/sync", [AInt id])]], None)
  | top :: rest =>
    match fuel with
    | O => (stk, [], Some EOther)
    | S f =>
      let '(rest1, ev1, e1) := route rest (flush top) in
      match e1 with
      | Some _ => (top :: rest1, ev1, e1)
      | None =>
        let '(rest2, ev2, e2) := sync_fuel f rest1 id in
        (match e2 with Some _ => top | None => [] end :: rest2, ev1 ++ ev2, e2)
      end
    end
  end.
(* route keeps the number of open blocks, so one unit of fuel per block is enough *)
Definition sync_stack (stk : list (list pmsg)) (id : Z) := sync_fuel (List.length stk) stk id.

(* one op: new state, what reached the OSC interface, error *)
Definition step (s : st) (o : op) : st * list wev * option err :=
  match o with
  | OBindEnter => (set_stack s ([] :: stack s), [], None)
  | OBindExit =>
    match stack s with
    | [] => (s, [], Some EOther)
    | top :: rest =>
      let '(stk, evs, e) := route rest (flush top) in
      (set_stack s stk, evs, e)
    end
  | OBindRaise k => (set_stack s (drop_n k (stack s)), [], None)
  | OSync id => let '(stk, evs, e) := sync_stack (stack s) id in (set_stack s stk, evs, e)
  | _ =>
    let '(s1, sends, e) := obj_step s o in
    let '(stk, evs, e2) := route (stack s1) sends in
    (set_stack s1 stk, evs, match e with Some _ => e | None => e2 end)
  end.

Fixpoint run (s : st) (ops : list op) : list (list wev * option err) * st :=
  match ops with
  | [] => ([], s)
  | o :: t =>
    let '(s1, evs, e) := step s o in
    let '(r, s2) := run s1 t in
    ((evs, e) :: r, s2)
  end.

End Step.

(* ------------------------------------------------------------------------------------ *)
(* comparison with the captured real run                                                 *)

Fixpoint msgs_eqb (a b : list msg) : bool :=
  match a, b with
  | [], [] => true
  | x :: t, y :: u => msg_eqb x y && msgs_eqb t u
  | _, _ => false
  end.

Definition pval_time_eqb (a b : pval) : bool :=
  match a, b with
  | PNone, PNone => true
  | PInt x, PInt y => x =? y
  | PFlt x, PFlt y => Qeq_bool x y
  | PInt x, PFlt y => Qeq_bool (inject_Z x) y
  | PFlt x, PInt y => Qeq_bool x (inject_Z y)
  | _, _ => false
  end.

Definition wev_eqb (a b : wev) : bool :=
  match a, b with
  | WMsg x, WMsg y => msg_eqb x y
  | WBundle t x, WBundle u y => pval_time_eqb t u && msgs_eqb x y
  | _, _ => false
  end.

Fixpoint wevs_eqb (a b : list wev) : bool :=
  match a, b with
  | [], [] => true
  | x :: t, y :: u => wev_eqb x y && wevs_eqb t u
  | _, _ => false
  end.

(* observed step = (events, error code) *)
Fixpoint steps_eqb (model : list (list wev * option err)) (impl : list (list wev * Z)) : bool :=
  match model, impl with
  | [], [] => true
  | (e, x) :: t, (e', c) :: u => wevs_eqb e e' && (err_code x =? c) && steps_eqb t u
  | _, _ => false
  end.

Definition final_view (s : st) : list (Z * Z) * list (Z * Z) * list (Z * Z) :=
  (bblocks s, cblocks s, ablocks s).

Definition wev_msgs (e : wev) : list msg := match e with WMsg m => [m] | WBundle _ ms => ms end.
Definition all_conform (evs : list wev) : bool := forallb (fun e => forallb conforms (wev_msgs e)) evs.
