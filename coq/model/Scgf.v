(* Scgf -- the SynthDef binary format (SCgf version 2), FORMAT side of C02.
   Executable definitions only (no proofs here).

   writer      sc3/synth/synthdef.py  SynthDef._write_def_list / _write_def / _write_constants
               sc3/synth/ugen.py      SynthObject._write_def / _write_input_spec / _write_output_specs
               sc3/synth/_graphparam.py UGenScalar._write_input_spec
               sc3/synth/_fmtrw.py    write_pascal_str / write_i8 / write_i16 / write_i32 / write_f32
   parser      written from the format description ("Synth Definition File Format", version 2),
               NOT from the library's reader
   read_desc   sc3/synth/synthdesc.py SynthDesc.new_from / _read_synthdef2 / _read_ugen_spec2 /
               _check_synthdesc2 (the library's own description reader)

   Bytes are Z in [0,256).  A float32 field is an opaque 32-bit word (Z in [0,2^32)); Python str
   names are their byte lists (write_pascal_str encodes with 'ascii', so every byte must be < 128). *)
From Coq Require Import ZArith List Bool String Ascii.
Import ListNotations.
Require Import SC3.gen.Gen_scgftables.   (* REGENERATED: rate tables, reader class tables *)
Require SC3.gen.Gen_opcodes.             (* REGENERATED (C01's target): operator tables *)
Open Scope Z_scope.

Definition bytes := list Z.

Definition bs_of_string (s : string) : bytes :=
  List.map (fun c => Z.of_N (N_of_ascii c)) (list_ascii_of_string s).

(* ------------------------------------------------------------------ *)
(* structure                                                           *)

Inductive inp := IConst (k : Z) | IOut (u : Z) (c : Z).

Record ugen := mkUgen {
  u_cls : bytes;          (* class name, type(self).__name__ *)
  u_rate : Z;             (* _rate_number(): 0 scalar, 1 control, 2 audio, 3 demand *)
  u_ins : list inp;       (* IConst k: (-1, k) ; IOut u c: (_synth_index, _output_index) *)
  u_outs : list Z;        (* one rate per output *)
  u_special : Z           (* _special_index *)
}.

Record variant := mkVariant { v_name : bytes; v_vals : list Z }.

Record sdef := mkSdef {
  d_name : bytes;
  d_consts : list Z;                 (* f32 words *)
  d_ctl : list Z;                    (* control default f32 words, one per slot *)
  d_names : list (bytes * Z);        (* parameter name, index of its first slot *)
  d_units : list ugen;
  d_variants : list variant
}.

(* ------------------------------------------------------------------ *)
(* boolean equalities                                                  *)

Fixpoint list_eqb {A} (eqb : A -> A -> bool) (a b : list A) : bool :=
  match a, b with
  | [], [] => true
  | x :: a', y :: b' => eqb x y && list_eqb eqb a' b'
  | _, _ => false
  end.
Definition bytes_eqb := list_eqb Z.eqb.
Definition inp_eqb (a b : inp) : bool :=
  match a, b with
  | IConst k, IConst k' => k =? k'
  | IOut u c, IOut u' c' => (u =? u') && (c =? c')
  | _, _ => false
  end.
Definition ugen_eqb (a b : ugen) : bool :=
  bytes_eqb (u_cls a) (u_cls b) && (u_rate a =? u_rate b) && list_eqb inp_eqb (u_ins a) (u_ins b)
  && list_eqb Z.eqb (u_outs a) (u_outs b) && (u_special a =? u_special b).
Definition variant_eqb (a b : variant) : bool :=
  bytes_eqb (v_name a) (v_name b) && list_eqb Z.eqb (v_vals a) (v_vals b).
Definition pname_eqb (a b : bytes * Z) : bool := bytes_eqb (fst a) (fst b) && (snd a =? snd b).
Definition sdef_eqb (a b : sdef) : bool :=
  bytes_eqb (d_name a) (d_name b) && list_eqb Z.eqb (d_consts a) (d_consts b)
  && list_eqb Z.eqb (d_ctl a) (d_ctl b) && list_eqb pname_eqb (d_names a) (d_names b)
  && list_eqb ugen_eqb (d_units a) (d_units b) && list_eqb variant_eqb (d_variants a) (d_variants b).

(* ------------------------------------------------------------------ *)
(* writer: total encoders + the guard under which the real code does not raise *)

Definition zlen {A} (l : list A) : Z := Z.of_nat (List.length l).

Definition byte_ok (b : Z) : bool := (0 <=? b) && (b <? 256).
Definition i8_ok (v : Z) : bool := (-128 <=? v) && (v <? 128).
Definition i16_ok (v : Z) : bool := (-32768 <=? v) && (v <? 32768).
Definition i32_ok (v : Z) : bool := (-2147483648 <=? v) && (v <? 2147483648).
Definition w32_ok (v : Z) : bool := (0 <=? v) && (v <? 4294967296).

(* struct.pack('b'), '>h', '>i' : two's complement, big-endian *)
Definition enc_i8 (v : Z) : bytes := [v mod 256].
Definition enc_i16 (v : Z) : bytes := [(v / 256) mod 256; v mod 256].
Definition enc_i32 (v : Z) : bytes :=
  [(v / 16777216) mod 256; (v / 65536) mod 256; (v / 256) mod 256; v mod 256].
(* struct.pack('>f', x): the harness supplies the resulting word *)
Definition enc_w32 (w : Z) : bytes := enc_i32 w.

(* write_pascal_str: struct.pack('B', len(string)) raises above 255;
   bytes(string, 'ascii') raises on any character >= 128 *)
Definition ascii_ok (b : Z) : bool := (0 <=? b) && (b <? 128).
Definition pstr_ok (s : bytes) : bool := (zlen s <? 256) && forallb ascii_ok s.
Definition enc_pstr (s : bytes) : bytes := zlen s :: s.

Definition enc_list {A} (enc : A -> bytes) (l : list A) : bytes := List.concat (List.map enc l).

(* _write_input_spec *)
Definition inp_ok (i : inp) : bool :=
  match i with
  | IConst k => i32_ok k
  | IOut u c => (0 <=? u) && i32_ok u && i32_ok c
  end.
Definition enc_inp (i : inp) : bytes :=
  match i with
  | IConst k => enc_i32 (-1) ++ enc_i32 k
  | IOut u c => enc_i32 u ++ enc_i32 c
  end.

(* SynthObject._write_def *)
Definition ugen_ok (u : ugen) : bool :=
  pstr_ok (u_cls u) && i8_ok (u_rate u) && i32_ok (zlen (u_ins u)) && i32_ok (zlen (u_outs u))
  && i16_ok (u_special u) && forallb inp_ok (u_ins u) && forallb i8_ok (u_outs u).
Definition enc_ugen (u : ugen) : bytes :=
  enc_pstr (u_cls u) ++ enc_i8 (u_rate u) ++ enc_i32 (zlen (u_ins u)) ++ enc_i32 (zlen (u_outs u))
  ++ enc_i16 (u_special u) ++ enc_list enc_inp (u_ins u) ++ enc_list enc_i8 (u_outs u).

Definition pname_ok (p : bytes * Z) : bool := pstr_ok (fst p) && i32_ok (snd p).
Definition enc_pname (p : bytes * Z) : bytes := enc_pstr (fst p) ++ enc_i32 (snd p).

(* a variant carries exactly one value per control slot (varcontrols = self._controls[:]) *)
Definition variant_ok (nctl : nat) (v : variant) : bool :=
  pstr_ok (v_name v) && Nat.eqb (List.length (v_vals v)) nctl && forallb w32_ok (v_vals v).
Definition enc_variant (v : variant) : bytes := enc_pstr (v_name v) ++ enc_list enc_w32 (v_vals v).

(* SynthDef._write_def (name, constants, controls, names, units, variants) *)
Definition def_ok (d : sdef) : bool :=
  pstr_ok (d_name d)
  && i32_ok (zlen (d_consts d)) && forallb w32_ok (d_consts d)
  && i32_ok (zlen (d_ctl d)) && forallb w32_ok (d_ctl d)
  && i32_ok (zlen (d_names d)) && forallb pname_ok (d_names d)
  && i32_ok (zlen (d_units d)) && forallb ugen_ok (d_units d)
  && i16_ok (zlen (d_variants d)) && forallb (variant_ok (List.length (d_ctl d))) (d_variants d).

Definition enc_body (d : sdef) : bytes :=
  enc_pstr (d_name d)
  ++ enc_i32 (zlen (d_consts d)) ++ enc_list enc_w32 (d_consts d)
  ++ enc_i32 (zlen (d_ctl d)) ++ enc_list enc_w32 (d_ctl d)
  ++ enc_i32 (zlen (d_names d)) ++ enc_list enc_pname (d_names d)
  ++ enc_i32 (zlen (d_units d)) ++ enc_list enc_ugen (d_units d)
  ++ enc_i16 (zlen (d_variants d)) ++ enc_list enc_variant (d_variants d).

(* SynthDef._write_def_list([self]): b'SCgf', int32 2, int16 1 *)
Definition magic : bytes := [83; 67; 103; 102].
Definition enc_header : bytes := magic ++ enc_i32 2 ++ enc_i16 1.
Definition enc_def (d : sdef) : bytes := enc_header ++ enc_body d.

(* as_bytes(): None = the real writer raises ('SynthDef: could not write def') *)
Definition write_def (d : sdef) : option bytes := if def_ok d then Some (enc_def d) else None.

(* ------------------------------------------------------------------ *)
(* variants: SynthDef._write_def lines 699-736, REPAIRED behaviour: the variants are resolved BEFORE
   the count is written; resolution stops (with a warning) at the first invalid variant and only the
   valid prefix is counted and written.  (The unrepaired code writes the count of ALL variants first
   and returns early: the bytes announce variants that are not there.)
   names: (control name, first slot, number of channels of its default)
   src:   (variant key, [(control name, value words)])                                       *)

Fixpoint set_from (l : list Z) (i : Z) (vals : list Z) : option (list Z) :=
  match vals with
  | [] => Some l
  | v :: vals' =>
    if (0 <=? i) && (i <? zlen l)
    then set_from (firstn (Z.to_nat i) l ++ v :: skipn (S (Z.to_nat i)) l) (i + 1) vals'
    else None
  end.

(* allcns_map: a dict filled in order, so the LAST entry with a given name wins *)
Fixpoint lookup_last (names : list (bytes * Z * Z)) (nm : bytes) (acc : option (Z * Z)) : option (Z * Z) :=
  match names with
  | [] => acc
  | (n, i, ch) :: r => lookup_last r nm (if bytes_eqb n nm then Some (i, ch) else acc)
  end.

Fixpoint apply_pairs (names : list (bytes * Z * Z)) (ctl : list Z) (pairs : list (bytes * list Z)) : option (list Z) :=
  match pairs with
  | [] => Some ctl
  | (cn, vals) :: r =>
    match lookup_last names cn None with
    | None => None                                       (* control not found *)
    | Some (i, ch) =>
      if zlen vals <=? ch
      then match set_from ctl i vals with
           | Some ctl' => apply_pairs names ctl' r
           | None => None
           end
      else None                                          (* size mismatch *)
    end
  end.

Fixpoint resolve_variants (name : bytes) (ctl : list Z) (names : list (bytes * Z * Z))
         (src : list (bytes * list (bytes * list Z))) : list variant :=
  match src with
  | [] => []
  | (key, pairs) :: r =>
    let full := name ++ 46 :: key in                       (* name + '.' + key *)
    if zlen full <=? 32
    then match apply_pairs names ctl pairs with
         | Some vals => mkVariant full vals :: resolve_variants name ctl names r
         | None => []                                      (* not writing more variants *)
         end
    else []                                               (* variant name too long *)
  end.

(* ------------------------------------------------------------------ *)
(* parser, from the format description                                *)

Inductive err :=
| Truncated | NotBytes | BadMagic | BadVersion | BadDefCount | NegCount | BadUgenIndex | Trailing | OutOfFuel | NotAscii.
Definition err_eqb (a b : err) : bool :=
  match a, b with
  | Truncated, Truncated | NotBytes, NotBytes | BadMagic, BadMagic | BadVersion, BadVersion
  | BadDefCount, BadDefCount | NegCount, NegCount | BadUgenIndex, BadUgenIndex | Trailing, Trailing
  | OutOfFuel, OutOfFuel | NotAscii, NotAscii => true
  | _, _ => false
  end.

Inductive res (A : Type) := Ok (a : A) | Err (e : err).
Arguments Ok {A} a.
Arguments Err {A} e.

Definition parser (A : Type) := bytes -> res (A * bytes).

Definition pbind {A B} (p : parser A) (f : A -> parser B) : parser B :=
  fun bs => match p bs with Err e => Err e | Ok (a, r) => f a r end.
Definition pret {A} (a : A) : parser A := fun bs => Ok (a, bs).
Definition pfail {A} (e : err) : parser A := fun _ => Err e.
Notation "x <- p ;; q" := (pbind p (fun x => q)) (at level 61, p at next level, right associativity).

Definition rd_u8 : parser Z := fun bs => match bs with b :: r => Ok (b, r) | [] => Err Truncated end.
Definition sgn (bits : Z) (v : Z) : Z := if v <? bits / 2 then v else v - bits.
Definition rd_i8 : parser Z := b <- rd_u8 ;; pret (sgn 256 b).
Definition rd_u16 : parser Z := a <- rd_u8 ;; b <- rd_u8 ;; pret (a * 256 + b).
Definition rd_i16 : parser Z := v <- rd_u16 ;; pret (sgn 65536 v).
Definition rd_w32 : parser Z := a <- rd_u16 ;; b <- rd_u16 ;; pret (a * 65536 + b).
Definition rd_i32 : parser Z := v <- rd_w32 ;; pret (sgn 4294967296 v).

Definition rd_take (n : nat) : parser bytes :=
  fun bs => if Nat.leb n (List.length bs) then Ok (firstn n bs, skipn n bs) else Err Truncated.
Definition rd_pstr : parser bytes := n <- rd_u8 ;; rd_take (Z.to_nat n).

(* n items; fuel bounds the recursion (every item consumes at least one byte, callers pass
   S (length of the remaining input)) *)
Fixpoint rep {A} (fuel : nat) (rd : parser A) (n : Z) : parser (list A) :=
  fun bs =>
  if n <=? 0 then Ok ([], bs) else
  match fuel with
  | O => Err OutOfFuel
  | S f =>
    match rd bs with
    | Err e => Err e
    | Ok (a, r) =>
      match rep f rd (n - 1) r with
      | Err e => Err e
      | Ok (l, r') => Ok (a :: l, r')
      end
    end
  end.

(* int32 count followed by that many items *)
Definition rd_counted {A} (rd_count : parser Z) (rd : parser A) : parser (list A) :=
  fun bs => match rd_count bs with
            | Err e => Err e
            | Ok (n, r) => if n <? 0 then Err NegCount else rep (S (List.length r)) rd n r
            end.

Definition rd_inp : parser inp :=
  a <- rd_i32 ;; b <- rd_i32 ;;
  if a =? -1 then pret (IConst b) else if a <? 0 then pfail BadUgenIndex else pret (IOut a b).

(* the unit-spec, parameter-name and "core" readers are shared by the format parser (pascal
   strings read with rd_pstr) and by the mirror of the library's reader (read with lib_rd_pstr) *)
Section WithPstr.
Variable ps : parser bytes.

Definition rd_ugen_w : parser ugen :=
  cls <- ps ;; rate <- rd_i8 ;; ni <- rd_i32 ;; no <- rd_i32 ;; sp <- rd_i16 ;;
  if (ni <? 0) || (no <? 0) then pfail NegCount else
  fun bs =>
  match rep (S (List.length bs)) rd_inp ni bs with
  | Err e => Err e
  | Ok (ins, r) =>
    match rep (S (List.length r)) rd_i8 no r with
    | Err e => Err e
    | Ok (outs, r') => Ok (mkUgen cls rate ins outs sp, r')
    end
  end.

Definition rd_pname_w : parser (bytes * Z) := n <- ps ;; i <- rd_i32 ;; pret (n, i).

(* everything up to and including the units *)
Definition rd_core_w : parser (bytes * list Z * list Z * list (bytes * Z) * list ugen) :=
  name <- ps ;;
  consts <- rd_counted rd_i32 rd_w32 ;;
  ctl <- rd_counted rd_i32 rd_w32 ;;
  names <- rd_counted rd_i32 rd_pname_w ;;
  units <- rd_counted rd_i32 rd_ugen_w ;;
  pret (name, consts, ctl, names, units).
End WithPstr.

Definition rd_ugen : parser ugen := rd_ugen_w rd_pstr.
Definition rd_pname : parser (bytes * Z) := rd_pname_w rd_pstr.
Definition rd_core := rd_core_w rd_pstr.

Definition rd_variant (nctl : Z) : parser variant :=
  n <- rd_pstr ;; fun bs =>
  match rep (S (List.length bs)) rd_w32 nctl bs with
  | Err e => Err e
  | Ok (vals, r) => Ok (mkVariant n vals, r)
  end.

Definition rd_magic : parser unit :=
  m <- rd_take 4 ;; if bytes_eqb m magic then pret tt else pfail BadMagic.

Definition rd_header : parser unit :=
  _ <- rd_magic ;; v <- rd_i32 ;; if negb (v =? 2) then pfail BadVersion else
  n <- rd_i16 ;; if negb (n =? 1) then pfail BadDefCount else pret tt.

Definition rd_body : parser sdef :=
  c <- rd_core ;;
  let '(name, consts, ctl, names, units) := c in
  vars <- rd_counted rd_i16 (rd_variant (zlen ctl)) ;;
  pret (mkSdef name consts ctl names units vars).

Definition parse_def (bs : bytes) : res sdef :=
  if negb (forallb byte_ok bs) then Err NotBytes else
  match (_ <- rd_header ;; rd_body) bs with
  | Err e => Err e
  | Ok (d, []) => Ok d
  | Ok (_, _ :: _) => Err Trailing
  end.

(* ------------------------------------------------------------------ *)
(* well-formedness of a definition                                    *)

(* a rate number is an index into SynthDesc._RATE_NAME (regenerated) *)
Definition rate_ok (r : Z) : bool := (0 <=? r) && (r <? zlen gen_rate_names).

Definition nth_z {A} (l : list A) (i : Z) : option A :=
  if i <? 0 then None else nth_error l (Z.to_nat i).

(* units: earlier units' output counts, in order (outs_before !! j = number of outputs of unit j) *)
Definition inp_wf (nconsts : Z) (outs_before : list Z) (i : inp) : bool :=
  match i with
  | IConst k => (0 <=? k) && (k <? nconsts)
  | IOut u c => match nth_z outs_before u with
                | Some no => (0 <=? c) && (c <? no)
                | None => false
                end
  end.

Definition ctl_classes : list bytes := List.map bs_of_string gen_control_classes.
Definition is_ctl_cls (c : bytes) : bool := existsb (bytes_eqb c) ctl_classes.

Definition ugen_wf (nconsts nctl : Z) (outs_before : list Z) (u : ugen) : bool :=
  negb (bytes_eqb (u_cls u) []) && rate_ok (u_rate u) && forallb rate_ok (u_outs u)
  && forallb (inp_wf nconsts outs_before) (u_ins u)
  && (if is_ctl_cls (u_cls u)
      then (0 <=? u_special u) && (u_special u + zlen (u_outs u) <=? nctl)
      else true).

Fixpoint units_wf (nconsts nctl : Z) (outs_before : list Z) (us : list ugen) : bool :=
  match us with
  | [] => true
  | u :: r => ugen_wf nconsts nctl outs_before u
              && units_wf nconsts nctl (outs_before ++ [zlen (u_outs u)]) r
  end.

Definition pname_wf (nctl : Z) (p : bytes * Z) : bool :=
  negb (bytes_eqb (fst p) []) && (0 <=? snd p) && (snd p <? nctl).

Definition wf_def (d : sdef) : bool :=
  def_ok d
  && forallb (pname_wf (zlen (d_ctl d))) (d_names d)
  && units_wf (zlen (d_consts d)) (zlen (d_ctl d)) [] (d_units d).

(* units with ordering side effects: emitted order as (creation index, is width-first);
   every width-first unit precedes every unit created after it *)
Fixpoint wfirst_ok (order : list (Z * bool)) : bool :=
  match order with
  | [] => true
  | (c, w) :: r =>
    (* no later-emitted width-first unit was created before this one *)
    forallb (fun p => negb (snd p && (fst p <? c))) r && wfirst_ok r
  end.

(* ------------------------------------------------------------------ *)
(* the library's own description reader (SynthDesc.new_from -> _read_synthdef2)               *)

Record ctl := mkCtl {
  c_name : option bytes;     (* None = '?' *)
  c_rate : Z;                (* 0..3 = _RATE_NAME index ; -1 = '?' *)
  c_defs : list Z            (* default value word(s); a named head collects the '?' slots after it *)
}.

Inductive startch :=
| SQ                          (* '?'  (an unnamed control slot) *)
| SConst (w : Z)              (* a constant *)
| SName (n : bytes)           (* name of the control it reads *)
| SUgen (u c : Z).            (* some other unit's output *)

Record iodesc := mkIo { io_rate : Z; io_nchan : Z; io_start : startch; io_cls : bytes }.

Record desc := mkDesc {
  ds_name : bytes;
  ds_cnames : list bytes;
  ds_ctls : list ctl;
  ds_gate : bool;
  ds_hasvar : bool;
  ds_ins : list iodesc;
  ds_outs : list iodesc
}.

Definition in_classes : list bytes := List.map bs_of_string gen_in_classes.
(* AbstractOut classes with _num_fixed_args() *)
Definition out_classes : list (bytes * Z) :=
  List.map (fun p => (bs_of_string (fst p), snd p)) gen_out_classes.
(* isinstance(b.source_ugen, iou.Control): Control and its subclasses -- not AudioControl *)
Definition control_sub_classes : list bytes := List.map bs_of_string gen_controlname_classes.

Fixpoint assoc_b {B} (l : list (bytes * B)) (k : bytes) : option B :=
  match l with
  | [] => None
  | (k', v) :: r => if bytes_eqb k k' then Some v else assoc_b r k
  end.

Definition upd {A} (l : list A) (i : Z) (f : A -> A) : option (list A) :=
  if (0 <=? i) && (i <? zlen l)
  then match nth_error l (Z.to_nat i) with
       | Some x => Some (firstn (Z.to_nat i) l ++ f x :: skipn (S (Z.to_nat i)) l)
       | None => None
       end
  else None.

(* self.controls[control_index].name = control_name *)
Fixpoint assign_names (cs : list ctl) (names : list (bytes * Z)) : option (list ctl) :=
  match names with
  | [] => Some cs
  | (n, i) :: r =>
    match upd cs i (fun c => mkCtl (Some n) (c_rate c) (c_defs c)) with
    | Some cs' => assign_names cs' r
    | None => None
    end
  end.

(* for i in range(num_outputs): self.controls[i + special_index].rate = rate *)
Fixpoint set_rates (cs : list ctl) (from : Z) (n : nat) (rate : Z) : option (list ctl) :=
  match n with
  | O => Some cs
  | S n' =>
    match upd cs from (fun c => mkCtl (c_name c) rate (c_defs c)) with
    | Some cs' => set_rates cs' (from + 1) n' rate
    | None => None
    end
  end.

(* a float32 word whose value is 0.0 or -0.0 (Python: `b or '?'`) *)
Definition word_is_zero (w : Z) : bool := (w =? 0) || (w =? 2147483648).

(* add_iodesc: b = ugen.inputs[0] ... *)
Definition start_of (consts : list Z) (cs : list ctl) (before : list ugen) (i : inp) : option startch :=
  match i with
  | IConst k =>
    match nth_z consts k with
    | Some w => Some (SConst w)      (* REPAIRED: `starting_channel or '?'` turned bus 0 into '?' *)
    | None => None
    end
  | IOut u c =>
    match nth_z before u with
    | None => None
    | Some src =>
      if existsb (bytes_eqb (u_cls src)) control_sub_classes
      then match nth_z cs (c + u_special src) with
           | Some ct => Some (match c_name ct with Some n => SName n | None => SQ end)
           | None => Some (SUgen u c)
           end
      else Some (SUgen u c)
    end
  end.

Definition inputs_resolve (nconsts : Z) (npos : Z) (ins : list inp) : bool :=
  forallb (fun i => match i with
                    | IConst k => (0 <=? k) && (k <? nconsts)
                    | IOut u _ => (0 <=? u) && (u <? npos)
                    end) ins.

(* UnaryOpUGen._new_from_desc / BinaryOpUGen._new_from_desc: the operator name is looked up by the
   special index in the unary / binary operator table (_si.sc_opname_from_index; a Python list index:
   IndexError outside -len..len-1, negative indices count from the end).  Every other class keeps
   SynthObject._new_from_desc / MultiOutUGen._new_from_desc, which do not use the special index. *)
Definition unop_cls : bytes := bs_of_string "UnaryOpUGen".
Definition binop_cls : bytes := bs_of_string "BinaryOpUGen".
Definition table_name (tab : list (list string)) (i : Z) : option bytes :=
  let n := zlen tab in
  let j := if i <? 0 then i + n else i in
  if (j <? 0) || (n <=? j) then None
  else match nth_error tab (Z.to_nat j) with
       | Some (nm :: _) => Some (bs_of_string nm)
       | _ => None                       (* an empty row: item[0] raises *)
       end.
(* Some None: not an operator unit; Some (Some name): the recovered operator; None: the reader raises *)
Definition unit_operator (u : ugen) : option (option bytes) :=
  if bytes_eqb (u_cls u) unop_cls then
    match table_name Gen_opcodes.unops_list (u_special u) with Some n => Some (Some n) | None => None end
  else if bytes_eqb (u_cls u) binop_cls then
    match table_name Gen_opcodes.binops_list (u_special u) with Some n => Some (Some n) | None => None end
  else Some None.
Fixpoint unit_operators (us : list ugen) : option (list (option bytes)) :=
  match us with
  | [] => Some []
  | u :: r => match unit_operator u, unit_operators r with
              | Some o, Some os => Some (o :: os)
              | _, _ => None
              end
  end.

(* one pass over the unit specs, state = (controls, inputs, outputs, units read so far) *)
Fixpoint read_units (consts : list Z) (cs : list ctl) (ins outs : list iodesc) (before us : list ugen)
  : option (list ctl * list iodesc * list iodesc) :=
  match us with
  | [] => Some (cs, ins, outs)
  | u :: r =>
    if negb (rate_ok (u_rate u)) then None else
    if negb (inputs_resolve (zlen consts) (zlen before) (u_ins u)) then None else
    if match unit_operator u with Some _ => false | None => true end then None else
    if is_ctl_cls (u_cls u) then
      match set_rates cs (u_special u) (List.length (u_outs u)) (u_rate u) with
      | Some cs' => read_units consts cs' ins outs (before ++ [u]) r
      | None => None
      end
    else if existsb (bytes_eqb (u_cls u)) in_classes then
      match u_ins u with
      | [] => None
      | i0 :: _ =>
        match start_of consts cs before i0 with
        | Some s => read_units consts cs (ins ++ [mkIo (u_rate u) (zlen (u_outs u)) s (u_cls u)]) outs (before ++ [u]) r
        | None => None
        end
      end
    else match assoc_b out_classes (u_cls u) with
      | Some fixed =>
        match u_ins u with
        | [] => None
        | i0 :: _ =>
          match start_of consts cs before i0 with
          | Some s => read_units consts cs ins (outs ++ [mkIo (u_rate u) (zlen (u_ins u) - fixed) s (u_cls u)]) (before ++ [u]) r
          | None => None
          end
        end
      | None => read_units consts cs ins outs (before ++ [u]) r
      end
  end.

(* "Append all default values of each multichannel control to the first ControlName default value":
   processed right to left, a '?' slot hands its words to the nearest named slot on its left
   (the '?' entries themselves stay in the list with their own value) *)
Fixpoint merge_defaults (cs : list ctl) : list ctl * list Z :=
  match cs with
  | [] => ([], [])
  | c :: r =>
    let '(r', pending) := merge_defaults r in
    match c_name c with
    | Some _ => (mkCtl (c_name c) (c_rate c) (c_defs c ++ pending) :: r', [])
    | None => (c :: r', c_defs c ++ pending)
    end
  end.

Fixpoint has_dup (l : list bytes) : bool :=
  match l with
  | [] => false
  | x :: r => existsb (bytes_eqb x) r || has_dup r
  end.
Fixpoint named (cs : list ctl) : list bytes :=
  match cs with
  | [] => []
  | c :: r => match c_name c with Some n => n :: named r | None => named r end
  end.

Definition gate_name : bytes := bs_of_string "gate".
Definition qmark : bytes := bs_of_string "?".

Definition desc_of (name : bytes) (consts ctlw : list Z) (names : list (bytes * Z)) (units : list ugen)
           (nvariants : Z) : option desc :=
  let cs0 := List.map (fun w => mkCtl None (-1) [w]) ctlw in
  match assign_names cs0 names with
  | None => None
  | Some cs1 =>
    match read_units consts cs1 [] [] [] units with
    | None => None
    | Some (cs2, ins, outs) =>
      match cs2 with
      | c :: _ => match c_name c with None => None | Some _ =>     (* aux_ctrl is None: AttributeError *)
          let cs3 := fst (merge_defaults cs2) in
          let nm := named cs3 in
          (* a control literally named '?' is indistinguishable from an unnamed slot *)
          if existsb (bytes_eqb qmark) nm then None else
          if has_dup nm then None else                                (* SynthDescError: duplicated *)
          if 255 <? zlen nm + (if forallb (fun c => match c_name c with Some _ => true | None => false end) cs3 then 0 else 1)
          then None else                                              (* more than 255 control names *)
          Some (mkDesc name (List.map fst names) cs3 (existsb (bytes_eqb gate_name) nm)
                       (0 <? nvariants) ins outs)
          end
      | [] =>
          Some (mkDesc name (List.map fst names) [] false (0 <? nvariants) ins outs)
      end
    end
  end.

(* sc3/synth/_fmtrw.py, the read side, exactly:
     read_i8   struct.unpack('b',  stream.read(1))   signed;   struct.error when the stream is short
     read_i16  struct.unpack('>h', stream.read(2))   signed
     read_i32  struct.unpack('>i', stream.read(4))   signed
     read_f32_list / read_i32_list / read_i8_list: one unpack of exactly n items (error when short)
   = rd_i8 / rd_i16 / rd_i32 / rep n rd_w32 ... (Err Truncated = struct.error).
     read_pascal_str: the length byte is read UNSIGNED ('B'); stream.read(str_len) may return FEWER
     bytes at the end of the stream without any error; str(.., 'ascii') raises on a byte >= 128. *)
Definition lib_rd_pstr : parser bytes :=
  n <- rd_u8 ;; fun bs =>
  let s := firstn (Z.to_nat n) bs in
  if forallb ascii_ok s then Ok (s, skipn (Z.to_nat n) bs) else Err NotAscii.

(* SynthDesc.def_name_from_bytes: 4 bytes skipped, version and count read and ignored *)
Definition def_name_of (bs : bytes) : option bytes :=
  if negb (forallb byte_ok bs) then None else
  match (_ <- (fun b : bytes => Ok (tt, skipn 4 b)) ;; _ <- rd_i32 ;; _ <- rd_i16 ;; lib_rd_pstr) bs with
  | Ok (n, _) => Some n
  | Err _ => None
  end.

(* SynthDesc.new_from on the bytes: 4 bytes skipped (stream.read(4), result unused), version (>= 2),
   def count (unused), then _read_synthdef2, which stops after the variant count *)
Definition read_desc (bs : bytes) : option desc :=
  if negb (forallb byte_ok bs) then None else
  match (_ <- (fun b : bytes => Ok (tt, skipn 4 b)) ;; v <- rd_i32 ;; _ <- rd_i16 ;;
         if v <? 2 then pfail BadVersion else
         c <- rd_core_w lib_rd_pstr ;; nv <- rd_i16 ;; pret (c, nv)) bs with
  | Err _ => None
  | Ok ((name, consts, ctlw, names, units, nv), _) => desc_of name consts ctlw names units nv
  end.

Definition desc_of_def (d : sdef) : option desc :=
  desc_of (d_name d) (d_consts d) (d_ctl d) (d_names d) (d_units d) (zlen (d_variants d)).

(* boolean equality of descriptions, for the correspondence *)
Definition opt_eqb {A} (eqb : A -> A -> bool) (a b : option A) : bool :=
  match a, b with Some x, Some y => eqb x y | None, None => true | _, _ => false end.
Definition ctl_eqb (a b : ctl) : bool :=
  opt_eqb bytes_eqb (c_name a) (c_name b) && (c_rate a =? c_rate b) && list_eqb Z.eqb (c_defs a) (c_defs b).
Definition startch_eqb (a b : startch) : bool :=
  match a, b with
  | SQ, SQ => true
  | SConst w, SConst w' => w =? w'
  | SName n, SName n' => bytes_eqb n n'
  | SUgen u c, SUgen u' c' => (u =? u') && (c =? c')
  | _, _ => false
  end.
Definition iodesc_eqb (a b : iodesc) : bool :=
  (io_rate a =? io_rate b) && (io_nchan a =? io_nchan b) && startch_eqb (io_start a) (io_start b)
  && bytes_eqb (io_cls a) (io_cls b).
Definition desc_eqb (a b : desc) : bool :=
  bytes_eqb (ds_name a) (ds_name b) && list_eqb bytes_eqb (ds_cnames a) (ds_cnames b)
  && list_eqb ctl_eqb (ds_ctls a) (ds_ctls b) && Bool.eqb (ds_gate a) (ds_gate b)
  && Bool.eqb (ds_hasvar a) (ds_hasvar b) && list_eqb iodesc_eqb (ds_ins a) (ds_ins b)
  && list_eqb iodesc_eqb (ds_outs a) (ds_outs b).

(* ------------------------------------------------------------------ *)
(* correspondence glue (evaluated by vm_compute on every real emitted definition)            *)

(* 0 = everything agrees; otherwise the first stage that fails *)
(* what the SynthDef object itself declares for a parameter: name, first slot, rate, default words *)
Definition declared_ok (ds : option desc) (decl : list (bytes * Z * Z * list Z)) : bool :=
  match ds with
  | None => true       (* the reader rejected the bytes: compared with the library at stage 5 *)
  | Some d =>
    forallb (fun p => let '(n, i, r, ws) := p in
                      match nth_z (ds_ctls d) i with
                      | Some c => opt_eqb bytes_eqb (c_name c) (Some n) && (c_rate c =? r)
                                  && list_eqb Z.eqb (c_defs c) ws
                      | None => false
                      end) decl
    && Bool.eqb (ds_gate d) (existsb (fun p => let '(n, _, _, _) := p in bytes_eqb n gate_name) decl)
    (* the name table lists the parameters in declaration order *)
    && list_eqb bytes_eqb (ds_cnames d) (List.map (fun p => let '(n, _, _, _) := p in n) decl)
  end.

Definition check_case (bs : bytes) (order : list (Z * bool)) (libdesc : option desc)
           (names3 : list (bytes * Z * Z)) (vsrc : list (bytes * list (bytes * list Z)))
           (decl : list (bytes * Z * Z * list Z)) (libname : option bytes)
           (wantname : bytes) (truth : list ugen) (truthk : list Z)
           (libops : option (list (option bytes))) : Z :=
  match parse_def bs with
  | Err _ => 1                                                     (* real bytes do not parse *)
  | Ok d =>
    if negb (wf_def d) then 2 else                                 (* not well-formed / not topologically ordered *)
    if negb (opt_eqb bytes_eqb (write_def d) (Some bs)) then 3 else (* model writer does not reproduce the bytes *)
    if negb (Nat.eqb (List.length order) (List.length (d_units d)) && wfirst_ok order) then 4 else
    if negb (opt_eqb desc_eqb (read_desc bs) libdesc) then 5 else  (* library reader <> read_desc *)
    if negb (declared_ok (read_desc bs) decl) then 7 else          (* recovered controls <> declared parameters *)
    if negb (opt_eqb bytes_eqb (def_name_of bs) libname) then 8 else (* def_name_from_bytes <> def_name_of *)
    (* the parsed fields against the live objects: unit (class, rate number, inputs, outputs, special index)
       in order, constant table, definition name *)
    if negb (list_eqb ugen_eqb (d_units d) truth && list_eqb Z.eqb (d_consts d) truthk) then 9 else
    if negb (bytes_eqb (d_name d) wantname) then 10 else
    (* the operator every Unary/BinaryOpUGen is rebuilt with by the library reader *)
    if negb (opt_eqb (list_eqb (opt_eqb bytes_eqb)) (unit_operators (d_units d)) libops) then 11 else
    if list_eqb variant_eqb (resolve_variants (d_name d) (d_ctl d) names3 vsrc) (d_variants d) then 0 else 6
  end.

(* definitions with tens of thousands of control slots: the description stages (quadratic list updates
   in the mirror) are left out, everything about the bytes themselves is kept *)
Definition check_case_light (bs : bytes) (order : list (Z * bool)) (libdesc : option desc)
           (names3 : list (bytes * Z * Z)) (vsrc : list (bytes * list (bytes * list Z)))
           (decl : list (bytes * Z * Z * list Z)) (libname : option bytes)
           (wantname : bytes) (truth : list ugen) (truthk : list Z)
           (libops : option (list (option bytes))) : Z :=
  match parse_def bs with
  | Err _ => 1
  | Ok d =>
    if negb (wf_def d) then 2 else
    if negb (opt_eqb bytes_eqb (write_def d) (Some bs)) then 3 else
    if negb (Nat.eqb (List.length order) (List.length (d_units d)) && wfirst_ok order) then 4 else
    if negb (opt_eqb bytes_eqb (def_name_of bs) libname) then 8 else
    if negb (list_eqb ugen_eqb (d_units d) truth && list_eqb Z.eqb (d_consts d) truthk) then 9 else
    if negb (bytes_eqb (d_name d) wantname) then 10 else
    if negb (opt_eqb (list_eqb (opt_eqb bytes_eqb)) (unit_operators (d_units d)) libops) then 11 else
    if negb (list_eqb pname_eqb (d_names d) (List.map (fun p => let '(n, i, _, _) := p in (n, i)) decl)) then 7 else 0
  end.

(* the bytes (or the exception = None) the writer must produce for the graph whose neutral build
   ('n', no variants) gave [base], under its real name and variants *)
Definition expect_bytes (base : bytes) (name : bytes) (names3 : list (bytes * Z * Z))
           (vsrc : list (bytes * list (bytes * list Z))) : option bytes :=
  match parse_def base with
  | Err _ => Some []                                               (* never equal to real bytes *)
  | Ok d =>
    write_def (mkSdef name (d_consts d) (d_ctl d) (d_names d) (d_units d)
                      (resolve_variants name (d_ctl d) names3 vsrc))
  end.
Definition check_expect (base name : bytes) names3 vsrc (impl : option bytes) : bool :=
  opt_eqb bytes_eqb (expect_bytes base name names3 vsrc) impl.

(* hand-made bytes through all three readers: 0 = agree.  od = the structure the bytes were made from
   (None: the bytes are damaged, the parser must refuse them) *)
Definition synth_check (bs : bytes) (od : option sdef) (libdesc : option desc) (libname : option bytes)
           (libops : option (list (option bytes))) : Z :=
  let parse_ok := match parse_def bs, od with
                  | Ok d, Some d' => sdef_eqb d d'
                  | Err _, None => true
                  | _, _ => false
                  end in
  if negb parse_ok then 1 else
  if negb (match od with Some d => opt_eqb bytes_eqb (write_def d) (Some bs) | None => true end) then 3 else
  if negb (opt_eqb desc_eqb (read_desc bs) libdesc) then 5 else
  if negb (opt_eqb bytes_eqb (def_name_of bs) libname) then 8 else
  if negb (match od, libdesc with
           | Some d, Some _ => opt_eqb (list_eqb (opt_eqb bytes_eqb)) (unit_operators (d_units d)) libops
           | _, _ => true end) then 11 else 0.
