(* KCmp -- boolean comparisons used by the correspondence of C05 / C07 (model result versus the
   canonicalised observations of the real library).  Definitions only. *)
From Coq Require Import ZArith QArith List Bool.
Require Import SC3.model.KProg SC3.model.KNrt SC3.model.KRt.
Import ListNotations.

Section ListEq.
  Context {A : Type} (f : A -> A -> bool).
  Fixpoint list_eqb (a b : list A) : bool :=
    match a, b with
    | [], [] => true
    | x :: r, y :: s => f x y && list_eqb r s
    | _, _ => false
    end.
End ListEq.

Definition oQ_eqb (a b : option Q) : bool :=
  match a, b with None, None => true | Some x, Some y => Qeq_bool x y | _, _ => false end.
Definition org_eqb (a b : option (nat * nat)) : bool :=
  match a, b with
  | None, None => true
  | Some (x, y), Some (u, v) => Nat.eqb x u && Nat.eqb y v
  | _, _ => false
  end.

Fixpoint elem_eqb (a b : elem) {struct a} : bool :=
  match a, b with
  | EMsg m, EMsg n => Z.eqb m n
  | EBundle l es, EBundle l' es' => oQ_eqb l l' && list_eqb elem_eqb es es'
  | _, _ => false
  end.
Fixpoint selem_eqb (a b : selem) {struct a} : bool :=
  match a, b with
  | SMsg m, SMsg n => Z.eqb m n
  | SBundle i t g es, SBundle i' t' g' es' =>
      Bool.eqb i i' && (i || Qeq_bool t t') && Z.eqb g g' && list_eqb selem_eqb es es'
  | _, _ => false
  end.
Definition oselem_eqb (a b : option selem) : bool :=
  match a, b with None, None => true | Some x, Some y => selem_eqb x y | _, _ => false end.

Definition event_eqb (a b : event) : bool :=
  match a, b with
  | EvResume r k c s bt, EvResume r' k' c' s' bt' =>
      Nat.eqb r r' && Nat.eqb k k' && clock_eqb c c' && Qeq_bool s s' && Qeq_bool bt bt'
  | EvPlay o ch c s, EvPlay o' ch' c' s' => org_eqb o o' && Nat.eqb ch ch' && clock_eqb c c' && Qeq_bool s s'
  | EvSend o s l es r, EvSend o' s' l' es' r' =>
      org_eqb o o' && Qeq_bool s s' && oQ_eqb l l' && list_eqb elem_eqb es es' && oselem_eqb r r'
  | EvSendMsg o s m, EvSendMsg o' s' m' => org_eqb o o' && Qeq_bool s s' && Z.eqb m m'
  | EvTempo o i v ok, EvTempo o' i' v' ok' => org_eqb o o' && Nat.eqb i i' && Qeq_bool v v' && Bool.eqb ok ok'
  | EvEnd r k x, EvEnd r' k' x' => Nat.eqb r r' && Nat.eqb k k' && Bool.eqb x x'
  | _, _ => false
  end.

Definition score_eqb (a : list sentry) (b : list selem) : bool :=
  list_eqb selem_eqb (map s_b a) b.

(* what the harness hands over for one NRT case *)
Record nrt_obs := mkNObs { no_events : list event; no_score : list selem; no_elapsed : Q }.

(* 0 = agree; 1 = out of fuel; 2 = events differ; 3 = score differs; 4 = elapsed differs *)
Definition nrt_compare (qk : quirks) (p : prog) (fuel : nat) (o : nrt_obs) : nat :=
  if negb (nrt_completed qk p fuel) then 1%nat
  else let st := nrt_run qk p fuel in
       if negb (list_eqb event_eqb (rev (n_log st)) (no_events o)) then 2%nat
       else if negb (score_eqb (n_score st) (no_score o)) then 3%nat
       else if negb (Qeq_bool (n_mtime st) (no_elapsed o)) then 4%nat
       else 0%nat.
Definition nrt_agrees (qk : quirks) (p : prog) (fuel : nat) (o : nrt_obs) : bool :=
  Nat.eqb (nrt_compare qk p fuel o) 0.

(* RT: replay the recorded oracle (interleaving + clock readings).
   0 = agree; 1 = the recorded interleaving is not an execution of the model; 2 = events differ;
   3 = a task ran before its time *)
Definition rt_compare (off : Z) (p : prog) (sched : list choice) (events : list event) : nat :=
  let s := rt_run off p sched in
  if rs_bad s then 1%nat
  else if negb (list_eqb event_eqb (rev (n_log (rs s))) events) then 2%nat
  else if rs_early s then 3%nat
  else 0%nat.
