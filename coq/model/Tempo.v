(* C12 -- the hand-written part of the TempoClock model (executable definitions only).

   All arithmetic is REGENERATED (gen/Gen_tempo.v, from sc3/base/clock.py).  What is written by
   hand here, and tied to the code by the correspondence only:

   * Quant.as_quant         (type dispatch on the `quant` argument of play/time_to_next_beat)
   * where a task handed to sched_abs in NRT wakes up: ClockTask.__init__ stores
     clock.beats2secs(beat) in the ClockScheduler, ClockTask._wakeup sets the logical time to
     that value and the routine then reads clock.beats = secs2beats of it
   * histories: the four state-changing operations, folded over a list
   * one task pending in the scheduler while the clock changes (pend, retime, run_pend), and its
     re-scheduling when the woken routine yields a number (resched)
   * a small interpreter of "queries" (one constructor per public method) used by the
     correspondence to run recorded sessions against the regenerated definitions. *)
From Coq Require Import ZArith QArith List Bool.
Require Import SC3.lib.PyNum SC3.lib.TempoState SC3.gen.Gen_builtins SC3.gen.Gen_tempo.
Import ListNotations.

(* ---- Quant.as_quant ------------------------------------------------------------- *)
Inductive quantarg :=
| QNone                      (* None            -> Quant()                      *)
| QNum (q : num)             (* int | float, or a 1-element list/tuple -> Quant(q) *)
| QPair (q p : num).         (* Quant(q, p), or a 2-element list/tuple            *)

Definition as_quant (a : quantarg) : num * num :=
  match a with
  | QNone => (py_Quant_default_quant, py_Quant_default_phase)
  | QNum q => (q, py_Quant_default_phase)
  | QPair q p => (q, p)
  end.

(* ---- play: the beat handed to sched_abs, and where the task wakes up (NRT) -------- *)
Definition play_beat (s : clockstate) (now : num) (a : quantarg) : num :=
  py_play s now (fst (as_quant a)) (snd (as_quant a)).
Definition ttnb (s : clockstate) (now : num) (a : quantarg) : num :=
  py_time_to_next_beat s now (fst (as_quant a)) (snd (as_quant a)).
Definition wake_seconds (s : clockstate) (beat : num) : num := py_beats2secs s beat.
Definition wake_beat (s : clockstate) (beat : num) : num := py_secs2beats s (wake_seconds s beat).

(* ---- histories -------------------------------------------------------------------- *)
Inductive op :=
| OTempo (now v : num)       (* clock.tempo = v          at thread time now     *)
| OEtempo (elapsed v : num)  (* clock.etempo(v)          at elapsed time        *)
| OBeats (now v : num)       (* clock.beats = v                                 *)
| OMeter (now v : num).      (* clock.beats_per_bar = v                         *)

(* An error value stored into a field means that Python raised while evaluating that right-hand side.
   A change either happens completely or raises: `strict` turns "a field is an error" into "raised" (None),
   and a raising change leaves the clock as it was (checked against the real clock by the correspondence:
   ARaise below compares the state AFTER a raising call with the state before it). *)
Definition state_ok (s : clockstate) : bool :=
  is_ok (tempo s) && is_ok (beat_dur s) && is_ok (base_seconds s) && is_ok (base_beats s) &&
  is_ok (beats_per_bar s) && is_ok (bars_per_beat s) && is_ok (base_bar s) && is_ok (base_bar_beat s).
Definition strict (r : option clockstate) : option clockstate :=
  match r with Some s => if state_ok s then Some s else None | None => None end.

Definition step (s : clockstate) (o : op) : option clockstate :=
  strict (match o with
          | OTempo now v => py_tempo_set s now v
          | OEtempo e v => py_etempo s e v
          | OBeats now v => py_beats_set s now v
          | OMeter now v => py_beats_per_bar_set s now v
          end).

Fixpoint run (s : clockstate) (h : list op) : option clockstate :=
  match h with
  | [] => Some s
  | o :: r => match step s o with Some s' => run s' r | None => None end
  end.

(* ---- a task pending in the scheduler ----------------------------------------------------
   NRT: ClockTask keeps the beat it is due at (`beats`) and sits in the ClockScheduler queue under
   clock.beats2secs(beats); ClockScheduler.retime(clock), called by the NRT branch of the setters whose
   regenerated flag <setter>_retimes is true, files it again under the NEW clock.beats2secs(beats).
   RT: the clock's own queue is keyed by the beat; the logical time of the wake-up is
   beats2secs(beat) in the state of that moment, i.e. the same two numbers. *)
Record pend := mkPend { p_beats : num; p_secs : num }.
Definition sched_abs_nrt (s : clockstate) (beat : num) : pend := mkPend beat (py_beats2secs s beat).
Definition retime (s : clockstate) (p : pend) : pend := mkPend (p_beats p) (py_beats2secs s (p_beats p)).
Definition op_retimes (o : op) : bool :=
  match o with
  | OTempo _ _ => py_tempo_set_retimes | OEtempo _ _ => py_etempo_retimes
  | OBeats _ _ => py_beats_set_retimes | OMeter _ _ => py_beats_per_bar_set_retimes
  end.
Definition step_pend (s : clockstate) (o : op) (p : pend) : option (clockstate * pend) :=
  match step s o with
  | Some s' => Some (s', if op_retimes o then retime s' p else p)
  | None => None
  end.
Fixpoint run_pend (s : clockstate) (h : list op) (p : pend) : option (clockstate * pend) :=
  match h with
  | [] => Some (s, p)
  | o :: r => match step_pend s o p with Some (s', p') => run_pend s' r p' | None => None end
  end.
(* ClockTask._wakeup(time): the logical time becomes `time`; the routine reads clock.beats *)
Definition wake_beat_of (s : clockstate) (p : pend) : num := py_secs2beats s (p_secs p).
(* ... and when the routine then yields the number d the task is due d beats after the beat it woke at
   (`beats = secs2beats(time)` is taken BEFORE the routine runs, the new key with the map of AFTER it ran):
   self.beats = beats + delta; scheduler.add(clock.beats2secs(self.beats), self).
   RT: time = self._beats + delta; self._sched_add(time, task) -- the same numbers. *)
Definition resched (s : clockstate) (wb d : num) : pend := sched_abs_nrt s (nadd wb d).

(* ---- sessions for the correspondence --------------------------------------------- *)
Inductive query :=
| KTempo | KBeatDur | KBeatsPerBar | KBaseBar | KBaseBarBeat
| KBeats (now : num) | KSeconds (now : num) | KElapsedBeats (e : num)
| KB2S (b : num) | KS2B (x : num)
| KGrid (now q p : num) | KGridRef (q p r : num)
| KTtnb (now : num) (a : quantarg)
| KB2Bars (b : num) | KBars2B (b : num)
| KBar (now : num) | KNextBar (now : num) | KNextBarAt (b : num) | KBeatInBar (now : num)
| KSchedBeats (now d : num)
| KPlayBeat (now : num) (a : quantarg)        (* beat at which the played routine first runs *)
| KPlaySecs (now : num) (a : quantarg)        (* logical seconds at which it first runs      *)
| KPlayNextBar (now : num).

Definition eval (s : clockstate) (k : query) : num :=
  match k with
  | KTempo => py_tempo s | KBeatDur => py_beat_dur s | KBeatsPerBar => py_beats_per_bar s
  | KBaseBar => py_base_bar s | KBaseBarBeat => py_base_bar_beat s
  | KBeats now => py_beats s now | KSeconds now => py_seconds s now
  | KElapsedBeats e => py_elapsed_beats s e
  | KB2S b => py_beats2secs s b | KS2B x => py_secs2beats s x
  | KGrid now q p => py_next_time_on_grid s now q p
  | KGridRef q p r => py_next_time_on_grid_ref s q p r
  | KTtnb now a => ttnb s now a
  | KB2Bars b => py_beats2bars s b | KBars2B b => py_bars2beats s b
  | KBar now => py_bar s now | KNextBar now => py_next_bar s now
  | KNextBarAt b => py_next_bar_at s b | KBeatInBar now => py_beat_in_bar s now
  | KSchedBeats now d => py_calc_sched_beats s now d
  | KPlayBeat now a => wake_beat s (play_beat s now a)
  | KPlaySecs now a => wake_seconds s (play_beat s now a)
  | KPlayNextBar now => wake_beat s (py_play_next_bar s now)
  end.

Inductive action :=
| ASet (o : op) (expect : list (Z * Z * Z))   (* canonical state after the change *)
| ARaise (o : op) (after : list (Z * Z * Z))  (* the call raised; canonical state of the clock after it *)
| AAsk (k : query) (expect : Z * Z * Z)
| APlay (id : N) (now : num) (a : quantarg)   (* Routine(id).play(clock, a) / clock.play(.., a) *)
| APlayNextBar (id : N) (now : num)
| AWake (id : N) (eb es : Z * Z * Z)          (* routine id woke up: its clock's beats, seconds *)
| AYield (id : N) (d : num)                   (* the woken routine id yielded d: due d beats after its wake-up beat *)
| AAdopt (id : N) (b x : num)                 (* a routine observed running at beat b, second x (RT: played from the main thread) *)
| ANew (now t b : num) (xo : option num) (e0 : list (Z * Z * Z))   (* one more TempoClock(t, b, xo), appended *)
| AOn (c : nat) (a : action).                 (* the action is made on clock number c (default: clock 0) *)

(* the clock a routine was played on and its pending task *)
Definition entry : Type := N * (nat * pend).
Fixpoint find_pend (id : N) (l : list entry) : option (nat * pend) :=
  match l with
  | [] => None
  | (j, p) :: r => if N.eqb id j then Some p else find_pend id r
  end.
(* ClockScheduler.retime(clock): the tasks OF THAT CLOCK follow its new map; tasks of other clocks are not touched *)
Definition retime_on (c : nat) (s : clockstate) (l : list entry) : list entry :=
  map (fun e : entry => if Nat.eqb (fst (snd e)) c then (fst e, (c, retime s (snd (snd e)))) else e) l.
Fixpoint set_clock (n : nat) (s : clockstate) (l : list clockstate) : list clockstate :=
  match l, n with
  | [], _ => []
  | _ :: r, O => s :: r
  | x :: r, S m => x :: set_clock m s r
  end.

(* a clock is made by the constructor: TempoClock(tempo, beats, seconds) at thread time now *)
Definition construct (now t b : num) (xo : option num) : option clockstate :=
  match xo with
  | Some x => py_init clock_blank now t b x        (* TempoClock(t, b, x), x any number, 0 included *)
  | None => py_init_now clock_blank now t b        (* TempoClock(t, b): seconds is None *)
  end.

(* one observation on clock c; None = the model disagrees with it.
   rt = true: the session ran on real clock threads, whose queues are keyed by beats: a pending task always
   follows the current map of ITS clock, whatever the NRT branch of the setters does *)
Definition do_action (rt : bool) (cs : list clockstate) (pl : list entry) (c : nat) (a : action)
  : option (list clockstate * list entry) :=
  match a with
  | ANew now t b xo e0 =>
      match strict (construct now t b xo) with
      | Some s => if canon_list_eqb (canon_state s) e0 then Some (cs ++ [s], pl) else None
      | None => None
      end
  | AOn _ _ => None
  | AAdopt id b x => Some (cs, (id, (c, mkPend b x)) :: pl)
  | AWake id eb es =>
      match find_pend id pl with
      | Some (k, p) =>
          match nth_error cs k with
          | Some s => if canon_eqb (canon (wake_beat_of s p)) eb && canon_eqb (canon (p_secs p)) es
                      then Some (cs, (id, (k, mkPend (wake_beat_of s p) (p_secs p))) :: pl) else None
          | None => None
          end
      | None => None
      end
  | AYield id d =>
      match find_pend id pl with
      | Some (k, p) => match nth_error cs k with
                       | Some s => Some (cs, (id, (k, resched s (p_beats p) d)) :: pl)
                       | None => None
                       end
      | None => None
      end
  | _ =>
      match nth_error cs c with
      | None => None
      | Some s =>
          match a with
          | ASet o e =>
              match step s o with
              | Some s' => if canon_list_eqb (canon_state s') e
                           then Some (set_clock c s' cs, if rt || op_retimes o then retime_on c s' pl else pl) else None
              | None => None
              end
          | ARaise o e =>
              match step s o with
              | Some _ => None
              | None => if canon_list_eqb (canon_state s) e then Some (cs, pl) else None
              end
          | AAsk k e => if canon_eqb (canon (eval s k)) e then Some (cs, pl) else None
          | APlay id now q => Some (cs, (id, (c, sched_abs_nrt s (play_beat s now q))) :: pl)
          | APlayNextBar id now => Some (cs, (id, (c, sched_abs_nrt s (py_play_next_bar s now))) :: pl)
          | _ => None
          end
      end
  end.

(* None iff every recorded observation equals what the model computes, else the index of the
   first one that does not (0 = the constructor, i+1 = action i); a raising change leaves the clock as it was *)
Fixpoint replay_bad (rt : bool) (cs : list clockstate) (pl : list entry) (l : list action) (i : N) : option N :=
  match l with
  | [] => None
  | a :: r =>
      match (match a with AOn c a' => do_action rt cs pl c a' | _ => do_action rt cs pl 0 a end) with
      | Some (cs', pl') => replay_bad rt cs' pl' r (N.succ i)
      | None => Some i
      end
  end.

(* a session starts with the constructor of clock 0 *)
Definition session_bad (rt : bool) (now t b : num) (xo : option num) (e0 : list (Z * Z * Z)) (l : list action) : option N :=
  match strict (construct now t b xo) with
  | Some s => if canon_list_eqb (canon_state s) e0 then replay_bad rt [s] [] l 1%N else Some 0%N
  | None => match e0 with [] => None | _ => Some 0%N end
  end.
Definition session_ok (rt : bool) (now t b : num) (xo : option num) (e0 : list (Z * Z * Z)) (l : list action) : bool :=
  match session_bad rt now t b xo e0 l with None => true | Some _ => false end.
