(* BuildCtx.v -- the build context of sc3: main._current_synthdef and main._def_build_lock
   (sc3/base/main.py:59-60, SynthDef._build synthdef.py:150-161, SynthObject._add_to_synth
   ugen.py:315-318).  Definitions only.

   SynthDef._build:
       with main._def_build_lock:                # threading.Lock, non re-entrant
           try:
               main._current_synthdef = self
               ... graph function, _finish_build ...
               main._current_synthdef = None
           except Exception:                     # before the fix of F23 (bfin = false)
               main._current_synthdef = None
               raise
   and, in the fixed code (bfin = true, regenerated flag gen/Gen_opcodes.build_finally),
           try: ... finally: main._current_synthdef = None
   A unit generator created anywhere reads main._current_synthdef and, when it is not None,
   appends itself to that definition (_add_ugen).

   Events of one thread of control (concurrent builds are serialised by the lock, so any
   concurrent execution is equivalent to one such sequence; see notes/C20.md):
     EBuild id toks o : SynthDef(...) whose graph function creates the units `toks`, ending
                        with outcome o
     EOutside tok     : a unit generator created outside any build. *)
From Coq Require Import List Arith Bool.
Import ListNotations.

Inductive outcome :=
| Succeeds
| RaisesException      (* graph function, input check, ... raise an Exception subclass *)
| RaisesBase.          (* a BaseException that is not an Exception (KeyboardInterrupt, ...) *)

Inductive event :=
| EBuild (id : nat) (toks : list nat) (o : outcome)
| ERead (id : nat) (toks : list nat) (o : outcome)   (* SynthDesc._read_synthdef2: rebuilds the units of a
                                                        definition inside a dummy SynthDef `id` *)
| EOutside (tok : nat).

Record ctx := mkCtx {
  cur : option nat;                   (* main._current_synthdef (definition id) *)
  locked : bool;                      (* main._def_build_lock held *)
  defs : list (nat * list nat)        (* definition id -> units attached to it (_children) *)
}.
Definition ctx0 : ctx := mkCtx None false [].

Fixpoint attach (d tok : nat) (l : list (nat * list nat)) : list (nat * list nat) :=
  match l with
  | [] => [(d, [tok])]
  | (k, v) :: t => if Nat.eqb k d then (k, v ++ [tok]) :: t else (k, v) :: attach d tok t
  end.
Fixpoint content (d : nat) (l : list (nat * list nat)) : list nat :=
  match l with
  | [] => []
  | (k, v) :: t => if Nat.eqb k d then v else content d t
  end.

(* SynthObject._add_to_synth *)
Definition add_to_synth (c : ctx) (tok : nat) : ctx :=
  match cur c with
  | Some d => mkCtx (cur c) (locked c) (attach d tok (defs c))
  | None => c
  end.

(* what an observer sees of one event *)
Inductive obs :=
| OBuilt (id : nat) (o : outcome)
| OReadDesc (id : nat) (o : outcome)
| OBlocked (id : nat)                       (* the lock was held: the build never starts *)
| OOutside (tok : nat) (belongs : option nat).   (* ugen._synthdef *)

(* `rfin` = SynthDesc._read_synthdef2 resets the context in a `finally:` clause (regenerated from the
   source, gen/Gen_opcodes.desc_read_finally); otherwise it is modelled like SynthDef._build as first written.
   `bfin` = SynthDef._build resets the context whatever is raised (`finally:` or `except BaseException:`,
   regenerated: gen/Gen_opcodes.build_finally); otherwise only `except Exception:` does. *)
Definition step (bfin rfin : bool) (c : ctx) (e : event) : ctx * obs :=
  match e with
  | EOutside tok => (add_to_synth c tok, OOutside tok (cur c))
  | ERead id toks o =>
      if locked c then (c, OBlocked id)
      else
        let c1 := mkCtx (Some id) true (defs c) in
        let c2 := fold_left add_to_synth toks c1 in
        let cur' := if rfin then None
                    else match o with Succeeds => None | RaisesException => None | RaisesBase => cur c2 end in
        (mkCtx cur' false (defs c2), OReadDesc id o)
  | EBuild id toks o =>
      if locked c then (c, OBlocked id)
      else
        let c1 := mkCtx (Some id) true (defs c) in                     (* acquire; _current_synthdef = self *)
        let c2 := fold_left add_to_synth toks c1 in                    (* the graph function runs *)
        let cur' := if bfin then None else
                    match o with
                    | Succeeds => None
                    | RaisesException => None                          (* except Exception: ... = None *)
                    | RaisesBase => cur c2                             (* not caught *)
                    end in
        (mkCtx cur' false (defs c2), OBuilt id o)                      (* `with` releases the lock *)
  end.

Fixpoint run (bfin rfin : bool) (c : ctx) (evs : list event) : ctx * list obs :=
  match evs with
  | [] => (c, [])
  | e :: t => let '(c1, o) := step bfin rfin c e in let '(c2, os) := run bfin rfin c1 t in (c2, o :: os)
  end.

Definition no_base (e : event) : bool :=
  match e with EBuild _ _ RaisesBase => false | _ => true end.
Definition build_ids (evs : list event) : list nat :=
  flat_map (fun e => match e with EBuild id _ _ => [id] | ERead id _ _ => [id] | _ => [] end) evs.
Definition ev_toks (e : event) : option (nat * list nat) :=
  match e with EBuild id toks _ => Some (id, toks) | ERead id toks _ => Some (id, toks) | EOutside _ => None end.
